"""X08 - the global execution context: spec/Context.tla (+ MC_Context.tla, Context.cfg).

Context.tla is coba/context/core.py CobaContext_meta as a state machine (the `.coba` files of the search paths, search_paths, the
lazily built configuration, the slots api_keys / cacher / logger / experiment, store, learning_info), its journey into worker
processes (coba/multiprocessing.py ProcessFilter) and into experiments (Experiment.config / .run).  TLC enumerates every history of
each configuration's alphabet up to the bound, checks the design facts in every state (precedence per key, laziness / one load,
slot independence, failures reported until repaired, programmatic sets win, paths resolved, workers see the parent's context,
the parent is unchanged, explicit argument > config() > context) and prints each history with, after EVERY step, the value the
call returns, the files the step looks into and what a read of every slot would return.  Eight broken designs must be rejected.

The driver replays every history on the REAL CobaContext with temp directories as search paths (all eight class attributes saved
and restored around each case, coba.context.core.coba_exit and .Path substituted to observe exits and file reads) and compares
after every step: the returned value, the files read, whether the configuration is built, and - through a side-effect-free probe
(attributes saved, every slot read, attributes restored) - every slot, store, learning_info and the Experiment's three settings.
run / filter steps execute the real Experiment.run / CobaMultiprocessor.filter with tasks that report what THEY see of the context
where they run: on the virtual multiprocessing layer (every virtual process has its own fresh copy of all context attributes) and,
for a few histories, in really spawned processes (a fresh interpreter with HOME / cwd = the default search paths)."""
import collections, hashlib, io, json, os, pickle, random, subprocess, sys, threading, traceback
from concurrent.futures import ThreadPoolExecutor
from .. import tlc, tracecheck

FINISH = dict(level="model_checking",
              rule="a case = one TLC-generated history (initial files + search paths, then up to MaxSteps actions) replayed on the real CobaContext / Experiment / CobaMultiprocessor with every step compared; distinct = distinct (configuration, history, execution mode)")

ATTRS = ("_api_keys", "_cacher", "_logger", "_experiment", "_search_paths", "_store", "_learning_info", "_config_backing")
MISSING = object()
UNPARSABLE = '{ "cacher": { "DiskCacher": "~"'
NOTOBJ = '[1, 2, 3]'
ACTIONS = ["ReadSlot", "SetSlot", "SetExp", "PutKey", "Write", "SetPaths", "PutStore", "SetStore", "PutInfo", "ClearInfo", "Config", "Run", "Filter"]


# ------------------------------------------------------------------ value conversion: spec <-> python
def clean(m):
    """a spec map ('-' = absent) -> dict"""
    return {k: v for k, v in m.items() if v != "-"}


def num(v):
    return None if v == "None" else int(v)


def exp_tuple(e):
    return [int(e["processes"]), int(e["maxchunksperchild"]), int(e["maxtasksperchunk"]), e["chunk_by"]]


def path_text(r):
    return r["pre"] + r["tail"]


def recipe_json(r):
    """a recipe record of the spec -> the JSON value written into the file (coba/registry.py JsonMakerV1 forms)"""
    c, f = r["cls"], r["form"]
    p = path_text(r)
    if f == "name": return c if c.startswith("Null") or c.startswith("Basic") or c.startswith("Indent") else {c: 1}
    if f == "str": return {c: p}
    if f == "list": return {c: [p]}
    if f == "kwargs": return {c: {"cache_dir": p}}
    if f == "xargs": return {"name": c, "args": [p]}
    if f == "xkwargs": return {"name": c, "kwargs": {"cache_dir": p}}
    if f == "badarg": return {c: 3}
    if f == "console": return {c: "Console"}
    if f == "disk": return {c: {"Disk": p}}
    if f == "disklist": return {c: {"Disk": [p]}}
    raise AssertionError(r)


def file_text(c):
    k = c["kind"]
    if k == "absent": return None
    if k == "blank": return "  \n "
    if k == "unparsable": return UNPARSABLE
    if k == "notobj": return NOTOBJ
    o = {}
    if clean(c["api"]): o["api_keys"] = clean(c["api"])
    e = clean(c["exp"])
    if e:
        x = {}
        for f, v in e.items():
            x["maxtasksperchild" if (f == "maxchunksperchild" and c["old"]) else f] = v if f == "chunk_by" else int(v)
        o["experiment"] = x
    if c["cacher"]["cls"] != "none": o["cacher"] = recipe_json(c["cacher"])
    if c["logger"]["cls"] != "none": o["logger"] = recipe_json(c["logger"])
    return json.dumps(o)


# ------------------------------------------------------------------ descriptions of real objects (class and constructor arguments)
def d_sink(s):
    n = type(s).__name__
    return [n, str(getattr(s, "_filename", None))] if n == "DiskSink" else [n]


def d_pre(p):
    n = type(p).__name__
    if n == "Identity": return []
    fs = getattr(p, "_filters", None) or getattr(p, "_pipes", None)
    return [type(x).__name__ for x in fs] if fs else [n]


def d_logger(L, with_sink=True):
    n = type(L).__name__
    if n == "DecoratedLogger":
        return ["DecoratedLogger", d_pre(L._pre_decorator), d_logger(L._original_logger, with_sink), [type(p).__name__ for p in L._post_decorators]]
    return [n] + ([d_sink(L.sink)] if with_sink else [])


def d_cacher(c):
    n = type(c).__name__
    if n == "ConcurrentCacher": return ["ConcurrentCacher", d_cacher(c._cache)]
    if n == "DiskCacher": return [n, c.cache_directory]
    return [n]


def innermost_sink(L):
    return type(L.sink).__name__


def snapshot(tag):
    """what the code running HERE sees of the context (runs inside the tasks: in the parent, a virtual process or a spawned one)"""
    from coba.context import CobaContext as C
    def safe(f):
        try: return ["ok", f()]
        except BaseException as e: return ["err", "%s: %s" % (type(e).__name__, str(e)[:300])]
    out = {"tag": tag, "pid": os.getpid(), "thr": threading.current_thread().name}
    out["logger"] = safe(lambda: d_logger(C.logger, False)); out["sink"] = safe(lambda: innermost_sink(C.logger))
    out["cacher"] = safe(lambda: d_cacher(C.cacher))
    out["store"] = safe(lambda: {k: v for k, v in C.store.items() if k != "openml_semaphore"})
    out["sem"] = safe(lambda: "openml_semaphore" in C.store)
    out["api"] = safe(lambda: dict(C.api_keys))
    out["exp"] = safe(lambda: [C.experiment.processes, C.experiment.maxchunksperchild, C.experiment.maxtasksperchunk, C.experiment.chunk_by])
    return out


class SpyFilter:
    """the filter given to CobaMultiprocessor: one snapshot per item"""
    def filter(self, item):
        yield snapshot(item)


class SpyEnv:
    def __init__(self, i): self.i = i
    @property
    def params(self): return {"env": self.i}
    def read(self): return iter(())


class SpyLearner:
    @property
    def params(self): return {"family": "spy"}


class SpyEval:
    """the evaluator of the experiment's triples: one snapshot per (environment, learner)"""
    @property
    def params(self): return {"eval": "spy"}
    def evaluate(self, env, lrn):
        yield {"seen": json.dumps(snapshot(env.i))}


class Exited(BaseException):
    """raised by the stand-in of coba.context.core.coba_exit"""


# ------------------------------------------------------------------ the world of one configuration: directories, files, program objects
class World:
    def __init__(self, root, ndirs, home=None, dirs=None):
        self.root = os.path.realpath(root)
        self.par = os.path.join(self.root, "p")
        self.dirs = dirs or {i: os.path.join(self.par, "d%d" % i) for i in range(1, ndirs + 1)}
        self.home = home or os.path.join(self.root, "h")
        for d in list(self.dirs.values()) + [self.home]: os.makedirs(d, exist_ok=True)
        self.objs = {}; self.ondisk = {}

    def write(self, d, c):
        f = os.path.join(self.dirs[d], ".coba"); t = file_text(c)
        if self.ondisk.get(d, MISSING) == t: return
        self.ondisk[d] = t
        if t is None:
            if os.path.exists(f): os.remove(f)
        else:
            with open(f, "w") as h: h.write(t)

    def path(self, p):
        b = p["base"]
        if b == "raw": return path_text(p)
        if b == "dir": return os.path.join(os.path.realpath(self.dirs[p["d"]]), p["tail"])
        if b == "parent": return os.path.join(os.path.dirname(os.path.realpath(self.dirs[p["d"]])), p["tail"])
        if b == "home": return os.path.join(os.path.realpath(self.home), p["tail"])
        raise AssertionError(p)

    def prog(self, i):
        """the object the program builds for the id of the spec (one per case)"""
        if i not in self.objs:
            from coba.context import MemoryCacher, NullCacher, DiskCacher, NullLogger, BasicLogger, IndentLogger, DecoratedLogger, ExceptLog, NameLog
            from coba.pipes import ListSink
            self.objs[i] = {"PC1": lambda: MemoryCacher(), "PC2": lambda: NullCacher(), "PC3": lambda: DiskCacher(os.path.join(self.root, "pc3")),
                            "PL1": lambda: NullLogger(), "PL2": lambda: BasicLogger(ListSink()),
                            "PL3": lambda: DecoratedLogger([ExceptLog()], IndentLogger(ListSink()), [NameLog()])}[i]()
        return self.objs[i]

    def d_obj(self, o, kind, with_sink=True):
        """the description (class + constructor arguments) of an object of the spec"""
        if o["src"] == "prog":
            return d_cacher(self.prog(o["cls"])) if kind == "cacher" else d_logger(self.prog(o["cls"]), with_sink)
        if kind == "cacher":
            return [o["cls"]] + ([self.path(o["path"])] if o["cls"] == "DiskCacher" else [])
        return [o["cls"]] + ([[o["sink"]] + ([self.path(o["path"])] if o["sink"] == "DiskSink" else [])] if with_sink else [])


# ------------------------------------------------------------------ the virtual layer with a full context per virtual process
def run_virtual(fn, seed, fresh):
    """vmp.run_scheduled with per-process copies of ALL context attributes (a spawned process starts from the class defaults)"""
    from .. import vmp, vsched
    class PG8(vmp.ProcGlobals):
        ATTRS = ATTRS
    vctx, undo = vmp.install_coba()
    s = vsched.Sched(vsched.random_policy(random.Random(seed)), max_steps=200000); vsched.S = s
    pg = PG8(); pg.fresh = fresh
    out = {}
    def main():
        try: out["value"] = fn()
        except vsched._Aborted: raise
        except BaseException as e: out["error"] = e
    mt = s.spawn("main", main)
    orig = s.choose
    class Done(Exception): pass
    def choose(en, sch):
        if mt.done: raise Done()
        t = orig(en, sch)
        pg.switch(t)
        return t
    s.choose = choose
    out["verdict"] = "ok"
    try:
        try: s.run()
        except Done: pass
    except vsched.Deadlock as d:
        if not mt.done: out["verdict"] = "hang: %s" % (d,)
    except vsched.TooLong:
        out["verdict"] = "livelock"
    finally:
        s.abort(); pg.restore_main(); undo()
    return out


# ------------------------------------------------------------------ replaying one history
EMPTY_SIG = "set:api_keys-empty-dict:ignored"
DISCARD_SIG = "run:configured-settings-discarded"


class Replayer:
    def __init__(self, rec, world, mode, seed=0, default_paths=(1, 2)):
        self.rec = rec; self.W = world; self.mode = mode; self.seed = seed; self.default_paths = list(default_paths)
        self.bads = []; self.sigs = set(); self.reads = []; self.rec_on = True; self.nruns = 0
        self.empty_api = False; self.src = {}; self.files = {}; self.eff_bad = False; self.stop = False; self.files_at_load = None; self.lazy_off = False; self.k = 0; self.last_run = -1; self.setstep = {}

    # -- reporting
    def bad(self, sig, what):
        if sig == EMPTY_SIG: self.stop = True      # the real context has diverged for good (it loads where the program's empty dict should be served): the case ends
        if sig not in self.sigs:
            self.sigs.add(sig); self.bads.append((sig, " ".join(str(what).split())))

    # -- context attributes
    def _get(self):
        from coba.context import CobaContext as C
        return {a: C.__dict__.get(a, MISSING) for a in ATTRS}

    def _put(self, saved):
        from coba.context import CobaContext as C
        for a, v in saved.items():
            if v is MISSING:
                if a in C.__dict__: delattr(C, a)
            else: setattr(C, a, v)

    def fresh_attrs(self):
        return {"_api_keys": None, "_cacher": None, "_logger": None, "_experiment": None, "_config_backing": None, "_store": {}, "_learning_info": {},
                "_search_paths": [self.P(self.W.dirs[d]) for d in self.default_paths]}

    # -- the whole case
    def go(self):
        import coba.context.core as CC
        import coba.pipes.sinks as SK
        import coba.experiments.core as EC
        from coba.context import CobaContext as C
        me = self
        base = type(CC.Path())
        class RecPath(base):
            def read_text(s, *a, **k):
                if me.rec_on: me.reads.append((threading.current_thread().name, str(s)))
                return base.read_text(s, *a, **k)
        self.P = RecPath
        saved = self._get()
        old = (CC.Path, CC.coba_exit, SK.__dict__.get("print", MISSING), EC.CobaMultiprocessor, EC.ChunkTasks, os.environ.get("HOME"))
        def fake_exit(msg): raise Exited(msg)
        self.made = []
        class RecMP(old[3]):
            def __init__(s, f, p=1, m=0, c=False): me.made.append(("mp", p, m)); super().__init__(f, p, m, c)
        class RecCT(old[4]):
            def __init__(s, m=None): me.made.append(("ct", m)); super().__init__(m)
        try:
            CC.coba_exit = fake_exit; SK.print = lambda *a, **k: None
            EC.CobaMultiprocessor = RecMP; EC.ChunkTasks = RecCT
            if self.mode != "real":
                CC.Path = RecPath; os.environ["HOME"] = self.W.home
                self._put(self.fresh_attrs())
            else:
                C._store = {}; C._learning_info = {}        # (the class-level dicts would be shared between the histories of one process)
            self.W.objs = {}
            ini = self.rec["ini"]
            for d, c in enumerate(ini["files"], 1):
                self.W.write(d, c); self.files[d] = c
            if self.mode != "real" or ini["paths"] != self.default_paths:
                if self.mode != "real": C._search_paths = [RecPath(self.W.dirs[d]) for d in ini["paths"]]
                else: C.search_paths = [self.W.dirs[d] for d in ini["paths"]]
            from coba.experiments import Experiment
            ev = SpyEval(); lr = SpyLearner()
            self.E = Experiment([(SpyEnv(i), lr, ev) for i in range(3)])
            self.probe(ini["view"], "at the start")
            for k, st in enumerate(self.rec["hist"], 1):
                if not self.step(k, st): break
        finally:
            CC.Path, CC.coba_exit = old[0], old[1]
            if old[2] is MISSING: SK.__dict__.pop("print", None)
            else: SK.print = old[2]
            EC.CobaMultiprocessor, EC.ChunkTasks = old[3], old[4]
            if self.mode != "real":
                if old[5] is None: os.environ.pop("HOME", None)
                else: os.environ["HOME"] = old[5]
            self._put(saved)
        return self

    # -- one action of the spec on the real objects
    def call(self, st):
        from coba.context import CobaContext as C
        a, arg = st["a"], st["arg"]
        if a == "read":
            return getattr(C, {"api": "api_keys", "cacher": "cacher", "logger": "logger", "exp": "experiment"}[arg])
        if a == "set":
            s = arg["s"]
            if not arg["set"]: v = None
            elif s == "api": v = clean(arg["v"])
            else: v = self.W.prog(arg["v"]["cls"])
            if s == "api": self.empty_api = (v == {})
            setattr(C, {"api": "api_keys", "cacher": "cacher", "logger": "logger"}[s], v); return None
        if a == "set_exp":
            setattr(C.experiment, arg["f"], arg["v"] if arg["f"] == "chunk_by" else int(arg["v"])); return None
        if a == "put_key":
            C.api_keys[arg["k"]] = arg["v"]; return None
        if a == "write":
            self.W.write(arg["d"], arg["c"]); self.files[arg["d"]] = arg["c"]; return None
        if a == "set_paths":
            C.search_paths = [self.W.dirs[d] for d in arg]; return None
        if a == "put_store": C.store[arg["k"]] = arg["v"]; return None
        if a == "set_store": C.store = {arg["k"]: arg["v"]}; return None
        if a == "put_info": C.learning_info[arg["k"]] = arg["v"]; return None
        if a == "clear_info": C.learning_info.clear(); return None
        if a == "config":
            for f, v in arg.items(): self.src[f] = "config" if v != "None" else "none"; self.setstep[f] = self.k
            self.E.config(processes=num(arg["processes"]), maxchunksperchild=num(arg["maxchunksperchild"]), maxtasksperchunk=num(arg["maxtasksperchunk"])); return None
        if a == "run":
            x = arg["a"]; self.made[:] = []
            res = self.E.run(processes=num(x["processes"]), maxchunksperchild=num(x["maxchunksperchild"]), maxtasksperchunk=num(x["maxtasksperchunk"]), seed=num(arg["seed"]))
            rows = list(res.interactions.to_dicts())
            return [json.loads(r["seen"]) for r in rows]
        if a == "filter":
            from coba.multiprocessing import CobaMultiprocessor
            return list(CobaMultiprocessor(SpyFilter(), int(arg["p"]), int(arg["m"])).filter([0, 1, 2]))
        raise AssertionError(a)

    def step(self, k, st):
        a = st["a"]; where = "step %d (%s %s)" % (k, a, json.dumps(st["arg"])[:120])
        self.reads = []; self.k = k
        pid0 = os.getpid()
        try:
            if a in ("run", "filter") and self.mode == "virtual":        # (also when the spec expects no workers: the real code may think otherwise)
                self.nruns += 1
                out = run_virtual(lambda: self.call(st), self.seed * 1000 + k, self.fresh_attrs)
                if out["verdict"] != "ok":
                    self.bad("workers:%s" % out["verdict"].split(":")[0], "%s: the run did not terminate: %s" % (where, out["verdict"][:300])); return False
                if "error" in out: raise out["error"]
                got = ("ok", out["value"])
            else:
                got = ("ok", self.call(st))
        except Exited as e: got = ("exit", str(e))
        except Exception as e: got = ("raise", "%s: %s" % (type(e).__name__, str(e)[:300]))
        exp = st["ret"]
        # 1. what the call returns
        if got[0] == "raise":
            self.bad("%s:raises" % a, "%s raised %s" % (where, got[1])); return False
        if a == "read":
            self.slot(st["arg"], exp, self.value(st["arg"], got), where + " returned", ret=True)
        elif exp["x"] == "exit":
            self.exit_ok(exp["v"], got, where, a)
            if a in ("run", "filter"): return False
        elif got[0] == "exit":
            self.bad(EMPTY_SIG if (a == "put_key" and self.empty_api) else "%s:unexpected-exit" % a, "%s ended the program: %s" % (where, got[1][:300]))
            if a in ("run", "filter"): return False
        elif a in ("run", "filter"):
            self.seen(st, exp["v"], got[1], where, pid0)
        # 2. laziness: the files this step looked into, and whether the configuration is built
        if a in ("run", "filter") and exp["x"] == "ok" and exp["v"]["free"]: self.lazy_off = True     # the spec leaves open whether this step builds the configuration
        if self.mode != "real" and not self.lazy_off:
            from coba.context import CobaContext as C
            mine = sorted({d for d, p in self.W.dirs.items() for (t, f) in self.reads if not t.startswith("v-W") and f == os.path.join(p, ".coba")})
            fold = self.empty_api and (a == "put_key" or (a == "read" and st["arg"] == "api"))
            if C._config_backing is not None and self.files_at_load is None: self.files_at_load = dict(self.files)
            if mine != sorted(st["fread"]):
                self.bad(EMPTY_SIG if fold else "lazy:files-read", "%s read the files of directories %s, expected %s" % (where, mine, sorted(st["fread"])))
            if (C._config_backing is not None) != st["loaded"]:
                self.bad(EMPTY_SIG if fold else "lazy:configuration-built", "after %s the configuration is %sbuilt, expected %sbuilt" % (where, "" if C._config_backing is not None else "not ", "" if st["loaded"] else "not "))
        if self.stop: return False
        # 3. every slot
        self.probe(st["view"], "after " + where)
        return not self.stop

    # -- comparisons
    def value(self, slot, got):
        """the real value of a slot -> something comparable"""
        if got[0] != "ok": return got
        v = got[1]
        try:
            if slot == "api": return ("ok", dict(v))
            if slot == "exp": return ("ok", [v.processes, v.maxchunksperchild, v.maxtasksperchunk, v.chunk_by])
            return ("ok", v)
        except Exception as e:
            return ("raise", "%s: %s" % (type(e).__name__, e))

    def exit_ok(self, v, got, where, what):
        if got[0] != "exit":
            self.bad("exit:%s:not-reported" % v["why"], "%s: the configuration cannot be built (%s in directory %d) but %s gave %r" % (where, v["why"], v["d"], what, got[1])); return
        msg = got[1]
        if "ERROR: An error occured while initializing CobaContext" not in msg or not msg.endswith("\n"):
            self.bad("exit:message", "%s: coba_exit message %r" % (where, msg[:300]))
        if v["why"] in ("unparsable", "notobj") and os.path.join(self.W.dirs[v["d"]], ".coba") not in msg:
            self.bad("exit:%s:file-not-named" % v["why"], "%s: the message does not name the file of directory %d: %r" % (where, v["d"], msg[:300]))
        if v["why"] == "recipe" and "recipe" not in msg.lower():
            self.bad("exit:recipe:message", "%s: the message does not mention the recipe: %r" % (where, msg[:300]))

    def slot(self, s, exp, got, where, ret=False):
        """one slot (returned by a read or seen by the probe) against the spec's entry"""
        if exp["x"] == "exit":
            self.exit_ok(exp["v"], got, where, s); return
        if got[0] == "exit":
            self.bad(EMPTY_SIG if (s == "api" and self.empty_api) else "%s:unexpected-exit" % s, "%s: reading %s ended the program: %s" % (where, s, got[1][:300])); return
        if got[0] == "raise":
            self.bad("%s:raises" % s, "%s: reading %s raised %s" % (where, s, got[1])); return
        v = exp["v"]; g = got[1]
        if s == "api":
            want = clean(v)
            if g != want: self.bad(self.cls_map("api", want, g), "%s: api_keys %r, expected %r" % (where, g, want))
        elif s == "exp":
            want = exp_tuple(v)
            if g != want: self.bad(self.cls_map("exp", want, g), "%s: experiment (processes, maxchunksperchild, maxtasksperchunk, chunk_by) = %r, expected %r" % (where, g, want))
        else:
            if v["src"] == "prog":
                if g is not self.W.prog(v["cls"]):
                    self.bad("%s:programmatic-value-not-served" % s, "%s: %s is %r, expected the object the program set (%s)" % (where, s, g, v["cls"]))
            else:
                want = self.W.d_obj(v, s)
                try: have = d_cacher(g) if s == "cacher" else d_logger(g)
                except Exception as e: have = ["not a %s: %r (%s)" % (s, g, type(e).__name__)]
                if have != want: self.bad(self.cls_obj(s, v, want, have), "%s: %s is %r, expected %r" % (where, s, have, want))

    def sections(self, key):
        out = []
        for c in (self.files_at_load or self.files).values():
            if c["kind"] == "obj" and clean(c[key]): out.append(clean(c[key]))
        return out

    def cls_map(self, s, want, got):
        """a stable name for how api_keys / experiment differ (pattern of the mismatch, not a second oracle)"""
        if s == "api":
            secs = self.sections("api")
            if self.empty_api: return EMPTY_SIG           # the program's api_keys is the empty dict (+ keys put into it) and something else is served
            if len(secs) >= 2 and got in secs and all(want.get(k) == v for k, v in got.items()) and len(want) > len(got): return "precedence:earlier-path-key-lost"
            return "view:api_keys"
        secs = self.sections("exp")
        if len(secs) >= 2:
            names = ["processes", "maxchunksperchild", "maxtasksperchunk", "chunk_by"]; dflt = [1, 0, 0, "source"]
            diff = [i for i in range(4) if want[i] != got[i]]
            if diff and all(got[i] == dflt[i] for i in diff) and any(all(names[i] not in sec for i in diff) for sec in secs): return "precedence:earlier-path-key-lost"
        return "view:experiment"

    def cls_obj(self, s, v, want, have):
        p = v["path"]
        if p["base"] in ("dir", "parent", "home") and have[0] == want[0]:
            got_path = (have[1] if len(have) > 1 else None) if s == "cacher" else (have[1][1] if len(have) > 1 and len(have[1]) > 1 else None)
            for c in (self.files_at_load or self.files).values():
                r = c[s] if c["kind"] == "obj" else None
                if r and r["tail"] == p["tail"] and r["form"] in ("list", "xargs", "disklist") and got_path == path_text(r):
                    return "resolve:path-in-list-unresolved"
        return "view:%s" % s

    def probe(self, view, where):
        """what a read of every slot would return now - without changing the context (attributes saved and restored)"""
        from coba.context import CobaContext as C
        saved = self._get(); self.rec_on = False; before = set(self.sigs)
        try:
            for s, name in (("api", "api_keys"), ("cacher", "cacher"), ("logger", "logger"), ("exp", "experiment")):
                try: got = ("ok", getattr(C, name))
                except Exited as e: got = ("exit", str(e))
                except Exception as e: got = ("raise", "%s: %s" % (type(e).__name__, e))
                self.slot(s, view[s], self.value(s, got), where)
            try: st = dict(C.store); li = dict(C.learning_info)
            except Exception as e: st = li = "raised %r" % (e,)
            if st != clean(view["store"]): self.bad("view:store", "%s: store is %r, expected %r" % (where, st, clean(view["store"])))
            if li != clean(view["info"]): self.bad("view:learning_info", "%s: learning_info is %r, expected %r" % (where, li, clean(view["info"])))
            try: got = ("ok", [self.E.processes, self.E.maxchunksperchild, self.E.maxtasksperchunk])
            except Exited as e: got = ("exit", str(e))
            except Exception as e: got = ("raise", "%s: %s" % (type(e).__name__, e))
            ex = view["ecfg"]
            if ex["x"] == "exit": self.exit_ok(ex["v"], got, where, "Experiment.processes")
            elif got[0] != "ok": self.bad("experiment:properties:%s" % got[0], "%s: Experiment.processes .. gave %r" % (where, got[1][:300]))
            else:
                want = [int(ex["v"]["processes"]), int(ex["v"]["maxchunksperchild"]), int(ex["v"]["maxtasksperchunk"])]
                ctx_only = all(self.src.get(f, "none") == "none" for f, a, b in zip(("processes", "maxchunksperchild", "maxtasksperchunk"), want, got[1]) if a != b)
                exp_bad = any(g not in before for g in self.sigs) or any(g.startswith(("precedence:", "view:experiment")) for g in self.sigs)
                if got[1] != want and not (ctx_only and exp_bad and self.value("exp", ("ok", None))[0] is not None and self._exp_now() != exp_tuple(view["exp"]["v"])):
                    self.bad(self.cls_eff(want, got[1], "experiment:properties"), "%s: the Experiment's (processes, maxchunksperchild, maxtasksperchunk) = %r, expected %r" % (where, got[1], want))
        finally:
            self._put(saved); self.rec_on = True

    def _exp_now(self):
        from coba.context import CobaContext as C
        try: e = C.experiment; return [e.processes, e.maxchunksperchild, e.maxtasksperchunk, e.chunk_by]
        except BaseException: return None

    def cls_eff(self, want, got, generic):
        names = ["processes", "maxchunksperchild", "maxtasksperchunk"]
        diff = [names[i] for i in range(3) if want[i] != got[i]]
        # only settings configured earlier (by config() / an earlier run) are wrong, and a LATER run() has been called since: that run wiped them
        if diff and all(self.src.get(f) in ("config", "run") and self.last_run > self.setstep.get(f, 0) for f in diff): return DISCARD_SIG
        return generic

    def seen(self, st, v, snaps, where, pid0):
        """what the tasks saw where they ran, against the spec's `seen`; the effective settings of a run"""
        a = st["a"]; s = v["seen"]
        if a == "run":
            mp = [m for m in self.made if m[0] == "mp"]; ct = [m for m in self.made if m[0] == "ct"]
            got = [mp[0][1], mp[0][2], (ct[0][1] or 0)] if mp and ct else None
            want = [int(v["eff"]["processes"]), int(v["eff"]["maxchunksperchild"]), int(v["eff"]["maxtasksperchunk"])]
            for f, val in st["arg"]["a"].items():
                if self.src.get(f) == "run-now": self.src[f] = "run"  # given to an earlier run: it stays configured on the object
                if val != "None": self.src[f] = "run-now"; self.setstep[f] = self.k             # an explicit argument of this run
            self.last_run = self.k
            self.eff_bad = got != want
            if got != want:
                self.bad(self.cls_eff(want, got or [None] * 3, "run:effective-settings"), "%s ran with (processes, maxchunksperchild, maxtasksperchunk) = %r, expected %r" % (where, got, want))
        if len(snaps) != 3 or sorted(x["tag"] for x in snaps) != [0, 1, 2]:
            self.bad("%s:results" % a, "%s: the three tasks returned %r" % (where, [x.get("tag") for x in snaps])); return
        for x in snaps:
            inworker = x["thr"].startswith("v-W") or x["pid"] != pid0
            tag = "workers" if inworker else "in-process"
            if inworker != s["multi"]:
                if not (a == "run" and self.eff_bad):       # (a consequence of the wrong settings already reported)
                    self.bad("%s:where-the-tasks-run" % a, "%s: a task ran %s, expected %s" % (where, "in a worker process" if inworker else "in the parent", "worker processes" if s["multi"] else "the parent"))
                continue
            bad = [k for k in ("logger", "sink", "cacher", "store", "sem", "api", "exp") if x[k][0] != "ok"]
            if bad:
                self.bad("%s:%s:raises" % (tag, bad[0]), "%s: reading %s where the tasks run raised %s" % (where, bad[0], x[bad[0]][1])); continue
            want = clean(s["api"])
            if x["api"][1] != want: self.bad("%s:api_keys:not-the-parents" % tag, "%s: the tasks see api_keys %r, the parent has %r" % (where, x["api"][1], want))
            want = exp_tuple(s["exp"])
            if x["exp"][1] != want: self.bad("%s:experiment:not-the-parents" % tag, "%s: the tasks see experiment settings %r, the parent has %r" % (where, x["exp"][1], want))
            want = self.W.d_obj(s["cacher"], "cacher")
            if inworker: want = ["ConcurrentCacher", want]
            if x["cacher"][1] != want: self.bad("%s:cacher" % tag, "%s: the tasks see the cacher %r, expected %r" % (where, x["cacher"][1], want))
            want = self.W.d_obj(s["logger"], "logger", False)
            if s["decor"] == "ENS": want = ["DecoratedLogger", ["ExceptLog"], want, ["NameLog", "StampLog"]]
            elif s["decor"] == "ES": want = ["DecoratedLogger", ["ExceptLog"], want, ["StampLog"]]
            if x["logger"][1] != want: self.bad("%s:logger" % tag, "%s: the tasks see the logger %r, expected %r" % (where, x["logger"][1], want))
            if inworker and x["sink"][1] != "QueueSink": self.bad("workers:logger-sink", "%s: the worker's logger writes to a %s" % (where, x["sink"][1]))
            want = clean(s["store"])
            if s["seed"] != "-": want["experiment_seed"] = num(s["seed"])
            if x["store"][1] != want: self.bad("%s:store" % tag, "%s: the tasks see the store %r, expected %r" % (where, x["store"][1], want))
            if x["sem"][1] != inworker: self.bad("%s:openml_semaphore" % tag, "%s: openml_semaphore in the store: %r" % (where, x["sem"][1]))


def replay(rec, world, mode, seed=0, default_paths=(1, 2)):
    return Replayer(rec, world, mode, seed, default_paths).go()


# ------------------------------------------------------------------ really spawned processes: a fresh interpreter replays whole histories
REAL = r"""
import sys
sys.path.insert(1, %r)
from harness.drivers import x08
if __name__ == '__main__':
    x08.real_main(sys.argv[1])
"""


def real_main(jobfile):
    job = json.load(open(jobfile))
    dirs = {int(k): v for k, v in job["dirs"].items()}
    W = World(job["root"], len(dirs), home=dirs[1], dirs=dirs)
    out = []
    for rec in job["recs"]:
        try:
            r = replay(rec, W, "real", 0, job["default_paths"])
            out.append(dict(bads=r.bads, nruns=r.nruns))
        except BaseException as e:
            out.append(dict(bads=[("real:machinery", traceback.format_exc()[-1500:])], nruns=0))
    print("X08-REAL " + json.dumps(out))


# ------------------------------------------------------------------ the check
def key_of(rec):
    return hashlib.sha1(json.dumps(rec, sort_keys=True).encode()).hexdigest()[:16]


def show(rec):
    ini = rec["ini"]
    def f(c):
        if c["kind"] != "obj": return c["kind"]
        o = json.loads(file_text(c)); return json.dumps(o)
    return dict(files={"dir%d" % (i + 1): f(c) for i, c in enumerate(ini["files"])}, search_paths=ini["paths"],
                steps=[[s["a"], s["arg"] if s["a"] != "write" else {"d": s["arg"]["d"], "c": f(s["arg"]["c"])}] for s in rec["hist"]])


GUARDS = [("file_whole", "merge", 1, 2, {"PrecedencePerKey"}, "a later file's section replaces the earlier file's as a whole"),
          ("list_unresolved", "merge", 1, 2, {"PathsResolved", "PrecedencePerKey"}, "paths inside args lists are not resolved"),
          ("eager_undo", "prog", 2, 2, {"ProgrammaticWins"}, "the lazy load overwrites slots set by the program"),
          ("reload", "lazy", 2, 2, {"Lazy", "OneLoad", "CacheStable"}, "every read re-reads the files"),
          ("fail_once", "lazy", 2, 2, {"NoLoadFromBadFiles", "PrecedencePerKey"}, "a failed load leaves the defaults loaded"),
          ("empty_falls_back", "prog", 2, 2, {"ProgrammaticWins"}, "an empty api_keys dict set by the program counts as not set"),
          ("marshal3", "marshal", 2, 3, {"WorkersSeeParent"}, "workers get logger, cacher and store only"),
          ("run_resets", "exp", 2, 2, {"RunPrecedence"}, "run() overwrites what config() set")]


def run(ctx):
    q = ctx.quick
    rng = random.Random(ctx.seed)
    # name, conf, MaxSteps, NDirs, Big, simulate
    plan = [("merge", "merge", 1, 2, False, None), ("lazy", "lazy", 3, 2, False, None), ("prog", "prog", 3, 2, False, None),
            ("aux", "aux", 3, 2, False, None), ("exp", "exp", 3, 2, False, None), ("marshal", "marshal", 2, 3, False, None)]
    if not q:
        plan = [("merge", "merge", 2, 2, False, None), ("merge3", "merge", 1, 3, False, None), ("lazy", "lazy", 4, 2, False, None), ("lazyB", "lazy", 3, 2, True, None),
                ("prog", "prog", 4, 2, False, None), ("progB", "prog", 3, 2, True, None), ("aux", "aux", 4, 2, False, None),
                ("exp", "exp", 3, 2, True, None), ("marshal", "marshal", 3, 3, True, None), ("deep", "deep", 7, 2, False, dict(num=4000))]

    def sub(conf, steps, nd, big, variant="ok"):
        return {'Conf = "merge"': 'Conf = "%s"' % conf, "MaxSteps = 1": "MaxSteps = %d" % steps, "NDirs = 2": "NDirs = %d" % nd,
                "Big = FALSE": "Big = %s" % ("TRUE" if big else "FALSE"), 'Variant = "ok"': 'Variant = "%s"' % variant}

    def job(j):
        kind, name = j[0], j[1]
        if kind == "main":
            _, _, conf, steps, nd, big, sim = j
            cfg = tracecheck._cfg("Context.cfg", sub(conf, steps, nd, big), ctx.scratch, "cx_%s.cfg" % name)
            if sim: return name, tlc.run("MC_Context", cfg, ctx.scratch, workers=1, timeout=1500, heap="4g", simulate=sim, depth=steps + 1, seed=ctx.seed)      # one worker: reproducible walks
            return name, tlc.run("MC_Context", cfg, ctx.scratch, workers=4, timeout=1500, heap="4g")
        _, _, conf, steps, nd = j
        cfg = tracecheck._cfg("Context.cfg", sub(conf, steps, nd, False, name[6:]), ctx.scratch, "cx_%s.cfg" % name)
        return name, tlc.run("MC_Context", cfg, ctx.scratch, workers=1, timeout=900, heap="2g")
    jobs = [("main",) + p for p in plan] + [("guard", "guard-" + g, conf, steps, nd) for g, conf, steps, nd, _, _ in GUARDS]
    with ThreadPoolExecutor(max_workers=4) as ex:
        results = dict(ex.map(job, jobs))

    for g, conf, steps, nd, expect, what in GUARDS:
        r = results["guard-" + g]; ctx.add_tlc("Context guard " + g, r)
        if not ({v["name"] for v in r.violations} & expect):
            raise RuntimeError("the broken design %r (%s) is not rejected by any of %s: the invariants are vacuous" % (g, what, sorted(expect)))
    ctx.extra["guards_rejected"] = {g[0]: sorted({v["name"] for v in results["guard-" + g[0]].violations}) for g in GUARDS}

    recs = {}
    for name, conf, steps, nd, big, sim in plan:
        r = results[name]; ctx.add_tlc("Context " + name, r)
        for v in r.violations:
            ctx.violation("spec:%s" % (v["name"] or v["kind"]), "Context.tla (%s) itself violates %s" % (name, v["name"]), v["trace"][:60])
        seen = {}
        for j in r.json:
            if isinstance(j, dict) and j.get("conf") == conf and "hist" in j: seen.setdefault(key_of(j), j)
        recs[name] = [seen[k] for k in sorted(seen)]
        if len(recs[name]) < 50: raise RuntimeError("Context %s produced only %d histories" % (name, len(recs[name])))
    ctx.extra["histories"] = {k: len(v) for k, v in recs.items()}

    # ---- replay ----
    used = collections.Counter(); total = 0; nvirtual = 0
    budget = {"exp": ctx.pick(100, 1500), "marshal": ctx.pick(160, 2000), "deep": 10000}
    for name, conf, steps, nd, big, sim in plan:
        W = World(os.path.join(ctx.scratch, "w_" + name), nd)
        L = recs[name]
        if name in budget and len(L) > budget[name]:
            L = rng.sample(L, budget[name]); ctx.extra.setdefault("sampled", {})[name] = len(L)
        dp = [1, 2] if conf == "marshal" else list(range(1, nd + 1))
        mode = "virtual" if conf in ("exp", "marshal") else "none"
        for i, rec in enumerate(L):
            ctx.case((name, key_of(rec)))
            r = replay(rec, W, mode, ctx.seed + i, dp)
            total += 1; nvirtual += r.nruns
            for st in rec["hist"]: used[st["a"]] += 1
            for sig, what in r.bads:
                ctx.violation(sig, what, dict(configuration=name, mode=mode, case=show(rec)))
        ctx.sample(dict(configuration=name, case=show(L[len(L) // 2]), last_view=L[len(L) // 2]["hist"][-1]["view"]), limit=10)
    ctx.traces += total
    ctx.extra["virtual_runs"] = nvirtual
    ctx.extra["steps_replayed_by_action"] = dict(used)
    amap = {"ReadSlot": "read", "SetSlot": "set", "SetExp": "set_exp", "PutKey": "put_key", "Write": "write", "SetPaths": "set_paths", "PutStore": "put_store",
            "SetStore": "set_store", "PutInfo": "put_info", "ClearInfo": "clear_info", "Config": "config", "Run": "run", "Filter": "filter"}
    dead = [a for a in ACTIONS if used[amap[a]] == 0]         # (a step replayed is a step TLC took: the histories are TLC's)
    if dead: raise RuntimeError("actions of Context.tla never taken by TLC / never replayed: %s" % dead)
    ctx.exhaustive = not ctx.extra.get("sampled")

    # ---- the binding is not vacuous: one corrupted expectation must be noticed ----
    probe = json.loads(json.dumps(recs[plan[0][0]][len(recs[plan[0][0]]) // 2]))
    probe["hist"][-1]["view"]["exp"]["v"]["maxtasksperchunk"] = "9"
    if not replay(probe, World(os.path.join(ctx.scratch, "w_selftest"), 2), "none", 0, [1, 2]).bads:
        raise RuntimeError("a corrupted expectation was not noticed by the replay: the binding is vacuous")

    # ---- really spawned worker processes ----
    mar = [r for r in recs["marshal"] if any(s["a"] in ("run", "filter") and s["ret"]["x"] == "ok" and s["ret"]["v"]["seen"]["multi"] for s in r["hist"])]
    def feature(r):
        acts = [s["a"] for s in r["hist"]]
        last = [s for s in r["hist"] if s["a"] in ("run", "filter")][-1]
        return (last["a"], json.dumps(last["arg"], sort_keys=True), tuple(sorted(set(acts) - {"run", "filter"})))
    byf = collections.OrderedDict()
    for r in mar: byf.setdefault(feature(r), []).append(r)
    feats = list(byf); rng.shuffle(feats)
    chosen = [byf[f][rng.randrange(len(byf[f]))] for f in feats[:ctx.pick(5, 16)]]
    root = os.path.join(ctx.scratch, "w_real"); W = World(root, 3)
    sdir = os.path.join(W.root, "s"); os.makedirs(sdir, exist_ok=True)
    script = os.path.join(sdir, "x08_real.py")
    open(script, "w").write(REAL % os.path.dirname(os.path.dirname(os.path.dirname(os.path.abspath(__file__)))))
    jf = os.path.join(W.root, "job.json")
    json.dump(dict(root=W.root, dirs=W.dirs, default_paths=[1, 2], recs=chosen), open(jf, "w"))
    env = dict(os.environ); env["HOME"] = W.dirs[1]
    try:
        p = subprocess.run([sys.executable, "-W", "ignore", script, jf], cwd=W.dirs[2], env=env, capture_output=True, text=True, timeout=900)
    except subprocess.TimeoutExpired:
        ctx.violation("real:hang", "the real multi-process replay did not end within 900 s", [show(r) for r in chosen]); p = None
    if p is not None:
        line = [l for l in p.stdout.splitlines() if l.startswith("X08-REAL ")]
        if not line: raise RuntimeError("real multi-process replay failed: %s %s" % (p.stdout[-800:], p.stderr[-2500:]))
        for rec, res in zip(chosen, json.loads(line[-1][9:])):
            ctx.case(("real", key_of(rec))); ctx.traces += 1
            for sig, what in res["bads"]:
                if sig == "real:machinery": raise RuntimeError("real multi-process replay failed: " + what)
                ctx.violation(sig, what, dict(configuration="marshal", mode="real spawn", case=show(rec)))
    ctx.extra["real_spawn_histories"] = len(chosen)
    ctx.assumptions += [
        "files hold the JSON texts of the spec's abstract contents: api_keys over the keys k1, k2; experiment fields as integers / 'task' / 'source'; cacher and logger recipes in the JsonMakerV1 forms listed in the header of Context.tla; blank = white space; unparsable = the text of the repository's own test; notobj = a JSON list; sections of a wrong type (e.g. \"experiment\": 3), unknown experiment fields, both spellings of maxchunksperchild in one file and empty sections are outside the domain",
        "search paths are existing directories given as absolute texts; relative or symlinked search paths, unreadable files and a directory named .coba are not explored",
        "programmatic values are None, dicts over k1 / k2 (incl. the empty dict) and cacher / logger objects; CobaContext.experiment is overridden field by field (there is no setter); store / learning_info hold text values",
        "the probe (save the eight class attributes, read every slot, restore them) is assumed side-effect free: it relies on the getters only assigning those attributes",
        "a coba_exit message is demanded to carry the standard header, to name the file for an unparsable / non-object file and to mention the recipe for a recipe that cannot be made (naming the file for a bad recipe is not demanded)",
        "run / filter steps use three tasks; virtual processes start from the class defaults with the default search paths [dir1, dir2]; real runs use HOME = dir1, cwd = dir2 and an empty script directory; histories with a run / filter contain only valid files",
        "what the workers see is compared by class and constructor arguments (the logger's innermost sink must be the queue sink); log lines travelling back to the parent are X04's subject",
        "exp and marshal histories are sampled (seeded) when there are more than the budget; everything else is enumerated completely up to the bound"]
