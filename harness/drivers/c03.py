"""C03 - each evaluation is isolated: spec/ExperimentLog.tla (copy rule, failure containment),
ExperimentLogTrace.tla (binding).

1. TLC: for every sharing pattern of learner / environment / evaluator objects among the triples, every
   order, chunking, configuration and interleaving, every evaluation starts from a pristine learner
   (C03_Isolated) and a failing triple removes exactly its own record (P4 against Canonical); the variant
   without the deepcopy must violate C03_Isolated (guard).
2. Real experiments with history-sensitive learners (prediction depends on the whole learn history, an
   internal generator and, for some, process-global learning_info) and components that raise at the start /
   in the middle of an evaluation, in the learner's k-th predict or learn: every multi-triple run (in-process,
   permuted order, virtual multi-process under seeded schedules) is compared, triple by triple, with the same
   triple evaluated ALONE by a freshly constructed learner; its log is validated by TLC (a failing triple is
   evaluated but leaves no record; every other key exactly once).  Learner objects listed in several triples
   are snapshotted before / after the run."""
import os, json, random, pickle, itertools
from .. import tlc, tracecheck, explib, vmp, vsched

FINISH = dict(level="model_checking",
              rule="a case = one real run of a multi-triple experiment (shape x fault placement x order x configuration x schedule) compared per triple with solo runs; distinct = distinct (shape, where, order, cfg, record order)")

SHAPES = [
    dict(tr=[(0, 0, 0), (0, 1, 0), (1, 0, 0), (1, 1, 0)], ch=[1, 1], fail=[(0, 1, 0)]),
    dict(tr=[(0, 0, 0), (0, 0, 1), (1, 1, 0)], ch=[0, 0], fail=[]),
    dict(tr=[(0, 0, 0), (1, 0, 0), (1, 1, 1)], ch=[1, 0], fail=[(1, 0, 0)]),
    dict(tr=[(0, 0, 0), (0, 0, 1), (0, 1, 1), (1, 1, 0)], ch=[1, 1], fail=[(0, 0, 1)]),
    dict(tr=[(0, 0, 0), (1, 0, 0), (2, 0, 0), (2, 1, 0)], ch=[1, 1, 0], fail=[(1, 0, 0)]),
    dict(tr=[(0, 0, 0), (1, 0, 1), (0, 1, 0), (1, 1, 1)], ch=[1, 2], fail=[]),
]
# the same learner class on a batched and on an unbatched environment (what SafeLearner learns about one must not leak to the other)
BATCH_SHAPES = [dict(tr=[(0, 0, 0), (1, 0, 0), (1, 1, 0)], ch=[0, 0], fail=[], batch=[1]),
                dict(tr=[(0, 0, 0), (1, 1, 0), (2, 0, 0)], ch=[1, 1, 0], fail=[], batch=[0, 1])]
# an ENVIRONMENT that raises while being read (at once / after two interactions): every triple on it fails, nothing else does
ENVFAIL_SHAPES = [dict(tr=[(0, 0, 0), (1, 0, 0), (1, 1, 0), (2, 1, 0)], ch=[0, 0, 0], fail=[(1, 0, 0), (1, 1, 0)], wheres=["env"]),
                  dict(tr=[(0, 0, 0), (0, 1, 0), (1, 0, 0), (2, 0, 0)], ch=[1, 1, 1], fail=[(0, 0, 0), (0, 1, 0)], wheres=["env"])]
IDCOLS = {"environment_id", "learner_id", "evaluator_id"}


def rows_by_triple(res):
    """interaction rows keyed by the objects' own labels (eid, lid, vid) - independent of the run's id numbering"""
    env = {r["environment_id"]: r.get("eid") for r in explib.table_rows(res.environments)}
    lrn = {r["learner_id"]: r.get("lid") for r in explib.table_rows(res.learners)}
    val = {r["evaluator_id"]: r.get("vid") for r in explib.table_rows(res.evaluators)}
    out = {}
    for r in explib.table_rows(res.interactions):
        k = (env.get(r["environment_id"]), lrn.get(r["learner_id"]), val.get(r["evaluator_id"]))
        out.setdefault(k, []).append({c: v for c, v in r.items() if c not in IDCOLS and v != "<Missing>"})
    return out


def spec_runs(ctx):
    sub = {"Shapes <- QuickShapes": "Shapes <- %s" % ctx.pick("C01QuickShapes", "ThoroughShapes"), "Cfgs <- QuickCfgs": "Cfgs <- ThoroughCfgs", "MaxCrash = 2": "MaxCrash = 0"}
    cfg = tracecheck._cfg("ExperimentLog_mc.cfg", sub, ctx.scratch, "explog_c03.cfg")
    r = tlc.run("MC_ExperimentLog", cfg, ctx.scratch, workers=16, coverage=True, timeout=4 * 3600, heap="24g")
    ctx.add_tlc("ExperimentLog_mc(no crash, all cfgs)", r, required_actions=["Start", "Take", "Emit", "Begin", "WriteCell", "Finish"])
    for v in r.violations:
        ctx.violation("spec:%s" % (v["name"] or v["kind"]), "ExperimentLog.tla itself violates %s %s" % (v["kind"], v["name"]), v["trace"][:80])
    s2 = dict(sub); s2.update({"NoCopy = FALSE": "NoCopy = TRUE", "PROPERTY Completes": "", "Shapes <- %s" % ctx.pick("C01QuickShapes", "ThoroughShapes"): "Shapes <- C01QuickShapes"})
    s2 = {"Shapes <- QuickShapes": "Shapes <- C01QuickShapes", "Cfgs <- QuickCfgs": "Cfgs <- ThoroughCfgs", "MaxCrash = 2": "MaxCrash = 0", "NoCopy = FALSE": "NoCopy = TRUE", "PROPERTY Completes": ""}
    cfg = tracecheck._cfg("ExperimentLog_mc.cfg", s2, ctx.scratch, "explog_nocopy.cfg")
    r = tlc.run("MC_ExperimentLog", cfg, ctx.scratch, workers=16, timeout=3600, heap="8g")
    ctx.add_tlc("ExperimentLog_nocopy (expected to fail)", r)
    if "C03_Isolated" not in {v["name"] for v in r.violations}:
        raise RuntimeError("the no-deepcopy guard model does not violate C03_Isolated: the model is vacuous")
    ctx.extra["guard_models"] = {"nocopy": sorted({v["name"] for v in r.violations})}


def run(ctx):
    from coba.experiments import Experiment
    from coba.context import CobaContext, NullLogger
    from coba.pipes import ListSink
    rng = random.Random(ctx.seed)
    spec_runs(ctx)
    d = os.path.join(ctx.scratch, "runs"); os.makedirs(d, exist_ok=True)
    traces = []; meta = []
    shapes = SHAPES[:ctx.pick(4, 6)] + BATCH_SHAPES + [dict(explib.BUILTIN_SHAPES[0], fail=[(1, 0, 0)]), explib.BUILTIN_SHAPES[1]] + ENVFAIL_SHAPES
    wheres = ["start", "middle", "predict", "learn"]
    for si, shape in enumerate(shapes):
        for where in (shape.get("wheres") or (wheres if shape["fail"] else [None])):
            fail = {tuple(f) for f in shape["fail"]}
            # solo references: each triple alone, fresh objects
            solo = {}
            for t in shape["tr"]:
                full = explib.build(dict(shape, tr=shape["tr"]), where=where)       # same object parameters as in the full experiment
                idx = shape["tr"].index(t)
                explib.quiet_ctx()
                res = Experiment([full[idx]]).run(quiet=True, processes=1, seed=shape.get("seed", 1))
                solo[tuple(t)] = rows_by_triple(res).get(tuple(t), [])
            for t in fail:
                if solo[t]: raise RuntimeError("a failing triple produced rows when run alone")
            orders = [list(range(len(shape["tr"])))] + [rng.sample(range(len(shape["tr"])), len(shape["tr"])) for _ in range(ctx.pick(1, 3))]
            cfgs = [dict(p=1, mc=0, mt=0), dict(p=1, mc=0, mt=1)] + [dict(p=2, mc=rng.choice([0, 1]), mt=rng.choice([0, 1, 2])) for _ in range(ctx.pick(2, 8))]
            for order in orders:
                pshape = dict(tr=[shape["tr"][i] for i in order], ch=shape["ch"], fail=shape["fail"])
                for cfg in cfgs:
                    sseed = rng.randrange(1 << 30)
                    case = dict(shape=si, where=where, order=order, cfg=cfg, sched_seed=sseed)
                    f = os.path.join(d, "run.log"); side = os.path.join(d, "side.txt")
                    for x in (f, side):
                        if os.path.exists(x): os.remove(x)
                    open(side, "w").close()
                    # ids are assigned by first appearance in the *permuted* list; object labels stay those of the shape
                    full = explib.build(shape, side=side, where=where)
                    triples = [full[i] for i in order]
                    shared = {id(l): l for _, l, _ in triples if sum(1 for _, l2, _ in triples if l2 is l) > 1}
                    before = {k: pickle.dumps(l) for k, l in shared.items()}
                    logsink = ListSink()
                    def go():
                        explib.quiet_ctx(); CobaContext.logger = NullLogger(logsink)      # quiet=True: only exceptions are written, to this sink
                        return Experiment(triples).run(f, quiet=True, processes=cfg["p"], maxchunksperchild=cfg["mc"], maxtasksperchunk=cfg["mt"], seed=shape.get("seed", 1))
                    if cfg["p"] == 1 and cfg["mc"] == 0: out = {"value": go(), "verdict": "ok"}
                    else: out, _ = vmp.run_scheduled(go, vsched.random_policy(random.Random(sseed)))
                    ctx.case(json.dumps([si, where, order, cfg]))
                    if out["verdict"] != "ok" or "error" in out:
                        ctx.violation("run-failed", "Experiment.run did not complete: %s %r" % (out["verdict"], out.get("error")), case); continue
                    got = rows_by_triple(out["value"])
                    reports = [str(x) for x in logsink.items if "fails" in str(x)]       # every injected failure says "fails"
                    bad = None
                    for t in shape["tr"]:
                        t = tuple(t)
                        if got.get(t, []) != solo[t]:
                            bad = "triple %s: %d rows in the experiment vs %d rows when evaluated alone%s" % (t, len(got.get(t, [])), len(solo[t]), _first_diff(got.get(t, []), solo[t]))
                            break
                    case["isolation"] = bad
                    for k, l in shared.items():
                        if pickle.dumps(l) != before[k]:
                            case["isolation"] = (bad or "") + " a learner object listed in several triples was modified by the run"
                    # the run as a history for TLC: ids are positions of first appearance in the permuted list
                    emap = {}; lmap = {}; vmap = {}
                    for (e, l, v) in pshape["tr"]:
                        emap.setdefault(e, len(emap)); lmap.setdefault(l, len(lmap)); vmap.setdefault(v, len(vmap))
                    ctr = [[emap[e], lmap[l], vmap[v]] for (e, l, v) in pshape["tr"]]
                    inv_e = {v: k for k, v in emap.items()}
                    cch = [shape["ch"][inv_e[i]] for i in range(len(emap))]
                    cfail = [[emap[e], lmap[l], vmap[v]] for (e, l, v) in shape["fail"] if e in emap and l in lmap and v in vmap]
                    keys = [k for k, _ in explib.log_records(open(f).read().splitlines())]
                    evals = []
                    for ln in open(side).read().splitlines():
                        e, l, v = json.loads(ln); evals.append(["I", emap[e], lmap[l], vmap[v]])
                    run = dict(cfg=dict(p=min(cfg["p"], 3), mt=cfg["mt"], ip=(cfg["p"] == 1 and cfg["mc"] == 0)), recs=keys, evals=evals, end="done", torn=0, tornk=["none"], nrep=len(reports))
                    traces.append(dict(shape=dict(tr=ctr, ch=cch, fail=cfail), runs=[run])); meta.append(case)
    if traces: ctx.sample(traces[-1], limit=2)
    rej = tracecheck.validate(ctx, "ExperimentLogTrace", "ExperimentLogTrace.cfg", traces, name="c03_trace", workers=16)
    rejected = set()
    for i, reason, pos in rej:
        rejected.add(i)
        run0 = traces[i]["runs"][0]; nfail = sum(1 for e in run0["evals"] if e[1:] in traces[i]["shape"]["fail"])
        hint = "" if run0["nrep"] == nfail else " [the log received %d exception reports for %d failing evaluations]" % (run0["nrep"], nfail)
        ctx.violation("trace-rejected" if not hint else "failure-not-reported", "%s (position code %s)%s; isolation: %s; history=%s" % (reason, pos, hint, meta[i]["isolation"], json.dumps(traces[i]["runs"])[:500]), dict(meta[i], trace=traces[i]))
    for i, m in enumerate(meta):
        if m["isolation"] and i not in rejected:
            ctx.violation("not-isolated", m["isolation"], dict(m, trace=traces[i]))
    ctx.assumptions += ["learners whose deepcopy / pickle is itself wrong are user code outside the property", "multi-process runs are on the virtual layer (real spawn is exercised by C01 and C08)"]


def _first_diff(a, b):
    for i, (x, y) in enumerate(zip(a, b)):
        if x != y: return "; first difference at row %d: %s vs %s" % (i + 1, json.dumps(x, default=str)[:160], json.dumps(y, default=str)[:160])
    return ""
