"""X07 - the `Environments` container as an algebra of pipelines: spec/EnvAlgebra.tla (+ MC_EnvAlgebra.tla, EnvAlgebra.cfg).

EnvAlgebra.tla models an Environments object as a sequence of pipelines, a pipeline as a sequence of stages (tagged records
kind + integer arguments + string arguments) and has one operator per public call of coba/environments/core.py class
Environments: the filter shortcuts (binary .. filter), the static constructors, Environments(..) over sources / over pipelines
taken out by indexing / over Environments objects, slices, `+`, len / iteration / integer index / str / reversed.  A behaviour
is a history of calls on a growing store of objects (any earlier object is the receiver / the second operand of a later call).
TLC enumerates the histories, checks the laws of the algebra in every state (lengths multiply and the documented order, the
receiver - every object - unchanged, stages only ever added at the end, `+` associative, Python's slicing laws, Finalize
exactly once and never stored by iteration, params keys) and prints every history with the pipelines expected after every
call.  Six deliberately broken designs must be rejected.

The driver replays every history on REAL objects.  After EVERY call: the stored pipelines of the result (class + the
constructor arguments each stage exposes), len, two iterations, every integer index (and the IndexError one past the end),
str numbering, the params of every pipeline (spec: keys after the numbering of clashes; values: the real stages' own), the
receiver and the second operand re-read and compared with the spec, every other object checked for identity of its stage
lists.  For the `read` alphabets every pipeline is also READ and compared with the spec's stage sequence applied naively
(fresh real filters built from the spec's records, one after the other, over a fresh source).  All spellings the docstrings
allow for one call (positional / keyword, int / list / tuple / range / generator / several positionals, seed= / seeds= / n=,
defaults, empty lists) are separate calls that the spec maps to the same meaning."""
import collections, hashlib, io, itertools, json, os, random, re
from concurrent.futures import ThreadPoolExecutor
from .. import tlc, tracecheck

FINISH = dict(level="model_checking",
              rule="a case = one TLC-generated history of Environments calls replayed on real objects (every call compared); distinct = distinct (run, history)")

NONE_I = 99
ACTIONS = ["Shortcut", "Construct_", "GetSlice", "Add", "Wrap", "Observe"]
INVARIANTS = ["OrderLaw", "ConstructLaw", "PrefixLaw", "AddLaws", "SliceLaws", "FinalizeOnce", "NoStrayFin", "SourceFirst", "ParamLaw", "ObserveLaw"]
GUARDS = [  # variant, what, the laws switched off for the run, the law that must reject it
    ("shuffle_iter", "shuffle orders the ITERATION of its result (a Finalize stage is stored in every pipeline)", ["OrderLaw"], {"NoStrayFin"}),
    ("value_major", "filter([f1,f2]) in value-major order", [], {"OrderLaw"}),
    ("inplace", "a shortcut extends the receiver's own pipelines", ["OrderLaw", "PrefixLaw"], {"ReceiverUnchanged"}),
    ("fin_always", "iteration appends Finalize without looking", ["ObserveLaw"], {"FinalizeOnce"}),
    ("slice_fin", "a slice returns finalized pipelines", ["NoStrayFin"], {"SliceLaws"}),
    ("iter_mutates", "iteration stores the finalized pipelines in the receiver", ["NoStrayFin", "ObserveLaw"], {"ReceiverUnchanged"})]
_COVX = re.compile(r"^<(\w+) line \d+, col \d+ to line \d+, col \d+ of module \w+(?: \([\d ]+\))?>: (\d+):(\d+)")


# ------------------------------------------------------------------ real objects for the spec's records
class Src:
    """a user's own environment (like the TestEnvironment1 of the repository's tests)"""
    def __init__(self, i): self.i = i
    @property
    def params(self): return {"id": self.i}
    def read(self): return []
    def __str__(self): return "Src%d" % self.i


def _ctx(i): return [float(i), float((i * 3) % 5), float(i % 2)]
def _acts(i, c): return [(1, 0), (0, 1)]
def _rwd(i, c, a): return float((i + a[1]) % 3)
def _ctx_r(i, rng): return [float(i), round(rng.random(), 3), float(i % 2)]
def _acts_r(i, c, rng): return [(1, 0), (0, 1)]
def _rwd_r(i, c, a, rng): return round(rng.random(), 3) + a[0]


_LIB = {}


def lib():
    """the coba names used here (imported late: PYTHONPATH is set by ./check)"""
    if _LIB: return _LIB
    import coba.pipes as P
    import coba.environments as E
    import coba.environments.filters as F
    from coba.environments import Environments
    from coba.learners import FixedLearner, RandomLearner
    from coba.context import CobaContext, NullLogger
    from coba.primitives import EnvironmentFilter

    class UF(EnvironmentFilter):
        """a user's own filter"""
        def __init__(self, i): self.i = i
        @property
        def params(self): return {"uf": self.i}
        def filter(self, interactions): return interactions
        def __str__(self): return "UF%d" % self.i
    CobaContext.logger = NullLogger()
    _LIB.update(P=P, E=E, F=F, Environments=Environments, UF=UF, CobaContext=CobaContext,
                learners={1: FixedLearner([1, 0]), 2: RandomLearner()})
    return _LIB


def nn(v): return None if v == -1 else v
def nb(v): return bool(v)
def ni(v): return -1 if v is None else (int(v) if isinstance(v, bool) else v)
NOISE = {0: None, 1: (0, 1), 2: ("g", 0, 1), 3: ("i", 0, 1)}
NOISE_R = {None: 0, (0, 1): 1, ("g", 0, 1): 2, ("i", 0, 1): 3}
STAT = {1: "mean", 2: "median", 3: "mode"}
OPE = {0: None, 1: "IPS"}
_X, _Y = [1.0, 2.0, 3.0], [2.0, 3.0, 4.0]


def logseed(v): return None if v == -1 else v / 100


def make(st, L=None):
    """a FRESH real pipe for a stage record of the spec (used for the initial store and for the naive reading)"""
    L = L or lib(); F = L["F"]; E = L["E"]; k, a, s = st["k"], st["a"], st["s"]
    if k == "Src": return Src(a[0])
    if k == "Lambda":
        return E.LambdaSimulation(a[0], _ctx, _acts, _rwd) if a[1] == -1 else E.LambdaSimulation(a[0], _ctx_r, _acts_r, _rwd_r, a[1])
    if k == "Linear": return E.LinearSyntheticSimulation(a[0], a[1], a[2], a[3], a[4], list(s), a[5])
    if k == "Bandit": return E.BanditSyntheticSimulation(nn(a[0]), a[1], a[2])
    if k == "Neighbors": return E.NeighborsSyntheticSimulation(a[0], a[1], a[2], a[3], a[4], a[5])
    if k == "Kernel": return E.KernelSyntheticSimulation(a[0], a[1], a[2], a[3], a[4], s[0], a[5], a[6], a[7])
    if k == "MLP": return E.MLPSyntheticSimulation(a[0], a[1], a[2], a[3], a[4])
    if k == "Supervised": return E.SupervisedSimulation(_X, _Y, None if s[0] == "None" else s[0])
    if k == "Binary": return F.Binary()
    if k == "Sparsify": return F.Sparsify(nb(a[0]), nb(a[1]))
    if k == "Densify": return F.Densify(a[0], s[0], nb(a[1]), nb(a[2]))
    if k == "Shuffle": return F.Shuffle(a[0])
    if k == "Sort": return F.Sort(*a)
    if k == "Riffle": return F.Riffle(a[0], a[1])
    if k == "Cycle": return F.Cycle(a[0])
    if k == "Params": return F.Params({s[0]: a[0]})
    if k == "Take": return F.Take(a[0], nb(a[1]))
    if k == "Slice": return F.Slice(nn(a[0]), nn(a[1]), a[2])
    if k == "Reservoir": return F.Reservoir(a[0], strict=nb(a[2]), seed=a[1])
    if k == "Scale": return F.Scale(s[0], s[1], s[2], nn(a[0]))
    if k == "Impute": return F.Impute(s[0], nb(a[0]), nn(a[1]))
    if k == "Where": return F.Where(n_interactions=nn(a[0]), n_actions=nn(a[1]), n_features=nn(a[2]))
    if k == "Noise": return F.Noise(NOISE[a[0]], NOISE[a[1]], NOISE[a[2]], a[3])
    if k == "Flatten": return F.Flatten()
    if k == "Grounded": return F.Grounded(*a)
    if k == "Repr": return F.Repr(s[0], s[1])
    if k == "Batch": return F.Batch(a[0], s[0])
    if k == "Unbatch": return F.Unbatch()
    if k == "Chunk": return F.Chunk()
    if k == "ECache": return F.Cache(a[0])
    if k == "PCache": return L["P"].Cache(nn(a[0]), nb(a[1]))
    if k == "Logged": return F.Logged(L["learners"][a[0]], logseed(a[1]))
    if k == "OpeRewards": return F.OpeRewards(None if s[0] == "None" else s[0])
    if k == "F": return L["UF"](a[0])
    if k == "Fin": return F.BatchSafe(F.Finalize())
    raise AssertionError(k)


def extract(o, L):
    """what a REAL stage object is: (kind, integer arguments, string arguments) in the spec's terms; ('?<class>',..) when it is none of them"""
    F = L["F"]; E = L["E"]; P = L["P"]; t = type(o)
    try:
        if t is Src: return ("Src", [o.i], [])
        if t is E.LambdaSimulation: return ("Lambda", [o._n_interactions, getattr(o, "_seed", -1)], [])
        if t is E.LinearSyntheticSimulation:
            return ("Linear", [o._n_interactions, o._n_actions, o._n_context_features, o._n_action_features, o._n_coefficients, o._seed], list(o._reward_features))
        if t is E.BanditSyntheticSimulation: return ("Bandit", [ni(o._n_interactions), o._n_actions, o._seed], [])
        if t is E.NeighborsSyntheticSimulation:
            return ("Neighbors", [o._n_interactions, o._n_actions, o._n_context_feats, o._n_action_feats, o._n_neighborhoods, o._seed], [])
        if t is E.KernelSyntheticSimulation:
            return ("Kernel", [o._n_interactions, o._n_actions, o._n_context_features, o._n_action_features, o._n_exemplars, o._degree, o._gamma, o._seed], [o._kernel])
        if t is E.MLPSyntheticSimulation: return ("MLP", [o._n_interactions, o._n_actions, o._n_context_features, o._n_action_features, o._seed], [])
        if t is E.SupervisedSimulation: return ("Supervised", [], [str(o._label_type)])
        if t is F.Binary: return ("Binary", [], [])
        if t is F.Sparsify: return ("Sparsify", [ni(o._context), ni(o._action)], [])
        if t is F.Densify: return ("Densify", [o._n_feats, ni(o._context), ni(o._action)], [o._method])
        if t is F.Shuffle: return ("Shuffle", [o._seed], [])
        if t is F.Sort: return ("Sort", list(o._keys), [])
        if t is F.Riffle: return ("Riffle", [o._spacing, o._seed], [])
        if t is F.Cycle: return ("Cycle", [o._after], [])
        if t is F.Params: return ("Params", list(o._params.values()), list(o._params.keys()))
        if t is F.Take: return ("Take", [o._count, ni(o._strict)], [])
        if t is F.Slice: return ("Slice", [ni(o._start), ni(o._stop), o._step], [])
        if t is F.Reservoir: return ("Reservoir", [o._count, o._seed, ni(o._strict)], [])
        if t is F.Scale: return ("Scale", [ni(o._using)], [o._shift, o._scale, o._target])
        if t is F.Impute: return ("Impute", [ni(o._miss), ni(o._using)], [o._stat])
        if t is F.Where: return ("Where", [ni(o._n_interactions), ni(o._n_actions), ni(o._n_features)], [])
        if t is F.Noise: return ("Noise", [NOISE_R.get(o._args[0], -7), NOISE_R.get(o._args[1], -7), NOISE_R.get(o._args[2], -7), o._args[3]], [])
        if t is F.Flatten: return ("Flatten", [], [])
        if t is F.Grounded: return ("Grounded", [o._n_users, o._n_normal, o._n_words, o._n_good, o._seed], [])
        if t is F.Repr: return ("Repr", [], [o._cat_context, o._cat_actions])
        if t is F.Batch: return ("Batch", [o._batch_size], [o._batch_type])
        if t is F.Unbatch: return ("Unbatch", [], [])
        if t is F.Chunk: return ("Chunk", [], [])
        if t is F.Cache: return ("ECache", [ni(o._n_slice), ni(o._protected)], [])
        if t is P.Cache: return ("PCache", [ni(o._n_slice), ni(o._protected)], [])
        if t is F.Logged:
            lid = [k for k, v in L["learners"].items() if v is o._learner]
            return ("Logged", [lid[0] if lid else 0, -1 if o._seed is None else int(round(o._seed * 100))], [])
        if t is F.OpeRewards: return ("OpeRewards", [], [o._rwd_type or "None"])
        if t is L["UF"]: return ("F", [o.i], [])
        if t is F.BatchSafe and type(o._filter) is F.Finalize: return ("Fin", [], [])
    except Exception as e:
        return ("?%s:%s" % (t.__name__, type(e).__name__), [], [])
    return ("?" + t.__name__, [], [])


def spec_stage(st): return (st["k"], [] if st["k"] == "Fin" else list(st["a"]), list(st["s"]))
def spec_pipes(res): return [[spec_stage(st) for st in p] for p in res]
def nofin(pipes): return [[st for st in p if st[0] != "Fin"] for p in pipes]
def show_pipe(p): return " | ".join(k + ("(%s)" % ",".join(map(str, a + s)) if a or s else "") for k, a, s in p)
def show_pipes(ps): return "[" + "; ".join(show_pipe(p) for p in ps) + "]"


# ------------------------------------------------------------------ how a call of the spec is spelled in Python
SIG = {  # op -> [(python name, where the value comes from, index, conversion)]
    "binary": [], "flatten": [], "unbatch": [], "cache": [], "materialize": [],
    "sparse": [("context", "x", 0, nb), ("action", "x", 1, nb)],
    "dense": [("n_feats", "x", 0, int), ("method", "y", 0, str), ("context", "x", 1, nb), ("action", "x", 2, nb)],
    "riffle": [("spacing", "x", 0, int), ("seed", "x", 1, int)],
    "take": [("n_interactions", "x", 0, int), ("strict", "x", 1, nb)],
    "slice": [("start", "x", 0, nn), ("stop", "x", 1, nn), ("step", "x", 2, int)],
    "reservoir": [("n_interactions", "x", 0, int), ("seeds", "v", None, int), ("strict", "x", 1, nb)],
    "scale": [("shift", "y", 0, str), ("scale", "y", 1, str), ("targets", "y", 2, str), ("using", "x", 0, nn)],
    "impute": [("stats", "v", None, STAT.get), ("indicator", "x", 0, nb), ("using", "x", 1, nn)],
    "where": [("n_interactions", "x", 0, nn), ("n_actions", "x", 1, nn), ("n_features", "x", 2, nn)],
    "noise": [("context", "x", 0, NOISE.get), ("action", "x", 1, NOISE.get), ("reward", "x", 2, NOISE.get), ("seed", "v", None, int)],
    "grounded": [("n_users", "x", 0, int), ("n_normal", "x", 1, int), ("n_words", "x", 2, int), ("n_good", "x", 3, int), ("seed", "x", 4, int)],
    "repr": [("cat_context", "y", 0, str), ("cat_actions", "y", 1, str)],
    "batch": [("batch_size", "x", 0, int), ("batch_type", "y", 0, str)],
    "chunk": [("cache", "x", 0, nb)],
    "logged": [("learners", "v", None, "learner"), ("seed", "x", 0, logseed)],
    "ope": [("rewards_type", "v", None, OPE.get)],
    "filter": [("filter", "v", None, "filter")],
    "cycle": [("after", "v", None, int)],
    "from_linear": [("n_interactions", "x", 0, int), ("n_actions", "x", 1, int), ("n_context_features", "x", 2, int), ("n_action_features", "x", 3, int),
                    ("n_coefficients", "x", 4, int), ("reward_features", "ylist", None, None), ("seed", "v", None, int)],
    "from_bandit": [("n_interactions", "x", 0, nn), ("n_actions", "x", 1, int), ("seed", "v", None, int)],
    "from_neighbors": [("n_interactions", "x", 0, int), ("n_actions", "x", 1, int), ("n_context_features", "x", 2, int), ("n_action_features", "x", 3, int),
                       ("n_neighborhoods", "x", 4, int), ("seed", "v", None, int)],
    "from_kernel": [("n_interactions", "x", 0, int), ("n_actions", "x", 1, int), ("n_context_features", "x", 2, int), ("n_action_features", "x", 3, int),
                    ("n_exemplars", "x", 4, int), ("kernel", "y", 0, str), ("degree", "x", 5, int), ("gamma", "x", 6, int), ("seed", "v", None, int)],
    "from_mlp": [("n_interactions", "x", 0, int), ("n_actions", "x", 1, int), ("n_context_features", "x", 2, int), ("n_action_features", "x", 3, int),
                 ("seed", "v", None, int)],
}
KWONLY = {"where"}
STATIC = {"from_linear": "from_linear_synthetic", "from_bandit": "from_bandit_synthetic", "from_neighbors": "from_neighbors_synthetic",
          "from_kernel": "from_kernel_synthetic", "from_mlp": "from_mlp_synthetic"}
METHOD = {"ope": "ope_rewards"}


def multi(vf, vals):
    """the multi-valued argument in the spelling vf"""
    if vf in ("one",): return vals[0]
    if vf in ("list",): return list(vals)
    if vf == "tuple": return tuple(vals)
    if vf == "range": return range(vals[0])
    if vf == "gen": return (v for v in list(vals))
    raise AssertionError(vf)


def spell(c, L):
    """-> (args, kwargs, text) for a call whose op is in SIG"""
    given = []
    for name, src, idx, conv in SIG[c["op"]]:
        if src == "x" and idx < len(c["x"]): given.append((name, conv(c["x"][idx])))
        elif src == "y" and idx < len(c["y"]): given.append((name, conv(c["y"][idx])))
        elif src == "ylist" and c["y"]: given.append((name, list(c["y"])))
        elif src == "v" and c["vf"] != "omit":
            if conv == "learner": vals = [L["learners"][v] for v in c["v"]]
            elif conv == "filter": vals = [make(dict(k="Fin", a=[1], s=[]), L) if v == 9 else c["_uf"][v] for v in c["v"]]
            elif c["vf"] == "range": vals = list(c["v"])
            else: vals = [conv(v) for v in c["v"]]
            given.append((name, multi(c["vf"], vals)))
    names = [s[0] for s in SIG[c["op"]]]
    args, kwargs = [], {}
    positional = c["f"] == "p" and c["op"] not in KWONLY
    for i, (name, val) in enumerate(given):
        if positional and name == names[i] and len(args) == i: args.append(val)
        else: kwargs[name] = val
    return args, kwargs


def text_of(c):
    return "%s[%s x=%s y=%s %s=%s]" % (c["op"], c["f"], c["x"], c["y"], c["vf"], c["v"])


def do_call(c, R, Q, L):
    """perform the call on the real receiver R (second operand Q) -> the real result"""
    Environments = L["Environments"]; op = c["op"]; vf = c["vf"]; v = c["v"]
    if op == "shuffle":
        if vf == "omit": return R.shuffle()
        if vf == "one": return R.shuffle(v[0])
        if vf == "kwone": return R.shuffle(seed=v[0])
        if vf == "kwsone": return R.shuffle(seeds=v[0])
        if vf == "list": return R.shuffle(list(v))
        if vf == "tuple": return R.shuffle(tuple(v))
        if vf == "varargs": return R.shuffle(*v)
        if vf == "kwlist": return R.shuffle(seeds=list(v))
        if vf == "kwseedlist": return R.shuffle(seed=list(v))
        if vf == "range": return R.shuffle(range(v[0]))
        if vf == "kwrange": return R.shuffle(seeds=range(v[0]))
        if vf == "gen": return R.shuffle(s for s in list(v))
        if vf == "kwgen": return R.shuffle(seeds=(s for s in list(v)))
        if vf == "n": return R.shuffle(n=v[0])
        raise AssertionError(vf)
    if op == "sort":
        if vf == "omit": return R.sort()
        if vf == "one": return R.sort(v[0])
        if vf == "varargs": return R.sort(*v)
        if vf == "list": return R.sort(list(v))
        raise AssertionError(vf)
    if op == "params":
        d = {c["y"][0]: c["x"][0]}
        return R.params(d) if c["f"] == "p" else R.params(params=d)
    if op in ("from_custom", "ctor"):
        fn = Environments.from_custom if op == "from_custom" else Environments
        srcs = [Src(i) for i in v]
        if vf == "varargs": return fn(*srcs)
        if vf == "list": return fn(srcs)
        if vf == "tuple": return fn(tuple(srcs))
        if vf == "gen": return fn(s for s in srcs)
        if vf == "mixed": return fn(srcs[0], srcs[1:]) if len(srcs) > 1 else fn([srcs[0]])
        raise AssertionError(vf)
    if op == "from_lambda":
        seeded = len(c["x"]) > 1 and c["x"][1] != -1
        fs = (_ctx_r, _acts_r, _rwd_r) if seeded else (_ctx, _acts, _rwd)
        if c["f"] == "p": return Environments.from_lambda(c["x"][0], *fs, *([c["x"][1]] if seeded else []))
        kw = dict(n_interactions=c["x"][0], context=fs[0], actions=fs[1], reward=fs[2])
        if seeded: kw["seed"] = c["x"][1]
        return Environments.from_lambda(**kw)
    if op == "from_supervised":
        if not c["y"]: return Environments.from_supervised(_X, _Y)
        return Environments.from_supervised(_X, _Y, c["y"][0]) if c["f"] == "p" else Environments.from_supervised(_X, _Y, label_type=c["y"][0])
    if op == "getslice":
        a, b, s = [None if z == NONE_I else z for z in c["x"]]
        return R[a:b:s]
    if op == "add": return R + Q
    if op == "wrap_iter": return Environments(R) if Q is None else Environments(R, Q)
    if op == "wrap_idx":
        if vf == "varargs": return Environments(*[R[i] for i in v])
        if vf == "list": return Environments([R[i] for i in v])
        if vf == "gen": return Environments(R[i] for i in v)
        raise AssertionError(vf)
    args, kwargs = spell(c, L)
    if op in STATIC: return getattr(Environments, STATIC[op])(*args, **kwargs)
    return getattr(R, METHOD.get(op, op))(*args, **kwargs)


# ------------------------------------------------------------------ replay of one history
class Mismatch(Exception):
    def __init__(self, sig, what): self.sig = sig; self.what = what


def stored(o, L): return [[extract(st, L) for st in p] for p in o._envs]
def ident(o): return [tuple(map(id, p)) for p in o._envs]


def classify(got, exp):
    """a short stable name for how the stored pipelines differ from the spec's - Finalize stages aside (they are judged separately)"""
    if any(st[0].startswith("?") for p in got for st in p): return "unknown-stage"
    g, e = nofin(got), nofin(exp)
    if g == e: return None
    if len(g) != len(e): return "count"
    key = lambda p: json.dumps(p)
    if sorted(map(key, g)) == sorted(map(key, e)): return "order"
    if [[st[0] for st in p] for p in g] == [[st[0] for st in p] for p in e]: return "arguments"
    return "stages"


def fin_class(got, exp):
    """how the Finalize stages of pipelines that are otherwise the spec's differ"""
    if got == exp: return None
    ng = sum(st[0] == "Fin" for p in got for st in p); ne = sum(st[0] == "Fin" for p in exp for st in p)
    return "finalize-stored" if ng > ne else "finalize-missing" if ng < ne else "finalize-position"


def canon(o, depth=0):
    """interactions as plain comparable data"""
    if isinstance(o, dict): return {str(k): canon(v, depth + 1) for k, v in o.items()}
    if isinstance(o, (list, tuple)): return [canon(v, depth + 1) for v in o]
    if isinstance(o, float): return round(o, 9)
    if o is None or isinstance(o, (int, str, bool)): return o
    if depth > 8: return repr(o)
    d = getattr(o, "__dict__", None)
    if d is not None: return [type(o).__name__, canon({k: v for k, v in d.items() if not callable(v)}, depth + 1)]
    sl = [s for s in getattr(type(o), "__slots__", ()) if hasattr(o, s)]
    if sl: return [type(o).__name__, canon({s: getattr(o, s) for s in sl}, depth + 1)]
    return repr(o)


def outcome(f):
    try: return ("ok", canon(list(f())))
    except Exception as e: return ("raise", type(e).__name__)


def naive_read(pipe, L):
    """the spec's stage sequence applied one stage after the other (fresh real pipes)"""
    def go():
        items = make(pipe[0], L).read()
        for st in pipe[1:]: items = make(st, L).filter(items)
        return items
    return outcome(go)


def check_object(o, exp, finadd, keys, L, op, tainted, read=None):
    """everything a user can see of ONE Environments object against the spec's record"""
    FIN = ("Fin", [], [])
    n = len(exp)
    if len(o) != n: raise Mismatch("len", "len() = %d, the spec has %d pipelines" % (len(o), n))
    if tainted:       # a Finalize stage is stored where none belongs (reported already): the finalized views are not compared any more
        return
    views = [exp[i] + ([FIN] if finadd[i] else []) for i in range(n)]
    for rnd in (1, 2):
        got = [[extract(st, L) for st in p] for p in o]
        if got != views:
            raise Mismatch("iter:finalize" if nofin(got) == nofin(views) else "iter:pipelines",
                           "iteration #%d gives %s, expected %s" % (rnd, show_pipes(got), show_pipes(views)))
    if stored(o, L) != exp: raise Mismatch("iteration-changed-the-object", "after two iterations the object holds %s, the spec %s" % (show_pipes(stored(o, L)), show_pipes(exp)))
    for i in list(range(n)) + ([-1, -n] if n else []):
        got = [extract(st, L) for st in o[i]]
        if got != views[i]:
            raise Mismatch("index:finalize" if nofin([got]) == nofin([views[i]]) else "index:pipeline", "[%d] gives %s, expected %s" % (i, show_pipe(got), show_pipe(views[i])))
    for i in (n, -n - 1):
        try:
            o[i]
            raise Mismatch("index:no-IndexError", "[%d] of %d pipelines raised nothing" % (i, n))
        except IndexError: pass
    rev = [[extract(st, L) for st in p] for p in reversed(o)]
    if rev != views[::-1]: raise Mismatch("reversed", "reversed() gives %s" % show_pipes(rev))
    lines = ["%d. %s" % (i + 1, " | ".join([str(st) for st in o._envs[i]] + (["BatchSafe(Finalize())"] if finadd[i] else []))) for i in range(n)]
    if str(o) != "\n".join(lines): raise Mismatch("str", "str() = %r, expected %r" % (str(o), "\n".join(lines)))
    for i in range(n):
        sup = exp[i][0][0] == "Supervised"       # a SupervisedSimulation adds 'n_actions' to its OWN params when it is first read (materialize reads): not compared
        own = lambda st: [(k, v) for k, v in st.params.items() if not (sup and type(st).__name__ == "SupervisedSimulation" and k == "n_actions")]
        vals = [v for st in o._envs[i] if hasattr(st, "params") for _, v in own(st)]
        if len(vals) != len(keys[i]):
            raise Mismatch("params:keys", "pipeline %d %s: its stages have %d params, the spec names the keys %s" % (i, show_pipe(exp[i]), len(vals), keys[i]))
        want = list(zip(keys[i], vals))
        for which, p in (("stored", o._envs[i]), ("indexed", o[i])):
            got = [(k, v) for k, v in p.params.items() if not (sup and k == "n_actions")]
            if got != want:
                raise Mismatch("params:merge", "params of the %s pipeline %d %s = %s, expected %s" % (which, i, show_pipe(exp[i]), dict(got), dict(want)))
    if stored(o, L) != exp: raise Mismatch("observation-changed-the-object", "after len / iteration / index / str the object holds %s" % show_pipes(stored(o, L)))
    if read is not None:
        for i in range(n):
            if any(st[0] == "Logged" and st[1][1] == -1 for st in views[i]): continue      # a random seed: not repeatable
            want = naive_read(read[i], L)
            got = outcome(lambda: o[i].read())
            if got != want:
                raise Mismatch("read:%s" % ("raises" if got[0] != want[0] else "differs"),
                               "reading pipeline %d %s gives %s, its stages applied one after the other give %s" % (i, show_pipe(views[i]), str(got)[:300], str(want)[:300]))


SIZED = {"from_linear", "from_bandit", "from_neighbors", "from_kernel", "from_mlp", "from_lambda"}


def replay(h, L, read=False, read_sources=False):
    """-> None or (signature, text, step number)"""
    Environments = L["Environments"]
    objs = []; spec = []; taint = []
    for E0 in h["start"]:
        o = Environments(*[make(p[0], L) for p in E0]) if E0 else Environments()
        objs.append(o); spec.append(spec_pipes(E0)); taint.append(False)
    snaps = [ident(o) for o in objs]
    ufs = {1: L["UF"](1), 2: L["UF"](2)}
    reported = []
    for k, s in enumerate(h["steps"]):
        c = dict(s["c"]); c["_uf"] = ufs; op = c["op"]
        r, q = s["r"], s["q"]
        R = objs[r - 1] if r else None; Q = objs[q - 1] if q else None
        where = "step %d %s on object %s%s" % (k + 1, text_of(s["c"]), r, " and %d" % q if q else "")
        exp = spec_pipes(s["res"])
        try:
            if s["kind"] == "obs":
                rt = taint[r - 1]
                if op == "len":
                    if len(R) != s["val"][0]: raise Mismatch("len", "len() = %d, expected %d" % (len(R), s["val"][0]))
                elif op in ("iter", "reversed", "str"):
                    got = [[extract(st, L) for st in p] for p in (reversed(R) if op == "reversed" else R)]
                    if (nofin(got) != nofin(exp)) if rt else (got != exp):
                        raise Mismatch("%s:%s" % (op, "finalize" if nofin(got) == nofin(exp) else "pipelines"), "gives %s, expected %s" % (show_pipes(got), show_pipes(exp)))
                    if op == "str":
                        ls = str(R).split("\n") if len(R) else []
                        if len(ls) != len(s["val"]) or any(not l.startswith("%d. " % m) for l, m in zip(ls, s["val"])):
                            raise Mismatch("str", "str() = %r, expected lines numbered %s" % (str(R), s["val"]))
                elif op == "index":
                    try:
                        got = [extract(st, L) for st in R[c["x"][0]]]; err = ""
                    except IndexError: got = None; err = "IndexError"
                    if err != s["err"]: raise Mismatch("index:IndexError", "[%d] %s, the spec says %s" % (c["x"][0], err or "raised nothing", s["err"] or "a pipeline"))
                    if not err and ((nofin([got]) != nofin(exp)) if rt else ([got] != exp)):
                        raise Mismatch("index:%s" % ("finalize" if nofin([got]) == nofin(exp) else "pipeline"), "[%d] gives %s, expected %s" % (c["x"][0], show_pipe(got), show_pipes(exp)))
                new = None
            else:
                try: new = do_call(c, R, Q, L)
                except Mismatch: raise
                except Exception as e:
                    if op == "materialize" and any(naive_read([dict(k=st[0], a=st[1], s=st[2]) for st in p], L) == ("raise", type(e).__name__) for p in spec[r - 1]):
                        return reported or None         # materialize READS: a pipeline that cannot be read is outside its domain (the rest of the history is void)
                    dflt = c["vf"] == "omit" or (op == "ope" and c["vf"] == "one" and c["v"] == [0])
                    raise Mismatch("%s:raises:%s%s" % (op, type(e).__name__, ":default-argument" if dflt else ""),
                                   "raised %s: %s (the spec returns %s)" % (type(e).__name__, str(e)[:120], show_pipes(exp)))
                if not isinstance(new, Environments): raise Mismatch("%s:not-Environments" % op, "returned %r" % (type(new).__name__,))
                got = stored(new, L)
                cls = classify(got, exp)
                t = (taint[r - 1] if r else False) or (taint[q - 1] if q else False)
                if cls:
                    if op == "shuffle" and cls == "order" and any(st[0] == "Shuffle" for p in spec[r - 1] for st in p): cls += ":receiver-already-shuffled"
                    if op == "shuffle" and cls == "count" and not Vals(c): cls = "no-seeds:default-seed-used"
                    raise Mismatch("%s:%s" % (op, cls), "the result holds %s, expected %s" % (show_pipes(got), show_pipes(exp)))
                fc = fin_class(got, exp)
                if fc and not t:
                    # every pipeline is the spec's but for its Finalize stages: reported ONCE per history under the call that did it; the rest of the
                    # history is still compared (modulo the stage), so that the other laws are decided all the same
                    reported.append(("%s:%s" % (op, fc), "%s: the result holds %s, expected %s%s" % (where, show_pipes(got), show_pipes(exp),
                                     " (a BatchSafe(Finalize()) stage is STORED in the pipelines: every later stage lands behind it)" if fc == "finalize-stored" else ""), k + 1))
                t = t or bool(fc)
                objs.append(new); spec.append(exp); taint.append(t)
                if read_sources and s["c"]["op"] in SIZED:
                    # what a static constructor made can be read: n_interactions interactions (None: as many as asked for)
                    for i, p in enumerate(exp):
                        want = 2 if p[0][1][0] == -1 else min(2, p[0][1][0])
                        try: cnt = len(list(itertools.islice(new[i].read(), 2)))
                        except Exception as e:
                            raise Mismatch("%s:read-raises:%s%s" % (op, type(e).__name__, ":n_interactions-None" if p[0][1][0] == -1 else ""),
                                           "reading the first two interactions of %s raised %s: %s" % (show_pipe(p), type(e).__name__, str(e)[:100]))
                        if cnt != want: raise Mismatch("%s:read-count" % op, "%s gave %d interactions when asked for two" % (show_pipe(p), cnt))
                views = [[dict(st) for st in p] + ([dict(k="Fin", a=[0], s=[])] if fa else []) for p, fa in zip(s["res"], s["finadd"])] if read else None
                check_object(new, exp, s["finadd"], s["keys"], L, op, t, read=views)
            # nobody else changed: the operands are re-read, all other objects keep the very same stage objects
            for j, o in enumerate(objs[:len(snaps)]):
                operand = (j + 1) in (r, q)
                same = ident(o) == snaps[j]
                if same and operand:
                    now = stored(o, L)
                    same = (nofin(now) == nofin(spec[j])) if taint[j] else (now == spec[j])
                if not same:
                    raise Mismatch("%s:%s-changed" % (op, "receiver" if operand else "other-object"),
                                   "object %d now holds %s, it held %s" % (j + 1, show_pipes(stored(o, L)), show_pipes(spec[j])))
            if new is not None: snaps.append(ident(new))
        except Mismatch as m:
            return reported + [(m.sig, "%s: %s" % (where, m.what), k + 1)]
    return reported or None


def Vals(c):
    if c["vf"] == "omit": return {"shuffle": [1], "reservoir": [1], "noise": [1], "ope": [0], "impute": [1]}.get(c["op"], [1])
    if c["vf"] in ("range", "kwrange", "n"): return list(range(c["v"][0]))
    return list(c["v"])


def show(h): return " ; ".join("%s@%d%s" % (text_of(s["c"]), s["r"], "+%d" % s["q"] if s["q"] else "") for s in h["steps"])


# ------------------------------------------------------------------ the check
def runs_of(ctx):
    q = ctx.quick
    R = []
    def add(name, start, calls, ops, maxlen, sim=None, depth=None, read=False, cov=False, minimum=50, later=None):
        R.append(dict(name=name, read=read, sim=sim, depth=depth, cov=cov, minimum=minimum, sub={
            "Start <- S2": "Start <- %s" % start, "Calls <- AllForms": "Calls <- %s" % calls, "Later <- AllForms": "Later <- %s" % (later or calls),
            "MaxOps = 1": "MaxOps = %d" % ops, "MaxLen = 12": "MaxLen = %d" % maxlen}))
    if q:
        add("multi-deep", "S2", "MultiQuick", 3, 12)
        add("seq-deep", "S2", "SeqQuick", 3, 6)
        add("pairs", "S2", "Canon", 2, 12)
        add("read", "SL", "ReadCalls", 2, 8, read=True)
        add("forms-2src", "S2", "AllForms", 1, 12, cov=True)
        add("forms-1src", "S1", "AllForms", 1, 12)
        add("forms-3src", "S3", "AllForms", 1, 12)
        add("forms-empty", "S0", "AllForms", 1, 12)
        add("forms-sim", "S2", "AllForms", 3, 12, sim=dict(num=12), depth=4)
    else:
        add("forms-then-canon", "S2", "AllForms", 2, 12, later="Canon")
        add("canon-then-forms", "S2", "Canon", 2, 12, later="AllForms")
        add("multi-deep", "S2", "MultiDeep", 3, 24)
        add("seq-deep", "S3", "SeqDeep", 3, 8)
        add("seq-deeper", "S2", "SeqDeeper", 4, 6)
        add("pairs-3src", "S3", "Canon", 2, 16)
        add("read", "SL", "ReadCalls", 2, 8, read=True)
        add("read-1", "SL1", "ReadCalls", 2, 8, read=True)
        add("forms-2src", "S2", "AllForms", 1, 12, cov=True)
        add("forms-1src", "S1", "AllForms", 1, 12)
        add("forms-3src", "S3", "AllForms", 1, 12)
        add("forms-empty", "S0", "AllForms", 1, 12)
        add("forms-sim", "S3", "AllForms", 4, 12, sim=dict(num=30), depth=5)
        add("triples-sim", "S2", "Canon", 3, 12, sim=dict(num=100), depth=4)
        add("seq-sim", "S3", "SeqDeep", 6, 8, sim=dict(num=80), depth=7)
        add("multi-sim", "S3", "MultiDeep", 4, 24, sim=dict(num=60), depth=5)
        add("read-sim", "SL", "ReadCalls", 3, 8, sim=dict(num=30), depth=4, read=True)
    return R


def self_test(hs, L):
    """the binding is not vacuous: one corrupted field of one generated case that replays cleanly must be noticed"""
    def last_arg(h):
        st = h["steps"][0]["res"][1][-1]
        if st["a"]: st["a"][0] += 7
        else: st["k"] = "Binary" if st["k"] != "Binary" else "Flatten"
    muts = (("an argument of a stage", last_arg), ("the order", lambda h: h["steps"][0]["res"].reverse()),
            ("a params key", lambda h: h["steps"][0]["keys"][0].__setitem__(0, "idx")), ("finalize", lambda h: h["steps"][0]["finadd"].__setitem__(0, 0)),
            ("the length", lambda h: h["steps"][0]["res"].pop()))
    done = 0
    for base in hs:
        s0 = base["steps"][0]
        if s0["kind"] != "new" or len(s0["res"]) < 2 or len(s0["res"][0]) < 2 or s0["res"] == s0["res"][::-1] or not all(s0["finadd"]): continue
        if replay(base, L): continue
        for what, mut in muts:
            bad = json.loads(json.dumps(base)); mut(bad)
            if not replay(bad, L): raise RuntimeError("self-test: the case [%s] with %s corrupted is replayed without a mismatch - the comparison is vacuous" % (show(base), what))
        done += 1
        if done == 5: break
    if not done: return "skipped: no generated case replays cleanly on this tree (the violations are reported)"
    return "%d x %d corrupted copies of generated cases rejected" % (done, len(muts))


def _coverage(r):
    for ln in r.out.splitlines():
        m = _COVX.match(ln)
        if m:
            c = r.coverage.setdefault(m.group(1), [0, 0]); c[0] += int(m.group(2)); c[1] += int(m.group(3))


def run(ctx):
    L = lib()
    rng = random.Random(ctx.seed)
    RUNS = runs_of(ctx)

    # ---- 1. TLC: the algebra, its laws, its broken variants; every history with the pipelines after every call ----
    def tlc_job(job):
        name, sub, sim, depth, cov, guard = job
        cfg = tracecheck._cfg("EnvAlgebra.cfg", sub, ctx.scratch, "ea_%s.cfg" % name)
        kw = dict(simulate=sim, depth=depth, seed=ctx.seed) if sim else {}
        r = tlc.run("MC_EnvAlgebra", cfg, ctx.scratch, workers=1 if guard else (2 if ctx.quick else 4), timeout=3000, heap="4g", coverage=cov, **kw)
        if cov and not all(a in r.coverage for a in ACTIONS): _coverage(r)
        # the histories go to a file (one per line, duplicates of simulation runs dropped): nothing big stays in memory
        path = os.path.join(ctx.scratch, "ea_%s.hist" % name); seen = set(); k = 0
        with open(path, "w") as f:
            for ln in io.StringIO(r.out):
                if ln.startswith('"H{'):
                    line = json.loads(ln)[1:]; d = hashlib.md5(line.encode()).digest()
                    if d not in seen: seen.add(d); f.write(line + "\n"); k += 1
        r.json = []; r.out = ""
        return name, r, path, k
    jobs = [(r["name"], r["sub"], r["sim"], r["depth"], r["cov"], False) for r in RUNS]
    for g, _, off, _ in GUARDS:
        sub = {'Variant = "ok"': 'Variant = "%s"' % g, "Calls <- AllForms": "Calls <- GuardCalls", "Later <- AllForms": "Later <- GuardCalls",
               "MaxOps = 1": "MaxOps = 3", "MaxLen = 12": "MaxLen = 8"}
        sub.update({"INVARIANT %s\n" % law: "" for law in off})
        jobs.append(("guard-" + g, sub, None, None, False, True))
    ex = ThreadPoolExecutor(max_workers=4 if ctx.quick else 2)
    futures = {job[0]: ex.submit(tlc_job, job) for job in jobs}       # the replay below runs while later TLC runs are still busy
    need = {"binary", "sparse", "dense", "shuffle", "sort", "riffle", "cycle", "params", "take", "slice", "reservoir", "scale", "impute", "where", "noise",
            "flatten", "materialize", "grounded", "repr", "batch", "unbatch", "chunk", "logged", "ope", "cache", "filter", "from_linear", "from_bandit",
            "from_neighbors", "from_kernel", "from_mlp", "from_lambda", "from_supervised", "from_custom", "ctor", "getslice", "add", "wrap_idx", "wrap_iter",
            "len", "iter", "index", "str", "reversed"}
    ops_seen = collections.Counter(); forms_seen = set(); nhist = {}; total = 0; selftest = False
    for run_ in RUNS:
        _, r, path, nh = futures[run_["name"]].result()
        ctx.add_tlc("EnvAlgebra " + run_["name"], r, required_actions=ACTIONS if run_["cov"] else ())
        for v in r.violations:
            ctx.violation("spec:%s" % (v["name"] or v["kind"]), "EnvAlgebra.tla (%s) itself violates %s" % (run_["name"], v["name"] or v["kind"]), v["trace"][:60])
        if nh < run_["minimum"]: raise RuntimeError("EnvAlgebra %s produced only %d histories" % (run_["name"], nh))
        nhist[run_["name"]] = nh
        if not run_["sim"]: ctx.exhaustive = True if ctx.exhaustive is None else ctx.exhaustive
        if run_["name"] == "forms-2src": selftest = self_test([json.loads(l) for l in open(path)], L)
        # ---- every history on the real objects ----
        k = 0
        for line in open(path):
            h = json.loads(line); k += 1
            for s in h["steps"]:
                ops_seen[s["c"]["op"]] += 1; forms_seen.add((s["c"]["op"], s["c"]["f"], s["c"]["vf"]))
            total += 1
            ctx.case(run_["name"] + ":" + hashlib.md5(line.encode()).hexdigest()[:16])
            bad = replay(h, L, read=run_["read"], read_sources=run_["name"].startswith("forms-") and not run_["sim"])
            for sig, what, step in (bad or []):
                ctx.violation(sig, what + "   history: " + show(h), dict(run=run_["name"], start=h["start"], steps=[dict(c=s["c"], r=s["r"], q=s["q"]) for s in h["steps"]], failing_step=step))
            if k == max(1, nh // 2):
                ctx.sample(dict(run=run_["name"], history=show(h), last_result=show_pipes(spec_pipes(h["steps"][-1]["res"]))), limit=20)
        os.remove(path)
    for g, what, _, expect in GUARDS:
        r = futures["guard-" + g].result()[1]
        ctx.add_tlc("EnvAlgebra guard " + g, r)
        names = {v["name"] or v["kind"] for v in r.violations}
        if not (names & expect):
            raise RuntimeError("the broken design %r (%s) is not rejected by any of %s (got %s): the laws are vacuous" % (g, what, sorted(expect), sorted(names)))
    ex.shutdown()
    ctx.extra["guards_rejected"] = {g: sorted({v["name"] or v["kind"] for v in futures["guard-" + g].result()[1].violations}) for g, _, _, _ in GUARDS}
    if need - set(ops_seen): raise RuntimeError("operators of the spec never exercised: %s" % sorted(need - set(ops_seen)))
    if not selftest: raise RuntimeError("the self-test of the binding did not run")
    ctx.extra["histories"] = nhist
    ctx.extra["calls_per_operator"] = dict(sorted(ops_seen.items()))
    ctx.extra["spellings"] = len(forms_seen)
    ctx.extra["binding_selftest"] = selftest
    ctx.traces += total
    ctx.assumptions += [
        "sources are the user's own environments (params {'id': i}, empty read), LambdaSimulations of 5-6 interactions (dense numeric contexts, two one-hot actions) and the synthetic / supervised simulations of the static constructors (never read)",
        "arguments are the values of MC_EnvAlgebra.tla: valid for their filters (no negative seeds / counts), seeds are ints, logged learners are FixedLearner([1,0]) and RandomLearner()",
        "a stage is identified by its class and the constructor arguments it keeps (attributes / .params); the text of str(stage) and the VALUES of a stage's params are the real stages' own",
        "Environments(..) takes sources, one level of list / tuple / generator, pipelines obtained by indexing, or Environments objects; deeper nestings are outside the documented argument type",
        "reading: pipelines whose Logged seed is None are not read (random); a read that raises must raise the same exception type as the naive application",
        "pickling / save / from_save / from_template / from_openml / from_prebuilt / from_dataframe / from_result are not part of this check"]
