"""Deterministic virtual scheduler over real threads.

Exactly one task runs at a time, and only until its next operation on a *virtual primitive*
(VQueue, VEvent, VLock, vsleep, an instrumented inner cache, ...), where it publishes
`(kind, obj, enabled, effect)` and parks.  The scheduler picks one enabled operation by policy,
applies the effect, logs one event and resumes that task.  "No enabled operation and some task not
finished" is a deterministic deadlock verdict - no timeouts are involved.

Policies: seeded random (`rng`), replay of a recorded choice list, bounded DFS (see `dfs`)."""
import threading, queue as _q

_tls = threading.local()
S = None            # the current scheduler (one at a time)


class Deadlock(Exception):
    pass


class TooLong(Exception):
    pass


class Task:
    def __init__(self, name):
        self.name = name; self.sem = threading.Semaphore(0); self.pending = None
        self.done = False; self.result = None; self.exc = None; self.thread = None


class Sched:
    def __init__(self, choose, max_steps=20000):
        """choose(enabled_tasks:list[Task], sched) -> Task"""
        self.choose = choose; self.tasks = []; self.events = []; self.main_sem = threading.Semaphore(0)
        self.max_steps = max_steps; self.steps = 0; self.choices = []; self.nenabled = []; self.aborted = False

    def spawn(self, name, fn):
        t = Task(name); self.tasks.append(t)
        def body():
            t.sem.acquire()
            _tls.task = t; _tls.sched = self
            try:
                fn()
            except BaseException as e:   # keep the scheduler alive; the driver inspects t.exc
                t.exc = e
            finally:
                t.done = True; t.pending = None
                self.main_sem.release()
        th = threading.Thread(target=body, daemon=True, name="v-" + name); t.thread = th
        t.pending = ("start", None, (lambda: True), (lambda: None))
        th.start()
        return t

    def current(self):
        return getattr(_tls, "task", None)

    def op(self, kind, obj, enabled, effect):
        """Called from a task thread: publish the pending op, yield; returns effect()'s value."""
        t = getattr(_tls, "task", None)
        if t is None or getattr(_tls, "sched", None) is not self:
            # not under the scheduler (e.g. set-up code): perform immediately
            if not enabled(): raise Deadlock("op %s outside scheduler would block" % kind)
            return effect()
        if self.aborted: raise _Aborted()
        t.pending = (kind, obj, enabled, effect)
        self.main_sem.release()
        t.sem.acquire()
        r = t.result; t.result = None
        if isinstance(r, _Raise): raise r.exc
        return r

    def log(self, **ev):
        t = getattr(_tls, "task", None)
        ev.setdefault("task", t.name if t else "-")
        self.events.append(ev)

    def run(self):
        while True:
            live = [t for t in self.tasks if not t.done]
            if not live: return
            en = [t for t in live if t.pending and t.pending[2]()]
            if not en:
                raise Deadlock([(t.name, t.pending[0] if t.pending else None, getattr(t.pending[1], "vname", None) if t.pending else None) for t in live])
            t = self.choose(en, self)
            self.choices.append(en.index(t)); self.nenabled.append(len(en))
            kind, obj, _, eff = t.pending; t.pending = None
            _tls.acting = t
            try:
                t.result = eff()
            except BaseException as e:
                t.result = _Raise(e)
            t.sem.release()
            self.main_sem.acquire()
            self.steps += 1
            if self.steps > self.max_steps: raise TooLong(self.steps)

    def abort(self):
        """Release every parked thread with an exception so no thread leaks after a deadlock verdict."""
        self.aborted = True
        for t in self.tasks:
            if not t.done and t.pending is not None:
                t.pending = None; t.result = _Raise(_Aborted()); t.sem.release()
        for t in self.tasks:
            if t.thread is not None: t.thread.join(timeout=0.5)


class _Aborted(BaseException):
    pass


class _Raise:
    def __init__(self, exc): self.exc = exc


# ---------------- policies ----------------
def random_policy(rng):
    return lambda en, s: en[rng.randrange(len(en))]


def replay_policy(choices, fallback=None):
    it = iter(choices)
    def choose(en, s):
        try:
            i = next(it)
        except StopIteration:
            return fallback(en, s) if fallback else en[0]
        return en[i % len(en)]
    return choose


def dfs(run_one, max_runs, max_depth=10**9):
    """Stateless bounded DFS over schedules.  run_one(policy) -> (choices, nenabled, payload).
    Enumerates choice sequences in lexicographic order (first-enabled first); yields payloads.
    Complete when the generator ends before max_runs."""
    prefix = []
    runs = 0
    while runs < max_runs:
        choices, nen, payload = run_one(replay_policy(prefix, fallback=lambda en, s: en[0]))
        runs += 1
        yield payload
        # next prefix: find deepest position (within max_depth) that can be incremented
        k = min(len(choices), max_depth) - 1
        while k >= 0 and choices[k] + 1 >= nen[k]: k -= 1
        if k < 0: return
        prefix = list(choices[:k]) + [choices[k] + 1]


# ---------------- virtual primitives ----------------
def _S():
    return getattr(_tls, "sched", None) or S


class VQueue:
    def __init__(self, maxsize=0, name="q"):
        self.items = []; self.maxsize = maxsize; self.vname = name

    def put(self, x):
        s = _S()
        def eff():
            s.log(e="put", q=self.vname, n=len(self.items), task=_tls.acting.name, x=_lab(x)); self.items.append(x)   # logged before the effect: snapshots are pre-states
        s.op("put", self, lambda: not self.maxsize or len(self.items) < self.maxsize, eff)

    def get(self):
        s = _S()
        def eff():
            s.log(e="get", q=self.vname, n=len(self.items), task=_tls.acting.name, x=_lab(self.items[0])); return self.items.pop(0)
        return s.op("get", self, lambda: len(self.items) > 0, eff)

    def get_nowait(self):
        if not self.items: raise _q.Empty()
        x = self.items.pop(0)
        _S().log(e="get_nowait", q=self.vname, n=len(self.items), x=_lab(x))
        return x

    def qsize(self): return len(self.items)
    def empty(self): return not self.items
    def close(self): pass
    def join_thread(self): pass
    def cancel_join_thread(self): pass


LABEL = None   # optional callable mapping queue payloads to a JSON-able label


def _lab(x):
    return LABEL(x) if LABEL else None


class VEvent:
    def __init__(self, name="ev"): self.flag = False; self.vname = name
    def set(self):
        self.flag = True; _S().log(e="set", ev=self.vname)
    def is_set(self): return self.flag
    def wait(self, timeout=None):
        s = _S()
        s.op("wait", self, lambda: self.flag, lambda: s.log(e="waited", ev=self.vname, task=_tls.acting.name))
        return True


class VLock:
    """A mutex whose acquisition is a scheduling point."""
    def __init__(self, name="lock"): self.owner = None; self.vname = name; self.on_exit = None
    def acquire(self, blocking=True, timeout=-1):
        s = _S(); me = s.current()
        def eff(): self.owner = me
        s.op("lock", self, lambda: self.owner is None, eff); return True
    def release(self):
        if self.on_exit: self.on_exit()
        self.owner = None
    def __enter__(self): self.acquire(); return self
    def __exit__(self, *a): self.release(); return False
