"""Virtual multiprocessing layer for coba.pipes.multiprocessing.Multiprocessor.

The repository's `Multiprocessor.filter`, `ProcessLine.run/_get_result`, `ThreadLine.run`, the
callbacks and all pipes run unmodified; only the primitives they reach through module-level names
are substituted: `spawn_context` (Queue/Event), `MyProcessLine` and `ThreadLine` (start / join /
is_alive / pid / exitcode).  A virtual process runs a *pickled copy* of its line, so per-process
state is isolated exactly as under `spawn`."""
import io, pickle, threading
from . import vsched
from .vsched import VQueue, VEvent


class _P(pickle.Pickler):
    tab = {}
    def persistent_id(self, o):
        if isinstance(o, (VQueue, VEvent, vsched.VLock, threading.Semaphore().__class__)) or getattr(o, "_v_shared", False):
            _P.tab[id(o)] = o
            return id(o)


class _U(pickle.Unpickler):
    def persistent_load(self, pid): return _P.tab[pid]


def proc_copy(o):
    b = io.BytesIO(); _P(b).dump(o); b.seek(0); return _U(b).load()


class FakeConn:
    def __init__(s): s.box = []; s.closed = False
    def send(s, x): s.box.append(pickle.loads(pickle.dumps(x)))
    def poll(s): return bool(s.box)
    def recv(s): return s.box.pop(0)
    def close(s): s.closed = True


class VCtx:
    """Stands in for multiprocessing.get_context('spawn')."""
    def __init__(self): self.nq = 0; self.queues = []
    def Queue(self, maxsize=0):
        self.nq += 1
        q = VQueue(maxsize, "q%d" % self.nq); self.queues.append(q); return q
    def Event(self): return VEvent()
    def Lock(self): return vsched.VLock("mplock")
    def RawArray(self, typ, init):
        a = SharedList(init); return a
    def Semaphore(self, n):
        return VSemaphore(n)


class SharedList(list):
    _v_shared = True


class VSemaphore:
    _v_shared = True
    def __init__(self, n): self.n = n
    def acquire(self, *a, **k):
        s = vsched._S()
        def eff(): self.n -= 1
        s.op("sem", self, lambda: self.n > 0, eff); return True
    def release(self): self.n += 1
    def __enter__(self): self.acquire(); return self
    def __exit__(self, *a): self.release(); return False


def install(M, L=None):
    """Patch coba.pipes.multiprocessing (M). Returns an `undo` callable."""
    from coba.pipes.lines import ProcessLine, ThreadLine
    state = {"cnt": 0}

    class VProcessLine(M.MyProcessLine):
        pid = property(lambda s: s._vpid)
        exitcode = property(lambda s: 0)

        def __init__(self, line, callback=None, read_wait_store=None):
            self._read_waiters = read_wait_store
            self._line = line; self._callback = callback

        def start(self):
            cb = self._callback; del self._callback
            rw = self._read_waiters; del self._read_waiters
            S = vsched._S()
            # spawning a process takes time: a scheduling point of its own (other threads run meanwhile)
            S.op("pstart", self, lambda: True, lambda: S.log(e="pstart", task=vsched._tls.acting.name))
            state["cnt"] += 1; self._vpid = state["cnt"]
            conn = FakeConn(); self._send = conn; self._recv = conn; self._lock = threading.Lock()
            child = object.__new__(VProcessLine); child._line = proc_copy(self._line); child._send = conn
            self._task = S.spawn("W%d" % self._vpid, lambda: ProcessLine.run(child))
            if cb:
                def join_and_call():
                    self.join(); cb(self)
                S.spawn("cbW%d" % self._vpid, join_and_call)

        def is_alive(self): return not self._task.done

        def join(self, timeout=None):
            S = vsched._S()
            S.op("join", self, lambda: self._task.done, lambda: S.log(e="join", task=vsched._tls.acting.name))
            self._get_result()

    class VThreadLine(ThreadLine):
        def __init__(self, line, callback=None):
            self._line = line; self._callback = callback; self._exception = None; self._traceback = None; self._poisoned = False

        def start(self):
            S = vsched._S()
            state.setdefault("nthreads", 0); state["nthreads"] += 1
            nm = "L" if state["nthreads"] == 1 or not state.get("multi") else "T%d" % state["nthreads"]
            self._vname = nm
            self._task = S.spawn(nm, self.run)
            if self._callback:
                def join_and_call():
                    self.join(); self._callback(self)
                S.spawn("cb" + nm, join_and_call)

        def join(self, timeout=None):
            S = vsched._S()
            S.op("join", self, lambda: self._task.done, lambda: S.log(e="join", task=vsched._tls.acting.name))

        def is_alive(self): return not self._task.done

    old = (M.spawn_context, M.MyProcessLine, M.ThreadLine)
    ctx = VCtx()
    M.spawn_context = ctx; M.MyProcessLine = VProcessLine; M.ThreadLine = VThreadLine
    def undo():
        M.spawn_context, M.MyProcessLine, M.ThreadLine = old
    return ctx, state, undo, VThreadLine


# ---------------------------------------------------------------- CobaMultiprocessor on the virtual layer
class ProcGlobals:
    """Per-virtual-process copies of coba's process-global state (CobaContext logger / cacher / store /
    learning_info).  Real worker processes each have their own; virtual ones share one interpreter, so the
    scheduler swaps these in and out whenever it switches between tasks of different virtual processes."""
    ATTRS = ("_logger", "_cacher", "_store", "_learning_info")

    def __init__(self):
        from coba.context import CobaContext, NullLogger, NullCacher
        self.C = CobaContext; self.cur = 0
        self.saved = {}
        self.fresh = lambda: {"_logger": NullLogger(), "_cacher": NullCacher(), "_store": {}, "_learning_info": {}}

    def proc_of(self, task):
        n = task.name
        return int(n[1:]) if n.startswith("W") and n[1:].isdigit() else 0

    def switch(self, task):
        p = self.proc_of(task)
        if p == self.cur: return
        self.saved[self.cur] = {a: getattr(self.C, a) for a in self.ATTRS}
        new = self.saved.get(p) or self.fresh()
        for a in self.ATTRS: setattr(self.C, a, new[a])
        self.cur = p

    def restore_main(self):
        if self.cur != 0 and 0 in self.saved:
            for a in self.ATTRS: setattr(self.C, a, self.saved[0][a])
        self.cur = 0


def install_coba():
    """Virtualise coba.pipes.multiprocessing and coba.multiprocessing. Returns (vctx, undo)."""
    import coba.pipes.multiprocessing as M
    import coba.multiprocessing as CM
    ctx, state, undo_m, VThreadLine = install(M)
    state["multi"] = True
    old = (CM.mp, CM.ThreadLine)
    CM.mp = type("vmp", (), {"get_context": staticmethod(lambda kind=None: ctx)})
    CM.ThreadLine = VThreadLine
    def undo():
        CM.mp, CM.ThreadLine = old
        undo_m()
    return ctx, undo


def run_scheduled(fn, policy, max_steps=200000):
    """Run fn() as the 'main' task of a fresh scheduler with coba's multiprocessing virtualised.
    Returns (outcome dict, scheduler). outcome: {'value'| 'error', 'verdict'}"""
    ctx, undo = install_coba()
    s = vsched.Sched(policy, max_steps=max_steps); vsched.S = s
    pg = ProcGlobals()
    out = {}
    def main():
        try: out["value"] = fn()
        except vsched._Aborted: raise
        except BaseException as e: out["error"] = e
    mt = s.spawn("main", main)
    orig = s.choose
    class Done(Exception): pass
    def choose(en, sch):
        if mt.done: raise Done()
        t = orig(en, sch)
        pg.switch(t)
        return t
    s.choose = choose
    out["verdict"] = "ok"
    try:
        try: s.run()
        except Done: pass
    except vsched.Deadlock as d:
        if not mt.done: out["verdict"] = "hang: %s" % (d,)
    except vsched.TooLong:
        out["verdict"] = "livelock"
    finally:
        s.abort(); pg.restore_main(); undo()
    return out, s
