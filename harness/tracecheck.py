"""Batch trace validation: many recorded executions in one TLC invocation.

The trace spec reads `IOEnv.TRACE_FILE` (a JSON array), picks `tid` in Init, consumes one event per
step and prints `{"acc": tid}` when a trace is consumed completely.  rejected = all - accepted.
For a rejected trace the spec is re-run on that trace alone with the `Diag` invariant, which prints
the position reached, so the report names the first event the spec could not explain."""
import json, os
from . import tlc


def _cfg(base_cfg, subst, scratch, name):
    txt = open(os.path.join(tlc.SPEC_DIR, base_cfg)).read()
    for a, b in subst.items():
        assert a in txt, (a, base_cfg)
        txt = txt.replace(a, b)
    p = os.path.join(scratch, name)
    open(p, "w").write(txt)
    return p


MAX_DIAG = 25


def validate(ctx, module, base_cfg, traces, *, subst=None, name="trace", workers=8, evkey="ev", timeout=3600):
    """Returns list of (index, reason, first_unexplained_event_index) for rejected traces."""
    if not traces: return []
    tf = os.path.join(ctx.scratch, name + ".json")
    json.dump(traces, open(tf, "w"))
    cfg = _cfg(base_cfg, subst or {}, ctx.scratch, name + ".cfg")
    r = tlc.run(module, cfg, ctx.scratch, workers=workers, env={"TRACE_FILE": tf}, timeout=timeout, continue_=True)
    ctx.states += r.distinct; ctx.transitions += r.generated
    ctx.tlc_runs.append({"name": name, "generated": r.generated, "distinct": r.distinct, "depth": r.depth, "wall_s": round(r.wall, 2), "traces": len(traces)})
    acc = {j["acc"] for j in r.json if isinstance(j, dict) and "acc" in j}
    bad = {}
    # invariant violations inside a trace: the error trace names the tid
    for v in r.violations:
        tid = None
        for ln in v["trace"]:
            if "tid = " in ln:
                try: tid = int(ln.split("tid = ")[1].split()[0])
                except Exception: pass
        if tid is not None: bad.setdefault(tid, "%s %s" % (v["kind"], v["name"]))
    rej = []
    for i in range(1, len(traces) + 1):
        if i in acc and i not in bad:
            continue
        reason = bad.get(i, "no spec behaviour explains the trace")
        # every rejected trace is reported; only the first MAX_DIAG are re-run alone to name the first unexplained event (a change
        # that makes thousands of traces unexplainable would otherwise cost one TLC start per trace)
        pos = diagnose(ctx, module, base_cfg, traces[i - 1], subst=subst, name=name) if len(rej) < MAX_DIAG else None
        rej.append((i - 1, reason, pos))
    ctx.traces += len(traces)
    return rej


def diagnose(ctx, module, base_cfg, trace, *, subst=None, name="trace"):
    tf = os.path.join(ctx.scratch, name + "_diag.json")
    json.dump([trace], open(tf, "w"))
    s = dict(subst or {})
    cfgp = _cfg(base_cfg, s, ctx.scratch, name + "_diag.cfg")
    txt = open(cfgp).read() + "\nINVARIANT Diag\n"
    open(cfgp, "w").write(txt)
    try:
        r = tlc.run(module, cfgp, ctx.scratch, workers=1, env={"TRACE_FILE": tf}, timeout=600, continue_=True)
    except tlc.TLCError:
        return None
    ls = [j["l"] for j in r.json if isinstance(j, dict) and "l" in j]
    return max(ls) if ls else None
