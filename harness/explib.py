"""Experiment shapes -> real coba experiments, and the ways to run them (C01, C02, C03, C07).

A *shape* is the abstract experiment of spec/ExperimentLog.tla: `tr` = sequence of (env,lrn,val)
object ids numbered by first appearance, `ch` = chunk class per env (0 = no chunk()), `fail` =
triples whose evaluation raises.  `build(shape)` realises it with seeded built-in environments
(shared chunk()/cache() prefix + shuffle fan-out for a shared class), history-sensitive learners
(PMF / action / (action,prob) answers, kwargs) and picklable module-level evaluators."""
import os, sys, json, zlib, hashlib, random, tempfile, types, pickle

TIMING = {"predict_time", "learn_time", "time"}


# ---------------------------------------------------------------- components (module level => picklable)
def _crc(*xs):
    return zlib.crc32(repr(xs).encode())


class HistLearner:
    """Prediction depends on the full learn history and on an internal generator: any carried-over
    state, any reordering and any extra/missing call changes every later row."""
    def __init__(self, lid, mode="pmf", kw=False, info=False):
        self.lid = lid; self.mode = mode; self.kw = kw; self.h = 17; self.n = 0; self.info = info
        from coba.random import CobaRandom
        self.rng = CobaRandom(lid + 3)

    @property
    def params(self): return {"family": "hist", "lid": self.lid, "mode": self.mode, "kw": self.kw, "info": self.info}

    def _pmf(self, context, actions):
        w = [1 + (_crc(self.h, self.n, i) % 5) for i in range(len(actions))]
        t = sum(w); return [x / t for x in w]

    def finish(self):
        # the hook ProcessTasks calls on a learner COPY after its evaluation (VowpalLearner releases its model there): a learner
        # that has been finished cannot be used again, so the hook must never land on the object later copies are taken from
        self.released = True

    def _alive(self):
        if getattr(self, "released", False): raise RuntimeError("learner %d is used after finish()" % self.lid)

    def score(self, context, actions, action):
        self._alive()
        return self._pmf(context, actions)[actions.index(action)]

    def predict(self, context, actions):
        from coba.primitives import is_batch
        self._alive()
        if is_batch(context) or is_batch(actions): raise TypeError("HistLearner does not take batches")   # SafeLearner falls back to per-row calls
        self.n += 1
        pmf = self._pmf(context, actions)
        if self.mode == "pmf":
            out = pmf
        else:
            i = self.rng.choice(list(range(len(actions))), pmf)
            out = (actions[i], pmf[i]) if self.mode == "ap" else actions[i]
        if self.kw: return out, {"tag": self.h % 97}
        return out

    def learn(self, context, action, reward, probability, **kwargs):
        from coba.primitives import is_batch
        self._alive()
        if is_batch(context) or is_batch(action): raise TypeError("HistLearner does not take batches")
        self.h = _crc(self.h, round(float(reward), 6), round(float(probability), 6) if probability is not None else None, repr(action)[:40], sorted(kwargs.items()))
        if self.info:      # the documented way for a learner to report diagnostics: process-global learning_info
            from coba.context import CobaContext
            CobaContext.learning_info["h"] = self.h % 1000


class RaisingLearner(HistLearner):
    """Raises at its k-th predict or learn."""
    def __init__(self, lid, where="predict", k=2):
        super().__init__(lid, "pmf"); self.where = where; self.k = k; self.c = 0
    def predict(self, context, actions):
        if self.where == "predict":
            self.c += 1
            if self.c >= self.k: raise RuntimeError("learner %d fails at predict" % self.lid)
        return super().predict(context, actions)
    def learn(self, context, action, reward, probability, **kwargs):
        if self.where == "learn":
            self.c += 1
            if self.c >= self.k: raise RuntimeError("learner %d fails at learn" % self.lid)
        return super().learn(context, action, reward, probability, **kwargs)


class RaiseProxy:
    """Stands for a learner that raises in its k-th predict / learn (used for one specific triple)."""
    def __init__(self, inner, where, k=2): self.inner = inner; self.where = where; self.k = k; self.c = 0
    @property
    def params(self): return self.inner.params
    def score(self, *a):
        if self.where == "predict":      # an evaluator that only asks for scores (RejectionCB) meets the failure there
            self.c += 1
            if self.c >= self.k: raise RuntimeError("learner fails in score #%d" % self.c)
        return self.inner.score(*a)
    def predict(self, context, actions):
        if self.where == "predict":
            self.c += 1
            if self.c >= self.k: raise RuntimeError("learner fails in predict #%d" % self.c)
        return self.inner.predict(context, actions)
    def learn(self, context, action, reward, probability, **kw):
        if self.where == "learn":
            self.c += 1
            if self.c >= self.k: raise RuntimeError("learner fails in learn #%d" % self.c)
        return self.inner.learn(context, action, reward, probability, **kw)


class VEval:
    """Custom evaluator around SequentialCB: records to a side channel that it was called (C02's
    Evaluate events) and raises for the triples of the shape's fail set."""
    def __init__(self, vid, record=("reward", "action", "probability"), fail=(), side=None, where="middle", plain=False):
        self.vid = vid; self.record = list(record); self.fail = [tuple(f) for f in fail]; self.side = side; self.where = where
        self.plain = plain    # plain: drives the learner itself and never looks at learning_info (what a learner wrote there stays behind)

    @property
    def params(self): return {"vid": self.vid, "record": ",".join(self.record), "plain": self.plain}

    def evaluate(self, environment, learner):
        from coba.evaluators import SequentialCB
        eid = environment.params.get("eid"); lid = learner.params.get("lid")
        if self.side:
            with open(self.side, "a") as f: f.write(json.dumps([eid, lid, self.vid]) + "\n")
        failing = (eid, lid, self.vid) in self.fail and self.where != "env"       # "env": the environment raises, not the evaluator
        if failing and self.where == "start": raise RuntimeError("evaluator fails for %s" % ((eid, lid, self.vid),))
        if failing and self.where in ("predict", "learn"): learner = RaiseProxy(learner, self.where)
        failing = failing and self.where == "middle"
        n = 0
        if self.plain:
            from coba.safety import SafeLearner
            if not isinstance(learner, SafeLearner): learner = SafeLearner(learner, seed=7)
            for it in environment.read():
                n += 1
                if failing and n == 3: raise RuntimeError("evaluation of %s fails after 2 rows" % ((eid, lid, self.vid),))
                a, p, kw = learner.predict(it["context"], it["actions"])
                r = it["rewards"](a)
                learner.learn(it["context"], a, r, p, **kw)
                yield {"reward": r, "vid": self.vid}
            return
        for row in SequentialCB(record=self.record).evaluate(environment, learner):
            n += 1
            if failing and n == 3: raise RuntimeError("evaluation of %s fails after 2 rows" % ((eid, lid, self.vid),))
            row["vid"] = self.vid
            if self.vid % 2 == 0: row["nest"] = [{"k": n % 3}, {"z": [n % 2, {"w": 1}]}]      # a list of dicts inside the record: "}]" and "]}" occur mid-record
            yield row


class FailAt:
    """An environment filter that raises when its k-th interaction is asked for (k = 0: as soon as the environment is read)."""
    def __init__(self, k): self.k = k
    @property
    def params(self): return {"fail_at": self.k}
    def filter(self, interactions):
        n = 0
        for it in interactions:
            if n >= self.k: break
            n += 1; yield it
        raise RuntimeError("environment fails while interaction %d is read" % (self.k + 1))


class VRej:
    """The built-in RejectionCB (no cinit: its initial multiplier is estimated from the data of each evaluation) behind the
    same side channel / fail set as VEval.  ONE RejectionCB object lives in the evaluator, exactly as when a user lists a
    RejectionCB() in several triples: in-process every task sees that object, a worker sees a copy."""
    def __init__(self, vid, fail=(), side=None, where="start"):
        from coba.evaluators import RejectionCB
        self.vid = vid; self.fail = [tuple(f) for f in fail]; self.side = side; self.where = where
        self.inner = RejectionCB(record=["reward", "action", "probability"])

    @property
    def params(self): return {"vid": self.vid, "kind": "rejection"}

    def evaluate(self, environment, learner):
        eid = environment.params.get("eid"); lid = learner.params.get("lid")
        if self.side:
            with open(self.side, "a") as f: f.write(json.dumps([eid, lid, self.vid]) + "\n")
        failing = (eid, lid, self.vid) in self.fail and self.where != "env"
        if failing and self.where == "start": raise RuntimeError("evaluator fails for %s" % ((eid, lid, self.vid),))
        if failing and self.where in ("predict", "learn"): learner = RaiseProxy(learner, self.where)
        n = 0
        for row in self.inner.evaluate(environment, learner):
            n += 1
            if failing and self.where == "middle" and n == 3: raise RuntimeError("evaluation of %s fails after 2 rows" % ((eid, lid, self.vid),))
            row["vid"] = self.vid
            yield row


class Tagged:
    """A built-in learner with the `lid` label the comparisons key on; everything else is the learner's own."""
    def __init__(self, lid, inner): self.lid = lid; self.inner = inner
    @property
    def params(self): return dict(self.inner.params, lid=self.lid)
    def score(self, *a, **k): return self.inner.score(*a, **k)
    def predict(self, *a, **k): return self.inner.predict(*a, **k)
    def learn(self, *a, **k): return self.inner.learn(*a, **k)


def builtin_learner(lid, kind):
    from coba import learners as L
    if kind == "eps": inner = L.BanditEpsilonLearner(0.2)
    elif kind == "ucb": inner = L.BanditUCBLearner()
    elif kind == "random": inner = L.RandomLearner()
    elif kind == "corral": inner = L.CorralLearner([L.BanditEpsilonLearner(0.1), L.RandomLearner()], eta=0.1)
    elif kind == "misguided": inner = L.MisguidedLearner(L.BanditEpsilonLearner(0.1), 1, -1)
    else: raise ValueError(kind)
    return Tagged(lid, inner)


# shapes realised with built-in components: one RejectionCB object evaluating logged environments whose logging probabilities
# differ (5 / 2 / 3 actions), and the built-in bandit learners (their own generators, Corral's base learners, Misguided's wrapping)
BUILTIN_SHAPES = [
    dict(tr=[(0, 0, 0), (1, 0, 0), (1, 1, 0), (2, 1, 0)], ch=[0, 0, 0], fail=[], rej=[0], nact={0: 5, 1: 2, 2: 3}, n_int=40, lk={1: "eps"}, seed=2),
    dict(tr=[(0, 0, 0), (1, 0, 0), (0, 1, 0), (1, 2, 0)], ch=[1, 1], fail=[], lk={0: "corral", 1: "ucb", 2: "misguided"}),
    # experiment seed 0 is a seed like any other (it must reach the workers as 0, not as "no seed"): PMF-answering learners and a
    # RejectionCB without a seed of its own draw from it; a reduced configuration grid keeps the cost down
    dict(tr=[(0, 0, 0), (1, 0, 0), (1, 1, 0)], ch=[0, 0], fail=[], rej=[0], nact={0: 4, 1: 3}, n_int=30, lk={1: "eps"}, seed=0,
         grid=[dict(p=2, mc=0, mt=0), dict(p=1, mc=1, mt=0), dict(p=2, mc=1, mt=1)]),
    dict(tr=[(0, 0, 0), (1, 0, 0), (0, 1, 0)], ch=[0, 1], fail=[], seed=0,
         grid=[dict(p=2, mc=0, mt=0), dict(p=1, mc=1, mt=0), dict(p=2, mc=2, mt=1)]),
]

RECORDS = [("reward", "action", "probability"), ("reward",), ("reward", "action", "probability", "context")]
MODES = ["pmf", "action", "ap", "pmf"]


def build(shape, side=None, n_int=6, variant=0, where=None):
    """-> list of (env, learner, evaluator) triples realising the shape (fresh objects on every call)."""
    from coba.environments import Environments
    tr = [tuple(t) for t in shape["tr"]]; ch = list(shape["ch"]); fail = [tuple(f) for f in shape.get("fail", [])]
    batched = set(shape.get("batch", []))       # environments delivered in batches of 2 (the same learner class then sees both kinds)
    ne = max(t[0] for t in tr) + 1; nl = max(t[1] for t in tr) + 1; nv = max(t[2] for t in tr) + 1
    n_int = shape.get("n_int", n_int)
    nact = {int(k): v for k, v in shape.get("nact", {}).items()}      # actions per environment (default 3)
    rej = set(shape.get("rej", []))                                     # evaluator ids that are RejectionCB based
    lk = {int(k): v for k, v in shape.get("lk", {}).items()}           # learner ids that are built-in learners
    logged = set(shape.get("logged", [])) | ({t[0] for t in tr if t[2] in rej})   # environments delivered as logged data
    def fin(ee, e):
        if e in logged:
            from coba.learners import RandomLearner
            ee = ee.logged(RandomLearner(), seed=5 + e)
        ee = ee.shuffle(seed=e).params({"eid": e})
        if where == "env" and e in {t[0] for t in fail}: ee = ee.filter(FailAt(0 if e % 2 else 2))     # the environment itself raises while being read
        return (ee.batch(2) if e in batched else ee)[0]
    envs = {}
    bycls = {}
    for e in range(ne):
        c = ch[e] if e < len(ch) else 0
        if e in shape.get("nonascii", []): continue
        if c == 0:
            envs[e] = fin(Environments.from_linear_synthetic(n_int, n_actions=nact.get(e, 3), n_context_features=2, n_action_features=2, seed=11 + e + variant), e)
        else:
            bycls.setdefault(c, []).append(e)
    for e in shape.get("nonascii", []):
        # sparse contexts whose feature names are not ASCII, made dense with the hashing trick: where a name lands must not depend
        # on the process that reads the environment (today such names are refused, identically everywhere)
        ee = Environments.from_lambda(n_int, lambda i: {"gr\u00f6\u00dfe": i % 3 + 1, "f%d" % (i % 4): 1, "\u6f22": 2}, lambda i, c: [0, 1, 2], lambda i, c, a: float((a + i) % 3 == 0)).dense(16, "hashing")
        envs[e] = fin(ee, e)
    for c, es in bycls.items():
        base = Environments.from_linear_synthetic(n_int, n_actions=nact.get(es[0], 3), n_context_features=2, n_action_features=2, seed=31 + c + variant).chunk()
        for e in es:
            envs[e] = fin(base, e)
    lrns = {l: (builtin_learner(l, lk[l]) if l in lk else
                HistLearner(l, MODES[(l + variant) % len(MODES)], kw=((l + variant) % 2 == 1), info=((l + variant) % 2 == 0))) for l in range(nl)}
    vals = {v: (VRej(v, fail=fail, side=side, where=(where or "start")) if v in rej else
                VEval(v, RECORDS[(v + variant) % len(RECORDS)], fail=fail, side=side, where=(where or ("start" if v % 2 else "middle")), plain=(v % 2 == 1))) for v in range(nv)}
    return [(envs[e], lrns[l], vals[v]) for (e, l, v) in tr]


# ---------------------------------------------------------------- running
def quiet_ctx():
    from coba.context import CobaContext, NullLogger, NullCacher
    CobaContext.logger = NullLogger(); CobaContext.cacher = NullCacher()


def run_inprocess(triples, result_file=None, mt=0, seed=1):
    from coba.experiments import Experiment
    quiet_ctx()
    return Experiment(triples).run(result_file, quiet=True, processes=1, maxchunksperchild=0, maxtasksperchunk=mt, seed=seed)


def table_rows(t, drop=TIMING):
    cols = [c for c in t.columns if c not in drop]
    out = []
    for row in t.to_dicts():
        out.append({c: _norm(row.get(c)) for c in cols})
    return out


def _norm(v):
    from coba.results.core import Missing
    if v is Missing: return "<Missing>"
    if isinstance(v, float): return round(v, 9)
    if isinstance(v, (list, tuple)): return [_norm(x) for x in v]
    if isinstance(v, dict): return {str(k): _norm(x) for k, x in v.items()}
    return v


def result_digest(res):
    """The four tables (timing columns aside) and the experiment dictionary, as plain data."""
    return {"env": table_rows(res.environments), "lrn": table_rows(res.learners), "val": table_rows(res.evaluators),
            "int": table_rows(res.interactions), "exp": _norm(dict(res.experiment))}


def diff_digest(a, b):
    for k in ("env", "lrn", "val", "int", "exp"):
        if a[k] != b[k]:
            if isinstance(a[k], list):
                if len(a[k]) != len(b[k]): return "%s: %d rows vs %d rows" % (k, len(a[k]), len(b[k]))
                for i, (x, y) in enumerate(zip(a[k], b[k])):
                    if x != y: return "%s row %d: %s vs %s" % (k, i, json.dumps(x, default=str)[:200], json.dumps(y, default=str)[:200])
            return "%s: %s vs %s" % (k, json.dumps(a[k], default=str)[:200], json.dumps(b[k], default=str)[:200])
    return None


def log_records(lines):
    """Transaction lines -> [(key, digest)] with timing fields removed from I records."""
    out = []
    for ln in lines:
        ln = ln.strip()
        if not ln: continue
        r = json.loads(ln)
        if r[0] == "version": key = ["ver"]
        elif r[0] == "experiment": key = ["exp"]
        elif r[0] in "ELV": key = [r[0], r[1]]
        elif r[0] == "I":
            key = ["I"] + list(r[1])
            if isinstance(r[2], dict) and "_packed" in r[2]:
                for t in TIMING: r[2]["_packed"].pop(t, None)
        else: key = ["?", r[0]]
        out.append((key, hashlib.sha1(json.dumps(r, sort_keys=True).encode()).hexdigest()[:10]))
    return out
