SPECIFICATION Spec
CONSTANTS
  BaseNames <- AllBases
  MaxStages = 2
  MaxAcc = 1
  Lite = TRUE
INVARIANT Rectangular
INVARIANT HeaderBijective
INVARIANT LenAgrees
INVARIANT PosNameIterAgree
INVARIANT FeatsLabelPartition
INVARIANT EqSound
INVARIANT HistoryIndependent
INVARIANT DropByNameIsByIndex
INVARIANT EncodeDropCommute
INVARIANT DropNothing
INVARIANT StackIsFunction
INVARIANT EmitStack
INVARIANT EmitHist
CHECK_DEADLOCK FALSE
