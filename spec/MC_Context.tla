---------------------------- MODULE MC_Context ----------------------------
(* Model constants of Context.tla (X08): one named configuration (`Conf`) per aspect, so that every TLC run enumerates ALL behaviours
   of its alphabet up to MaxSteps.  The cfg is Context.cfg with Conf / MaxSteps / NDirs / Variant substituted textually. *)
EXTENDS Context
A(a, b)        == [k1 |-> a, k2 |-> b]
E(p, c, t, b)  == [processes |-> p, maxchunksperchild |-> c, maxtasksperchunk |-> t, chunk_by |-> b]
X(p, c, t)     == [processes |-> p, maxchunksperchild |-> c, maxtasksperchunk |-> t]
R(c, f, p, t)  == [cls |-> c, form |-> f, pre |-> p, tail |-> t]
F(k, a, e, o, c, l) == [kind |-> k, api |-> a, exp |-> e, old |-> o, cacher |-> c, logger |-> l]
Absent     == F("absent", NoApi, NoExp, FALSE, NoR, NoR)
Blank      == F("blank", NoApi, NoExp, FALSE, NoR, NoR)
Unparsable == F("unparsable", NoApi, NoExp, FALSE, NoR, NoR)
NotObj     == F("notobj", NoApi, NoExp, FALSE, NoR, NoR)
Obj(a, e, o, c, l) == F("obj", a, e, o, c, l)
NullC == R("NullCacher", "name", "-", "-")
NullL == R("NullLogger", "name", "-", "-")

(* --- merge: precedence per key, the old name, path resolution in every position --- *)
m1 == Obj(A("a", "-"), E("2", "-", "-", "-"), FALSE, R("DiskCacher", "str", "./", "c1"), NoR)
m2 == Obj(A("b", "b"), E("-", "3", "-", "task"), TRUE, NoR, NullL)
m3 == Obj(A("-", "a"), E("3", "5", "2", "-"), FALSE, R("DiskCacher", "kwargs", "~/", "c3"), R("BasicLogger", "disk", "../", "log3"))
m4 == Obj(NoApi, E("-", "-", "1", "-"), FALSE, NullC, R("IndentLogger", "console", "-", "-"))
m5 == Obj(A("-", "b"), NoExp, FALSE, R("DiskCacher", "list", "./", "c5"), R("BasicLogger", "disklist", "./", "l5"))
m6 == Obj(NoApi, E("-", "4", "-", "-"), TRUE, R("DiskCacher", "xargs", "../", "c6"), R("IndentLogger", "disk", "~/", "l6"))
m7 == Obj(A("c", "-"), NoExp, FALSE, R("DiskCacher", "xkwargs", "./", "c7"), R("BasicLogger", "name", "-", "-"))
m8 == Obj(NoApi, NoExp, FALSE, R("DiskCacher", "str", "/abs/", "c8"), NoR)
m9 == Obj(NoApi, E("-", "-", "-", "source"), FALSE, R("DiskCacher", "str", "~", ""), R("IndentLogger", "disk", "sub/", "l9"))
(* --- lazy / prog: the state machine --- *)
g1 == Obj(A("a", "-"), E("2", "-", "-", "-"), FALSE, NullC, NullL)
g2 == Obj(A("b", "b"), E("-", "-", "3", "-"), FALSE, R("DiskCacher", "str", "./", "c2"), NoR)
BadC == Obj(NoApi, NoExp, FALSE, R("NoSuchCacher", "name", "-", "-"), NoR)
BadL == Obj(A("-", "a"), NoExp, FALSE, NoR, R("NoSuchLogger", "name", "-", "-"))
BadA == Obj(NoApi, NoExp, FALSE, R("DiskCacher", "badarg", "-", "-"), NoR)
(* --- exp / marshal --- *)
x1 == Obj(NoApi, E("-", "-", "2", "task"), FALSE, NullC, NullL)
x2 == Obj(NoApi, E("2", "1", "-", "-"), FALSE, NullC, NullL)
w1 == Obj(A("a", "-"), E("-", "-", "1", "task"), FALSE, NullC, NullL)
w3 == Obj(A("b", "b"), E("-", "-", "-", "-"), FALSE, R("DiskCacher", "str", "./", "cw"), NullL)
PA1   == SetTo(A("p", "-"))
PA2   == SetTo(A("-", "q"))
EMPTY == SetTo(NoApi)
UnA   == Unset(NoApi)
UnO   == Unset(NoObj)
PC(i) == SetTo(Prog(i))
Reads == {"read_api", "read_cacher", "read_logger", "read_exp"}
MC_DefaultPaths == IF Conf = "marshal" THEN <<1, 2>> ELSE IF NDirs = 1 THEN <<1>> ELSE IF NDirs = 2 THEN <<1, 2>> ELSE <<1, 2, 3>>

MC_InitContents == CASE Conf = "merge" -> {Absent, Blank, m1, m2, m3, m4, m5, m6, m7, m8, m9}
                     [] Conf = "lazy"  -> {g1, Unparsable}
                     [] Conf = "prog"  -> {g1, Unparsable}
                     [] Conf = "deep"  -> {g1, Unparsable}
                     [] Conf = "aux"   -> {g1}
                     [] Conf = "exp"   -> {Absent, x1, x2}
                     [] Conf = "marshal" -> {Absent, w1, w3}
                     [] OTHER -> {Absent}
MC_InitFilter(fs) == CASE Conf = "exp"     -> fs[2] = Absent
                       [] Conf \in {"lazy", "prog"} -> (Big \/ fs[1] = g1)       \* the long / small-alphabet runs start from a good first file
                       [] Conf = "marshal" -> fs[1] # w3 /\ fs[2] = Absent /\ fs[3] # w1
                       [] OTHER -> TRUE
MC_InitPaths == CASE Conf = "merge" -> (IF NDirs = 2 THEN {<<1, 2>>, <<2, 1>>, <<2>>, <<1, 2, 1>>} ELSE {<<1, 2, 3>>, <<3, 1, 2>>, <<2, 3>>})
                  [] OTHER -> {DefaultPaths}
MC_Alphabet == CASE Conf = "merge" -> (IF NDirs = 2 THEN Reads ELSE {"read_api", "read_logger"})
                 [] Conf = "lazy"  -> {"read_api", "read_cacher", "write", "set_paths"} \cup (IF Big THEN {"read_exp"} ELSE {})
                 [] Conf = "prog"  -> Reads \cup {"set_api", "set_cacher", "set_logger", "set_exp", "put_key"}
                 [] Conf = "aux"   -> {"read_api", "read_logger", "store", "info", "set_cacher", "write"}
                 [] Conf = "deep"  -> Reads \cup {"write", "set_paths", "set_api", "set_cacher", "set_logger", "set_exp", "put_key", "store", "info"}     \* -simulate
                 [] Conf = "exp"   -> {"config", "run", "set_exp"}
                 [] Conf = "marshal" -> {"set_api", "set_paths", "set_exp", "set_cacher", "set_logger", "store", "put_key", "filter", "run"}
                 [] OTHER -> {}
MC_WriteContents == CASE Conf \in {"lazy", "deep"} -> {Absent, g2, NotObj, BadC} \cup (IF Big THEN {Blank, BadL, BadA} ELSE {})
                      [] Conf = "aux"  -> {NotObj}
                      [] OTHER -> {}
MC_PathChoices == CASE Conf \in {"lazy", "deep"} -> (IF Big THEN {<<2, 1>>, <<2>>} ELSE {<<2, 1>>})
                    [] Conf = "marshal" -> {<<3>>, <<1, 3>>}
                    [] OTHER -> {}
MC_ApiVals == CASE Conf \in {"prog", "deep"} -> {PA1, EMPTY, UnA} \cup (IF Big THEN {PA2} ELSE {})
                [] Conf = "marshal" -> {PA1}
                [] OTHER -> {}
MC_CacherVals == CASE Conf \in {"prog", "deep"} -> {PC("PC1"), UnO}
                   [] Conf = "aux" -> {PC("PC2")}
                   [] Conf = "marshal" -> {PC("PC1"), PC("PC3")}
                   [] OTHER -> {}
MC_LoggerVals == CASE Conf \in {"prog", "deep"} -> {PC("PL1")} \cup (IF Big THEN {UnO} ELSE {})
                   [] Conf = "marshal" -> {PC("PL2"), PC("PL3")}
                   [] OTHER -> {}
MC_ExpSets == CASE Conf \in {"prog", "deep"} -> {<<"processes", "3">>} \cup (IF Big THEN {<<"maxchunksperchild", "0">>} ELSE {})
                [] Conf = "exp"  -> {<<"processes", "2">>} \cup (IF Big THEN {<<"maxchunksperchild", "2">>, <<"maxtasksperchunk", "3">>} ELSE {})
                [] Conf = "marshal" -> {<<"maxtasksperchunk", "4">>}
                [] OTHER -> {}
MC_KeyPuts == CASE Conf \in {"prog", "marshal", "deep"} -> {<<"k2", "z">>}
                [] OTHER -> {}
MC_CfgArgs == CASE Conf = "exp" -> {X("2", "None", "None"), X("None", "0", "3")} \cup (IF Big THEN {X("1", "1", "None"), NoArgs} ELSE {})
                [] OTHER -> {}
MC_RunArgs == CASE Conf = "exp" -> {<<NoArgs, "1">>, <<X("3", "None", "0"), "7">>, <<X("None", "2", "None"), "None">>}
                                   \cup (IF Big THEN {<<X("1", "0", "None"), "1">>} ELSE {})
                [] Conf = "marshal" -> {<<X("2", "None", "None"), "7">>, <<X("None", "1", "None"), "1">>}
                [] OTHER -> {}
MC_FilterArgs == CASE Conf = "marshal" -> {<<"2", "0">>, <<"1", "1">>, <<"1", "0">>} \cup (IF Big THEN {<<"2", "1">>} ELSE {})
                   [] OTHER -> {}
=============================================================================
