---------------------------- MODULE MC_ExperimentLog ----------------------------
(* Model constants for ExperimentLog.tla *)
EXTENDS ExperimentLog
Tri == (0..1) \X (0..1) \X (0..1)
MaxBefore(tr,i,p) == IF i = 1 THEN -1 ELSE CHOOSE m \in {tr[j][p] : j \in 1..(i-1)} : \A j \in 1..(i-1) : tr[j][p] <= m
CanonicalTr(tr) == /\ \A i, j \in DOMAIN tr : i # j => tr[i] # tr[j]
                   /\ \A i \in DOMAIN tr : \A p \in 1..3 : tr[i][p] <= MaxBefore(tr,i,p) + 1
TrsUpTo(n) == UNION {{tr \in [1..m -> Tri] : CanonicalTr(tr)} : m \in 1..n}
ChFuns == {<<0,0>>, <<1,1>>, <<1,0>>, <<1,2>>}      \* no chunking / one shared chunk / only env 0 chunked / two chunks
ShapesOf(n,nf) == UNION {{[tr |-> tr, ch |-> ch, fail |-> f] : ch \in ChFuns,
                              f \in {F \in SUBSET {tr[i] : i \in DOMAIN tr} : Cardinality(F) <= nf}} : tr \in TrsUpTo(n)}
Curated == {
  [tr |-> <<<<0,0,0>>,<<0,1,0>>,<<1,0,0>>,<<1,1,0>>>>, ch |-> <<1,1>>, fail |-> {}],
  [tr |-> <<<<0,0,0>>,<<1,0,0>>,<<1,1,1>>>>,           ch |-> <<1,0>>, fail |-> {<<1,0,0>>}],
  [tr |-> <<<<0,0,0>>,<<0,0,1>>,<<1,1,0>>>>,           ch |-> <<0,0>>, fail |-> {}],
  [tr |-> <<<<0,0,0>>,<<1,1,0>>,<<0,1,0>>>>,           ch |-> <<1,2>>, fail |-> {<<0,1,0>>}] }
Small == {
  [tr |-> <<<<0,0,0>>,<<0,1,0>>,<<1,0,0>>>>, ch |-> <<1,1>>, fail |-> {}],
  [tr |-> <<<<0,0,0>>,<<0,0,1>>>>,           ch |-> <<0,0>>, fail |-> {<<0,0,1>>}] }
QuickShapes    == Small
ThoroughShapes == Curated \cup Small \cup ShapesOf(2,1)

C01QuickShapes == Curated \cup Small
QuickCfgs    == {[p |-> 1, mt |-> 0, ip |-> TRUE], [p |-> 2, mt |-> 1, ip |-> FALSE]}
ThoroughCfgs == {[p |-> 1, mt |-> 0, ip |-> TRUE], [p |-> 2, mt |-> 0, ip |-> FALSE], [p |-> 2, mt |-> 1, ip |-> FALSE], [p |-> 1, mt |-> 2, ip |-> FALSE]}
=============================================================================
