------------------------------ MODULE Multiproc ------------------------------
(***************************************************************************)
(* Multiprocessor.filter  (coba/pipes/multiprocessing.py:181-291) with its *)
(* loader thread, the loader's completion callback, the worker processes   *)
(* (ProcessLine.run + SourceSink of QueueSource|EventSetter|Unpickler|     *)
(* Slice(None,max)|Foreach(filter)|QueueSink), one completion-callback     *)
(* thread per worker, and the consuming caller.                            *)
(*                                                                         *)
(* One action per scheduling point of the code (a queue put/get, an event  *)
(* wait, a join) plus the purely local steps that sit between two of them  *)
(* (LoaderPull, LoaderPillCheck) so that every atomicity the     *)
(* code could have is covered.  Property C08:                              *)
(*   ExactlyOnce   no output lost or duplicated when the call completes    *)
(*   NoDupEver     never a duplicate, in any state                         *)
(*   MaxTasks      no worker handles more than Max items (Max > 0)         *)
(*   RaiseIffFault the call raises iff some item made the filter raise     *)
(*   Terminates    the call always finishes: done / raised / abandoned     *)
(*                                                                         *)
(* The wrapped filter need not be 1:1: Foreach flattens an iterator result, *)
(* so an item x yields Outs[x] >= 0 outputs (a generator filter).  The     *)
(* worker pipeline is lazy: item taken (Slice counts it HERE), its outputs *)
(* put one at a time, then the next take - or the exit once Max items have *)
(* been taken.  Output j of item x is the number x + 10*(j-1) (so output 1 *)
(* of a 1:1 filter is the item itself); a faulty item raises before its    *)
(* first output.                                                           *)
(*                                                                         *)
(* action <-> code                                                         *)
(*   MainStart      249      load_thread.start()                           *)
(*   MainStartFirst 250      filt_procs.pop().start()                      *)
(*   WorkerBoot(w)  141-143  EventSetter.filter while SourceSink.run builds *)
(*   MainWait       254      event.wait()                                  *)
(*   MainRestOne    256      for p in filt_procs: p.start()  (one per step) *)
(*   CbStart(w)     233      MyProcessLine(worker.pipeline,...).start()    *)
(*   LoaderPull     152-155  Stopper.filter: `if self._stop: break`        *)
(*   LoaderPut      sinks.py 144-148 QueueSink.write -> in_queue.put       *)
(*   LoaderCb       215-217  loader_finished_or_failed: [poison]*_n_procs  *)
(*   LoaderPillCheck/Put     the same Stopper around each pill, then put   *)
(*   WorkerGet(w)   sources.py 131-142 QueueSource.read (item / pill),     *)
(*                  Foreach(filter) raising for a faulty item              *)
(*   WorkerOut(w)   out_put.write of one output; after the item's last one *)
(*                  Slice(None,max) ends the worker if it has had Max items *)
(*   Callback(w)    219-243  filter_finished_or_failed (atomic under GIL)  *)
(*   CbPutPoison(w) 240      out_put.write([poison])                       *)
(*   MainGet        257-261  out_get.read() -> yield                       *)
(*   MainAbandon    the consumer closes the generator at a yield           *)
(*   MainFinally    263-291  stop loader, drain both queues, raise         *)
(***************************************************************************)
EXTENDS Integers, Sequences, FiniteSets, TLC
CONSTANTS Configs,      \* set of call configurations [P, Max, N, Outs, Faults, Abandon] TLC may choose from in Init
          MaxWorkers    \* bound on worker processes ever started (P + N suffices; see EnoughWorkers)

VARIABLE cfg            \* the configuration of this behaviour (chosen in Init, never changes)
P       == cfg.P        \* n_processes
Max     == cfg.Max      \* maxtasksperchild (0 = unlimited)
N       == cfg.N        \* number of items
Faults  == cfg.Faults   \* items for which the wrapped filter raises
Out(x)  == cfg.Outs[x]  \* number of outputs the wrapped filter yields for item x (a sequence of length N)
AllowAbandon == cfg.Abandon \* the consumer may close the output early

Pill == 0
Items == 1..N
Workers == 1..MaxWorkers
OutId(x,j) == x + 10*(j-1)       \* the j-th output of item x  (N < 10)
ItemOf(o)  == o % 10
IdxOf(o)   == (o \div 10) + 1
OutputsOf(S) == UNION {{OutId(x,j) : j \in 1..Out(x)} : x \in S}      \* what the filter produces, item by item, for the items S
VARIABLES inq, outq, nProcs, excs, stopped, event,
          lpc, li, cbpills,                  \* loader thread and its callback thread
          wst, wcur, whandled, wpois, wexc,  \* worker processes
          nstarted, mpc, delivered, mrest
vars == <<cfg,inq,outq,nProcs,excs,stopped,event,lpc,li,cbpills,wst,wcur,whandled,wpois,wexc,nstarted,mpc,delivered,mrest>>
shared == <<cfg,inq,outq,nProcs,excs,stopped,event>>
loaderv == <<lpc,li,cbpills>>
workerv == <<wst,wcur,whandled,wpois,wexc,nstarted>>
mainv == <<mpc,delivered,mrest>>

InitRest ==
        /\ inq = <<>> /\ outq = <<>> /\ nProcs = P /\ excs = <<>> /\ stopped = FALSE /\ event = FALSE
        /\ lpc = "idle" /\ li = 1 /\ cbpills = 0
        /\ wst = [w \in Workers |-> "unused"] /\ wcur = [w \in Workers |-> 0]
        /\ whandled = [w \in Workers |-> 0]
        /\ wpois = [w \in Workers |-> FALSE] /\ wexc = [w \in Workers |-> FALSE]
        /\ nstarted = 0 /\ mpc = (IF N = 0 THEN "done" ELSE "start") /\ delivered = <<>> /\ mrest = 0
Init == cfg \in Configs /\ InitRest

(* start k fresh worker processes (ids in start order) *)
Started(ws,k) == [w \in Workers |-> IF w > nstarted /\ w <= nstarted + k THEN "boot" ELSE ws[w]]

(* ---------------- the consuming caller ---------------- *)
(* starting a process is a step of its own (spawn takes time; other threads run meanwhile) *)
MainStart == /\ mpc = "start" /\ lpc' = "pull" /\ mpc' = "start1"
             /\ UNCHANGED <<shared,li,cbpills,workerv,delivered,mrest>>
MainStartFirst == /\ mpc = "start1" /\ nstarted + 1 <= MaxWorkers
             /\ wst' = Started(wst,1) /\ nstarted' = nstarted + 1 /\ mpc' = "wait"
             /\ UNCHANGED <<shared,loaderv,wcur,whandled,wpois,wexc,delivered,mrest>>
MainWait  == /\ mpc = "wait" /\ event /\ mpc' = (IF P > 1 THEN "rest" ELSE "get") /\ mrest' = P - 1
             /\ UNCHANGED <<shared,loaderv,workerv,delivered>>
MainRestOne == /\ mpc = "rest" /\ nstarted + 1 <= MaxWorkers
             /\ wst' = Started(wst,1) /\ nstarted' = nstarted + 1
             /\ mrest' = mrest - 1 /\ mpc' = (IF mrest - 1 = 0 THEN "get" ELSE "rest")
             /\ UNCHANGED <<shared,loaderv,wcur,whandled,wpois,wexc,delivered>>
MainGet   == /\ mpc = "get" /\ outq # <<>>
             /\ outq' = Tail(outq)
             /\ IF Head(outq) = Pill THEN mpc' = "finally" /\ UNCHANGED delivered
                ELSE delivered' = Append(delivered, Head(outq)) /\ mpc' = "get"
             /\ UNCHANGED <<cfg,inq,nProcs,excs,stopped,event,loaderv,workerv,mrest>>
MainAbandon == /\ AllowAbandon /\ mpc = "get" /\ delivered # <<>> /\ mpc' = "finallyA"
               /\ UNCHANGED <<shared,loaderv,workerv,delivered,mrest>>
MainFinally == /\ mpc \in {"finally","finallyA"} /\ stopped' = TRUE /\ inq' = <<>> /\ outq' = <<>>
               /\ mpc' = (IF mpc = "finallyA" THEN "abandoned" ELSE IF excs # <<>> THEN "raised" ELSE "done")
               /\ UNCHANGED <<cfg,nProcs,excs,event,loaderv,workerv,delivered,mrest>>
(* ---------------- loader thread: IterableSource | Stopper | Pickler | QueueSink ---------------- *)
LoaderPull == /\ lpc = "pull"
              /\ lpc' = (IF stopped \/ li > N THEN "exit" ELSE "put")
              /\ UNCHANGED <<shared,li,cbpills,workerv,mainv>>
LoaderPut  == /\ lpc = "put" /\ Len(inq) < 2*P
              /\ inq' = Append(inq, li) /\ li' = li + 1 /\ lpc' = "pull"
              /\ UNCHANGED <<cfg,outq,nProcs,excs,stopped,event,cbpills,workerv,mainv>>
(* the loader's callback thread: the pill list is sized by _n_procs *now* *)
LoaderCb   == /\ lpc = "exit" /\ cbpills' = nProcs /\ lpc' = "pills"
              /\ UNCHANGED <<shared,li,workerv,mainv>>
LoaderPillCheck == /\ lpc = "pills"
                   /\ lpc' = (IF cbpills = 0 \/ stopped THEN "end" ELSE "pillput")
                   /\ UNCHANGED <<shared,li,cbpills,workerv,mainv>>
LoaderPillPut == /\ lpc = "pillput" /\ Len(inq) < 2*P
                 /\ inq' = Append(inq, Pill) /\ cbpills' = cbpills - 1 /\ lpc' = "pills"
                 /\ UNCHANGED <<cfg,outq,nProcs,excs,stopped,event,li,workerv,mainv>>
(* ---------------- worker processes ---------------- *)
WorkerBoot(w) == /\ wst[w] = "boot" /\ event' = TRUE /\ wst' = [wst EXCEPT ![w] = "idle"]
                 /\ UNCHANGED <<cfg,inq,outq,nProcs,excs,stopped,loaderv,wcur,whandled,wpois,wexc,nstarted,mainv>>
(* an item is finished (all its outputs put, or none to put): the worker takes the next one unless it has had Max items *)
AfterItem(w,h) == IF Max > 0 /\ h = Max THEN "exited" ELSE "idle"
WorkerGet(w) == /\ wst[w] = "idle" /\ inq # <<>>
                /\ inq' = Tail(inq)
                /\ LET x == Head(inq) IN
                   IF x = Pill THEN /\ wpois' = [wpois EXCEPT ![w] = TRUE] /\ wst' = [wst EXCEPT ![w] = "exited"]
                                    /\ UNCHANGED <<wcur,wexc,whandled>>
                   ELSE IF x \in Faults THEN /\ wexc' = [wexc EXCEPT ![w] = TRUE] /\ wst' = [wst EXCEPT ![w] = "exited"]
                                             /\ wcur' = [wcur EXCEPT ![w] = x] /\ UNCHANGED wpois
                                             /\ whandled' = [whandled EXCEPT ![w] = @ + 1]
                   ELSE /\ wcur' = [wcur EXCEPT ![w] = x]        \* = OutId(x,1), the next output to put
                        /\ whandled' = [whandled EXCEPT ![w] = @ + 1]      \* Slice(None,max) counts ITEMS taken
                        /\ wst' = [wst EXCEPT ![w] = IF Out(x) > 0 THEN "have" ELSE AfterItem(w, whandled[w] + 1)]
                        /\ UNCHANGED <<wpois,wexc>>
                /\ UNCHANGED <<cfg,outq,nProcs,excs,stopped,event,loaderv,nstarted,mainv>>
WorkerOut(w) == /\ wst[w] = "have"
                /\ outq' = Append(outq, wcur[w])
                /\ IF IdxOf(wcur[w]) < Out(ItemOf(wcur[w]))
                   THEN wcur' = [wcur EXCEPT ![w] = @ + 10] /\ UNCHANGED wst      \* more outputs of the same item
                   ELSE wst' = [wst EXCEPT ![w] = AfterItem(w, whandled[w])] /\ UNCHANGED wcur
                /\ UNCHANGED <<cfg,inq,nProcs,excs,stopped,event,loaderv,whandled,wpois,wexc,nstarted,mainv>>
(* join_and_call thread of worker w: filter_finished_or_failed(worker) *)
Callback(w) == /\ wst[w] = "exited"
               /\ LET ex == IF wexc[w] THEN Append(excs, wcur[w]) ELSE excs IN
                  /\ excs' = ex
                  /\ IF ~wpois[w] /\ ex = <<>>
                     THEN /\ wst' = [wst EXCEPT ![w] = "cbstart"] /\ UNCHANGED nProcs
                     ELSE /\ nProcs' = nProcs - 1
                          /\ wst' = [wst EXCEPT ![w] = IF nProcs - 1 = 0 THEN "cbpoison" ELSE "reaped"]
               /\ UNCHANGED <<cfg,inq,outq,stopped,event,loaderv,wcur,whandled,wpois,wexc,nstarted,mainv>>
(* the callback replaces the retired worker: MyProcessLine(worker.pipeline,...).start() *)
CbStart(w) == /\ wst[w] = "cbstart" /\ nstarted < MaxWorkers
              /\ wst' = [Started(wst,1) EXCEPT ![w] = "reaped"] /\ nstarted' = nstarted + 1
              /\ UNCHANGED <<shared,loaderv,wcur,whandled,wpois,wexc,mainv>>
CbPutPoison(w) == /\ wst[w] = "cbpoison" /\ outq' = Append(outq, Pill) /\ wst' = [wst EXCEPT ![w] = "reaped"]
                  /\ UNCHANGED <<cfg,inq,nProcs,excs,stopped,event,loaderv,wcur,whandled,wpois,wexc,nstarted,mainv>>

MainStep   == MainStart \/ MainStartFirst \/ MainWait \/ MainRestOne \/ MainGet \/ MainFinally
LoaderStep == LoaderPull \/ LoaderPut \/ LoaderCb \/ LoaderPillCheck \/ LoaderPillPut
WorkerStep(w) == WorkerBoot(w) \/ WorkerGet(w) \/ WorkerOut(w)
CbStep(w)  == Callback(w) \/ CbStart(w) \/ CbPutPoison(w)
Next == MainStep \/ MainAbandon \/ LoaderStep \/ \E w \in Workers : WorkerStep(w) \/ CbStep(w)
Fair == /\ WF_vars(MainStep) /\ WF_vars(LoaderStep)
        /\ \A w \in Workers : WF_vars(WorkerStep(w)) /\ WF_vars(CbStep(w))
Spec == Init /\ [][Next]_vars /\ Fair

(* ---------------- properties ---------------- *)
Range(s) == {s[i] : i \in DOMAIN s}
NoDup(s) == \A i, j \in DOMAIN s : i # j => s[i] # s[j]
Good     == Items \ Faults
NoDupEver     == NoDup(delivered) /\ Range(delivered) \subseteq OutputsOf(Good)
ExactlyOnce   == mpc = "done" => Range(delivered) = OutputsOf(Items) /\ NoDup(delivered)
(* no output is ever in two places, and none vanishes before the caller stops listening *)
Remaining(w)  == {OutId(ItemOf(wcur[w]), j) : j \in IdxOf(wcur[w])..Out(ItemOf(wcur[w]))}
InFlight      == OutputsOf(Range(inq) \ {Pill}) \cup Range(outq) \cup UNION {Remaining(w) : w \in {v \in Workers : wst[v] = "have"}}
Conserved     == (mpc \in {"start1","wait","rest","get"} /\ excs = <<>> /\ (\A w \in Workers : ~wexc[w]))
                   => OutputsOf(Items) \subseteq (Range(delivered) \cup InFlight \cup OutputsOf(li..N))
MaxTasks      == Max > 0 => \A w \in Workers : whandled[w] <= Max          \* whandled = ITEMS taken, whatever they yield
OnePoison     == Cardinality({i \in DOMAIN outq : outq[i] = Pill}) <= 1
RaiseIffFault == /\ (mpc = "done" => excs = <<>> /\ Faults \cap {ItemOf(o) : o \in Range(delivered)} = {})
                 /\ (mpc = "raised" => excs # <<>> /\ excs[1] \in Faults)
                 /\ (mpc = "done" => Faults = {})
EnoughWorkers == \A w \in Workers : wst[w] = "cbstart" => nstarted < MaxWorkers
NProcsSane    == nProcs >= 0 /\ nProcs <= P
Terminates    == <>(mpc \in {"done","raised","abandoned"})
=============================================================================
