\* X10 generator / oracle run.  The driver rewrites the CONSTANTS lines per part / configuration (harness/drivers/x10.py).
SPECIFICATION Spec
CONSTANTS
  Part = "join"
  Variant = "ok"
  Atoms <- AtomsTyping
  MaxLeaves = 4
  MaxArgs = 5
  MaxArity = 4
  MaxObjs = 3
  AllowEach = TRUE
  Sched = "sweep"
  MaxCalls = 2
  QN = 4
  Size = "quick"
INVARIANT Shape
INVARIANT Flattened
INVARIANT Associative
INVARIANT GroupingFree
INVARIANT Lazy
INVARIANT ExactlyOnce
INVARIANT FailStop
INVARIANT InOrder
INVARIANT QFifo
INVARIANT QPoisonRule
INVARIANT DLocRoundTrip
INVARIANT DAppendOnly
INVARIANT DWriteComplete
INVARIANT DBalanced
INVARIANT LEntries
INVARIANT LNoIterKept
INVARIANT TableSound
INVARIANT Emit
PROPERTY Immutable
CHECK_DEADLOCK FALSE
