------------------------------- MODULE Loggers -------------------------------
(***************************************************************************)
(* The logger protocol of coba/context/loggers.py (X04).                   *)
(*                                                                         *)
(* A PROGRAM is a nesting of `with logger.log(m):`, `with logger.time(m):`,*)
(* bare `logger.log(m)` calls (the context manager is returned but not     *)
(* entered) and bodies that end normally or raise Exception /              *)
(* KeyboardInterrupt at any depth; a raised exception unwinds through      *)
(* every enclosing context and leaves the program.  One action per program *)
(* step: Log, EnterLog, EnterTime, ExitNormally, Raise(kind); Unwind is    *)
(* the exception passing ONE enclosing context (internal, not a step).     *)
(* The message of step k is the text "m<k>" (so that every line is         *)
(* recognisable); `LogX` logs an exception OBJECT (CobaException / other). *)
(*                                                                         *)
(* Kind = the logger under the (optional) decorators:                      *)
(*  "basic"   BasicLogger (78-133): every log writes its message at once;  *)
(*            a log context writes "<m> (outcome)" when it exits; a time   *)
(*            context writes <m> on entry and "<m> (<t> seconds) (outcome)"*)
(*            on exit; nothing is indented.                                *)
(*  "indent"  IndentLogger (135-211): a line is indented two blanks per    *)
(*            open context and carries the bullet of its level; a time     *)
(*            context RESERVES the place of its line; while any time       *)
(*            context is open every line is HELD BACK; when the OUTERMOST  *)
(*            open time context exits the held lines come out in program   *)
(*            order, each timing line at its reserved place.               *)
(*  "null"    NullLogger (53-76): writes nothing.                          *)
(*  "exception" ExceptionLogger (213-239): writes logged exception OBJECTS *)
(*            (rendered by ExceptLog), nothing else.                       *)
(* Pre / Post = the decorators of a DecoratedLogger (241-280) around it:   *)
(* the pre-decorators are applied, in sequence order, to the MESSAGE       *)
(* before the inner logger formats it; the post-decorators, in sequence    *)
(* order, to every LINE the inner logger writes.  A line is emitted as a   *)
(* record; its text is (rendered by the driver, nothing else is decided    *)
(* there)                                                                  *)
(*   post_n(..post_1( blanks(2*ind) bul  pre_n(..pre_1(msg))               *)
(*                    [" (<t> seconds)" if t >= 0] [" " suf if suf # ""])) *)
(* with msg = "m<k>" (x = "str"), the exception whose text is "m<k>"       *)
(* (x = "coba": ExceptLog -> "EXCEPTION: m<k>"; x = "other": ExceptLog ->  *)
(* "Unexpected exception:" + traceback text).                              *)
(* Consequences the driver also binds: decorating composes -               *)
(* DecoratedLogger(pre2, DecoratedLogger(pre1, L, post1), post2) writes    *)
(* what DecoratedLogger(pre2 \o pre1, L, post1 \o post2) writes - and      *)
(* leaves the logger it decorates as it was (`undecorate()` gives THAT     *)
(* logger back); a plain basic / indent logger given an exception OBJECT   *)
(* logs it as one line carrying the exception's text (Logger.log: "Log a   *)
(* message or exception to the sink"; the exact text is not fixed there).  *)
(* Worker processes (coba/multiprocessing.py 12-34: ProcessFilter installs *)
(* the marshalled logger as CobaContext.logger and points its sink at the  *)
(* queue the parent drains into its own sink): every program a worker runs *)
(* is a program of this module started from the CLEAN state - CleanAtEnd   *)
(* is what makes the state after a program the initial state again -       *)
(* whatever contexts the parent has open; the parent's sink receives the   *)
(* multiset of the lines of all programs.                                  *)
(*                                                                         *)
(* The clock: every EnterTime and every exit of a time context reads the   *)
(* clock once (`clock` = number of readings so far, the k-th reading is k  *)
(* ticks); the elapsed time of a time line is t = exit reading - entry     *)
(* reading.  (basic / indent only: the other kinds never read it.)         *)
(*                                                                         *)
(* Variant = "ok" is the protocol; the others are deliberately broken      *)
(* designs that TLC must reject (guards of the invariants below):          *)
(*  "flush_any"   held lines are flushed when ANY time context exits       *)
(*  "level_leak"  the level is not restored when a context is left by an   *)
(*                exception                                                *)
(*  "k_completed" a KeyboardInterrupt is reported as "(completed)"         *)
(***************************************************************************)
EXTENDS Integers, Sequences, FiniteSets, TLC, Json
CONSTANTS Kind, Pre, Post, MaxSteps, MaxDepth,
          MinPrefix,   \* the first MinPrefix steps are context entries (deep nestings without enumerating everything below them)
          Alphabet,    \* subset of {"log","logxC","logxO","enter_log","enter_time","exit","raiseE","raiseK"}
          Variant
VARIABLES stack,   \* open contexts, innermost last: [kind, m, place, t0, lvl]
          held,    \* indent: lines held back (with the reserved places of the open time contexts)
          out,     \* lines written to the sink so far
          level,   \* IndentLogger._level
          clock,   \* number of clock readings so far
          exc,     \* the exception in flight / that left the program: "none" | "E" | "K"
          hist, n, done
vars == <<stack, held, out, level, clock, exc, hist, n, done>>

Bullet(l) == CASE l = 0 -> "" [] l = 1 -> "* " [] l = 2 -> "> " [] l = 3 -> "- " [] l = 4 -> "+ " [] OTHER -> "~"    \* 148, 190
Ind == IF Kind = "indent" THEN level ELSE 0
Line(k, part, x, l, t, suf) == [m |-> k, part |-> part, x |-> x, ind |-> l, bul |-> IF Kind = "indent" THEN Bullet(l) ELSE "",
                                t |-> t, suf |-> suf, ph |-> FALSE]
Placeholder(k, l) == [Line(k, "msg", "str", l, -1, "") EXCEPT !.ph = TRUE]
TimeOpen(s) == \E i \in DOMAIN s : s[i].kind = "time"
Writes == Kind \in {"basic", "indent"}
Step(op) == [op |-> op, nout |-> IF op \in {"raiseE", "raiseK"} THEN -1 ELSE Len(out')]     \* nout: lines in the sink right after the step

Init == /\ stack = <<>> /\ held = <<>> /\ out = <<>> /\ level = 0 /\ clock = 0 /\ exc = "none"
        /\ hist = <<>> /\ n = 0 /\ done = FALSE

Running == ~done /\ exc = "none" /\ n < MaxSteps
(* a line is written at once - unless (indent) a time context is open: then it is held back (203-206) *)
Put(ln) == IF Kind = "indent" /\ TimeOpen(stack) THEN held' = Append(held, ln) /\ out' = out
           ELSE out' = Append(out, ln) /\ held' = held

(* ---- bare logger.log(message): the returned context manager is not entered ---- *)
Log == /\ Running /\ "log" \in Alphabet /\ n >= MinPrefix
       /\ (IF Writes THEN Put(Line(n + 1, "msg", "str", Ind, -1, "")) ELSE UNCHANGED <<out, held>>)
       /\ n' = n + 1 /\ hist' = Append(hist, Step("log"))
       /\ UNCHANGED <<stack, level, clock, exc, done>>
(* ---- logger.log(exception object): only where an ExceptLog sees it first (ExceptionLogger 233-236; DecoratedLogger([ExceptLog()..]) 269) ---- *)
LogX(op, x) ==
       /\ Running /\ op \in Alphabet /\ n >= MinPrefix
       /\ (IF Writes THEN Put(Line(n + 1, "msg", x, Ind, -1, ""))
           ELSE IF Kind = "exception" THEN out' = Append(out, Line(n + 1, "msg", x, 0, -1, "")) /\ held' = held
           ELSE UNCHANGED <<out, held>>)
       /\ n' = n + 1 /\ hist' = Append(hist, Step(op))
       /\ UNCHANGED <<stack, level, clock, exc, done>>
(* ---- with logger.log(message): ---- *)
EnterLog == /\ Running /\ "enter_log" \in Alphabet /\ Len(stack) < MaxDepth
            /\ (IF Writes THEN Put(Line(n + 1, "msg", "str", Ind, -1, "")) ELSE UNCHANGED <<out, held>>)
            /\ stack' = Append(stack, [kind |-> "log", m |-> n + 1, place |-> 0, t0 |-> 0, lvl |-> Ind])
            /\ level' = level + 1
            /\ n' = n + 1 /\ hist' = Append(hist, Step("enter_log"))
            /\ UNCHANGED <<clock, exc, done>>
(* ---- with logger.time(message): basic writes the message now (107); indent reserves the place of the timing line (164-166) ---- *)
EnterTime == /\ Running /\ "enter_time" \in Alphabet /\ Len(stack) < MaxDepth
             /\ (CASE Kind = "basic"  -> out' = Append(out, Line(n + 1, "msg", "str", 0, -1, "")) /\ held' = held
                   [] Kind = "indent" -> held' = Append(held, Placeholder(n + 1, level)) /\ out' = out
                   [] OTHER -> UNCHANGED <<out, held>>)
             /\ stack' = Append(stack, [kind |-> "time", m |-> n + 1, place |-> Len(held) + 1, t0 |-> clock + 1, lvl |-> Ind])
             /\ clock' = (IF Writes THEN clock + 1 ELSE clock)
             /\ level' = level + 1
             /\ n' = n + 1 /\ hist' = Append(hist, Step("enter_time"))
             /\ UNCHANGED <<exc, done>>

(* ---- the innermost context is left; how = "completed" | "exception" | "interrupt" ---- *)
Close(how) ==
  LET c    == stack[Len(stack)]
      rest == SubSeq(stack, 1, Len(stack) - 1)
      suf  == "(" \o (IF Variant = "k_completed" /\ how = "interrupt" THEN "completed" ELSE how) \o ")"
      tt   == (clock + 1) - c.t0          \* this exit reads the clock: reading number clock+1
  IN /\ stack' = rest
     /\ level' = (IF Variant = "level_leak" /\ how # "completed" THEN level ELSE level - 1)     \* 152-156: restored in a `finally`
     /\ (CASE Kind = "basic" /\ c.kind = "log" ->                                                \* 91-103
               out' = Append(out, Line(c.m, "end", "str", 0, -1, suf)) /\ UNCHANGED <<held, clock>>
           [] Kind = "basic" /\ c.kind = "time" ->                                               \* 109-118
               out' = Append(out, Line(c.m, "end", "str", 0, tt, suf)) /\ clock' = clock + 1 /\ held' = held
           [] Kind = "indent" /\ c.kind = "time" ->                                              \* 168-186
               LET h2 == IF c.place \in DOMAIN held THEN [held EXCEPT ![c.place] = Line(c.m, "msg", "str", c.lvl, tt, suf)] ELSE held
                   outermost == ~TimeOpen(rest)
               IN /\ clock' = clock + 1
                  /\ (IF outermost \/ Variant = "flush_any" THEN out' = out \o h2 /\ held' = <<>> ELSE held' = h2 /\ out' = out)
           [] OTHER -> UNCHANGED <<out, held, clock>>)
ExitNormally == /\ Running /\ "exit" \in Alphabet /\ stack # <<>> /\ n >= MinPrefix
                /\ Close("completed")
                /\ n' = n + 1 /\ hist' = Append(hist, Step("exit"))
                /\ UNCHANGED <<exc, done>>
Raise(op, k) == /\ Running /\ op \in Alphabet /\ n >= MinPrefix
                /\ exc' = k /\ n' = n + 1 /\ hist' = Append(hist, Step(op))
                /\ UNCHANGED <<stack, held, out, level, clock, done>>
(* the exception passes the innermost enclosing context, which reports how it was left and re-raises the SAME exception *)
Unwind == /\ ~done /\ exc # "none" /\ stack # <<>>
          /\ Close(IF exc = "E" THEN "exception" ELSE "interrupt")
          /\ UNCHANGED <<exc, hist, n, done>>
(* the program is over: every context closed normally, or the exception has left the outermost one *)
Finish == /\ ~done /\ stack = <<>> /\ n >= 1
          /\ done' = TRUE /\ UNCHANGED <<stack, held, out, level, clock, exc, hist, n>>
Next == Log \/ LogX("logxC", "coba") \/ LogX("logxO", "other") \/ EnterLog \/ EnterTime \/ ExitNormally
        \/ Raise("raiseE", "E") \/ Raise("raiseK", "K") \/ Unwind \/ Finish
Spec == Init /\ [][Next]_vars

(* ======================= what the protocol guarantees (checked by TLC) ======================= *)
IsLineOp(op) == op \in {"log", "logxC", "logxO", "enter_log", "enter_time"}
IsEnter(op)  == op \in {"enter_log", "enter_time"}
Key(ln) == <<ln.m, ln.part>>
AllLines == out \o held
(* every written (or held) line appears exactly once *)
ExactlyOnce == \A i, j \in DOMAIN AllLines : i # j => Key(AllLines[i]) # Key(AllLines[j])
(* a reserved place never reaches the sink unfilled *)
NoPlaceholderWritten == \A i \in DOMAIN out : ~out[i].ph
(* level = number of open contexts, and 0 when the program is over - however it ended *)
Balanced == level = Len(stack)
(* nothing is held back unless a time context is open *)
NothingHeld == (~TimeOpen(stack)) => held = <<>>
CleanAtEnd == done => (stack = <<>> /\ held = <<>> /\ level = 0)
(* the exception that leaves the program is the one that was raised *)
LastOp == IF hist = <<>> THEN "none" ELSE hist[Len(hist)].op
EscapeIsRaised == /\ exc = (CASE LastOp = "raiseE" -> "E" [] LastOp = "raiseK" -> "K" [] OTHER -> "none")
                  /\ \A i \in 1..(Len(hist) - 1) : hist[i].op \notin {"raiseE", "raiseK"}
(* indent: the sink holds, in PROGRAM ORDER, the line of every line-producing step before the outermost open time context
   (all of them when none is open), the held lines are the rest in program order: so each timing line is at the place its
   context reserved and every other line is written at once *)
FirstOpenTime == IF TimeOpen(stack) THEN stack[CHOOSE i \in DOMAIN stack : stack[i].kind = "time" /\ \A j \in 1..(i - 1) : stack[j].kind # "time"].m
                 ELSE Len(hist) + 1
Ids(s) == [i \in DOMAIN s |-> s[i].m]
Upto(N) == [i \in 1..N |-> i]
OrderIndent == Kind = "indent" =>
   /\ Ids(out)  = SelectSeq(Upto(Len(hist)), LAMBDA k : IsLineOp(hist[k].op) /\ k < FirstOpenTime)
   /\ Ids(held) = SelectSeq(Upto(Len(hist)), LAMBDA k : IsLineOp(hist[k].op) /\ k >= FirstOpenTime)
   /\ \A i \in DOMAIN AllLines : AllLines[i].part = "msg"
(* basic: one line per line-producing step when it happens, one "end" line per closed context after everything in its body *)
OrderBasic == Kind = "basic" =>
   /\ held = <<>>
   /\ Ids(SelectSeq(out, LAMBDA ln : ln.part = "msg")) = SelectSeq(Upto(Len(hist)), LAMBDA k : IsLineOp(hist[k].op))
   /\ \A i \in DOMAIN out : out[i].ind = 0 /\ out[i].bul = "" /\ (out[i].part = "msg" => (out[i].t = -1 /\ out[i].suf = ""))
   /\ \A i \in DOMAIN out : out[i].part = "end" =>
         /\ \E j \in 1..(i - 1) : Key(out[j]) = <<out[i].m, "msg">> /\ \A q \in (j + 1)..(i - 1) : out[q].m > out[i].m
         /\ \A q \in (i + 1)..Len(out) : out[q].part = "msg" => out[q].m > out[i].m
         /\ \A s \in DOMAIN stack : stack[s].m # out[i].m
   /\ \A s \in DOMAIN stack : \A i \in DOMAIN out : out[i].part = "end" => out[i].m # stack[s].m
(* the outcome suffix says how the context was left; a timing line's t is a positive clock difference *)
Depth(j) == Cardinality({k \in 1..j : IsEnter(hist[k].op)}) - Cardinality({k \in 1..j : hist[k].op = "exit"})
ClosedNormally(m) == \E j \in (m + 1)..Len(hist) : hist[j].op = "exit" /\ Depth(j) = Depth(m) - 1
                                                   /\ \A q \in (m + 1)..(j - 1) : Depth(q) >= Depth(m)
Outcomes == \A i \in DOMAIN AllLines : LET ln == AllLines[i] IN
              /\ (ln.suf # "" /\ ~ln.ph) => ln.suf = (IF ClosedNormally(ln.m) THEN "(completed)" ELSE IF exc = "E" THEN "(exception)" ELSE "(interrupt)")
              /\ (ln.t >= 0) => (ln.t >= 1 /\ ln.t <= clock /\ hist[ln.m].op = "enter_time")
              /\ (ln.suf # "") => IsEnter(hist[ln.m].op)
(* when the program is over every context has reported: basic one end line per context, indent a filled timing line per time context *)
AllReported == done => \A k \in DOMAIN hist :
                 /\ (Kind = "basic" /\ IsEnter(hist[k].op)) => \E i \in DOMAIN out : Key(out[i]) = <<k, "end">> /\ ((out[i].t >= 0) <=> hist[k].op = "enter_time")
                 /\ (Kind = "indent" /\ hist[k].op = "enter_time") => \E i \in DOMAIN out : out[i].m = k /\ out[i].t >= 0 /\ out[i].suf # ""
                 /\ (Kind = "indent" /\ hist[k].op # "enter_time") => \A i \in DOMAIN out : out[i].m = k => (out[i].t = -1 /\ out[i].suf = "")
Silent == /\ Kind = "null" => out = <<>>
          /\ Kind = "exception" => Ids(out) = SelectSeq(Upto(Len(hist)), LAMBDA k : hist[k].op \in {"logxC", "logxO"})
          /\ ~Writes => (clock = 0 /\ held = <<>>)

Emit == done => PrintT(ToJson([kind |-> Kind, pre |-> Pre, post |-> Post, steps |-> hist, lines |-> out, esc |-> exc, reads |-> clock]))
=============================================================================
