\* generator / model-checking configuration of ResultMore.tla; harness/drivers/x13.py substitutes the constants per run
SPECIFICATION XSpec
CONSTANTS
  XMode = "hist"
  Variant = "none"
  XOps <- CallsX
  RecvAll = TRUE
  InitExps <- Exp1
  SetExps <- Exp12
  EnvConds <- EnvFew
  LrnConds <- LrnFew
  ValConds <- ValFew
  IntConds <- IntFew
  CtrArgs <- CtrFew
  BestXArgs <- BestFew
  LgMax = 3
  LgE <- E2
  LgL <- E2
  LgV <- V01
  LgLens <- Len02
  TbMax = 3
  TbVals <- TV2
  TbIdx <- TI
  TbWheres <- TWFew
  Mode = "res"
  Dims <- D221
  Pars <- P2
  Salts = {0}
  MaxLen = 2
  LenMode = "all"
  LenPats <- LP6
  MaxMissing = 9
  TabFull <- Bools
  MaxOps = 1
  Ops <- NoArgs
  FinNs <- N2
  FinLPs <- NoArgs
  RawArgs <- NoArgs
  BestArgs <- NoArgs
  WhereArgs <- NoArgs
  WhereIArgs <- NoArgs
  Namings <- Plain
  MAVals <- NoArgs
  MAMaxLen = 0
  MASpans <- NoArgs
  MAWeights <- NoW1
INVARIANT RefConsist
INVARIANT CopyEqual
INVARIANT FilterCommute
INVARIANT BestDesign
INVARIANT ContrastDesign
INVARIANT LgDesign
INVARIANT TbDesign
INVARIANT XEmit
PROPERTY CopyIndep
CHECK_DEADLOCK FALSE
