---------------------------- MODULE PipesAlgebra ----------------------------
(***************************************************************************)
(* X10 - pipe composition and the basic sources / sinks / generic filters  *)
(* of coba.pipes.                                                          *)
(*                                                                         *)
(* Part = "join"   coba/pipes/core.py 11-84 (Foreach, Pipes.join, join),   *)
(*                 the composites SourceFilters (sources.py 15-39),        *)
(*                 FiltersFilter (filters.py 13-36), FiltersSink (sinks.py *)
(*                 12-35), SourceSink (lines.py 147-179) and               *)
(*                 resolve_params (utilities.py 7-31) as a TYPED ALGEBRA   *)
(*                 over recording stages, and as a state machine over      *)
(*                 PROGRAMS that build objects and then call them.         *)
(* Part = "queue"  QueueSource (sources.py 116-142) and QueueSink          *)
(*                 (sinks.py 131-157) around one queue.                    *)
(* Part = "disk"   DiskSink (sinks.py 48-112) and DiskSource (sources.py   *)
(*                 80-114) around one file (plain or .gz).                 *)
(* Part = "list"   ListSink / ListSource / IterableSource / LambdaSource / *)
(*                 IdentitySource / NullSource / NullSink / LambdaSink /   *)
(*                 ConsoleSink (sinks.py 37-46, 114-129, 159-171;          *)
(*                 sources.py 41-65, 266-310).                             *)
(* Part = "table"  decision tables: UrlSource routing (sources.py 312-338) *)
(*                 and the generic filters Identity / Insert / Default /   *)
(*                 Flatten / Structure (filters.py 38-45, 196-245,         *)
(*                 313-388, 420-429).                                      *)
(*                                                                         *)
(* The module is generator and ORACLE: TLC enumerates the programs / call  *)
(* histories / table rows within the bounds of the cfg, checks the design  *)
(* facts below in every state, and prints every behaviour with what each   *)
(* step must return and leave behind.  harness/drivers/x10.py replays them *)
(* on the real classes; nothing about an expectation is computed there.    *)
(*                                                                         *)
(* ======================= Part "join" ===================================== *)
(* STAGES (atoms).  Recording objects of the driver, one Python object per *)
(* name, shared by everything a program builds:                            *)
(*   S1  Source   params {src: 1}          str "S1"                        *)
(*   E1  Source   an Environment, params {env: 1}; str "{'env': 1}"        *)
(*                (Environment.__str__, primitives.py 226)                 *)
(*   F1  Filter   subclass of coba's Filter, params {f: 1};                *)
(*                str "F1('f': 1)" (Pipe.__str__, primitives.py 50)        *)
(*   F2  Filter   params {f: 2, g: 1}      str "F2"                        *)
(*   N1  Filter   has NO params attribute  str "N1"                        *)
(*   EF  Filter   an EnvironmentFilter, params {}; str "EF()"              *)
(*   X1  Filter   a filter whose filter() RAISES (after counting the call), *)
(*                no params attribute, str "X1"                            *)
(*   K1  Sink     params {snk: 1}          str "K1"                        *)
(*   K2  Sink     params {f: 3}            str "K2"                        *)
(*   O1  None     a plain object(): neither read nor filter nor write      *)
(* Every stage counts its calls.  The n-th read() of source a returns the  *)
(* batch << <<a, n, 1>>, <<a, n, 2>> >>; the n-th filter(v) of filter a    *)
(* returns v with the token <<a, n>> appended; the n-th write(v) of sink a *)
(* appends v to the list the sink keeps.  So the value that comes out of a *)
(* composite names, in order, the stages it went through and which call of *)
(* each stage it was.                                                      *)
(*                                                                         *)
(* OBJECTS a program builds (objs[i]):                                     *)
(*   Join(args)  = Pipes.join of args; args are stages or earlier objects    *)
(*   Each(r)     = Foreach(r), r a filter or sink (stage or composite)     *)
(* and CALLS: read() of a Source, filter(X0) of a Filter, write(X0) of a   *)
(* Sink, run() of a Line, with X0 = << <<"x", 1>>, <<"x", 2>> >>.          *)
(*                                                                         *)
(* THE ALGEBRA.  kind(stage) as above; kind(Foreach(p)) = kind(p);         *)
(* join(a1 .. an) is defined iff n >= 1, every kind is Source / Filter /   *)
(* Sink, a Source only first, a Sink only last (docstring of Pipes.join:   *)
(* "Source? Filter* Sink?"; anything else: CobaException, core.py 53, 82,  *)
(* test_bad_exception).  Its kind is decided by the end kinds (Source ..   *)
(* Sink = Line, Source .. = Source, .. Sink = Sink, else Filter), its      *)
(* stage list is the concatenation of the stage lists of the arguments (a  *)
(* composite argument contributes its stages, anything else itself):       *)
(* join(join(a,b),c), join(a,join(b,c)) and join(a,b,c) have one stage     *)
(* list.  A join of ONE argument is again a composite (with len / iter /   *)
(* index; Environments relies on it, environments/core.py 645, 1138).      *)
(* Nothing is called at join time.  A call of a composite calls every      *)
(* stage once, in order, handing each the result of the one before; when a *)
(* stage raises, the stages after it are not called, nothing is written,   *)
(* the exception leaves the call unchanged (test_exception) and the        *)
(* composite is as usable as before.                                       *)
(* Foreach(p).filter(items) = p.filter of every item in order (an          *)
(* iterable); Foreach(p).write(items) = p.write of every item in order.    *)
(* params(composite) = the params of the stages that have any, in stage    *)
(* order; a key that occurs in more than one place is numbered key1, key2  *)
(* .. in order of occurrence (tests test_params of the four composites).   *)
(* str(composite) = the str of the stages joined by " | ";                 *)
(* str(Foreach(p)) = str(p); params(Foreach(p)) = params(p).               *)
(*                                                                         *)
(* Variant = "ok" is the algebra; the others are deliberately broken and   *)
(* TLC must reject them:                                                   *)
(*   "ends_only"  join looks at the kinds of the first and last argument   *)
(*                only (Shape fails)                                       *)
(*   "noflatten"  a composite argument is kept as ONE stage (Flattened)    *)
(*   "eager"      join reads its source when it is built (Lazy)            *)
(*   "reversed"   a composite applies its filters last to first (InOrder)  *)
(* Further variants for the other parts are listed with them.              *)
(***************************************************************************)
EXTENDS Integers, Sequences, FiniteSets, TLC, Json

CONSTANTS Part, Variant,
          Atoms,       \* join: the stages a program may use
          MaxLeaves,   \* join: stage arguments per program (an object argument is not a leaf)
          MaxArgs,     \* join: arguments per program, stages and objects alike
          MaxArity,    \* join: arguments of one join
          MaxObjs,     \* join: objects a program builds
          AllowEach,   \* join: Foreach objects in play
          Sched,       \* join: "sweep" every object is called once in order of creation and once more in reverse order
                       \*       "any"   up to MaxCalls calls of any objects, joins and calls in any order
          MaxCalls,
          QN,          \* queue / disk / list: steps per history
          Size         \* table: "quick" | "thorough"

VARIABLES objs, calls, sinks,      \* join
          ab,                      \* queue / disk / list: the abstract state of the part (a record)
          hist, phase, budget
vars == <<objs, calls, sinks, ab, hist, phase, budget>>

Min(a, b) == IF a <= b THEN a ELSE b
Max(a, b) == IF a >= b THEN a ELSE b
RECURSIVE Cat(_)
Cat(ss) == IF ss = <<>> THEN <<>> ELSE Head(ss) \o Cat(Tail(ss))
Last(s) == s[Len(s)]
Front(s) == SubSeq(s, 1, Len(s) - 1)

-----------------------------------------------------------------------------
(* ============================ Part "join" ================================ *)
AllAtoms  == {"S1", "E1", "F1", "F2", "N1", "EF", "X1", "K1", "K2", "O1"}
SinkAtoms == {"K1", "K2"}
AtomKind(a) == CASE a \in {"S1", "E1"} -> "Source"
                 [] a \in {"F1", "F2", "N1", "EF", "X1"} -> "Filter"
                 [] a \in {"K1", "K2"} -> "Sink"
                 [] OTHER -> "None"
AtomHasParams(a) == a \notin {"N1", "X1", "O1"}
AtomParams(a) == CASE a = "S1" -> << <<"src", 1>> >>
                   [] a = "E1" -> << <<"env", 1>> >>
                   [] a = "F1" -> << <<"f", 1>> >>
                   [] a = "F2" -> << <<"f", 2>>, <<"g", 1>> >>
                   [] a = "K1" -> << <<"snk", 1>> >>
                   [] a = "K2" -> << <<"f", 3>> >>
                   [] OTHER -> <<>>
AtomStr(a) == CASE a = "E1" -> "{'env': 1}" [] a = "F1" -> "F1('f': 1)" [] a = "EF" -> "EF()" [] OTHER -> a

(* a reference: a stage (o = 0) or the i-th object of the program (a = "") *)
AtomRef(a) == [a |-> a, o |-> 0]
ObjRef(i)  == [a |-> "", o |-> i]
IsAtom(r)  == r.o = 0
NoRef      == AtomRef("")

Comp(k, st) == [t |-> "comp", kind |-> k, stages |-> st, inner |-> NoRef]
EachO(k, r) == [t |-> "each", kind |-> k, stages |-> <<>>, inner |-> r]
ErrO        == [t |-> "err", kind |-> "Error", stages |-> <<>>, inner |-> NoRef]

KindIn(os, r) == IF IsAtom(r) THEN AtomKind(r.a) ELSE os[r.o].kind
Kind(r) == KindIn(objs, r)
(* the stage list an argument contributes (sources.py 17, filters.py 15, sinks.py 14, lines.py 149: `list(p)` of a composite) *)
FlatIn(os, r) == IF IsAtom(r) \/ os[r.o].t # "comp" \/ Variant = "noflatten" THEN <<r>> ELSE os[r.o].stages
Flat(r) == FlatIn(objs, r)

WellTyped(ks) ==
  /\ Len(ks) >= 1
  /\ IF Variant = "ends_only"
     THEN ks[1] \in {"Source", "Filter", "Sink"} /\ Last(ks) \in {"Source", "Filter", "Sink"}
          /\ (Len(ks) >= 2 => ks[1] # "Sink" /\ Last(ks) # "Source")
     ELSE \A i \in DOMAIN ks : /\ ks[i] \in {"Source", "Filter", "Sink"}
                               /\ (ks[i] = "Source" => i = 1)
                               /\ (ks[i] = "Sink" => i = Len(ks))
EndKind(ks) == CASE ks[1] = "Source" /\ Last(ks) = "Sink" -> "Line"
                 [] ks[1] = "Source" -> "Source"
                 [] Last(ks) = "Sink" -> "Sink"
                 [] OTHER -> "Filter"
JoinResult(args) ==
  LET ks == [i \in DOMAIN args |-> Kind(args[i])]
  IN IF WellTyped(ks) THEN Comp(EndKind(ks), Cat([i \in DOMAIN args |-> Flat(args[i])])) ELSE ErrO

(* ---- what a call does: the state threaded through is [calls, sinks] ---- *)
SrcVal(a, n) == << <<a, n, 1>>, <<a, n, 2>> >>
X0 == << <<"x", 1>>, <<"x", 2>> >>
RECURSIVE FilterR(_, _, _), ChainF(_, _, _, _, _), MapF(_, _, _, _), WriteR(_, _, _), MapW(_, _, _, _)
(* every result is [v, st, ok]: ok = FALSE when a stage raised - then v is void and st is the state at that moment *)
FilterR(r, v, st) ==
  IF IsAtom(r) THEN LET n == st.calls[r.a] + 1 IN
                    IF r.a = "X1" THEN [v |-> <<>>, st |-> [st EXCEPT !.calls[r.a] = n], ok |-> FALSE]
                    ELSE [v |-> Append(v, <<r.a, n>>), st |-> [st EXCEPT !.calls[r.a] = n], ok |-> TRUE]
  ELSE IF objs[r.o].t = "each" THEN MapF(objs[r.o].inner, v, 1, st)                      \* core.py 22-24
  ELSE ChainF(objs[r.o].stages, 1, Len(objs[r.o].stages), v, st)                         \* filters.py 21-24
(* the filters stages[i..j] in order (sources.py 26-28, sinks.py 21-22, lines.py 161-162) *)
ChainF(stages, i, j, v, st) ==
  IF i > j THEN [v |-> v, st |-> st, ok |-> TRUE]
  ELSE IF Variant = "reversed"
       THEN LET r1 == FilterR(stages[j], v, st) IN IF r1.ok THEN ChainF(stages, i, j - 1, r1.v, r1.st) ELSE r1
       ELSE LET r1 == FilterR(stages[i], v, st) IN IF r1.ok THEN ChainF(stages, i + 1, j, r1.v, r1.st) ELSE r1
MapF(inner, v, i, st) ==
  IF i > Len(v) THEN [v |-> <<>>, st |-> st, ok |-> TRUE]
  ELSE LET r1 == FilterR(inner, v[i], st) IN
       IF ~r1.ok THEN r1
       ELSE LET r2 == MapF(inner, v, i + 1, r1.st) IN
            IF ~r2.ok THEN r2 ELSE [v |-> <<r1.v>> \o r2.v, st |-> r2.st, ok |-> TRUE]
WriteR(r, v, st) ==
  IF IsAtom(r) THEN [v |-> <<>>, st |-> [st EXCEPT !.calls[r.a] = @ + 1, !.sinks[r.a] = Append(@, v)], ok |-> TRUE]
  ELSE IF objs[r.o].t = "each" THEN MapW(objs[r.o].inner, v, 1, st)                      \* core.py 26-30
  ELSE LET stg == objs[r.o].stages
           f   == ChainF(stg, 1, Len(stg) - 1, v, st)
       IN IF f.ok THEN WriteR(Last(stg), f.v, f.st) ELSE f                               \* sinks.py 20-23
MapW(inner, v, i, st) ==
  IF i > Len(v) THEN [v |-> <<>>, st |-> st, ok |-> TRUE]
  ELSE LET w == WriteR(inner, v[i], st) IN IF w.ok THEN MapW(inner, v, i + 1, w.st) ELSE w
ReadAtom(a, st) == LET n == st.calls[a] + 1 IN [v |-> SrcVal(a, n), st |-> [st EXCEPT !.calls[a] = n], ok |-> TRUE]
ReadR(r, st) ==
  IF IsAtom(r) THEN ReadAtom(r.a, st)
  ELSE LET stg == objs[r.o].stages
           s   == ReadAtom(stg[1].a, st)
       IN ChainF(stg, 2, Len(stg), s.v, s.st)                                            \* sources.py 24-28
RunR(r, st) ==
  LET stg == objs[r.o].stages
      s   == ReadAtom(stg[1].a, st)
      f   == ChainF(stg, 2, Len(stg) - 1, s.v, s.st)
  IN IF f.ok THEN WriteR(Last(stg), f.v, f.st) ELSE f                                    \* lines.py 152-164

(* ---- params and str ---- *)
RECURSIVE HasP(_), RawParams(_), StrOf(_), AtomsOf(_)
HasP(r) == IF IsAtom(r) THEN AtomHasParams(r.a) ELSE IF objs[r.o].t = "each" THEN HasP(objs[r.o].inner) ELSE TRUE
Resolve(pairs) ==                                                                        \* utilities.py 21-31
  LET cnt(k) == Cardinality({j \in DOMAIN pairs : pairs[j][1] = k})
      idx(i) == Cardinality({j \in 1..i : pairs[j][1] = pairs[i][1]})
  IN [i \in DOMAIN pairs |-> <<IF cnt(pairs[i][1]) = 1 THEN pairs[i][1] ELSE pairs[i][1] \o ToString(idx(i)), pairs[i][2]>>]
RawParams(r) ==
  IF IsAtom(r) THEN AtomParams(r.a)
  ELSE IF objs[r.o].t = "each" THEN RawParams(objs[r.o].inner)                           \* core.py 32-34
  ELSE LET stg == objs[r.o].stages
       IN Resolve(Cat([i \in DOMAIN stg |-> IF HasP(stg[i]) THEN RawParams(stg[i]) ELSE <<>>]))
KeysDistinct(ps) == \A i, j \in DOMAIN ps : i # j => ps[i][1] # ps[j][1]
RECURSIVE JoinStr(_)
JoinStr(ss) == IF Len(ss) = 1 THEN ss[1] ELSE ss[1] \o " | " \o JoinStr(Tail(ss))
StrOf(r) ==
  IF IsAtom(r) THEN AtomStr(r.a)
  ELSE IF objs[r.o].t = "each" THEN StrOf(objs[r.o].inner)                               \* core.py 36-37
  ELSE JoinStr([i \in DOMAIN objs[r.o].stages |-> StrOf(objs[r.o].stages[i])])
(* the stages (with multiplicity) one call of r calls once *)
AtomsOf(r) ==
  IF IsAtom(r) THEN <<r.a>>
  ELSE IF objs[r.o].t = "each" THEN AtomsOf(objs[r.o].inner)
  ELSE Cat([i \in DOMAIN objs[r.o].stages |-> AtomsOf(objs[r.o].stages[i])])
RECURSIVE EachFree(_)
EachFree(r) == IF IsAtom(r) THEN TRUE
               ELSE IF objs[r.o].t = "each" THEN FALSE
               ELSE \A i \in DOMAIN objs[r.o].stages : EachFree(objs[r.o].stages[i])
(* Foreach.filter is lazy (a generator): when one stage occurs under two Foreach stages of one composite the ORDER of its calls
   is not fixed by anything documented, so the call numbers inside the tokens are not compared for such a call *)
EachAtoms(r) == IF IsAtom(r) THEN <<>> ELSE IF objs[r.o].t = "each" THEN AtomsOf(r) ELSE <<>>
Ambiguous(r) == ~IsAtom(r) /\ objs[r.o].t = "comp" /\
                  \E i, j \in DOMAIN objs[r.o].stages : i < j /\
                     \E p \in DOMAIN EachAtoms(objs[r.o].stages[i]) : \E q \in DOMAIN EachAtoms(objs[r.o].stages[j]) :
                        EachAtoms(objs[r.o].stages[i])[p] = EachAtoms(objs[r.o].stages[j])[q]

(* ---- the state machine over programs ---- *)
RefsNow == {AtomRef(a) : a \in Atoms} \cup {ObjRef(i) : i \in {j \in DOMAIN objs : objs[j].t # "err"}}
Leaves(args) == Cardinality({i \in DOMAIN args : IsAtom(args[i])})
Building == Part = "join" /\ phase = "build" /\ Len(objs) < MaxObjs /\ (IF objs = <<>> THEN TRUE ELSE Last(objs).t # "err")   \* a program ends with its first rejected join
Snapshot == [calls |-> calls', sinks |-> sinks']

JoinInit == objs = <<>> /\ calls = [a \in AllAtoms |-> 0] /\ sinks = [a \in SinkAtoms |-> <<>>] /\ ab = <<>>
            /\ hist = <<>> /\ phase = "build" /\ budget = [leaves |-> 0, args |-> 0, calls |-> 0, pc |-> 1]

(* Pipes.join of args: core.py 41-84 *)
Join == /\ Building
        /\ \E n \in 0..Min(MaxArity, MaxArgs - budget.args) : \E args \in [1..n -> RefsNow] :
             /\ budget.leaves + Leaves(args) <= MaxLeaves /\ budget.args + n <= MaxArgs
             /\ LET res == JoinResult(args) IN
                /\ objs' = Append(objs, res)
                /\ (IF Variant = "eager" /\ res.t = "comp" /\ res.kind \in {"Source", "Line"}
                    THEN calls' = [calls EXCEPT ![res.stages[1].a] = @ + 1] ELSE calls' = calls)
                /\ sinks' = sinks
                /\ budget' = [budget EXCEPT !.leaves = @ + Leaves(args), !.args = @ + n]
                /\ hist' = Append(hist, [op |-> "join", args |-> args, ok |-> res.t = "comp", out |-> <<>>, amb |-> FALSE, state |-> Snapshot])
        /\ UNCHANGED <<ab, phase>>
(* Foreach(r): core.py 14-20 *)
Each == /\ Building /\ AllowEach
        /\ \E r \in RefsNow :
             /\ Kind(r) \in {"Filter", "Sink"} /\ EachFree(r)
             /\ \A p \in DOMAIN AtomsOf(r) : AtomsOf(r)[p] # "X1"    \* the raising stage is not put under a Foreach: how far a lazy Foreach got when it raises is not documented
             /\ budget.leaves + Leaves(<<r>>) <= MaxLeaves /\ budget.args + 1 <= MaxArgs
             /\ objs' = Append(objs, EachO(Kind(r), r))
             /\ budget' = [budget EXCEPT !.leaves = @ + Leaves(<<r>>), !.args = @ + 1]
             /\ hist' = Append(hist, [op |-> "each", args |-> <<r>>, ok |-> TRUE, out |-> <<>>, amb |-> FALSE, state |-> [calls |-> calls, sinks |-> sinks]])
        /\ UNCHANGED <<calls, sinks, ab, phase>>
(* the call of object i that its kind offers *)
DoCall(i) ==
  LET r  == ObjRef(i)
      st == [calls |-> calls, sinks |-> sinks]
      k  == objs[i].kind
      res == CASE k = "Source" -> ReadR(r, st)
               [] k = "Filter" -> FilterR(r, X0, st)
               [] k = "Sink"   -> WriteR(r, X0, st)
               [] k = "Line"   -> RunR(r, st)
  IN /\ calls' = res.st.calls /\ sinks' = res.st.sinks
     /\ hist' = Append(hist, [op |-> CASE k = "Source" -> "read" [] k = "Filter" -> "filter" [] k = "Sink" -> "write" [] k = "Line" -> "run",
                              args |-> <<r>>, ok |-> res.ok, out |-> IF res.ok THEN res.v ELSE <<>>, amb |-> Ambiguous(r), state |-> Snapshot])
Good == {i \in DOMAIN objs : objs[i].t # "err"}
SweepOrder == LET up == SelectSeq([i \in 1..Len(objs) |-> i], LAMBDA i : i \in Good)
              IN up \o [k \in 1..Len(up) |-> up[Len(up) + 1 - k]]
StartCalls == /\ Part = "join" /\ Sched = "sweep" /\ phase = "build" /\ objs # <<>>
              /\ phase' = "call" /\ UNCHANGED <<objs, calls, sinks, ab, hist, budget>>
SweepCall == /\ Part = "join" /\ Sched = "sweep" /\ phase = "call" /\ budget.pc <= Len(SweepOrder)
             /\ DoCall(SweepOrder[budget.pc])
             /\ budget' = [budget EXCEPT !.pc = @ + 1, !.calls = @ + 1]
             /\ UNCHANGED <<objs, ab, phase>>
AnyCall == /\ Part = "join" /\ Sched = "any" /\ phase = "build" /\ budget.calls < MaxCalls
           /\ \E i \in Good : DoCall(i)
           /\ budget' = [budget EXCEPT !.calls = @ + 1]
           /\ UNCHANGED <<objs, ab, phase>>
JoinFinish == /\ Part = "join"
              /\ (\/ (Sched = "sweep" /\ phase = "call" /\ budget.pc > Len(SweepOrder))
                  \/ (Sched = "any" /\ phase = "build" /\ objs # <<>>))
              /\ phase' = "done" /\ UNCHANGED <<objs, calls, sinks, ab, hist, budget>>
JoinNext == Join \/ Each \/ StartCalls \/ SweepCall \/ AnyCall \/ JoinFinish

(* ---- what the algebra guarantees (checked by TLC in every state) ---- *)
StageKinds(i) == [s \in DOMAIN objs[i].stages |-> Kind(objs[i].stages[s])]
Comps == {i \in DOMAIN objs : objs[i].t = "comp"}
(* a composite is Source? Filter* Sink? and its kind is what its ends say *)
Shape == Part = "join" => \A i \in Comps : LET ks == StageKinds(i) IN
           /\ Len(ks) >= 1
           /\ \A s \in DOMAIN ks : ks[s] \in {"Source", "Filter", "Sink"} /\ (ks[s] = "Source" => s = 1) /\ (ks[s] = "Sink" => s = Len(ks))
           /\ objs[i].kind = EndKind(ks)
(* no composite is a stage of a composite: however the arguments were grouped, the stage list is the list of the leaves *)
Flattened == Part = "join" => \A i \in Comps : \A s \in DOMAIN objs[i].stages : IsAtom(objs[i].stages[s]) \/ objs[objs[i].stages[s].o].t = "each"
JoinSteps == {k \in DOMAIN hist : hist[k].op = "join"}
ObjOfStep(k) == Cardinality({j \in 1..k : hist[j].op \in {"join", "each"}})
Associative == Part = "join" => \A k \in JoinSteps : hist[k].ok =>
                 objs[ObjOfStep(k)].stages = Cat([a \in DOMAIN hist[k].args |-> FlatIn(objs, hist[k].args[a])])
(* grouping does not change whether a sequence is accepted: a join of composites is accepted iff the join of all their stages is *)
GroupingFree == Part = "join" => \A k \in JoinSteps :
                  LET leaves == Cat([a \in DOMAIN hist[k].args |-> FlatIn(objs, hist[k].args[a])])
                      lk     == [s \in DOMAIN leaves |-> Kind(leaves[s])]
                      noline == \A a \in DOMAIN hist[k].args : Kind(hist[k].args[a]) # "Line"
                  IN (hist[k].ok => WellTyped(lk)) /\ ((WellTyped(lk) /\ noline) => hist[k].ok)
(* nothing is called before the first call; every call calls every stage of the object exactly once per item it is given *)
CallSteps == {k \in DOMAIN hist : hist[k].op \in {"read", "filter", "write", "run"}}
Lazy == (Part = "join" /\ CallSteps = {}) => \A a \in AllAtoms : calls[a] = 0
Before(k) == IF k = 1 THEN [a \in AllAtoms |-> 0] ELSE hist[k - 1].state.calls
FirstX(as) == IF \E p \in DOMAIN as : as[p] = "X1" THEN CHOOSE p \in DOMAIN as : as[p] = "X1" /\ \A q \in 1..(p - 1) : as[q] # "X1" ELSE Len(as)
ExactlyOnce == Part = "join" => \A k \in CallSteps :
                 LET r == hist[k].args[1] IN
                 EachFree(r) => LET as == AtomsOf(r) IN \A a \in AllAtoms :
                    hist[k].state.calls[a] - Before(k)[a] = Cardinality({p \in 1..FirstX(as) : as[p] = a})
(* a call raises iff it reaches a raising stage; then nothing is written by it *)
FailStop == Part = "join" => \A k \in CallSteps :
              LET r == hist[k].args[1] IN
              /\ hist[k].ok <=> \A p \in DOMAIN AtomsOf(r) : AtomsOf(r)[p] # "X1"
              /\ (~hist[k].ok) => hist[k].state.sinks = (IF k = 1 THEN [a \in SinkAtoms |-> <<>>] ELSE hist[k - 1].state.sinks)
(* the tokens a value collected name the filter stages of the object in order *)
Tokens(v, base) == SubSeq(v, base + 1, Len(v))
InOrder == Part = "join" => \A k \in CallSteps : (hist[k].op \in {"read", "filter"} /\ hist[k].ok) =>
             LET r == hist[k].args[1] IN
             (EachFree(r) /\ objs[r.o].t = "comp") =>
                LET fs == SelectSeq(AtomsOf(r), LAMBDA a : AtomKind(a) = "Filter")
                    tk == Tokens(hist[k].out, 2)
                IN Len(tk) = Len(fs) /\ \A p \in DOMAIN fs : tk[p][1] = fs[p]
(* an object never changes once built *)
Immutable == [][Part = "join" => \A i \in DOMAIN objs : objs'[i] = objs[i]]_vars

ObjView(i) == LET r == ObjRef(i) IN
  IF objs[i].t = "err" THEN [t |-> "err", kind |-> "Error", stages |-> <<>>, inner |-> NoRef, str |-> "", params |-> <<>>, hasp |-> FALSE, pdistinct |-> TRUE]
  ELSE [t |-> objs[i].t, kind |-> objs[i].kind, stages |-> objs[i].stages, inner |-> objs[i].inner, str |-> StrOf(r),
        params |-> IF HasP(r) THEN RawParams(r) ELSE <<>>, hasp |-> HasP(r), pdistinct |-> (~HasP(r)) \/ KeysDistinct(RawParams(r))]
JoinEmit == [part |-> "join", objs |-> [i \in DOMAIN objs |-> ObjView(i)], steps |-> hist]

-----------------------------------------------------------------------------
(* ============================ Part "queue" =============================== *)
(* One queue (queue.Queue behind a wrapper that can be told to fail once), a QueueSink(queue) and a                          *)
(* QueueSink(queue, foreach=True) that write to it, two QueueSource(queue, block, poison) objects that read from it.        *)
(* ab = [q       the queue, oldest first; an item is its running number 1, 2, ..; 0 stands for the poison value             *)
(*       block   the `block` of both sources;  pz  their poison value: "None" (the default) or "zero" (the int 0)           *)
(*       poisoned[s]  QueueSource._poisoned of source s (read by ProcessLine / ThreadLine, lines.py 63, 134)                *)
(*       rd      the generators made by read() so far: [src, alive]                                                         *)
(*       fault   what the next get() / put() of the queue raises: "none" | "EOF" | "Pipe" | "Value"                         *)
(*       nput    items handed to the sinks so far;  sent / got  ghost: everything enqueued / dequeued, in order]            *)
(* read() makes a generator and touches nothing (lazy).  One QNext = one next() of a generator.  A blocking reader on an    *)
(* empty queue blocks: the step does not exist (the driver never makes that call).  EOFError / BrokenPipeError of the       *)
(* queue end a reader / a write silently (tests test_read_exception, test_write_exception), anything else propagates.       *)
(* Variants TLC must reject: "nb_poison" a NON-blocking reader stops at the poison value; "drop_on_fault" a failing get     *)
(* loses the item at the head of the queue.                                                                                 *)
QStep(op, arg, res) == [op |-> op, arg |-> arg, res |-> res, q |-> ab'.q, poisoned |-> ab'.poisoned]
QueueInit == /\ \E b \in BOOLEAN : \E pz \in {"None", "zero"} :
                  ab = [q |-> <<>>, block |-> b, pz |-> pz, poisoned |-> <<FALSE, FALSE>>, rd |-> <<>>, fault |-> "none", nput |-> 0,
                        sent |-> <<>>, got |-> <<>>]
             /\ objs = <<>> /\ calls = <<>> /\ sinks = <<>> /\ hist = <<>> /\ phase = "run" /\ budget = [n |-> 0]
QRunning == Part = "queue" /\ phase = "run" /\ budget.n < QN
QTick == budget' = [budget EXCEPT !.n = @ + 1]
Swallowed(f) == f \in {"EOF", "Pipe"}
(* QueueSink(queue).write(item): sinks.py 144-157; item = 0 is the poison value written like any item *)
QPut(op, items) ==
  /\ QRunning
  /\ (IF items = <<>> THEN ab' = ab /\ hist' = Append(hist, QStep(op, items, "ok"))
      ELSE IF ab.fault = "none"
      THEN ab' = [ab EXCEPT !.q = @ \o items, !.sent = @ \o items, !.nput = @ + Cardinality({i \in DOMAIN items : items[i] # 0})]
           /\ hist' = Append(hist, QStep(op, items, "ok"))
      ELSE ab' = [ab EXCEPT !.fault = "none", !.nput = @ + Cardinality({i \in DOMAIN items : items[i] # 0})]      \* the first put fails: nothing of this write arrives
           /\ hist' = Append(hist, QStep(op, items, IF Swallowed(ab.fault) THEN "ok" ELSE "raise")))
  /\ QTick /\ UNCHANGED <<objs, calls, sinks, phase>>
QWrite     == QPut("write", <<ab.nput + 1>>)
QWriteEach == \E n \in 0..2 : QPut("write_each", [i \in 1..n |-> ab.nput + i])
QPoison    == QPut("poison", <<0>>)
(* QueueSource.read(): sources.py 131 - a generator, nothing runs yet *)
QOpen == /\ QRunning /\ Len(ab.rd) < 2
         /\ \E s \in 1..2 : /\ ab' = [ab EXCEPT !.rd = Append(@, [src |-> s, alive |-> TRUE])]
                            /\ hist' = Append(hist, QStep("open", s, "ok"))
         /\ QTick /\ UNCHANGED <<objs, calls, sinks, phase>>
(* next() of generator r: sources.py 132-142 *)
QNext == /\ QRunning
         /\ \E r \in DOMAIN ab.rd :
              LET g == ab.rd[r] IN
              /\ (g.alive /\ ab.block) => (ab.q # <<>> \/ ab.fault # "none")          \* otherwise the call blocks
              /\ (IF ~g.alive THEN ab' = ab /\ hist' = Append(hist, QStep("next", r, "stop"))
                  ELSE IF (~ab.block) /\ ab.q = <<>>                                   \* 133: qsize() = 0 ends a non-blocking reader
                  THEN ab' = [ab EXCEPT !.rd[r].alive = FALSE] /\ hist' = Append(hist, QStep("next", r, "stop"))
                  ELSE IF ab.fault # "none"                                            \* 141: get() raised
                  THEN ab' = [ab EXCEPT !.rd[r].alive = FALSE, !.fault = "none",
                                        !.q = IF Variant = "drop_on_fault" /\ @ # <<>> THEN Tail(@) ELSE @]
                       /\ hist' = Append(hist, QStep("next", r, IF Swallowed(ab.fault) THEN "stop" ELSE "raise"))
                  ELSE LET x == Head(ab.q) IN
                       IF x = 0 /\ (ab.block \/ Variant = "nb_poison")                 \* 136-138
                       THEN ab' = [ab EXCEPT !.q = Tail(@), !.got = Append(@, x), !.rd[r].alive = FALSE, !.poisoned[g.src] = TRUE]
                            /\ hist' = Append(hist, QStep("next", r, "stop"))
                       ELSE ab' = [ab EXCEPT !.q = Tail(@), !.got = Append(@, x)]
                            /\ hist' = Append(hist, QStep("next", r, IF x = 0 THEN "poison" ELSE ToString(x))))
         /\ QTick /\ UNCHANGED <<objs, calls, sinks, phase>>
(* the queue is closed underneath / breaks: its next get() or put() raises *)
QBreak == /\ QRunning /\ ab.fault = "none" /\ budget.n + 1 < QN
          /\ \E f \in {"EOF", "Pipe", "Value"} : ab' = [ab EXCEPT !.fault = f] /\ hist' = Append(hist, QStep("break", 0, f))
          /\ QTick /\ UNCHANGED <<objs, calls, sinks, phase>>
QFinish == /\ Part = "queue" /\ phase = "run" /\ budget.n = QN /\ phase' = "done" /\ UNCHANGED <<objs, calls, sinks, ab, hist, budget>>
QueueNext == QWrite \/ QWriteEach \/ QPoison \/ QOpen \/ QNext \/ QBreak \/ QFinish
(* everything that entered the queue leaves it once, in order, or is still there *)
QFifo == Part = "queue" => ab.sent = ab.got \o ab.q
(* only a blocking reader that met the poison value marks its source *)
QPoisonRule == Part = "queue" => \A s \in 1..2 : ab.poisoned[s] => (ab.block /\ \E i \in DOMAIN ab.got : ab.got[i] = 0)
QueueEmit == [part |-> "queue", block |-> ab.block, pz |-> ab.pz, steps |-> hist]

-----------------------------------------------------------------------------
(* ============================ Part "disk" ================================ *)
(* One file (plain, or gzip when the name ends in .gz), DiskSink(path, mode, batch) objects writing it, DiskSource(path,     *)
(* start_loc, include_loc) reading it.  The file is its BYTES: "a", "b" and "N" (the line feed).  A line is a sequence of    *)
(* "a" / "b" (possibly empty); the sink writes line + LF, utf-8 (sinks.py 101).                                              *)
(* ab = [exists, bytes   the file;  open, count   the sink holds the file open / nesting of `with sink:` (sinks.py 75-90)    *)
(*       wrote   this sink OBJECT has opened the file before;  all  ghost: every line handed to a sink, in order             *)
(*       gz, mode, batch  the configuration]                                                                                 *)
(* mode "a+" (default) / "a": every open continues the file.  mode "w": the open truncates.  What a SECOND open of one       *)
(* mode-"w" sink object should do is not documented, so the histories keep to: at most one open per mode-"w" sink object     *)
(* (the write / with-block that opens the file); a fresh sink object (DNewSink) may follow.  `batch` = lines written before  *)
(* the file is closed and reopened - it does not change what one write() leaves in the file.                                *)
(* DiskSource: seek(start_loc), then every line up to the end of the file without its terminator, with the byte offset it    *)
(* starts at when include_loc (sources.py 105-113; test_start_and_include_loc).  Reading is only specified while no gzip     *)
(* member is open.                                                                                                           *)
(* Variants TLC must reject: "w_batch" every batch of a mode-"w" write truncates again; "loc_lines" the reported location    *)
(* counts lines, not bytes.                                                                                                  *)
DLines == {<<>>, <<"a">>, <<"b", "b">>}
RECURSIVE BytesOf(_)
BytesOf(lines) == IF lines = <<>> THEN <<>> ELSE Head(lines) \o <<"N">> \o BytesOf(Tail(lines))
RECURSIVE ReadFrom(_, _, _)
(* the lines from byte offset loc (0-based) on; k = number of lines already passed, for the broken variant *)
ReadFrom(bytes, loc, k) ==
  IF loc >= Len(bytes) THEN <<>>
  ELSE LET ends == {e \in (loc + 1)..Len(bytes) : bytes[e] = "N"}
           e    == IF ends = {} THEN Len(bytes) + 1 ELSE CHOOSE x \in ends : \A y \in ends : x <= y
       IN <<[loc |-> IF Variant = "loc_lines" THEN k ELSE loc, line |-> SubSeq(bytes, loc + 1, e - 1)]>> \o ReadFrom(bytes, e, k + 1)
DWriteArgs == {[str |-> TRUE, lines |-> <<<<"a">>>>], [str |-> FALSE, lines |-> <<>>], [str |-> FALSE, lines |-> <<<<"b", "b">>>>],
               [str |-> FALSE, lines |-> <<<<"a">>, <<>>>>], [str |-> FALSE, lines |-> <<<<"a">>, <<"b", "b">>, <<"a">>>>],
               [str |-> FALSE, lines |-> <<<<"a">>, <<>>, <<"b", "b">>, <<"a">>>>]}
DStep(op, arg, res) == [op |-> op, arg |-> arg, res |-> res, exists |-> ab'.exists, bytes |-> ab'.bytes]
DiskInit == /\ \E gz \in BOOLEAN : \E mode \in {"a+", "a", "w"} : \E batch \in 0..2 :
                 ab = [exists |-> FALSE, bytes |-> <<>>, open |-> FALSE, count |-> 0, wrote |-> FALSE, all |-> <<>>,
                       gz |-> gz, mode |-> mode, batch |-> batch]
            /\ objs = <<>> /\ calls = <<>> /\ sinks = <<>> /\ hist = <<>> /\ phase = "run" /\ budget = [n |-> 0]
DRunning == Part = "disk" /\ phase = "run" /\ budget.n < QN
MayOpen == ab.mode = "w" => ~ab.wrote
Opened(b) == IF ab.mode = "w" THEN <<>> ELSE b           \* what an open leaves of the file (sinks.py 78-82)
LastPartial(lines) == LET n == Len(lines) IN SubSeq(lines, n - (n % ab.batch) + 1, n)
(* DiskSink.write(lines): sinks.py 90-102 *)
DWrite == /\ DRunning
          /\ \E w \in DWriteArgs :
               /\ (~ab.open) => MayOpen
               /\ (IF ab.open THEN ab' = [ab EXCEPT !.bytes = @ \o BytesOf(w.lines), !.all = @ \o w.lines]
                   ELSE IF Variant = "w_batch" /\ ab.mode = "w" /\ ab.batch > 0
                   THEN ab' = [ab EXCEPT !.bytes = BytesOf(LastPartial(w.lines)), !.exists = TRUE, !.wrote = TRUE, !.all = @ \o w.lines]
                   ELSE ab' = [ab EXCEPT !.bytes = Opened(@) \o BytesOf(w.lines), !.exists = TRUE, !.wrote = TRUE, !.all = @ \o w.lines])
               /\ hist' = Append(hist, DStep("write", w, <<>>))
          /\ QTick /\ UNCHANGED <<objs, calls, sinks, phase>>
(* with sink: (sinks.py 75-89) - the file stays open until the outermost block is left *)
DEnter == /\ DRunning /\ ab.count < 2 /\ ((~ab.open) => MayOpen)
          /\ (IF ab.open THEN ab' = [ab EXCEPT !.count = @ + 1]
              ELSE ab' = [ab EXCEPT !.count = @ + 1, !.open = TRUE, !.exists = TRUE, !.wrote = TRUE, !.bytes = Opened(@)])
          /\ hist' = Append(hist, DStep("enter", <<>>, <<>>))
          /\ QTick /\ UNCHANGED <<objs, calls, sinks, phase>>
DExit == /\ DRunning /\ ab.count > 0
         /\ ab' = [ab EXCEPT !.count = @ - 1, !.open = (ab.count > 1)]
         /\ hist' = Append(hist, DStep("exit", <<>>, <<>>))
         /\ QTick /\ UNCHANGED <<objs, calls, sinks, phase>>
(* a fresh DiskSink object of the same configuration on the same path *)
DNewSink == /\ DRunning /\ ab.count = 0 /\ ab.wrote /\ budget.n + 1 < QN
            /\ ab' = [ab EXCEPT !.wrote = FALSE]
            /\ hist' = Append(hist, DStep("newsink", <<>>, <<>>))
            /\ QTick /\ UNCHANGED <<objs, calls, sinks, phase>>
(* list(DiskSource(path, start_loc = loc, include_loc = ..).read()) for EVERY offset loc of the file: sources.py 98-113 *)
DRead == /\ DRunning /\ ab.exists /\ ~(ab.gz /\ ab.open) /\ (hist # <<>> => Last(hist).op # "read")
         /\ ab' = ab
         /\ hist' = Append(hist, DStep("read", <<>>, [loc \in 0..Len(ab.bytes) |-> ReadFrom(ab.bytes, loc, 0)]))
         /\ QTick /\ UNCHANGED <<objs, calls, sinks, phase>>
DFinish == /\ Part = "disk" /\ phase = "run" /\ budget.n = QN /\ phase' = "done" /\ UNCHANGED <<objs, calls, sinks, ab, hist, budget>>
DiskNext == DWrite \/ DEnter \/ DExit \/ DNewSink \/ DRead \/ DFinish
(* every reported location leads back to its line (the repository's own test, for every file the sink can produce) *)
DLocRoundTrip == Part = "disk" => \A i \in DOMAIN ReadFrom(ab.bytes, 0, 0) :
                    LET e == ReadFrom(ab.bytes, 0, 0)[i] IN
                    LET again == ReadFrom(ab.bytes, e.loc, 0) IN again # <<>> /\ again[1].line = e.line
(* appending modes: the file is exactly what was written, in order, whatever the batch size and the nesting *)
DAppendOnly == (Part = "disk" /\ ab.mode # "w") => ab.bytes = BytesOf(ab.all)
(* whatever the mode: when write() returns the file ends with the lines of that call, and reading it back gives lines *)
DWriteComplete == (Part = "disk" /\ hist # <<>> /\ Last(hist).op = "write") =>
                     LET b == BytesOf(Last(hist).arg.lines) IN
                     Len(ab.bytes) >= Len(b) /\ SubSeq(ab.bytes, Len(ab.bytes) - Len(b) + 1, Len(ab.bytes)) = b
DBalanced == Part = "disk" => (ab.open <=> ab.count > 0)
DiskEmit == [part |-> "disk", gz |-> ab.gz, mode |-> ab.mode, batch |-> ab.batch, steps |-> hist]

-----------------------------------------------------------------------------
(* ============================ Part "list" ================================ *)
(* A = ListSink(), B = ListSink(A.items, foreach=True) sharing A's list, ListSource(A.items) and IterableSource(A.items)     *)
(* (as Experiment.run wires them, experiments/core.py 195-196), a LambdaSource, a LambdaSink, a ConsoleSink, NullSource,     *)
(* NullSink, IdentitySource.  Written values are tagged: [t |-> "int", v], [t |-> "list", v |-> <<values>>],                  *)
(* [t |-> "iter", v |-> <<values>>] (a one-shot iterator: the list sinks keep its elements as a list, sinks.py 129).         *)
(* ab = [lst  the shared list;  lam  what the LambdaSink's function received;  out  the lines printed so far;                *)
(*       nxt  the next fresh int;  nread  calls of the LambdaSource's function;  nwrites / nelems  ghost counters]           *)
(* Variant TLC must reject: "l_extend" the plain ListSink spreads a written list over several entries.                       *)
IntV(n)   == [t |-> "int", v |-> n]
ListV(xs) == [t |-> "list", v |-> xs]
IterV(xs) == [t |-> "iter", v |-> xs]
Kept(x)   == IF x.t = "iter" THEN ListV(x.v) ELSE x                 \* sinks.py 129
LStep(op, arg, res) == [op |-> op, arg |-> arg, res |-> res, lst |-> ab'.lst, lam |-> ab'.lam, out |-> ab'.out]
ListInit == /\ ab = [lst |-> <<>>, lam |-> <<>>, out |-> <<>>, nxt |-> 1, nread |-> 0, nwrites |-> 0]
            /\ objs = <<>> /\ calls = <<>> /\ sinks = <<>> /\ hist = <<>> /\ phase = "run" /\ budget = [n |-> 0]
LRunning == Part = "list" /\ phase = "run" /\ budget.n < QN
LArgs(n) == {IntV(n), ListV(<<IntV(n), IntV(n + 1)>>), IterV(<<IntV(n), IntV(n + 1)>>), ListV(<<>>)}
LEachArgs(n) == {ListV(<<>>), ListV(<<IntV(n)>>), ListV(<<IntV(n), IntV(n + 1)>>), IterV(<<IntV(n), IntV(n + 1)>>),
                 ListV(<<IterV(<<IntV(n)>>), IntV(n + 1)>>)}
(* A.write(x): one entry per write (sinks.py 126-129) *)
LWrite == /\ LRunning
          /\ \E x \in LArgs(ab.nxt) :
               /\ ab' = [ab EXCEPT !.lst = IF Variant = "l_extend" /\ x.t = "list" THEN @ \o x.v ELSE Append(@, Kept(x)), !.nxt = @ + 2, !.nwrites = @ + 1]
               /\ hist' = Append(hist, LStep("write", x, <<>>))
          /\ QTick /\ UNCHANGED <<objs, calls, sinks, phase>>
(* B.write(xs): one entry per element *)
LWriteEach == /\ LRunning
              /\ \E x \in LEachArgs(ab.nxt) :
                   /\ ab' = [ab EXCEPT !.lst = @ \o [i \in DOMAIN x.v |-> Kept(x.v[i])], !.nxt = @ + 2, !.nwrites = @ + Len(x.v)]
                   /\ hist' = Append(hist, LStep("write_each", x, <<>>))
              /\ QTick /\ UNCHANGED <<objs, calls, sinks, phase>>
(* ListSource(A.items).read() is the list itself; list(IterableSource(A.items).read()) its elements (sources.py 266-296) *)
LRead == /\ LRunning /\ \E op \in {"read_list", "read_iter"} : ab' = ab /\ hist' = Append(hist, LStep(op, <<>>, ab.lst))
         /\ QTick /\ UNCHANGED <<objs, calls, sinks, phase>>
(* LambdaSource(f).read() = f() anew every time (sources.py 298-310); f counts its calls *)
LLambdaRead == /\ LRunning /\ ab' = [ab EXCEPT !.nread = @ + 1] /\ hist' = Append(hist, LStep("lambda_read", <<>>, IntV(ab.nread + 1)))
               /\ QTick /\ UNCHANGED <<objs, calls, sinks, phase>>
(* LambdaSink(g).write(x) = g(x) (sinks.py 159-171); g keeps x and returns how many it has *)
LLambdaWrite == /\ LRunning /\ ab' = [ab EXCEPT !.lam = Append(@, IntV(ab.nxt)), !.nxt = @ + 1]
                /\ hist' = Append(hist, LStep("lambda_write", IntV(ab.nxt), IntV(Len(ab.lam) + 1)))
                /\ QTick /\ UNCHANGED <<objs, calls, sinks, phase>>
(* ConsoleSink().write(x) prints x (sinks.py 42-46): one line, the text of x *)
ConsoleText(x) == CASE x = "int" -> "7" [] x = "str" -> "ab" [] x = "list" -> "[1, 2]" [] x = "none" -> "None"
LConsole == /\ LRunning /\ \E x \in {"int", "str", "list", "none"} :
                 ab' = [ab EXCEPT !.out = Append(@, ConsoleText(x))] /\ hist' = Append(hist, LStep("console", x, <<>>))
            /\ QTick /\ UNCHANGED <<objs, calls, sinks, phase>>
(* NullSink().write(x) does nothing, NullSource().read() is empty, IdentitySource(item).read() is the item (sinks.py 37-40, sources.py 41-65) *)
LNulls == /\ LRunning /\ \E op \in {"null_write", "null_read", "identity_read"} : ab' = ab /\ hist' = Append(hist, LStep(op, <<>>, <<>>))
          /\ QTick /\ UNCHANGED <<objs, calls, sinks, phase>>
LFinish == /\ Part = "list" /\ phase = "run" /\ budget.n = QN /\ phase' = "done" /\ UNCHANGED <<objs, calls, sinks, ab, hist, budget>>
ListNext == LWrite \/ LWriteEach \/ LRead \/ LLambdaRead \/ LLambdaWrite \/ LConsole \/ LNulls \/ LFinish
(* one entry per plain write, one per element of a foreach write; nothing else ever touches the list *)
LEntries == Part = "list" => Len(ab.lst) = ab.nwrites
LNoIterKept == Part = "list" => \A i \in DOMAIN ab.lst : ab.lst[i].t # "iter"
ListEmit == [part |-> "list", steps |-> hist]

-----------------------------------------------------------------------------
(* ============================ Part "table" =============================== *)
(* Decision tables: every initial state is one input, its successor prints input and expected outcome.                       *)
(* Values are tagged: int / str / none / list / tuple / dict (v = << <<key, value>>, .. >>, keys are tagged values).          *)
StrV(x)   == [t |-> "str", v |-> x]
NoneV     == [t |-> "none", v |-> 0]
TupleV(xs) == [t |-> "tuple", v |-> xs]
DictV(ps) == [t |-> "dict", v |-> ps]
ErrV      == [t |-> "error", v |-> 0]
(* ---- UrlSource(url): sources.py 312-338 ---- *)
UrlSchemes == {"http", "https", "file", "irc", "ftp", ""}
UrlRests   == {"h/x.csv", "/abs/x.gz", "x", ""}
UrlText(sch, rest) == IF sch = "" THEN rest ELSE sch \o "://" \o rest
UrlOut(sch, rest) == CASE sch \in {"http", "https"} -> [route |-> "http", arg |-> UrlText(sch, rest)]
                       [] sch \in {"file", ""}      -> [route |-> "disk", arg |-> rest]
                       [] OTHER                     -> [route |-> "error", arg |-> ""]
(* ---- Insert(ins).filter(items) = ins then items (filters.py 423-429); Identity().filter(x) is x (38-45) ---- *)
SeqsUpTo(S, n) == UNION {[1..k -> S] : k \in 0..n}
(* ---- Default(defaults).filter(rows): a sparse row gains the defaults it lacks, a dense row is untouched (363-388) ---- *)
DefRows == {DictV(<<>>), DictV(<< <<StrV("A"), IntV(1)>> >>), DictV(<< <<StrV("B"), IntV(2)>>, <<StrV("A"), IntV(1)>> >>), ListV(<<IntV(1), IntV(2)>>), StrV("ab")}
DefDefaults == {<<>>, << <<StrV("A"), IntV(7)>> >>, << <<StrV("A"), IntV(7)>>, <<StrV("B"), IntV(8)>> >>}
HasKey(ps, k) == \E i \in DOMAIN ps : ps[i][1] = k
DefaultRow(defs, row) == IF row.t # "dict" THEN row
                         ELSE DictV(row.v \o SelectSeq(defs, LAMBDA d : ~HasKey(row.v, d[1])))
(* ---- Flatten().filter(rows) on table shaped rows (filters.py 203-245): a cell that is a sequence (not text) is replaced by
        its elements; a dense row stays a list / becomes a tuple; a sparse row gets one key "<key>_<i>" per element and loses
        its zeros - unless no cell of the table is a sequence: then the rows pass through untouched ---- *)
CellTypes == {"num", "text", "hot", "lst", "zero"}
CellVal(ty, v) == CASE ty = "num" -> IntV(v) [] ty = "zero" -> IntV(0) [] ty = "text" -> StrV(IF v = 1 THEN "ab" ELSE "cd")
                    [] ty = "hot" -> TupleV(IF v = 1 THEN <<IntV(0), IntV(1)>> ELSE <<IntV(1), IntV(0)>>)
                    [] ty = "lst" -> ListV(IF v = 1 THEN <<IntV(3)>> ELSE <<IntV(4), IntV(5)>>)
Flattable(ty) == ty \in {"hot", "lst"}
FlatCell(c) == IF c.t \in {"tuple", "list"} THEN c.v ELSE <<c>>
DenseRow(shape, v, rt) == [t |-> rt, v |-> [i \in DOMAIN shape |-> CellVal(shape[i], v)]]
FlattenDense(shape, row) == IF \E i \in DOMAIN shape : Flattable(shape[i])
                            THEN [t |-> IF row.t = "list" THEN "list" ELSE "tuple", v |-> Cat([i \in DOMAIN row.v |-> FlatCell(row.v[i])])]
                            ELSE row
SparseKeys == <<"A", "B", "C">>
SparseRow(shape, v) == DictV([i \in DOMAIN shape |-> <<StrV(SparseKeys[i]), CellVal(shape[i], v)>>])
FlatEntry(k, c) == IF c.t \in {"tuple", "list"}
                   THEN SelectSeq([i \in DOMAIN c.v |-> <<StrV(k \o "_" \o ToString(i - 1)), c.v[i]>>], LAMBDA e : e[2] # IntV(0))
                   ELSE IF c = IntV(0) THEN <<>> ELSE << <<StrV(k), c>> >>
FlattenSparse(shape, row) == IF \E i \in DOMAIN shape : Flattable(shape[i])
                             THEN DictV(Cat([i \in DOMAIN row.v |-> FlatEntry(row.v[i][1].v, row.v[i][2])]))
                             ELSE row
(* ---- Structure(s).filter(rows) (filters.py 308-361): the structure with every feature name replaced by the row's value and
        None by what is left of the row once EVERY named feature is taken out; lists stay lists, tuples tuples.
        A dense row is addressed by position - a position of the row AS GIVEN, however many positions the structure names ---- *)
KeyS(k) == [t |-> "key", v |-> k]
RECURSIVE KeysIn(_)
KeysIn(s) == IF s.t = "key" THEN {s.v} ELSE IF s.t = "none" THEN {} ELSE UNION {KeysIn(s.v[i]) : i \in DOMAIN s.v}
RECURSIVE Build(_, _, _)
Build(s, lookup, rest) == CASE s.t = "key" -> lookup[s.v] [] s.t = "none" -> rest
                            [] OTHER -> [t |-> s.t, v |-> [i \in DOMAIN s.v |-> Build(s.v[i], lookup, rest)]]
SparseStructs == {KeyS("A"), ListV(<<NoneV, KeyS("B")>>), TupleV(<<KeyS("A"), KeyS("B")>>), ListV(<<KeyS("B"), NoneV>>),
                  ListV(<<ListV(<<KeyS("A")>>), NoneV>>), TupleV(<<NoneV, TupleV(<<KeyS("B"), KeyS("A")>>)>>), NoneV}
SRow(v) == << <<"A", IntV(v)>>, <<"B", IntV(v + 10)>>, <<"C", IntV(v + 20)>> >>
StructSparse(s, v) == LET row == SRow(v)
                          lookup == [k \in {"A", "B", "C"} |-> row[CHOOSE i \in 1..3 : row[i][1] = k][2]]
                          rest == DictV([i \in DOMAIN SelectSeq(row, LAMBDA e : e[1] \notin KeysIn(s)) |->
                                           <<StrV(SelectSeq(row, LAMBDA e : e[1] \notin KeysIn(s))[i][1]), SelectSeq(row, LAMBDA e : e[1] \notin KeysIn(s))[i][2]>>])
                      IN Build(s, lookup, rest)
DenseStructs == {KeyS(2), KeyS(0), ListV(<<NoneV, KeyS(2)>>), TupleV(<<NoneV, KeyS(2)>>), ListV(<<KeyS(0), NoneV>>), TupleV(<<KeyS(1), ListV(<<NoneV>>)>>), NoneV,
                 ListV(<<KeyS(0), KeyS(1)>>), TupleV(<<KeyS(0), NoneV, KeyS(2)>>), ListV(<<KeyS(2), KeyS(0)>>), ListV(<<KeyS(1), ListV(<<KeyS(0), NoneV>>)>>)}
DRowVals(v) == <<IntV(v), IntV(v + 10), IntV(v + 20)>>
StructDense(s, v) == LET vals == DRowVals(v)
                         lookup == [k \in 0..2 |-> vals[k + 1]]
                         keep == SelectSeq(<<0, 1, 2>>, LAMBDA k : k \notin KeysIn(s))
                     IN Build(s, lookup, ListV([i \in DOMAIN keep |-> vals[keep[i] + 1]]))
RowVariants == IF Size = "quick" THEN {<<>>, <<1>>, <<1, 2>>} ELSE {<<>>, <<1>>, <<2>>, <<1, 2>>, <<2, 1>>, <<1, 1>>, <<1, 2, 1>>}
Shapes == UNION {[1..k -> CellTypes] : k \in 1..(IF Size = "quick" THEN 2 ELSE 3)}
TableInit ==
  /\ objs = <<>> /\ calls = <<>> /\ sinks = <<>> /\ hist = <<>> /\ phase = "go" /\ budget = [n |-> 0]
  /\ \/ \E sch \in UrlSchemes : \E rest \in UrlRests : ab = [fam |-> "url", inp |-> UrlText(sch, rest), out |-> UrlOut(sch, rest)]
     \/ \E ins \in SeqsUpTo({IntV(8), IntV(9)}, 2) : \E items \in SeqsUpTo({IntV(1), IntV(2)}, 2) :
          ab = [fam |-> "insert", inp |-> [ins |-> ins, items |-> items], out |-> ListV(ins \o items)]
     \/ \E defs \in DefDefaults : \E rows \in SeqsUpTo(DefRows, 2) :
          ab = [fam |-> "default", inp |-> [defs |-> defs, rows |-> rows], out |-> ListV([i \in DOMAIN rows |-> DefaultRow(defs, rows[i])])]
     \/ \E shape \in Shapes : \E rt \in {"list", "tuple"} : \E vs \in RowVariants :
          /\ \A i \in DOMAIN shape : shape[i] # "zero"
          /\ ab = [fam |-> "flatten", inp |-> ListV([i \in DOMAIN vs |-> DenseRow(shape, vs[i], rt)]),
                   out |-> ListV([i \in DOMAIN vs |-> FlattenDense(shape, DenseRow(shape, vs[i], rt))])]
     \/ \E shape \in Shapes : \E vs \in RowVariants :
          /\ \A i \in DOMAIN shape : shape[i] # "lst"
          /\ ab = [fam |-> "flatten", inp |-> ListV([i \in DOMAIN vs |-> SparseRow(shape, vs[i])]),
                   out |-> ListV([i \in DOMAIN vs |-> FlattenSparse(shape, SparseRow(shape, vs[i]))])]
     \/ \E s \in SparseStructs : \E vs \in RowVariants :
          ab = [fam |-> "structure", inp |-> [s |-> s, rows |-> ListV([i \in DOMAIN vs |-> DictV([j \in 1..3 |-> <<StrV(SRow(vs[i])[j][1]), SRow(vs[i])[j][2]>>])])],
                out |-> ListV([i \in DOMAIN vs |-> StructSparse(s, vs[i])])]
     \/ \E s \in DenseStructs : \E vs \in RowVariants :
          ab = [fam |-> "structure", inp |-> [s |-> s, rows |-> ListV([i \in DOMAIN vs |-> ListV(DRowVals(vs[i]))])],
                out |-> ListV([i \in DOMAIN vs |-> StructDense(s, vs[i])])]
TableNext == /\ Part = "table" /\ phase = "go" /\ phase' = "done" /\ UNCHANGED <<objs, calls, sinks, ab, hist, budget>>
(* the tables are total, flattening leaves no sequence cell behind, a default never overrides a value *)
RECURSIVE NoSeqCell(_)
NoSeqCell(row) == \A i \in DOMAIN row.v : IF row.t = "dict" THEN row.v[i][2].t \notin {"list", "tuple"} ELSE row.v[i].t \notin {"list", "tuple"}
TableSound == Part = "table" =>
   /\ (ab.fam = "flatten" => \A i \in DOMAIN ab.out.v : NoSeqCell(ab.out.v[i]) /\ ab.out.v[i].t = ab.inp.v[i].t)
   /\ (ab.fam = "default" => \A i \in DOMAIN ab.out.v : (ab.inp.rows[i].t = "dict" =>
          /\ \A d \in DOMAIN ab.inp.defs : HasKey(ab.out.v[i].v, ab.inp.defs[d][1])
          /\ SubSeq(ab.out.v[i].v, 1, Len(ab.inp.rows[i].v)) = ab.inp.rows[i].v))
   /\ (ab.fam = "insert" => Len(ab.out.v) = Len(ab.inp.ins) + Len(ab.inp.items))
TableEmit == [part |-> "table", fam |-> ab.fam, inp |-> ab.inp, out |-> ab.out]

-----------------------------------------------------------------------------
Init == CASE Part = "join" -> JoinInit [] Part = "queue" -> QueueInit [] Part = "disk" -> DiskInit [] Part = "list" -> ListInit [] Part = "table" -> TableInit
Next == \/ Join \/ Each \/ StartCalls \/ SweepCall \/ AnyCall \/ JoinFinish
        \/ QWrite \/ QWriteEach \/ QPoison \/ QOpen \/ QNext \/ QBreak \/ QFinish
        \/ DWrite \/ DEnter \/ DExit \/ DNewSink \/ DRead \/ DFinish
        \/ LWrite \/ LWriteEach \/ LRead \/ LLambdaRead \/ LLambdaWrite \/ LConsole \/ LNulls \/ LFinish
        \/ TableNext
Spec == Init /\ [][Next]_vars
Emit == phase = "done" => PrintT(ToJson(CASE Part = "join" -> JoinEmit [] Part = "queue" -> QueueEmit [] Part = "disk" -> DiskEmit
                                          [] Part = "list" -> ListEmit [] Part = "table" -> TableEmit))
=============================================================================
