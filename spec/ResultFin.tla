------------------------------ MODULE ResultFin ------------------------------
(***************************************************************************)
(* C18 - what coba.results.core.Result must return for where_fin /         *)
(* filter_fin, raw_learners and moving_average.                            *)
(*                                                                         *)
(* A Result is                                                             *)
(*   par  : the parameter columns of the three parameter tables            *)
(*          (ea, eb per environment id; la, lb per learner id; va per      *)
(*          evaluator id - abstract values, duplicates allowed),           *)
(*   ev   : a function  <<e,l,v>> |-> number of interaction rows of that   *)
(*          evaluation (rows carry index 1..len, reward Yv(t,i,salt)),     *)
(*   tab  : the ids the three parameter tables may hold (upper bound),     *)
(*   full : every parameter row is referenced by an interaction row.       *)
(*                                                                         *)
(* One action per public call of Result (the code it mirrors is cited at   *)
(* each action); a behaviour is a chain of calls, `hist` records what the  *)
(* real object must show after every call.  The driver replays every       *)
(* history on real Result objects.                                         *)
(*                                                                         *)
(*   DoFin   where_fin(n,l,p) / filter_fin      core.py 1096-1113, 1257-1272, 1986-2001 *)
(*   DoWhere where(col=[values]) / where(index={'<=':k})       1274-1319, 1115-1221     *)
(*   DoBest  where_best(l,p,n=nb)                              1042-1094, 1223-1255     *)
(*   DoRaw   raw_learners(x,'reward',l,p,span)  (an observation)  1321-1365, 1780-1784  *)
(*   DoWhereI where(reward={op:c}) / where(index={op:k})  (ends the history) 1194-1221  *)
(* Mode "ma": moving_average(values, span, weights) as a decision table, 61-87.         *)
(*                                                                         *)
(* Numbers: rationals are <<numerator, denominator>> (denominator > 0,     *)
(* not normalised); n: 0 = None, -1 = 'min', k > 0 = k; span 0 = None.     *)
(***************************************************************************)
EXTENDS Integers, Sequences, FiniteSets, TLC, Json

CONSTANTS Mode,        \* "res" (Result histories) or "ma" (moving_average table)
          Dims,        \* set of <<#environments, #learners, #evaluators>>
          Pars,        \* set of parameter records [ea, eb, la, lb, va] (sequences indexed by id)
          Salts,       \* reward patterns
          MaxLen,      \* evaluation lengths are 1..MaxLen
          LenMode,     \* "all": every length function;  "pat": the functions of LenPats
          LenPats,     \* <<a,b,c,d>>: the evaluation <<e,l,v>> has 1 + (a*e + b*l + c*v + d) % MaxLen rows
          MaxMissing,  \* at most this many triples of the full grid are missing
          TabFull,     \* subset of BOOLEAN: TRUE = the parameter tables hold every id of the grid
                       \* (an id without interaction rows = a triple whose evaluation failed)
          MaxOps,      \* calls per history
          Ops,         \* subset of {"fin","where","wherei","best","raw"}
          FinNs,       \* n arguments of where_fin
          FinLPs,      \* <<l,p>> arguments of where_fin (<<<<>>,<<>>>> = where_fin's own default: no pairing)
          RawArgs,     \* <<x,l,p,span>> arguments of raw_learners
          BestArgs,    \* <<l,p,n>> arguments of where_best (p = <<>>: p not given)
          WhereArgs,   \* <<column, set of abstract values>> or <<"index", k>>
          WhereIArgs,  \* <<interaction column ("reward" | "index"), operator, value>>: where on an interaction column
          Namings,     \* the names under which the binding may present the parameter columns (see below)
          MAVals, MAMaxLen, MASpans, MAWeights
VARIABLES par, salt, ev, tab, full, hist, n, ma
vars == <<par, salt, ev, tab, full, hist, n, ma>>

(* ------------------------------------------------------------------ data *)
Triples(d) == (1..d[1]) \X (1..d[2]) \X (1..d[3])
(* the reward of row i of evaluation t: any fixed, varied integer pattern will do *)
Yv(t, i, s) == (t[1]*37 + t[2]*11 + t[3]*5 + i*i*3 + s*7) % 13
YSeq(t, len) == [i \in 1..len |-> Yv(t, i, salt)]
EmptyF == [t \in {} |-> 0]
Restrict(f, S) == [t \in S |-> f[t]]
Ref(evf) == <<{t[1] : t \in DOMAIN evf}, {t[2] : t \in DOMAIN evf}, {t[3] : t \in DOMAIN evf}>>
EvSet(evf) == {<<t[1], t[2], t[3], evf[t]>> : t \in DOMAIN evf}
Min(S) == CHOOSE x \in S : \A y \in S : x <= y

(* the value an evaluation has in a column of any of the four tables (core.py 1830-1841);
   full_name is a label that contains the learner id, so it identifies the learner (983-987) *)
ColVal(c, t) ==
  CASE c = "environment_id" -> t[1]
    [] c = "learner_id"     -> t[2]
    [] c = "full_name"      -> t[2]
    [] c = "evaluator_id"   -> t[3]
    [] c = "ea" -> par.ea[t[1]]
    [] c = "eb" -> par.eb[t[1]]
    [] c = "la" -> par.la[t[2]]
    [] c = "lb" -> par.lb[t[2]]
    [] c = "va" -> par.va[t[3]]
(* a column choice is a sequence of columns (a single column = a sequence of one) *)
Tup(cs, t) == [i \in DOMAIN cs |-> ColVal(cs[i], t)]

(* THE MEANING OF A PARAMETER COLUMN DOES NOT DEPEND ON ITS NAME.  ea, eb, la, lb, va above are ROLES; *)
(* the real tables may call them anything that is a legal column name: a naming is an injective map   *)
(* from roles to strings that avoids the column names the four tables reserve.  Nothing in this spec  *)
(* reads the naming, so every expectation is the same under every naming - including names that       *)
(* contain or resemble the words of the API ('fold_index', 'indexes', 'environment_id2', 'learner',   *)
(* 'full_names', 'x', 'p', 'span' ...), given as a string or as a one-element list.  The driver       *)
(* presents every history under namings of `Namings` (printed once per TLC run by the ASSUME).        *)
Roles == {"ea", "eb", "la", "lb", "va"}
Reserved == {"environment_id", "learner_id", "evaluator_id", "index", "reward", "full_name"}
NamingLegal(nm) == /\ DOMAIN nm = Roles
                   /\ \A r \in Roles : nm[r] \notin Reserved /\ nm[r] # ""
                   /\ \A r1, r2 \in Roles : nm[r1] = nm[r2] => r1 = r2
ASSUME \A nm \in Namings : NamingLegal(nm)
ASSUME PrintT(ToJson([namings |-> Namings]))

(* ------------------------------------------------------------ rationals *)
RAdd(a, b) == <<a[1]*b[2] + b[1]*a[2], a[2]*b[2]>>
RLess(a, b) == a[1]*b[2] < b[1]*a[2]
RECURSIVE FSum(_,_,_)
FSum(f, a, b) == IF a > b THEN 0 ELSE f[a] + FSum(f, a+1, b)
RECURSIVE Pow(_,_)
Pow(b, k) == IF k = 0 THEN 1 ELSE b * Pow(b, k-1)

(* ------------------------------------------------------- moving_average *)
(* The textbook definitions (core.py 61-87):                                *)
(*   weights none : out[i] = mean of the last min(span,i) values (span None: all i values)        *)
(*   weights w    : out[i] = sum(w[j]*v[j]) / sum(w[j]) over the same window                      *)
(*   weights 'exp': out[i] = sum((1-a)^(i-j) v[j]) / sum((1-a)^(i-j)), j <= i, a = 2/(1+span)     *)
(*                  (pandas ewm(span).mean()); scaled by (span+1)^(i-1) to stay in the integers   *)
(* w = [k |-> "none" | "seq" | "exp", s |-> sequence of positive weights]                         *)
MovAvg(vals, span, w) ==
  [i \in DOMAIN vals |->
     IF w.k = "exp"
     THEN LET c == [j \in 1..i |-> Pow(span-1, i-j) * Pow(span+1, j-1)]
          IN <<FSum([j \in 1..i |-> c[j]*vals[j]], 1, i), FSum(c, 1, i)>>
     ELSE LET wt == [j \in DOMAIN vals |-> IF w.k = "none" THEN 1 ELSE w.s[j]]
              lo == IF span = 0 \/ i - span + 1 < 1 THEN 1 ELSE i - span + 1
          IN <<FSum([j \in DOMAIN vals |-> wt[j]*vals[j]], lo, i), FSum(wt, lo, i)>>]
NoW == [k |-> "none", s |-> <<>>]

(* -------------------------------------------------------------- pairing *)
(* "keeps exactly those pairing groups that have one evaluation for every compared level":        *)
(* levels = the l-values present in S, a group = the evaluations sharing one p-value; a group is  *)
(* complete iff it holds EXACTLY ONE evaluation of every level (core.py 1940-1984 _group_p).      *)
(* co: some incomplete group holds as many evaluations as there are levels (the input class on    *)
(* which counting evaluations instead of levels goes wrong; used only to label findings).         *)
PairRec(S, lc, pc) ==
  LET lv == [t \in S |-> Tup(lc, t)]
      pv == [t \in S |-> Tup(pc, t)]
      levels == {lv[t] : t \in S}
      grps == {pv[t] : t \in S}
      ok(g) == \A lev \in levels : Cardinality({t \in S : pv[t] = g /\ lv[t] = lev}) = 1
      good == {g \in grps : ok(g)}
  IN [keep |-> {t \in S : pv[t] \in good},
      co   |-> \E g \in grps \ good : Cardinality({t \in S : pv[t] = g}) = Cardinality(levels)]
Pair(S, lc, pc) == IF lc = <<>> THEN S ELSE PairRec(S, lc, pc).keep

(* ------------------------------------------------------------ where_fin *)
(* _filter_fin (1986-2001): pairing (_group_p) and the length rule (_global_n 1892-1938).         *)
(*   n None : the paired evaluations, untouched.                                                  *)
(*   n 'min': the paired evaluations, each truncated to the shortest REMAINING one.               *)
(*   n = k  : evaluations shorter than k are dropped, the others truncated to k, and the result   *)
(*            must again be paired ("an l exists for every p and all p have n interactions",      *)
(*            1269).  The property does not fix the order of the two rules; the two readings      *)
(*            A = pair(drop short) and B = pair(drop short(pair)) are both accepted.              *)
Long(evf, S, k) == {t \in S : evf[t] >= k}
FinAlts(evf, nn, lc, pc) ==
  LET D == DOMAIN evf IN
  IF nn = 0 THEN {Restrict(evf, Pair(D, lc, pc))}
  ELSE IF nn = -1 THEN LET S1 == Pair(D, lc, pc) IN
                       {IF S1 = {} THEN EmptyF ELSE LET m == Min({evf[t] : t \in S1}) IN [t \in S1 |-> m]}
  ELSE LET A == Pair(Long(evf, D, nn), lc, pc)
           B == Pair(Long(evf, Pair(D, lc, pc), nn), lc, pc)
       IN {[t \in A |-> nn], [t \in B |-> nn]}
(* labels of the input classes on which the two suspected defects of _filter_fin can show *)
FinFlags(evf, nn, lc, pc) ==
  IF lc = <<>> THEN {} ELSE
  LET D == DOMAIN evf
      r1 == PairRec(D, lc, pc)
      lg == Long(evf, r1.keep, nn)
      r2 == PairRec(lg, lc, pc)
      r3 == PairRec(Long(evf, D, nn), lc, pc)
  IN (IF r1.co \/ (nn > 0 /\ (r2.co \/ r3.co)) THEN {"count-only"} ELSE {})
     \cup (IF nn > 0 /\ r2.keep # lg THEN {"short-after-pairing"} ELSE {})

(* ----------------------------------------------------------- where_best *)
(* filter_best (1042-1094): first filter_fin(l='learner_id', p='environment_id'); then in every   *)
(* p-group, for every l-value, keep the learner whose evaluations there have the best mean of     *)
(* (mean of the first nb rewards); defined (enabled) only where that learner is unique.           *)
RECURSIVE YSum(_,_,_)
YSum(t, a, b) == IF a > b THEN 0 ELSE Yv(t, a, salt) + YSum(t, a+1, b)
EvalMean(evf, t, nb) == LET k == IF nb = 0 \/ nb > evf[t] THEN evf[t] ELSE nb IN <<YSum(t, 1, k), k>>
RECURSIVE SumMeans(_,_,_)
SumMeans(evf, G, nb) == IF G = {} THEN <<0, 1>> ELSE
   LET t == CHOOSE x \in G : TRUE IN RAdd(EvalMean(evf, t, nb), SumMeans(evf, G \ {t}, nb))
Score(evf, G, nb) == LET s == SumMeans(evf, G, nb) IN <<s[1], s[2] * Cardinality(G)>>
(* p not given (<<>>): "defaults to full_p" (docstring 1234), i.e. 'environment_id'.                *)
BestRec(evf, lc, pc0, nb) ==
  LET pc == IF pc0 = <<>> THEN <<"environment_id">> ELSE pc0
      S1 == Pair(DOMAIN evf, <<"learner_id">>, <<"environment_id">>)
      cell(t) == {u \in S1 : Tup(pc, u) = Tup(pc, t) /\ Tup(lc, u) = Tup(lc, t)}
      of(t, c) == {u \in cell(t) : u[2] = c}
      cands(t) == {u[2] : u \in cell(t)}
      wins(t) == \A d \in cands(t) \ {t[2]} : RLess(Score(evf, of(t, d), nb), Score(evf, of(t, t[2]), nb))
      ties(t) == \E d \in cands(t) \ {t[2]} : ~RLess(Score(evf, of(t, d), nb), Score(evf, of(t, t[2]), nb))
                                           /\ ~RLess(Score(evf, of(t, t[2]), nb), Score(evf, of(t, d), nb))
  IN [keep |-> {t \in S1 : wins(t)}, tie |-> \E t \in S1 : ties(t)]

(* --------------------------------------------------------- raw_learners *)
(* raw_learners(x,y,l,p,span) (1321-1365): with p, first _finished = _filter_fin('min' if x is    *)
(* 'index' else None, l, p) (1780-1784).  Then for every evaluation t of level l:                 *)
(*   x = 'index'          : at x = i the moving average (span) of t's rewards at row i;           *)
(*   x = parameter columns: at x = t's value the final average = the moving average at t's last   *)
(*                          row (span None: mean of all, span k: mean of the last k, 1: last).    *)
(* One tuple <<level, x, e, l, v, num, den>> per reported number; the table lists for every level *)
(* and x the bag of these numbers.                                                                *)
RawInner(evf, x, lc, pc) ==
  IF pc = <<>> THEN evf ELSE CHOOSE a \in FinAlts(evf, IF x = <<"index">> THEN -1 ELSE 0, lc, pc) : TRUE
RawOut(evf, x, lc, pc, span) ==
  LET e1 == RawInner(evf, x, lc, pc) IN
  UNION {LET av == MovAvg(YSeq(t, e1[t]), span, NoW) IN
         IF x = <<"index">> THEN {<<Tup(lc, t), <<i>>, t[1], t[2], t[3], av[i][1], av[i][2]>> : i \in 1..e1[t]}
         ELSE {<<Tup(lc, t), Tup(x, t), t[1], t[2], t[3], av[e1[t]][1], av[e1[t]][2]>>} : t \in DOMAIN e1}

(* ---------------------------------------------------------------- steps *)
Step(op, args, evf, alts, tb, fl, flags, raw) ==
  [op |-> op, args |-> args, ev |-> EvSet(evf), alts |-> {EvSet(a) : a \in alts}, tmin |-> Ref(evf), tmax |-> tb, full |-> fl,
   flags |-> flags, raw |-> raw]

Shapes(d) == {S \in SUBSET Triples(d) : S # {} /\ Cardinality(Triples(d) \ S) <= MaxMissing}
Lens(S) == IF LenMode = "all" THEN [S -> 1..MaxLen]
           ELSE {[t \in S |-> 1 + ((q[1]*t[1] + q[2]*t[2] + q[3]*t[3] + q[4]) % MaxLen)] : q \in LenPats}
NoMA == [vals |-> <<>>, span |-> 0, w |-> NoW]

InitRes == \E d \in Dims : \E p \in Pars : \E s \in Salts : \E tf \in TabFull :
           \E S \in Shapes(d) : \E lf \in Lens(S) :
             LET tb == IF tf THEN <<1..d[1], 1..d[2], 1..d[3]>> ELSE Ref(lf)
                 rows == UNION {{<<t[1], t[2], t[3], i, Yv(t, i, s)>> : i \in 1..lf[t]} : t \in S}
             IN /\ par = p /\ salt = s /\ ev = lf /\ tab = tb /\ full = (tb = Ref(lf))
                /\ hist = <<Step("new", <<p, rows>>, lf, {}, tb, tb = Ref(lf), {}, {})>>
                /\ n = 0 /\ ma = NoMA
MASeqs == UNION {[1..k -> MAVals] : k \in 0..MAMaxLen}
InitMA == \E vs \in MASeqs : \E sp \in MASpans : \E wk \in MAWeights :
             /\ (wk.k = "exp" => sp > 0)                     \* 'exp' needs a span
             /\ (wk.k = "seq" => Len(wk.s) >= Len(vs))       \* weights are given per value
             /\ ma = [vals |-> vs, span |-> sp, w |-> [k |-> wk.k, s |-> SubSeq(wk.s, 1, IF wk.k = "seq" THEN Len(vs) ELSE 0)]]
             /\ par = <<>> /\ salt = 0 /\ ev = EmptyF /\ tab = <<{}, {}, {}>> /\ full = TRUE /\ hist = <<>> /\ n = 0
Init == IF Mode = "ma" THEN InitMA ELSE InitRes

IdLP == <<<<"learner_id">>, <<"environment_id">>>>
NoLP == <<<<>>, <<>>>>
(* where_fin: every parameter table ends up holding exactly the referenced ids when that held of   *)
(* the input (full); otherwise only "every referenced id has a parameter row" is demanded.         *)
DoFin == /\ "fin" \in Ops
         /\ \E nn \in FinNs : \E lp \in (IF DOMAIN ev = {} THEN {NoLP, IdLP} ELSE FinLPs) :
              LET alts == FinAlts(ev, nn, lp[1], lp[2]) IN
              \E a \in alts :
                 LET tb == IF full THEN Ref(a) ELSE tab IN
                 /\ ev' = a /\ tab' = tb
                 /\ hist' = Append(hist, Step("fin", <<nn, lp[1], lp[2]>>, a, IF Cardinality(alts) > 1 THEN alts ELSE {},
                                              tb, full, FinFlags(ev, nn, lp[1], lp[2]), {}))
         /\ UNCHANGED <<par, salt, full, ma>>
(* where(col=[values]): the evaluations whose column value is listed (filter_env/lrn/val);         *)
(* where(index={'<=':k}): every evaluation cut to its first k rows (filter_int).                   *)
DoWhere == /\ "where" \in Ops /\ DOMAIN ev # {}
           /\ \E w \in WhereArgs :
                LET a == IF w[1] = "index" THEN [t \in DOMAIN ev |-> IF ev[t] > w[2] THEN w[2] ELSE ev[t]]
                         ELSE Restrict(ev, {t \in DOMAIN ev : ColVal(w[1], t) \in w[2]})
                    tb == IF full THEN Ref(a) ELSE tab
                IN /\ ev' = a /\ tab' = tb
                   /\ hist' = Append(hist, Step("where", w, a, {}, tb, full, {}, {}))
           /\ UNCHANGED <<par, salt, full, ma>>
DoBest == /\ "best" \in Ops /\ DOMAIN ev # {}
          /\ \E b \in BestArgs :
               LET r == BestRec(ev, b[1], b[2], b[3])
                   a == Restrict(ev, r.keep)
                   tb == IF full THEN Ref(a) ELSE tab
               IN /\ ~r.tie
                  /\ ev' = a /\ tab' = tb
                  /\ hist' = Append(hist, Step("best", b, a, {}, tb, full, FinFlags(ev, 0, IdLP[1], IdLP[2]), {}))
          /\ UNCHANGED <<par, salt, full, ma>>
(* where(<interaction column>={op: value}) (filter_int 1194-1221): exactly the interaction rows that *)
(* satisfy the condition; an evaluation may lose all its rows, and then (when every parameter row   *)
(* of the input was referenced) its ids must leave the parameter tables unless other rows still     *)
(* reference them.  The rows kept need not be a prefix 1..k, so this call ends the history.          *)
Cmp(a, op, b) == CASE op = ">" -> a > b [] op = ">=" -> a >= b [] op = "<" -> a < b [] op = "<=" -> a <= b [] op = "=" -> a = b
RowSat(w, t, i) == Cmp(IF w[1] = "reward" THEN Yv(t, i, salt) ELSE i, w[2], w[3])
DoWhereI == /\ "wherei" \in Ops /\ DOMAIN ev # {}
            /\ \E w \in WhereIArgs :
                 LET rows == UNION {{<<t[1], t[2], t[3], i>> : i \in {j \in 1..ev[t] : RowSat(w, t, j)}} : t \in DOMAIN ev}
                     kept == {t \in DOMAIN ev : \E i \in 1..ev[t] : RowSat(w, t, i)}
                     a == [t \in kept |-> Cardinality({j \in 1..ev[t] : RowSat(w, t, j)})]
                 IN hist' = Append(hist, Step("wherei", w, a, {}, IF full THEN Ref(a) ELSE tab, full, {}, rows))
            /\ UNCHANGED <<par, salt, ev, tab, full, ma>>
(* an observation: the Result is unchanged, the history ends *)
DoRaw == /\ "raw" \in Ops /\ DOMAIN ev # {}
         /\ \E r \in RawArgs :
               hist' = Append(hist, Step("raw", r, ev, {}, tab, full,
                                         IF r[3] = <<>> THEN {} ELSE FinFlags(ev, IF r[1] = <<"index">> THEN -1 ELSE 0, r[2], r[3]),
                                         RawOut(ev, r[1], r[2], r[3], r[4])))
         /\ UNCHANGED <<par, salt, ev, tab, full, ma>>

Next == \/ /\ Mode = "res" /\ n < MaxOps
           /\ \/ (n' = n + 1 /\ (DoFin \/ DoWhere \/ DoBest))
              \/ (n' = MaxOps /\ (DoRaw \/ DoWhereI))
        \/ /\ Mode = "ma" /\ n = 0 /\ n' = 1 /\ UNCHANGED <<par, salt, ev, tab, full, hist, ma>>
Spec == Init /\ [][Next]_vars

(* ------------------------------------------------ output for the driver *)
Emit == /\ (Mode = "res" /\ (n = MaxOps \/ (n > 0 /\ DOMAIN ev = {}))) => PrintT(ToJson(hist))
        /\ (Mode = "ma" /\ n = 1) => PrintT(ToJson([ma |-> ma, out |-> MovAvg(ma.vals, ma.span, ma.w)]))

(* ------------- what the design guarantees (checked by TLC on every initial Result: n = 0; the     *)
(* Results reached by chains are themselves initial Results of the same run)                       *)
(* where_fin on the current Result, for every argument of the model:                              *)
FinDesign == (Mode = "res" /\ n = 0) =>
  \A nn \in FinNs : \A lp \in FinLPs :
    LET alts == FinAlts(ev, nn, lp[1], lp[2]) IN
    /\ (nn <= 0 \/ lp[1] = <<>>) => Cardinality(alts) = 1                      \* the result is determined
    /\ \A a \in alts :
         /\ DOMAIN a \subseteq DOMAIN ev /\ \A t \in DOMAIN a : a[t] <= ev[t]    \* conservation: nothing invented
         /\ (nn = 0 => \A t \in DOMAIN a : a[t] = ev[t])                         \* n None never shortens
         /\ (nn # 0 => \A t, u \in DOMAIN a : a[t] = a[u])                         \* equal lengths
         /\ (nn > 0 => \A t \in DOMAIN a : a[t] = nn /\ ev[t] >= nn)            \* exactly n rows, from evaluations that had them
         /\ (nn = -1 /\ DOMAIN a # {} => \E t \in DOMAIN a : a[t] = ev[t])      \* 'min' is attained
         /\ Pair(DOMAIN a, lp[1], lp[2]) = DOMAIN a                             \* only complete groups remain
         /\ FinAlts(a, nn, lp[1], lp[2]) = {a}                                  \* idempotent
         /\ (nn = 0 /\ lp[1] = <<>> => a = ev)                                  \* where_fin() is the identity
(* raw_learners with pairing and x='index' compares equal-length complete runs: at every x every  *)
(* level reports the same number of values (one per surviving pairing group)                       *)
RawDesign == (Mode = "res" /\ n = 0) =>
  \A r \in RawArgs : (r[1] = <<"index">> /\ r[3] # <<>>) =>
    LET out == RawOut(ev, r[1], r[2], r[3], r[4])
        cnt(l, x) == Cardinality({o \in out : o[1] = l /\ o[2] = x})
    IN \A o1, o2 \in out : cnt(o1[1], o1[2]) = cnt(o2[1], o2[2])
(* the window never reaches outside the data; progressive mean = window as long as the data *)
MADesign == Mode = "ma" =>
  /\ \A i \in DOMAIN ma.vals : MovAvg(ma.vals, ma.span, ma.w)[i][2] > 0
  /\ (ma.w.k # "exp" /\ ma.span >= Len(ma.vals)) => MovAvg(ma.vals, ma.span, ma.w) = MovAvg(ma.vals, 0, ma.w)
  /\ (ma.w.k = "none" /\ ma.span = 1) => \A i \in DOMAIN ma.vals : MovAvg(ma.vals, 1, ma.w)[i] = <<ma.vals[i], 1>>
TabSane == Mode = "res" => LET r == Ref(ev) IN \A k \in 1..3 : r[k] \subseteq tab[k] /\ (full => r[k] = tab[k])
=============================================================================
