\* X03 generator / oracle run.  The driver rewrites the two CONSTANTS lines per part (harness/drivers/x03.py).
SPECIFICATION Spec
CONSTANTS
  Part = {"scalar", "lists", "explicit", "for", "registry", "tpl-a", "tpl-b"}
  Size = "quick"
INVARIANT Emit
INVARIANT Totality
INVARIANT InnerFirst
INVARIANT StrictOnlyRejects
INVARIANT ForOnePerValue
INVARIANT VersionsAgree
INVARIANT CrossOrder
INVARIANT SeedOrder
INVARIANT Fallback
INVARIANT FirstWins
CHECK_DEADLOCK FALSE
