---------------------------- MODULE CacherTrace ----------------------------
(***************************************************************************)
(* Trace validation for Cacher.tla.  IOEnv.TRACE_FILE holds a JSON array   *)
(* of executions of the *real* ConcurrentCacher recorded under the virtual *)
(* scheduler (harness/drivers/c19.py): [prog |-> .., ev |-> <<event>>].    *)
(* One event per primitive operation:                                      *)
(*   begin            the caller starts its next operation (or finishes)   *)
(*   cs   m,i,pre,post  a `with self._lock:` block left; m = enclosing      *)
(*                    method, i = lock index, pre/post = table value       *)
(*   contains k,res   inner `in`                                           *)
(*   get / putB / putE g / rmv   inner cache operations                    *)
(*   enter / bodyExit ok          the caller's with-block                  *)
(* Every event must be explained by the Cacher action(s) of that caller    *)
(* with the logged values, and all invariants of Cacher are evaluated in   *)
(* every state of every trace.                                             *)
(***************************************************************************)
EXTENDS Cacher, Json, IOUtils, TLCExt
trCallers == {"a","b","c"}
trKeys    == {"k1","k2","k3"}
trIdx     == [k \in trKeys |-> IF k = "k3" THEN 2 ELSE 1]
trNone    == {}
Traces == JsonDeserialize(IOEnv.TRACE_FILE)
VARIABLES tid, l
tvars == <<vars, tid, l>>
Evs == Traces[tid].ev
Ev  == Evs[l]

TraceInit == /\ tid \in 1..Len(Traces) /\ l = 1
             /\ prog = Traces[tid].prog /\ InitRest

Stutter == UNCHANGED vars
Bind(c) == Ev.i = I(c) /\ Ev.pre = arr[I(c)] /\ Ev.post = arr'[I(c)]

TrCS(c) ==
  \/ /\ Ev.m = "acqR" /\ Ev.post # Ev.pre /\ (TryRead(c) \/ NTryRead(c)) /\ Bind(c)
  \/ /\ Ev.m = "acqR" /\ Ev.post = Ev.pre /\ pc[c] = "gsR" /\ arr[I(c)] < 0 /\ Stutter /\ Bind(c)   \* failed attempt, will sleep
  \/ /\ Ev.m = "relR" /\ (RelReadMid(c) \/ RelReadFinal(c) \/ NRelRead(c) \/ (ErrRelease(c) /\ held[c][K(c)] > 0)) /\ Bind(c)
  \/ /\ Ev.m = "acqW" /\ Ev.post # Ev.pre /\ (TryWriteGs(c) \/ TryWriteRmv(c)) /\ Bind(c)
  \/ /\ Ev.m = "acqW" /\ Ev.post = Ev.pre /\ pc[c] \in {"gsW","rmW"} /\ arr[I(c)] # 0 /\ Stutter /\ Bind(c)
  \/ /\ Ev.m = "relW" /\ (RelWrite(c) \/ (ErrRelease(c) /\ held[c][K(c)] = -1)) /\ Bind(c)
  \/ /\ Ev.m = "sw"   /\ (SwitchPut(c) \/ SwitchGet(c)) /\ Bind(c)

TrEvent(c) ==
  \/ Ev.e = "begin"    /\ Dispatch(c)
  \/ Ev.e = "cs"       /\ TrCS(c)
  \/ Ev.e = "contains" /\ Ev.k = K(c) /\ Ev.res = Contains(K(c)) /\ (Check1(c) \/ Check2(c) \/ RmvProbe(c) \/ NCheck(c) \/ NRmvProbe(c))
  \/ Ev.e = "get"      /\ Ev.k = K(c) /\ (InnerGet(c) \/ NInnerGet(c))
  \/ Ev.e = "nest"     /\ NestStart(c)                     \* the caller starts an operation on the same key inside its body
  \/ Ev.e = "nraise"   /\ NRmvRaise(c)                     \* rmv inside the body refused with an exception
  \/ Ev.e = "putB"     /\ Ev.k = K(c) /\ PutBegin(c)
  \/ Ev.e = "putE"     /\ Ev.k = K(c) /\ Ev.g = Op(c).g /\ PutEnd(c)
  \/ Ev.e = "enter"    /\ (EnterAfterPut(c) \/ (pc[c] \in {"body","nBody"} /\ Stutter))
  \/ Ev.e = "bodyExit" /\ Ev.ok /\ (BodyExit(c) \/ NBodyExit(c))          \* the value read in the body was complete
  \/ Ev.e = "rmv"      /\ Ev.k = K(c) /\ InnerRmv(c)

TraceNext == /\ l <= Len(Evs) /\ TrEvent(Ev.c) /\ l' = l + 1 /\ UNCHANGED tid
TraceSpec == TraceInit /\ [][TraceNext]_tvars

AtEnd  == l = Len(Evs) + 1
Accept == AtEnd => PrintT(ToJson([acc |-> tid]))
EndDone == AtEnd => AllDone        \* a recorded execution is complete: every caller finished
Diag   == PrintT(ToJson([tid |-> tid, l |-> l]))
=============================================================================
