----------------------------- MODULE CacherInd -----------------------------
(***************************************************************************)
(* X05 - the lock protocol of ConcurrentCacher (coba/context/cachers.py    *)
(* 147-271) for UNBOUNDED runs: a sequence-free abstraction of Cacher.tla   *)
(* (C19) for ONE lock-table entry / one key shared by the callers in        *)
(* `Callers`, who loop for ever, each time choosing get_set or rmv.  No      *)
(* programs, no operation counter: nothing bounds the length of a run.      *)
(*                                                                         *)
(* Safety is shown by an INDUCTIVE invariant IndInv (below), discharged by  *)
(* Apalache for a fixed number of callers (harness/drivers/x05.py):         *)
(*     Init => IndInv,   IndInv /\ Next => IndInv',   IndInv => Safety      *)
(* and, for the lock part alone with the entry arbitrary (at the end),       *)
(*     LockInv /\ Next => LockInv',   LockInv => LockSafety.                 *)
(*                                                                         *)
(* Every action below is the action OF THE SAME NAME of Cacher.tla with     *)
(* I(c), K(c) fixed to the one index / key, prog / ip dropped ("next" and    *)
(* "done" are the one control point "idle"; the choices a program makes -    *)
(* operation, getter outcome, nesting - are made non-deterministically),     *)
(* the monitor counters rd / wr kept as SETS of callers (rd = |readers| +    *)
(* |nreaders|, wr = |writers|) and the monitor set `bad` replaced by the     *)
(* state predicates that say "the monitor cannot fire" (NoPartial,           *)
(* NoWriteWhileUsed, SingleFlight).  The action <-> code map is Cacher.tla's.*)
(* The only action without a counterpart in Cacher.tla is GetRaise (the      *)
(* inner cache's get raises while the read lock is held, cachers.py 192 /    *)
(* 198 -> `except` 203-206): it makes the read branch of ErrRelease          *)
(* reachable, so CacherInd has MORE behaviours than Cacher.tla, never fewer; *)
(* Variant = "strict" switches it off (used only to compare reachable sets). *)
(*                                                                         *)
(* The tie to Cacher.tla is checked by TLC (driver x05.py, module CacherRef  *)
(* written to the scratch directory): Cacher.tla restricted to one key       *)
(* IMPLEMENTS CacherInd step by step under the refinement mapping            *)
(*   pc <- pc with next,done -> idle; held <- held[c][k]; arr <- arr[Idx[k]];*)
(*   entry <- entry[k]; readers / nreaders / writers <- the callers at the   *)
(*   reading / nested-reading / writing control points; gcalls <- gcalls[k]  *)
(* and in the other direction the reachable (arr, entry, rd, wr, {pc, held   *)
(* of every caller}) tuples of CacherInd ("strict") for two callers are all  *)
(* reached by Cacher.tla with two callers running programs of <= 2           *)
(* operations.                                                              *)
(*                                                                         *)
(* Variant: "ok" | "strict" | deliberately broken designs that the           *)
(* obligations must reject:                                                 *)
(*   "wgrant" write lock granted when arr >= 0 instead of arr = 0;           *)
(*   "norel"  the except path releases a read lock without decrementing arr. *)
(***************************************************************************)
EXTENDS Integers, FiniteSets

CONSTANTS
    \* @type: Set(Int);
    Callers,       \* caller (thread / process) names
    \* @type: Bool;
    DiskLike,      \* TRUE: an entry is visible to `in` while it is being written (DiskCacher)
    \* @type: Str;
    Variant

VARIABLES
    \* @type: Int -> Str;
    pc,            \* per caller: control point (the names of Cacher.tla)
    \* @type: Int -> Int;
    held,          \* per caller: its own view of its lock (_locks): -1 write, 0 none, n read locks
    \* @type: Int;
    arr,           \* the shared lock-table entry: -1 write-locked, n >= 0 readers
    \* @type: Str;
    entry,         \* inner cache entry: "absent" | "writing" | "present"
    \* @type: Set(Int);
    readers,       \* monitor: callers inside a body, reading the entry
    \* @type: Set(Int);
    nreaders,      \* monitor: callers inside the body of a re-entrant (nested) get_set
    \* @type: Set(Int);
    writers,       \* monitor: callers whose getter is running / whose put is under way
    \* @type: Int;
    gcalls         \* monitor: getter runs since the entry was last absent-and-stable
vars == <<pc, held, arr, entry, readers, nreaders, writers, gcalls>>

H0  == {"idle","gsR","gsW","rmP","rmW"}                                               \* control points without a lock
H1  == {"gsC1","gsGet","gsRelR","gsEnter","body","bodyN","gsRelF","nR","nRmP","nRmRaise"} \* ... with one read lock
H2  == {"nC","nGet","nBody","nRel"}                                                   \* ... with two (re-entrant) read locks
HW  == {"gsC2","gsSwGet","gsPutB","gsPutE","gsSw","rmB","rmRel"}                      \* ... with the write lock
PCs == H0 \cup H1 \cup H2 \cup HW \cup {"gsErr"}                                      \* gsErr: write lock (getter raised) or read lock (inner get raised)
ReadingPcs == {"body","bodyN","nR","nC","nGet","nBody","nRel","nRmP","nRmRaise"}      \* between InnerGet / EnterAfterPut and BodyExit
PresentPcs == {"gsGet","gsSwGet","gsSw","gsEnter"} \cup ReadingPcs                    \* the caller was told / made the entry present

Contains == entry = "present" \/ (DiskLike /\ entry = "writing")

Init == /\ pc = [c \in Callers |-> "idle"] /\ held = [c \in Callers |-> 0]
        /\ arr = 0 /\ entry = "absent" /\ readers = {} /\ nreaders = {} /\ writers = {} /\ gcalls = 0

Goto(c,l) == pc' = [pc EXCEPT ![c] = l]

(* Cacher.tla Dispatch: the next operation of the program is get_set / rmv; here: any of the two, for ever *)
Dispatch(c) == /\ pc[c] = "idle"
               /\ \E l \in {"gsR","rmP"} : Goto(c,l)
               /\ UNCHANGED <<held,arr,entry,readers,nreaders,writers,gcalls>>

(* ---------------- get_set ---------------- *)
TryRead(c) == /\ pc[c] = "gsR" /\ arr >= 0
              /\ arr' = arr + 1 /\ held' = [held EXCEPT ![c] = @ + 1]
              /\ Goto(c,"gsC1") /\ UNCHANGED <<entry,readers,nreaders,writers,gcalls>>
Check1(c) == /\ pc[c] = "gsC1"
             /\ (IF Contains THEN Goto(c,"gsGet") ELSE Goto(c,"gsRelR"))
             /\ UNCHANGED <<held,arr,entry,readers,nreaders,writers,gcalls>>
InnerGet(c) == /\ pc[c] = "gsGet"
               /\ readers' = readers \cup {c}
               /\ Goto(c,"body") /\ UNCHANGED <<held,arr,entry,nreaders,writers,gcalls>>
(* no counterpart in Cacher.tla: the inner get raises with the read lock held; the `except` of get_set releases *)
GetRaise(c) == /\ Variant # "strict" /\ pc[c] = "gsGet"
               /\ Goto(c,"gsErr") /\ UNCHANGED <<held,arr,entry,readers,nreaders,writers,gcalls>>
RelReadMid(c) == /\ pc[c] = "gsRelR"
                 /\ arr' = arr - 1 /\ held' = [held EXCEPT ![c] = @ - 1]
                 /\ Goto(c,"gsW") /\ UNCHANGED <<entry,readers,nreaders,writers,gcalls>>
TryWrite(c,from,to) == /\ pc[c] = from
                       /\ (IF Variant = "wgrant" THEN arr >= 0 ELSE arr = 0)
                       /\ arr' = -1 /\ held' = [held EXCEPT ![c] = -1]
                       /\ Goto(c,to) /\ UNCHANGED <<entry,readers,nreaders,writers,gcalls>>
Check2(c) == /\ pc[c] = "gsC2"
             /\ (IF Contains THEN Goto(c,"gsSwGet") ELSE Goto(c,"gsPutB"))
             /\ UNCHANGED <<held,arr,entry,readers,nreaders,writers,gcalls>>
PutBegin(c) == /\ pc[c] = "gsPutB"
               /\ entry' = "writing" /\ writers' = writers \cup {c} /\ gcalls' = gcalls + 1
               /\ Goto(c,"gsPutE") /\ UNCHANGED <<held,arr,readers,nreaders>>
(* the getter returns (g = "ok") or raises *)
PutEnd(c) == /\ pc[c] = "gsPutE"
             /\ writers' = writers \ {c}
             /\ \E g \in {"ok","raise"} :
                   IF g = "ok" THEN entry' = "present" /\ Goto(c,"gsSw") /\ UNCHANGED gcalls
                               ELSE entry' = "absent" /\ Goto(c,"gsErr") /\ gcalls' = 0
             /\ UNCHANGED <<held,arr,readers,nreaders>>
Switch(c,from,to) == /\ pc[c] = from
                     /\ arr' = 1 /\ held' = [held EXCEPT ![c] = 1]
                     /\ Goto(c,to) /\ UNCHANGED <<entry,readers,nreaders,writers,gcalls>>
EnterAfterPut(c) == /\ pc[c] = "gsEnter" /\ readers' = readers \cup {c}
                    /\ Goto(c,"body") /\ UNCHANGED <<held,arr,entry,nreaders,writers,gcalls>>
(* the body finishes, normally or by raising - either way the `finally` releases *)
BodyExit(c) == /\ pc[c] \in {"body","bodyN"} /\ readers' = readers \ {c}
               /\ Goto(c,"gsRelF") /\ UNCHANGED <<held,arr,entry,nreaders,writers,gcalls>>
RelReadFinal(c) == /\ pc[c] = "gsRelF"
                   /\ arr' = arr - 1 /\ held' = [held EXCEPT ![c] = @ - 1]
                   /\ Goto(c,"idle") /\ UNCHANGED <<entry,readers,nreaders,writers,gcalls>>
ErrRelease(c) == /\ pc[c] = "gsErr"
                 /\ IF held[c] > 0
                    THEN arr' = (IF Variant = "norel" THEN arr ELSE arr - 1) /\ held' = [held EXCEPT ![c] = @ - 1]
                    ELSE IF held[c] = -1
                         THEN arr' = 0 /\ held' = [held EXCEPT ![c] = 0]
                         ELSE UNCHANGED <<arr,held>>
                 /\ Goto(c,"idle") /\ UNCHANGED <<entry,readers,nreaders,writers,gcalls>>
(* ---------------- rmv ---------------- *)
RmvProbe(c) == /\ pc[c] = "rmP"
               /\ (IF Contains THEN Goto(c,"rmW") ELSE Goto(c,"idle"))
               /\ UNCHANGED <<held,arr,entry,readers,nreaders,writers,gcalls>>
InnerRmv(c) == /\ pc[c] = "rmB"
               /\ entry' = "absent" /\ gcalls' = 0
               /\ Goto(c,"rmRel") /\ UNCHANGED <<held,arr,readers,nreaders,writers>>
RelWrite(c) == /\ pc[c] = "rmRel"
               /\ arr' = 0 /\ held' = [held EXCEPT ![c] = 0]
               /\ Goto(c,"idle") /\ UNCHANGED <<entry,readers,nreaders,writers,gcalls>>
(* ---------------- nesting inside a body: get_set of the same key again (re-entrant read) or rmv of it (must refuse) -------- *)
NestStart(c) == /\ pc[c] = "body" /\ held[c] = 1
                /\ \E l \in {"nR","nRmP"} : Goto(c,l)
                /\ UNCHANGED <<held,arr,entry,readers,nreaders,writers,gcalls>>
NTryRead(c) == /\ pc[c] = "nR" /\ arr >= 0
               /\ arr' = arr + 1 /\ held' = [held EXCEPT ![c] = @ + 1]
               /\ Goto(c,"nC") /\ UNCHANGED <<entry,readers,nreaders,writers,gcalls>>
NCheck(c) == /\ pc[c] = "nC" /\ Goto(c,"nGet")
             /\ UNCHANGED <<held,arr,entry,readers,nreaders,writers,gcalls>>
NInnerGet(c) == /\ pc[c] = "nGet" /\ nreaders' = nreaders \cup {c}
                /\ Goto(c,"nBody") /\ UNCHANGED <<held,arr,entry,readers,writers,gcalls>>
NBodyExit(c) == /\ pc[c] = "nBody" /\ nreaders' = nreaders \ {c}
                /\ Goto(c,"nRel") /\ UNCHANGED <<held,arr,entry,readers,writers,gcalls>>
NRelRead(c) == /\ pc[c] = "nRel"
               /\ arr' = arr - 1 /\ held' = [held EXCEPT ![c] = @ - 1]
               /\ Goto(c,"bodyN") /\ UNCHANGED <<entry,readers,nreaders,writers,gcalls>>
NRmvProbe(c) == /\ pc[c] = "nRmP" /\ Goto(c,"nRmRaise")
                /\ UNCHANGED <<held,arr,entry,readers,nreaders,writers,gcalls>>
NRmvRaise(c) == /\ pc[c] = "nRmRaise" /\ Goto(c,"bodyN")
                /\ UNCHANGED <<held,arr,entry,readers,nreaders,writers,gcalls>>
TryWriteGs(c)  == TryWrite(c,"gsW","gsC2")
TryWriteRmv(c) == TryWrite(c,"rmW","rmB")
SwitchPut(c)   == Switch(c,"gsSw","gsEnter")
SwitchGet(c)   == Switch(c,"gsSwGet","gsGet")

Step(c) == \/ Dispatch(c) \/ TryRead(c) \/ Check1(c) \/ InnerGet(c) \/ GetRaise(c) \/ RelReadMid(c)
           \/ TryWriteGs(c) \/ Check2(c) \/ PutBegin(c) \/ PutEnd(c)
           \/ SwitchPut(c) \/ SwitchGet(c) \/ EnterAfterPut(c)
           \/ BodyExit(c) \/ RelReadFinal(c) \/ ErrRelease(c)
           \/ RmvProbe(c) \/ TryWriteRmv(c) \/ InnerRmv(c) \/ RelWrite(c)
           \/ NestStart(c) \/ NTryRead(c) \/ NCheck(c) \/ NInnerGet(c) \/ NBodyExit(c) \/ NRelRead(c) \/ NRmvProbe(c) \/ NRmvRaise(c)
Next == \E c \in Callers : Step(c)
Spec == Init /\ [][Next]_vars

(* ------------------------------------------------ safety ------------------------------------------------ *)
WHolders == {c \in Callers : held[c] = -1}
RHolders == {c \in Callers : held[c] >= 1}
HeldSum  == Cardinality(RHolders) + Cardinality({c \in Callers : held[c] >= 2})     \* sum of the read holders' views (each is 1 or 2)

(* never a reader and a writer, never two writers (Cacher.tla MutexRW: wr <= 1 /\ (wr > 0 => rd = 0)) *)
MutexRW == /\ \A c, d \in writers : c = d
           /\ writers # {} => (readers = {} /\ nreaders = {})
(* the monitors of PutBegin (write-while-read, two-writers) and InnerRmv (rmv-while-read, rmv-while-write) cannot fire *)
NoWriteWhileUsed == \A c \in Callers : pc[c] \in {"gsPutB","rmB"} => (readers = {} /\ nreaders = {} /\ writers = {})
(* a reader never sees a partial entry: the monitors "partial" (InnerGet, EnterAfterPut, NInnerGet), "changed-under-reader"
   (BodyExit) and "vanished-under-reader" (NCheck, NRmvProbe) cannot fire *)
NoPartial == /\ \A c \in Callers : pc[c] \in {"gsGet","gsEnter","nGet"} => entry = "present"
             /\ (readers # {} \/ nreaders # {}) => entry = "present"
             /\ \A c \in Callers : pc[c] \in {"nC","nRmP"} => Contains
             /\ \A c \in RHolders : entry # "writing"
(* the shared counter agrees with the holders: -1 iff exactly one write holder and no read holder; n >= 0 iff the read
   holders' views sum to n and nobody holds the write lock *)
CounterOK == /\ arr >= -1
             /\ \A c, d \in WHolders : c = d
             /\ (arr = -1) <=> (WHolders # {})
             /\ WHolders # {} => RHolders = {}
             /\ arr >= 0 => arr = HeldSum
(* the getter runs at most once while the entry stays cached (the monitor "getter-twice" cannot fire) *)
SingleFlight == gcalls <= 1 /\ \A c \in Callers : pc[c] = "gsPutB" => gcalls = 0
(* whenever all callers are between operations no lock is held *)
Released == (\A c \in Callers : pc[c] = "idle") => (arr = 0 /\ \A c \in Callers : held[c] = 0)
Safety == MutexRW /\ NoWriteWhileUsed /\ NoPartial /\ CounterOK /\ SingleFlight /\ Released

(* ------------------------------------------ the inductive invariant ------------------------------------------ *)
LockTypeOK == /\ pc \in [Callers -> PCs] /\ held \in [Callers -> -1..2] /\ arr \in Int
              /\ entry \in {"absent","writing","present"}
              /\ readers \in SUBSET Callers /\ nreaders \in SUBSET Callers /\ writers \in SUBSET Callers
              /\ gcalls \in Int
TypeOK == LockTypeOK /\ gcalls \in 0..1
(* the caller's own view is determined by its control point *)
HeldPc == \A c \in Callers : /\ pc[c] \in H0 => held[c] = 0
                             /\ pc[c] \in H1 => held[c] = 1
                             /\ pc[c] \in H2 => held[c] = 2
                             /\ pc[c] \in HW => held[c] = -1
                             /\ pc[c] = "gsErr" => held[c] \in {-1,1}
(* the counter / view correspondence: a write holder excludes every other holder and shows as -1, otherwise arr is the sum *)
Counter == IF WHolders # {}
           THEN arr = -1 /\ \A c \in WHolders : \A d \in Callers : d # c => held[d] = 0
           ELSE arr = HeldSum
(* the monitors are the callers at the reading / writing control points *)
Monitors == /\ readers  = {c \in Callers : pc[c] \in ReadingPcs}
            /\ nreaders = {c \in Callers : pc[c] = "nBody"}
            /\ writers  = {c \in Callers : pc[c] = "gsPutE"}
(* the entry is partial exactly while a put is under way; it is present for whoever was told so under a lock; it is absent for
   whoever is about to put; gcalls counts the one getter run that produced the current entry *)
EntryInv == /\ (entry = "writing") <=> (\E c \in Callers : pc[c] = "gsPutE")
            /\ \A c \in Callers : pc[c] \in PresentPcs => entry = "present"
            /\ \A c \in Callers : pc[c] = "gsPutB" => entry = "absent"
            /\ gcalls = (IF entry = "absent" THEN 0 ELSE 1)
IndInv == TypeOK /\ HeldPc /\ Counter /\ Monitors /\ EntryInv

(* The lock part alone.  It does not mention the entry, and it is inductive from ANY value of entry / gcalls, i.e. whatever
   the un-modelled `in` tests (Check1, Check2, RmvProbe) answer: so MutexRW, CounterOK ... of the lock-table entry do not depend
   on the inner cache being one entry - they hold as well when several colliding keys share the table entry. *)
LockInv    == LockTypeOK /\ HeldPc /\ Counter /\ Monitors
LockSafety == MutexRW /\ NoWriteWhileUsed /\ CounterOK /\ Released
=============================================================================
