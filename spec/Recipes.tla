------------------------------- MODULE Recipes -------------------------------
(***************************************************************************)
(* X03 - recipe construction and environment templates.                    *)
(*                                                                         *)
(* What a recipe (a JSON value) constructs - coba/registry.py JsonMakerV1  *)
(* (65-170), JsonMakerV2 (172-272) - and what an environment template      *)
(* expands to - coba/environments/templates.py EnvironmentsTemplateV1      *)
(* (12-56), EnvironmentsTemplateV2 (58-140), Environments.from_template    *)
(* (coba/environments/core.py 52-70).                                      *)
(*                                                                         *)
(* The spec is a decision table used as generator and ORACLE: every        *)
(* initial state is one input (a recipe, or a template document with user  *)
(* overrides), its single successor holds the expected outcome of every    *)
(* entry point and prints input and outcome as JSON.  Nothing about the    *)
(* expectation is computed outside this module.                            *)
(*                                                                         *)
(* VALUES (uniform records [t, v] so that Python can tell the types apart) *)
(*   JSON      [t |-> "int", v |-> n]   [t |-> "str", v |-> s]             *)
(*             [t |-> "null", v |-> 0]  [t |-> "lst", v |-> <<x, ..>>]     *)
(*             [t |-> "obj", v |-> << <<key, x>>, .. >>]  key = a tagged   *)
(*             scalar (always a string in a JSON text; "$" substitution    *)
(*             can make it an int), pairs in document order, keys distinct *)
(*   objects   [t |-> "made", v |-> <<class name, <<positional trees>>,    *)
(*                                   << <<key, tree>>, .. >> >>]           *)
(*             = what a recording class of the registry was called with    *)
(*   pipelines [t |-> "pipe", v |-> <<source tree, filter tree, ..>>]      *)
(*   rejection [t |-> "error", v |-> reason]: the call must raise          *)
(*             CobaException (the reason only names the clause; every      *)
(*             rejection is the same outcome)                              *)
(*                                                                         *)
(* THE REGISTRY (recording classes of harness/drivers/x03.py)              *)
(*   Any   __init__(star-args, star-star-kwargs)   records both            *)
(*   One   __init__(arg)                  exactly one parameter            *)
(*   Boom  __init__(star-args, star-star-kwargs)   raises ValueError       *)
(*   Rng   like Any, and iterating Rng(n) yields 0 .. n-1                  *)
(*   Src   like Any, has read()  (a source)                                *)
(*   Flt   like Any, has filter() (a filter)                               *)
(*   Shf   like Flt, params = {"shuffle_seed": first argument}             *)
(*   "Zed" and every other string is not registered.                       *)
(*                                                                         *)
(* Clauses marked IMPLEMENTATION CHOICE mirror how the code reads a recipe *)
(* that the documentation leaves open; they are not requirements of their  *)
(* own, only the oracle's way to stay exact on those inputs.               *)
(***************************************************************************)
EXTENDS Integers, Sequences, FiniteSets, TLC, Json

CONSTANTS Part,     \* the families of cases this run enumerates: a subset of {"scalar", "lists", "explicit", "for", "registry", "tpl-a", "tpl-b"}
          Size      \* "quick" or "thorough": the bound of the generator grammar

VARIABLES case, go, out
vars == <<case, go, out>>

----------------------------------------------------------------------------
(* values *)
I(n)   == [t |-> "int", v |-> n]
S(s)   == [t |-> "str", v |-> s]
Null   == [t |-> "null", v |-> 0]
L(xs)  == [t |-> "lst", v |-> xs]
O(ps)  == [t |-> "obj", v |-> ps]
Made(c, as, ks) == [t |-> "made", v |-> <<c, as, ks>>]
Pipe(xs) == [t |-> "pipe", v |-> xs]
Err(why) == [t |-> "error", v |-> why]
IsErr(x) == x.t = "error"
AnyErr(xs) == \E i \in DOMAIN xs : IsErr(xs[i])
FirstErr(xs) == xs[CHOOSE i \in DOMAIN xs : IsErr(xs[i]) /\ \A j \in 1..(i - 1) : ~IsErr(xs[j])]
IsStr(x, s) == x.t = "str" /\ x.v = s

O1(k, x) == O(<< <<S(k), x>> >>)
O2(k1, x1, k2, x2) == O(<< <<S(k1), x1>>, <<S(k2), x2>> >>)

Has(o, k)  == \E i \in DOMAIN o.v : IsStr(o.v[i][1], k)
Get(o, k)  == o.v[CHOOSE i \in DOMAIN o.v : IsStr(o.v[i][1], k)][2]
OptGet(o, k) == IF Has(o, k) THEN Get(o, k) ELSE Null          \* dict.pop(k, None): JSON null and absent both read as None
Min(a, b) == IF a <= b THEN a ELSE b

Reg == {"Any", "One", "Boom", "Rng", "Src", "Flt", "Shf"}
SrcClasses == {"Src"}
FltClasses == {"Flt", "Shf"}

(* The strings that start with "$".  TLC has no string operations, so the   *)
(* finitely many such strings of the explored grammar are tabulated.        *)
VarNames == {"$s", "$f", "$n", "$m", "$u"}         \* "$name": a template variable reference / not an index
DollarIdx(s) == CASE s = "$0" -> 0 [] s = "$1" -> 1 [] s = "$2" -> 2 [] OTHER -> -1

----------------------------------------------------------------------------
(* Calling a registered class: Python's argument binding for the recording *)
(* classes.  "TypeError" is a reason of its own because JsonMakerV1 reacts *)
(* to it (registry.py 152-156).                                            *)
KwOK(ks) == \A i \in DOMAIN ks : ks[i][1].t = "str"         \* a keyword that is not a string is a TypeError
Call(c, as, ks) ==
  IF ~KwOK(ks) THEN Err("TypeError")
  ELSE IF c = "Boom" THEN Err("raised")
  ELSE IF c = "One" THEN
         (IF Len(as) = 1 /\ Len(ks) = 0 THEN Made(c, as, <<>>)
          ELSE IF Len(as) = 0 /\ Len(ks) = 1 /\ ks[1][1].v = "arg" THEN Made(c, <<ks[1][2]>>, <<>>)
          ELSE Err("TypeError"))
  ELSE Made(c, as, ks)

----------------------------------------------------------------------------
(* JsonMakerV1                                                              *)
KW1 == {"name", "args", "kwargs", "method"}
IsFree1(p) == ~(p[1].t = "str" /\ p[1].v \in KW1)
Free1(o) == SelectSeq(o.v, IsFree1)

(* _is_valid_recipe 104-127.  `contains_name` is always true in the code     *)
(* ("name" in keywords), so a dict without any name is "valid" and rejected  *)
(* later as unknown - a rejection either way.                                *)
Valid1(r) ==
  \/ r.t = "str"
  \/ /\ r.t = "obj"
     /\ LET fw  == Free1(r)
            imp == IF Len(fw) = 1 THEN fw[1][2] ELSE Null
        IN /\ Len(fw) <= 1
           /\ ~(Has(r, "name") /\ Len(fw) = 1)
           /\ ~(Has(r, "args") /\ imp.t \notin {"null", "obj"})
           /\ ~(Has(r, "kwargs") /\ imp.t = "obj")

Truthy(x) == CASE x.t = "str" -> x.v # "" [] x.t = "int" -> x.v # 0 [] x.t = "null" -> FALSE
               [] x.t \in {"lst", "obj"} -> Len(x.v) > 0 [] OTHER -> TRUE

(* _is_known_recipe 129-140: does the value name a registered class ("yes" / "no")?  A string by     *)
(* itself, a dict by its "name" or else by its first free key.  A dict that has neither (e.g. the      *)
(* empty dict) names nothing: it is not a recipe and is passed as it is.  "err" = the name is a list   *)
(* or a dict (not explored).                                                                           *)
(* IMPLEMENTATION CHOICE: an argument that is a registered name, or a dict whose name / first free key *)
(* is registered, is read as a nested recipe.                                                          *)
K1(x) ==
  IF x.t = "str" THEN (IF x.v \in Reg THEN "yes" ELSE "no")
  ELSE IF x.t = "obj" THEN
    LET nm == IF Has(x, "name") /\ Truthy(Get(x, "name")) THEN Get(x, "name")
              ELSE IF Len(Free1(x)) > 0 THEN Free1(x)[1][1] ELSE Null
    IN IF nm.t \in {"lst", "obj"} THEN "err"
       ELSE IF nm.t = "str" /\ nm.v \in Reg THEN "yes" ELSE "no"
  ELSE "no"

RECURSIVE Make1(_), Single1(_, _, _), CoR1(_)
(* _construct_or_return 142-143: nested recipes are constructed first, other values passed as they are *)
CoR1(a) == LET k == K1(a) IN IF k = "yes" THEN Make1(a) ELSE IF k = "no" THEN a ELSE Err("UNSPECIFIED:name-is-a-container")

(* _construct_single 145-170 *)
Single1(name, args, kwargs) ==
  LET as0 == IF args.t = "null" THEN <<>> ELSE IF args.t = "lst" THEN args.v ELSE <<args>>
      as  == [i \in DOMAIN as0 |-> CoR1(as0[i])]
      ks0 == IF kwargs.t = "obj" THEN kwargs.v ELSE <<>>
      ks  == [i \in DOMAIN ks0 |-> <<ks0[i][1], CoR1(ks0[i][2])>>]
      kv  == [i \in DOMAIN ks |-> ks[i][2]]
  IN IF AnyErr(as) THEN FirstErr(as)
     ELSE IF kwargs.t \notin {"null", "obj"} THEN Err("kwargs-not-a-dict")
     ELSE IF AnyErr(kv) THEN FirstErr(kv)
     ELSE IF ~(name.t = "str" /\ name.v \in Reg) THEN Err("unknown")
     ELSE IF args.t # "null" /\ kwargs.t # "null" THEN Call(name.v, as, ks)
     ELSE IF args.t # "null" THEN
            (* IMPLEMENTATION CHOICE (152-156): when the call with the unpacked arguments *)
            (* is a TypeError the whole argument list is passed as ONE list argument      *)
            LET r == Call(name.v, as, <<>>) IN
            (IF IsErr(r) /\ r.v = "TypeError" THEN Call(name.v, <<L(as)>>, <<>>) ELSE r)
     ELSE IF kwargs.t # "null" THEN Call(name.v, <<>>, ks)
     ELSE Call(name.v, <<>>, <<>>)

(* make 70-102 *)
Make1(r) ==
  IF ~Valid1(r) THEN Err("invalid")
  ELSE IF r.t = "str" THEN Single1(r, Null, Null)
  ELSE
    LET fw     == Free1(r)
        method == IF Has(r, "method") THEN Get(r, "method") ELSE S("singular")
        imp    == IF Len(fw) = 1 THEN fw[1][2] ELSE Null
        name   == IF Len(fw) = 1 THEN fw[1][1] ELSE IF Has(r, "name") THEN Get(r, "name") ELSE S("")
        impk   == IF Len(fw) = 1 /\ imp.t = "obj" THEN K1(imp) ELSE "n/a"
        (* the implicit argument: a dict that is not itself a known recipe = kwargs, anything else = args *)
        (* IMPLEMENTATION CHOICE: {"A": null} overrides an explicit "args" with None (no arguments)      *)
        iskw   == Len(fw) = 1 /\ imp.t = "obj" /\ impk = "no"
        args   == IF Len(fw) = 1 /\ ~iskw THEN imp ELSE OptGet(r, "args")
        kwargs == IF iskw THEN imp ELSE OptGet(r, "kwargs")
    IN IF impk = "err" THEN Err("UNSPECIFIED:name-is-a-container")
       ELSE IF method = S("singular") THEN Single1(name, args, kwargs)
       ELSE
         (* "foreach" zips the args list and the kwargs list; a non-list side is repeated.  With *)
         (* no list at all there is nothing to zip: rejected (the code does not terminate).      *)
         (* IMPLEMENTATION CHOICE: any method other than "singular" is foreach; lists of         *)
         (* different lengths are cut to the shorter; a list element that is itself a list is    *)
         (* unpacked as positional arguments, null as "no arguments".                            *)
         IF args.t # "lst" /\ kwargs.t # "lst" THEN Err("foreach-without-list")
         ELSE LET n == IF args.t = "lst" /\ kwargs.t = "lst" THEN Min(Len(args.v), Len(kwargs.v))
                       ELSE IF args.t = "lst" THEN Len(args.v) ELSE Len(kwargs.v)
                  items == [i \in 1..n |-> Single1(name, IF args.t = "lst" THEN args.v[i] ELSE args,
                                                         IF kwargs.t = "lst" THEN kwargs.v[i] ELSE kwargs)]
              IN IF AnyErr(items) THEN FirstErr(items) ELSE L(items)

----------------------------------------------------------------------------
(* JsonMakerV2                                                              *)
Hashable(k) == k.t \in {"str", "int", "null"}
PutPair(ps, k, x) == IF \E i \in DOMAIN ps : ps[i][1] = k
                     THEN [i \in DOMAIN ps |-> IF ps[i][1] = k THEN <<k, x>> ELSE ps[i]]
                     ELSE Append(ps, <<k, x>>)

(* _fill_template 262-272: "$" is the value of the "for" collection, "$i" its i-th component; *)
(* everywhere in the argument template, keys included.                                         *)
RECURSIVE Fill(_, _), FillPairs(_, _, _)
Fill(tp, val) ==
  IF tp.t = "str" THEN
    (IF tp.v = "$" THEN val
     ELSE IF DollarIdx(tp.v) >= 0 THEN
            (IF val.t = "lst" THEN (IF DollarIdx(tp.v) < Len(val.v) THEN val.v[DollarIdx(tp.v) + 1] ELSE Err("component-out-of-range"))
             ELSE IF val.t = "str" THEN Err("UNSPECIFIED:character-of-a-string")     \* not explored
             ELSE Err("value-has-no-components"))
     ELSE IF tp.v \in VarNames THEN Err("not-an-index")
     ELSE tp)
  ELSE IF tp.t = "lst" THEN LET xs == [i \in DOMAIN tp.v |-> Fill(tp.v[i], val)] IN (IF AnyErr(xs) THEN FirstErr(xs) ELSE L(xs))
  ELSE IF tp.t = "obj" THEN FillPairs(tp.v, val, <<>>)
  ELSE tp
FillPairs(ps, val, acc) ==
  IF ps = <<>> THEN O(acc)
  ELSE LET k == Fill(ps[1][1], val)  x == Fill(ps[1][2], val) IN
       IF IsErr(k) THEN k ELSE IF IsErr(x) THEN x
       ELSE IF ~Hashable(k) THEN Err("unhashable-key")
       ELSE FillPairs(Tail(ps), val, PutPair(acc, k, x))

IsFor(p) == IsStr(p[1], "for")
NotFor(p) == ~IsFor(p)
NonFor(o) == SelectSeq(o.v, NotFor)
(* make 227-233: a dict with exactly one key besides "for", and that key is registered *)
IsRecipe2(o) == /\ o.t = "obj"
                /\ LET nf == NonFor(o) IN Len(nf) = 1 /\ nf[1][1].t = "str" /\ nf[1][1].v \in Reg

(* the values a "for" collection yields (make 235): a list, an iterable object (Rng), *)
(* IMPLEMENTATION CHOICE: a dict yields its keys                                      *)
ForValues(coll) ==
  IF coll.t = "lst" THEN coll
  ELSE IF coll.t = "made" /\ coll.v[1] = "Rng" THEN
         (IF Len(coll.v[2]) >= 1 /\ coll.v[2][1].t = "int" THEN L([i \in 1..coll.v[2][1].v |-> I(i - 1)]) ELSE Err("not-iterable"))
  ELSE IF coll.t = "obj" THEN L([i \in DOMAIN coll.v |-> coll.v[i][1]])
  ELSE IF coll.t = "str" THEN Err("UNSPECIFIED:characters-of-a-string")             \* not explored
  ELSE Err("not-iterable")

RECURSIVE Make2(_, _), CArgs(_)
M2(x) == Make2(x, FALSE)
Args(as, ks) == [t |-> "args", as |-> as, ks |-> ks]
(* _construct_args 248-260: dict = keyword arguments; list = positional arguments, and when its   *)
(* second-to-last element is "**" the last element holds the keyword arguments; else one argument *)
(* IMPLEMENTATION CHOICE: "**" anywhere else is an ordinary string argument; what follows "**"    *)
(* is read by the same rule and only its keyword part is used (a non-dict gives none).            *)
CArgs(a) ==
  IF a.t = "obj" THEN
    LET ks == [i \in DOMAIN a.v |-> <<a.v[i][1], M2(a.v[i][2])>>]
        kv == [i \in DOMAIN ks |-> ks[i][2]]
    IN IF AnyErr(kv) THEN FirstErr(kv) ELSE Args(<<>>, ks)
  ELSE IF a.t = "lst" THEN
    LET n    == Len(a.v)
        star == n >= 2 /\ IsStr(a.v[n - 1], "**")
        pos  == IF star THEN SubSeq(a.v, 1, n - 2) ELSE a.v
        kw   == IF star THEN CArgs(a.v[n]) ELSE Args(<<>>, <<>>)
        as   == [i \in DOMAIN pos |-> M2(pos[i])]
    IN IF IsErr(kw) THEN kw ELSE IF AnyErr(as) THEN FirstErr(as) ELSE Args(as, kw.ks)
  ELSE LET x == M2(a) IN IF IsErr(x) THEN x ELSE Args(<<x>>, <<>>)

Apply(c, ca) == IF IsErr(ca) THEN ca ELSE Call(c, ca.as, ca.ks)

(* make 223-246; strict = FALSE returns what is not a recipe as it is *)
Make2(r, strict) ==
  IF r.t = "str" /\ r.v \in Reg THEN Call(r.v, <<>>, <<>>)
  ELSE IF IsRecipe2(r) THEN
    LET nf == NonFor(r)  c == nf[1][1].v  tp == nf[1][2] IN
    IF ~Has(r, "for") THEN Apply(c, CArgs(tp))
    ELSE LET coll == M2(Get(r, "for")) IN
         IF IsErr(coll) THEN coll ELSE
         LET vals == ForValues(coll) IN
         IF IsErr(vals) THEN vals ELSE
         (* exactly one object per value of the collection, in order *)
         LET items == [i \in DOMAIN vals.v |-> LET f == Fill(tp, vals.v[i]) IN IF IsErr(f) THEN f ELSE Apply(c, CArgs(f))]
         IN IF AnyErr(items) THEN FirstErr(items) ELSE L(items)
  ELSE IF strict THEN Err("not-a-recipe") ELSE r

----------------------------------------------------------------------------
(* Environment templates                                                    *)
IsSrc(x) == (x.t = "made" /\ x.v[1] \in SrcClasses) \/ x.t = "pipe"          \* hasattr(x, 'read')
IsFlt(x) == x.t = "made" /\ x.v[1] \in FltClasses                            \* hasattr(x, 'filter')
AsSeq(r) == IF r.t = "lst" THEN r.v ELSE <<r>>                               \* result if Sequence else [result]

RECURSIVE Flatten(_)
Flatten(ps) == IF ps = <<>> THEN <<>> ELSE ps[1].v \o Flatten(Tail(ps))
(* itertools.product of the stages: the last stage varies fastest *)
RECURSIVE Product(_)
Product(stages) ==
  IF stages = <<>> THEN << <<>> >>
  ELSE LET rest == Product(Tail(stages))  A == stages[1].v
       IN [k \in 1..(Len(A) * Len(rest)) |-> <<A[((k - 1) \div Len(rest)) + 1]>> \o rest[((k - 1) % Len(rest)) + 1]]
(* Pipes.join of a source and filters (coba/pipes/core.py 41-81): decided by the first and the last pipe *)
Join(s, fs) == LET head == IF s.t = "pipe" THEN s.v ELSE <<s>> IN
               IF fs = <<>> \/ IsFlt(fs[Len(fs)]) THEN Pipe(head \o fs) ELSE Err("unknown-pipe")
(* the pipelines of one pipe: every source with every combination of the later stages, sources major *)
Pipelines(ps) ==
  LET combos == Product(Tail(ps))  srcs == ps[1].v
      all == [k \in 1..(Len(srcs) * Len(combos)) |-> Join(srcs[((k - 1) \div Len(combos)) + 1], combos[((k - 1) % Len(combos)) + 1])]
  IN IF AnyErr(all) THEN FirstErr(all) ELSE L(all)

(* _fill 126-133: a string that IS a variable name is replaced by the variable's value; lists and *)
(* dict VALUES recursively (keys are not touched)                                                  *)
RECURSIVE FillV(_, _)
FillV(x, vs) ==
  IF x.t = "str" /\ Has(vs, x.v) THEN Get(vs, x.v)
  ELSE IF x.t = "lst" THEN L([i \in DOMAIN x.v |-> FillV(x.v[i], vs)])
  ELSE IF x.t = "obj" THEN O([i \in DOMAIN x.v |-> <<x.v[i][1], FillV(x.v[i][2], vs)>>])
  ELSE x
FillVars(vs) == O([i \in DOMAIN vs.v |-> <<vs.v[i][1], FillV(vs.v[i][2], vs)>>])
(* read 72-82: variables are filled with each other until nothing changes; a fifth round is refused *)
RECURSIVE Fix(_, _, _)
Fix(old, new, n) == IF old = new THEN new ELSE IF n + 1 > 4 THEN Err("variable-loop") ELSE Fix(new, FillVars(new), n + 1)

(* _missing 135-140: a "$name" string that is still there *)
RECURSIVE Missing(_)
Missing(x) == IF x.t = "str" THEN x.v \in VarNames
              ELSE IF x.t = "lst" THEN \E i \in DOMAIN x.v : Missing(x.v[i])
              ELSE IF x.t = "obj" THEN \E i \in DOMAIN x.v : Missing(x.v[i][2])
              ELSE FALSE

RECURSIVE Build2(_)
(* _make 104-124.  A list is a PIPE when its first element builds sources and its second builds   *)
(* filters: the cross product of the alternatives; any other list is a list of ALTERNATIVES       *)
(* (flattened).  A pipe of one stage is its sources (no later stage to cross with).               *)
Build2(item) ==
  IF item.t \in {"str", "obj"} THEN LET r == Make2(item, TRUE) IN (IF IsErr(r) THEN r ELSE L(AsSeq(r)))
  ELSE IF item.t = "lst" THEN
    LET ps == [i \in DOMAIN item.v |-> Build2(item.v[i])] IN
    IF AnyErr(ps) THEN FirstErr(ps)
    ELSE IF Len(ps) = 0 \/ Len(ps[1].v) = 0 THEN Err("UNSPECIFIED:empty-stage")                  \* not explored
    ELSE IF Len(ps) >= 2 /\ Len(ps[2].v) = 0 THEN Err("UNSPECIFIED:empty-stage")                \* not explored
    ELSE IF IsSrc(ps[1].v[1]) /\ Len(ps) >= 2 /\ IsFlt(ps[2].v[1]) THEN Pipelines(ps)
    ELSE L(Flatten(ps))
  ELSE IF item.t = "null" THEN Err("cannot-construct")
  ELSE L(<<item>>)

(* env.params.get("shuffle_seed", 0) of a pipeline: the seed of its one Shf filter *)
Seed(e) == LET xs == IF e.t = "pipe" THEN e.v ELSE <<e>>
               sh == SelectSeq(xs, LAMBDA x : x.t = "made" /\ x.v[1] = "Shf" /\ Len(x.v[2]) >= 1)
           IN IF Len(sh) = 1 /\ sh[1].v[2][1].t = "int" THEN sh[1].v[2][1].v ELSE 0
(* sorted(environments, key = shuffle_seed) (read 96): a stable sort, written as an insertion sort *)
RECURSIVE InsertBySeed(_, _), SortBySeed(_)
InsertBySeed(sorted, e) == IF sorted = <<>> THEN <<e>>
                           ELSE IF Seed(sorted[Len(sorted)]) <= Seed(e) THEN Append(sorted, e)
                           ELSE Append(InsertBySeed(SubSeq(sorted, 1, Len(sorted) - 1), e), sorted[Len(sorted)])
SortBySeed(es) == IF es = <<>> THEN <<>> ELSE InsertBySeed(SortBySeed(SubSeq(es, 1, Len(es) - 1)), es[Len(es)])

(* Environments wraps every environment with Pipes.join: a pipeline is the list of its pipes *)
AsPipeline(e) == IF e.t = "pipe" THEN L(e.v) ELSE L(<<e>>)
(* (an "environment" that has no read() - a bare filter, a number - is outside the explored documents)     *)
Envs(es) == IF \E i \in DOMAIN es : ~IsSrc(es[i]) THEN Err("UNSPECIFIED:environment-is-not-a-source")
            ELSE L([i \in DOMAIN es |-> AsPipeline(es[i])])

MergeVars(a, b) == LET RECURSIVE M(_, _)
                       M(acc, rest) == IF rest = <<>> THEN acc ELSE M(PutPair(acc, rest[1][1], rest[1][2]), Tail(rest))
                   IN O(M(a.v, b.v))

(* EnvironmentsTemplateV2.read.  doc = [vars |-> obj, envs |-> value]; ov = obj of user overrides ("$name" keys) *)
T2Raw(doc, ov) ==
  LET v0 == MergeVars(doc.vars, ov)
      fx == Fix(v0, FillVars(v0), 0)
  IN IF IsErr(fx) THEN fx ELSE
     LET made == [i \in DOMAIN fx.v |-> <<fx.v[i][1], M2(fx.v[i][2])>>]          \* every variable is constructed once
         mv   == [i \in DOMAIN made |-> made[i][2]]
     IN IF AnyErr(mv) THEN FirstErr(mv) ELSE
     LET recipes == FillV(IF doc.envs.t = "lst" THEN doc.envs ELSE L(<<doc.envs>>), O(made))
     IN IF Missing(recipes) THEN Err("undefined-variable") ELSE
     LET built == [i \in DOMAIN recipes.v |-> Build2(recipes.v[i])]
     IN IF AnyErr(built) THEN FirstErr(built) ELSE L(Flatten(built))

(* the environments in document order, then the stable sort by shuffle seed (read 96) *)
T2(doc, ov) == LET r == T2Raw(doc, ov) IN IF IsErr(r) THEN r ELSE Envs(SortBySeed(r.v))

(* EnvironmentsTemplateV1.read 17-53: variables are V1 recipes and are recognised only where a *)
(* stage stands (not inside recipes); a list whose first element builds sources is a pipe.     *)
RECURSIVE Build1(_, _)
Build1(item, vs) ==
  IF item.t = "str" /\ Has(vs, item.v) THEN L(AsSeq(Get(vs, item.v)))
  ELSE IF item.t \in {"str", "obj"} THEN LET r == Make1(item) IN (IF IsErr(r) THEN r ELSE L(AsSeq(r)))
  ELSE IF item.t = "lst" THEN
    LET ps == [i \in DOMAIN item.v |-> Build1(item.v[i], vs)] IN
    IF AnyErr(ps) THEN FirstErr(ps)
    ELSE IF Len(ps) = 0 \/ Len(ps[1].v) = 0 THEN Err("UNSPECIFIED:empty-stage")                  \* not explored
    ELSE IF IsSrc(ps[1].v[1]) THEN Pipelines(ps)
    ELSE L(Flatten(ps))
  ELSE Err("cannot-construct")
T1(doc) ==
  LET made == [i \in DOMAIN doc.vars.v |-> <<doc.vars.v[i][1], Make1(doc.vars.v[i][2])>>]
      mv   == [i \in DOMAIN made |-> made[i][2]]
  IN IF AnyErr(mv) THEN FirstErr(mv) ELSE
     LET recipes == IF doc.envs.t = "lst" THEN doc.envs ELSE L(<<doc.envs>>)
         built == [i \in DOMAIN recipes.v |-> Build1(recipes.v[i], O(made))]
     IN IF AnyErr(built) THEN FirstErr(built) ELSE Envs(Flatten(built))

(* Environments.from_template: the V2 reading; when V2 rejects the document the V1 reading (which *)
(* ignores the overrides); when both reject it, rejected.                                         *)
FromTemplate(doc, ov) == LET a == T2(doc, ov) IN IF ~IsErr(a) THEN a ELSE LET b == T1(doc) IN IF ~IsErr(b) THEN b ELSE a

----------------------------------------------------------------------------
(* CobaRegistry.register / @coba_registration (registry.py 14-19, 52-60): the first class registered *)
(* under a name stays; registering the same class again is accepted, another class is rejected.     *)
RegNames   == {"X03a", "X03b"}
RegClasses == {"Any", "One"}
RECURSIVE RunRegister(_, _, _)
RunRegister(ops, reg, res) ==
  IF ops = <<>> THEN [final |-> reg, results |-> res]
  ELSE LET nm == ops[1][1]  cl == ops[1][2] IN
       IF reg[nm] = "none" THEN RunRegister(Tail(ops), [reg EXCEPT ![nm] = cl], Append(res, "ok"))
       ELSE RunRegister(Tail(ops), reg, Append(res, IF reg[nm] = cl THEN "ok" ELSE "error"))
Registered(ops) == RunRegister(ops, [n \in RegNames |-> "none"], <<>>)

----------------------------------------------------------------------------
(* GENERATOR: the bounded grammars                                          *)
Thorough == Size = "thorough"
Names == {"Any", "One", "Boom", "Zed"}

SeqsUpTo(X, n) == UNION {[1..k -> X] : k \in 0..n}

ArgValsQuick == {I(1), S("x"), Null, S("Any"), S("**"), O1("Any", I(1)), O1("Zed", I(1)), O(<<>>),
                 L(<<I(1), S("Any")>>), O1("a", I(2))}
ArgValsMore  == {I(2), S("Boom"), O1("One", L(<<I(1), I(2)>>)), O1("Boom", I(1)), O1("Any", O1("a", I(1))),
                 O2("x", I(1), "y", I(2)), O2("Any", I(1), "x", I(2)), O2("name", S("Any"), "args", L(<<I(1)>>)),
                 O1("Any", L(<<O1("Any", S("Any"))>>)), O1("a", S("Any")), O1("arg", I(1)),
                 O2("Any", S("$"), "for", L(<<I(1), I(2)>>))}
ArgVals == IF Thorough THEN ArgValsQuick \cup ArgValsMore ELSE ArgValsQuick
KwVals  == ArgVals \ {S("**")}
KeySeqs == {<<"a">>, <<"a", "b">>, <<"arg">>, <<"a", "arg">>}
KwObjs  == UNION {{O([i \in 1..Len(ks) |-> <<S(ks[i]), f[i]>>]) : f \in [1..Len(ks) -> KwVals]} : ks \in KeySeqs}
ListSpecs == {L(s) : s \in SeqsUpTo(ArgVals, 3)}

(* the explicit V1 forms *)
ArgsX == {Null, I(1), L(<<>>), L(<<I(1), S("Any")>>), L(<<L(<<I(1), I(2)>>), I(2), Null>>), O1("Any", I(1)), O(<<>>)}
KwY   == {Null, O1("a", I(1)), O1("a", S("Any")), L(<<O1("a", I(1)), O1("a", I(2))>>), I(5), O1("arg", I(1))}
Methods == {Null, S("singular"), S("foreach")}
Pairs(name, x, y, m) == (IF name = Null THEN <<>> ELSE << <<S("name"), name>> >>)
                        \o (IF x = Null THEN <<>> ELSE << <<S("args"), x>> >>)
                        \o (IF y = Null THEN <<>> ELSE << <<S("kwargs"), y>> >>)
                        \o (IF m = Null THEN <<>> ELSE << <<S("method"), m>> >>)
Explicit1 ==
  {O(Pairs(S(n), x, y, m)) : n \in Names, x \in ArgsX, y \in KwY, m \in Methods}
  \cup {O(Pairs(Null, x, y, m)) : x \in ArgsX, y \in KwY, m \in Methods}                                  \* no name at all
  \cup {O(<< <<S(n), x>> >> \o Pairs(Null, Null, y, m)) : n \in Names, x \in ArgsX \cup KwY, y \in KwY, m \in Methods}      \* implicit + kwargs
  \cup {O(Pairs(Null, Null, Null, m) \o << <<S(n), x>> >>) : n \in Names, x \in ArgsX \cup KwY, m \in Methods}     \* method first
  \cup {O(<< <<S(n), x>> >> \o Pairs(Null, x2, Null, m)) : n \in {"Any", "One"}, x \in ArgsX \cup KwY, x2 \in {I(2), L(<<I(2)>>)}, m \in Methods}   \* implicit + args
  \cup {O(<< <<S(n), x>> >> \o Pairs(S("Any"), Null, Null, Null)) : n \in Names, x \in {I(1), Null, O1("a", I(1))}}   \* name collision
  \cup {O(Pairs(S("Any"), x, Null, S("other"))) : x \in ArgsX}                                             \* an unknown method
  \cup {O(<< <<S("method"), Null>>, <<S("Any"), L(<<I(1), I(2)>>)>> >>), O1("name", I(3)), O1("name", Null)}

(* the "for" forms of V2 *)
Templates == {S("$"), S("$0"), S("$1"), S("$2"), I(7), S("x"), S("$n"), L(<<>>), L(<<S("$"), I(9)>>), L(<<S("$0"), S("$1")>>),
              O2("a", S("$"), "b", I(3)), O1("$", I(1)), O2("$", I(1), "x", I(2)), L(<<O1("$", S("$"))>>),
              L(<<S("$1"), S("**"), O1("a", S("$0"))>>), L(<<O1("Any", S("$"))>>), L(<<L(<<S("$"), L(<<S("$")>>)>>)>>),
              O1("a", O1("Any", L(<<S("$")>>))), L(<<O2("Any", S("$"), "for", L(<<I(1), I(2)>>))>>)}
Colls == {L(<<>>), L(<<I(1), I(2)>>), L(<<I(5)>>), L(<<L(<<I(1), I(2)>>), L(<<I(3), S("Any")>>)>>), L(<<S("x"), S("Any")>>),
          O1("Rng", I(3)), O1("Rng", I(0)), S("Rng"), I(5), Null, S("Any"), O1("Any", I(1)), O2("p", I(1), "q", I(2)),
          L(<<L(<<I(1)>>)>>), O1("Boom", I(1)), L(<<Null, I(1)>>)}
ForForms == {O(<< <<S(n), tp>>, <<S("for"), c>> >>) : n \in Names, tp \in Templates, c \in Colls}
            \cup {O(<< <<S("for"), c>>, <<S(n), tp>> >>) : n \in {"Any", "Zed"}, tp \in Templates, c \in Colls}

NonRecipes == {I(1), Null, L(<<>>), L(<<S("Any")>>), O(<<>>), O1("for", L(<<I(1)>>)), O2("Any", I(1), "One", I(2)),
               O(<< <<S("Any"), I(1)>>, <<S("for"), L(<<I(1)>>)>>, <<S("x"), I(1)>> >>),
               S("Any"), S("One"), S("Boom"), S("Rng"), S("Zed"), S("$"), S(""), S("name")}

RecipeCases ==
  (IF "scalar" \in Part THEN {O1(n, x) : n \in Names, x \in ArgVals} \cup {O1(n, x) : n \in Names, x \in KwObjs} \cup NonRecipes ELSE {})
  \cup (IF "lists" \in Part THEN {O1(n, x) : n \in {"Any", "One"}, x \in ListSpecs}
                                   \cup {O1(n, L(x)) : n \in {"Boom", "Zed"}, x \in SeqsUpTo(ArgVals, 1)} ELSE {})
  \cup (IF "explicit" \in Part THEN Explicit1 ELSE {})
  \cup (IF "for" \in Part THEN ForForms ELSE {})

(* ---- templates ---- *)
SrcStages == {O1("Src", I(1)), S("Src"), S("$s"), L(<<O1("Src", I(1)), O1("Src", I(2))>>), O2("Src", S("$"), "for", L(<<I(1), I(2)>>)),
              O1("Src", S("$n")), O1("Src", O1("a", S("$n"))), O2("Src", S("$"), "for", S("$n")),
              O2("Src", L(<<I(1), I(2)>>), "method", S("foreach"))}
             \cup (IF Thorough THEN {L(<<S("$s"), O1("Src", I(3))>>), O1("Src", L(<<I(1), S("**"), O1("a", S("$n"))>>)),
                                     O1("Src", O1("Any", I(1))), L(<<O1("Src", I(1)), O1("Flt", I(9))>>), O1("Boom", I(1)), S("$u")} ELSE {})
FltStages == {O1("Flt", I(1)), S("$f"), L(<<O1("Flt", I(1)), O1("Flt", I(2))>>), O2("Shf", S("$"), "for", L(<<I(1), I(0)>>)),
              O2("Flt", L(<<I(1), I(2)>>), "method", S("foreach")), Null}
             \cup (IF Thorough THEN {S("Flt"), L(<<O1("Flt", I(1)), S("$f")>>), O1("Flt", S("$n")), O1("Flt", O1("Any", I(1))),
                                     O1("Boom", I(1)), S("$u"), O2("Flt", S("$"), "for", O1("Rng", I(2))), O1("Shf", I(1)),
                                     L(<<L(<<O1("Flt", I(1))>>), L(<<O1("Flt", I(2)), O1("Flt", I(3))>>)>>)} ELSE {})
(* an entry of "environments": a bare source stage, or a pipe (a list) of 1-3 stages *)
Entries12 == SrcStages \cup {L(<<s>>) : s \in SrcStages} \cup {L(<<s, f>>) : s \in SrcStages, f \in FltStages}
ThirdStages == IF Thorough THEN {O1("Flt", I(1)), S("$f"), L(<<O1("Flt", I(1)), O1("Flt", I(2))>>), O2("Shf", S("$"), "for", L(<<I(1), I(0)>>)),
                                  O2("Flt", L(<<I(1), I(2)>>), "method", S("foreach")), Null}
               ELSE {O1("Flt", I(3)), S("$f"), O2("Shf", S("$"), "for", L(<<I(1), I(0)>>))}
Entries3  == {L(<<s, f, g>>) : s \in SrcStages, f \in FltStages, g \in ThirdStages}
SecondEntries == {O1("Src", I(7)), L(<<S("$s"), S("$f")>>), L(<<O1("Src", I(8)), O2("Shf", S("$"), "for", L(<<I(0), I(1)>>))>>)}
(* part "tpl-a": one entry of up to two stages (also as an "environments" that is not a list), and two entries; *)
(* part "tpl-b": one entry of three stages                                                                       *)
EnvLists == (IF "tpl-a" \in Part
             THEN {L(<<e>>) : e \in Entries12} \cup {L(<<e, e2>>) : e \in Entries12, e2 \in SecondEntries}
                  \cup {e \in Entries12 : e.t = "obj"}
             ELSE {})
            \cup (IF "tpl-b" \in Part THEN {L(<<e>>) : e \in Entries3} ELSE {})

(* definitions of the variables, as bundles of (name, definition) pairs *)
DefsS == {<<>>, << <<S("$s"), O1("Src", I(5))>> >>, << <<S("$s"), O2("Src", S("$"), "for", L(<<I(5), I(6)>>))>> >>,
          << <<S("$s"), O2("Src", L(<<I(5), I(6)>>), "method", S("foreach"))>> >>}
         \cup (IF Thorough THEN {<< <<S("$s"), L(<<O1("Src", I(5)), O1("Src", I(6))>>)>> >>, << <<S("$s"), O1("Src", S("$n"))>> >>} ELSE {})
DefsF == {<<>>, << <<S("$f"), O1("Flt", I(5))>> >>, << <<S("$f"), O2("Flt", S("$"), "for", L(<<I(5), I(6)>>))>> >>,
          << <<S("$f"), L(<<O1("Flt", I(5)), O1("Flt", I(6))>>)>> >>}
         \cup (IF Thorough THEN {<< <<S("$f"), O2("Shf", S("$"), "for", L(<<I(2), I(0)>>))>> >>,
                                 << <<S("$f"), O2("Flt", L(<<I(5), I(6)>>), "method", S("foreach"))>> >>, << <<S("$f"), O1("Flt", S("$n"))>> >>} ELSE {})
DefsN == {<<>>, << <<S("$n"), L(<<I(3), I(4)>>)>> >>, << <<S("$n"), S("$m")>>, <<S("$m"), L(<<I(3), I(4)>>)>> >>,
          << <<S("$n"), L(<<I(0), S("$n")>>)>> >>}
         \cup (IF Thorough THEN {<< <<S("$n"), I(3)>> >>, << <<S("$n"), O1("Any", I(1))>> >>, << <<S("$m"), I(1)>>, <<S("$n"), L(<<S("$m"), S("$m")>>)>> >>} ELSE {})
RECURSIVE Refs(_)
Refs(x) == IF x.t = "str" THEN (IF x.v \in VarNames THEN {x.v} ELSE {})
           ELSE IF x.t = "lst" THEN UNION {Refs(x.v[i]) : i \in DOMAIN x.v}
           ELSE IF x.t = "obj" THEN UNION {Refs(x.v[i][2]) : i \in DOMAIN x.v}
           ELSE {}
BundleRefs(b) == UNION {Refs(b[i][2]) : i \in DOMAIN b}
(* user overrides: none, a replacement for a variable, a variable the template does not use *)
Overrides == {<<>>, << <<S("$s"), O1("Src", I(9))>> >>, << <<S("$f"), L(<<O1("Flt", I(8)), O1("Flt", I(9))>>)>> >>,
              << <<S("$n"), L(<<I(8)>>)>> >>, << <<S("$u"), O1("Src", I(4))>> >>}

----------------------------------------------------------------------------
(* one initial state per case; the outcome is computed and printed in its successor *)
Init ==
  /\ go = FALSE /\ out = <<>>
  /\ \/ \E r \in RecipeCases : case = [kind |-> "recipe", r |-> r]
     \/ /\ "registry" \in Part
        /\ \E k \in 1..4 : \E ops \in [1..k -> RegNames \X RegClasses] : case = [kind |-> "registry", ops |-> ops]
     \/ \E envs \in EnvLists :
             \E ds \in (IF "$s" \in Refs(envs) THEN DefsS ELSE {<<>>}) :
             \E df \in (IF "$f" \in Refs(envs) THEN DefsF ELSE {<<>>}) :
             \E dn \in (IF "$n" \in (Refs(envs) \cup BundleRefs(ds) \cup BundleRefs(df)) THEN DefsN ELSE {<<>>}) :
             (* overrides: of a variable the document refers to; the unused one with one-entry documents only *)
             \E ov \in {o \in Overrides : \/ o = <<>>
                                           \/ (envs.t = "lst" /\ Len(envs.v) = 1 /\ o[1][1].v \in (Refs(envs) \cup BundleRefs(ds) \cup BundleRefs(df) \cup {"$u"}))} :
               case = [kind |-> "template", doc |-> [vars |-> O(ds \o df \o dn), envs |-> envs], ov |-> O(ov)]

Eval(c) ==
  IF c.kind = "recipe"
  THEN [kind |-> "recipe", r |-> c.r, v1 |-> Make1(c.r), v2 |-> Make2(c.r, TRUE), v2n |-> Make2(c.r, FALSE)]
  ELSE IF c.kind = "registry"
  THEN LET r == Registered(c.ops) IN [kind |-> "registry", ops |-> c.ops, results |-> r.results, final |-> r.final]
  ELSE [kind |-> "template", vars |-> c.doc.vars, envs |-> c.doc.envs, ov |-> c.ov,
        t1 |-> T1(c.doc), t2 |-> T2(c.doc, c.ov), ft |-> FromTemplate(c.doc, c.ov)]

Next == ~go /\ go' = TRUE /\ out' = Eval(case) /\ UNCHANGED case
Spec == Init /\ [][Next]_vars

Emit == go => PrintT(ToJson(out))

----------------------------------------------------------------------------
(* DESIGN FACTS checked by TLC on every case                                *)
IsRecipeCase == go /\ out.kind = "recipe"
IsTemplateCase == go /\ out.kind = "template"

(* totality: every outcome is a well-formed tree (JSON values and constructed objects of registered *)
(* classes, recursively) or a rejection - never anything in between                                 *)
RECURSIVE WF(_)
WF(x) == CASE x.t = "int" -> x.v \in Int
           [] x.t = "str" -> TRUE
           [] x.t = "null" -> TRUE
           [] x.t = "lst" -> \A i \in DOMAIN x.v : WF(x.v[i])
           [] x.t = "obj" -> \A i \in DOMAIN x.v : Hashable(x.v[i][1]) /\ WF(x.v[i][2])
           [] x.t = "made" -> /\ x.v[1] \in Reg \ {"Boom"}
                              /\ \A i \in DOMAIN x.v[2] : WF(x.v[2][i])
                              /\ \A i \in DOMAIN x.v[3] : x.v[3][i][1].t = "str" /\ WF(x.v[3][i][2])
                              /\ (x.v[1] = "One" => Len(x.v[2]) = 1 /\ Len(x.v[3]) = 0)
           [] x.t = "pipe" -> Len(x.v) >= 1 /\ \A i \in DOMAIN x.v : x.v[i].t = "made" /\ WF(x.v[i])
           [] OTHER -> FALSE
Outcome(x) == IsErr(x) \/ WF(x)
IsPipelines(x) == x.t = "lst" /\ \A i \in DOMAIN x.v :
                    /\ x.v[i].t = "lst" /\ Len(x.v[i].v) >= 1
                    /\ \A j \in DOMAIN x.v[i].v : WF(x.v[i].v[j])
Totality == /\ IsRecipeCase => Outcome(out.v1) /\ Outcome(out.v2) /\ Outcome(out.v2n)
            /\ IsTemplateCase => \A x \in {out.t1, out.t2, out.ft} : IsErr(x) \/ IsPipelines(x)

(* inner-most first: an object is only ever called with finished arguments - no direct argument of a *)
(* constructed object is a value that the same maker would still construct                           *)
RECURSIVE Finished(_, _)
Children(x) == x.v[2] \o [i \in DOMAIN x.v[3] |-> x.v[3][i][2]]
Finished(x, ver) ==
  IF x.t = "made" THEN \A i \in DOMAIN Children(x) :
                          LET ch == Children(x)[i] IN
                          /\ (IF ver = 1 THEN K1(ch) # "yes" ELSE M2(ch) = ch)
                          /\ Finished(ch, ver)
  ELSE IF x.t = "lst" THEN \A i \in DOMAIN x.v : (x.v[i].t = "made" => Finished(x.v[i], ver))
  ELSE TRUE
InnerFirst == IsRecipeCase => Finished(out.v1, 1) /\ Finished(out.v2, 2) /\ (out.v2n # out.r => Finished(out.v2n, 2))

(* strict only matters for what is not a recipe: then the value comes back unchanged *)
StrictOnlyRejects == IsRecipeCase => IF IsErr(out.v2) /\ out.v2.v = "not-a-recipe" THEN out.v2n = out.r ELSE out.v2n = out.v2

(* "for" yields exactly one object per value of the collection, in order: the i-th object is what the *)
(* recipe without "for" constructs from the template filled with the i-th value                       *)
ForOnePerValue ==
  IsRecipeCase /\ IsRecipe2(out.r) /\ Has(out.r, "for") /\ ~IsErr(out.v2) =>
    LET nf == NonFor(out.r)
        vals == ForValues(M2(Get(out.r, "for")))
    IN /\ out.v2.t = "lst" /\ Len(out.v2.v) = Len(vals.v)
       /\ \A i \in DOMAIN vals.v : /\ out.v2.v[i].t = "made" /\ out.v2.v[i].v[1] = nf[1][1].v
                                   /\ out.v2.v[i] = Make2(O(<< <<nf[1][1], Fill(nf[1][2], vals.v[i])>> >>), TRUE)

(* V1 and V2 agree on the recipes both grammars read the same way (Common): a registered or unregistered  *)
(* name; {name: scalar}; {name: [args]} without "**" in the second-to-last place; {name: {kwargs}} whose  *)
(* dict V1 does not take for a nested recipe; arguments that are scalars, null, lists, dicts that neither *)
(* maker constructs, or again Common one-key recipes.  Agreement: when V2 constructs, V1 constructs the   *)
(* same tree; when V1 rejects, V2 rejects.  (V1 may construct where V2 rejects: its single-list-argument  *)
(* fallback.)                                                                                             *)
RECURSIVE Common(_), CommonArg(_)
CommonArg(a) == CASE a.t \in {"int", "null", "str", "lst"} -> TRUE
                  [] a.t = "obj" -> \/ K1(a) = "no" /\ ~IsRecipe2(a)
                                    \/ Len(a.v) = 1 /\ Common(a)
                  [] OTHER -> FALSE
Common(r) ==
  \/ r.t = "str"
  \/ /\ r.t = "obj" /\ Len(r.v) = 1 /\ r.v[1][1].t = "str" /\ r.v[1][1].v \notin (KW1 \cup {"for"})
     /\ LET sp == r.v[1][2] IN
        CASE sp.t \in {"int", "str"} -> TRUE
          [] sp.t = "lst" -> ~(Len(sp.v) >= 2 /\ IsStr(sp.v[Len(sp.v) - 1], "**")) /\ \A i \in DOMAIN sp.v : CommonArg(sp.v[i])
          [] sp.t = "obj" -> K1(sp) = "no" /\ \A i \in DOMAIN sp.v : CommonArg(sp.v[i][2])
          [] OTHER -> FALSE
VersionsAgree == IsRecipeCase /\ Common(out.r) => /\ (~IsErr(out.v2) => out.v1 = out.v2)
                                                  /\ (IsErr(out.v1) => IsErr(out.v2))

(* template expansion order, stated without Product: a pipe whose stages have the alternatives A1 (the *)
(* sources), A2, .., An yields |A1| * .. * |An| pipelines and the k-th one takes from every stage the  *)
(* alternative given by the digits of k - 1 in the mixed radix (|A1|, .., |An|), first stage most      *)
(* significant                                                                                        *)
RECURSIVE Radix(_, _, _)
Radix(k, sizes, i) == IF i = 0 THEN <<>> ELSE Append(Radix(k \div sizes[i], sizes, i - 1), (k % sizes[i]) + 1)
RECURSIVE Prod(_)
Prod(ns) == IF ns = <<>> THEN 1 ELSE ns[1] * Prod(Tail(ns))
PipeOrderOf(ps, res) ==
  LET sizes == [i \in DOMAIN ps |-> Len(ps[i].v)] IN
  /\ Len(res.v) = Prod(sizes)
  /\ \A k \in 1..Len(res.v) :
       LET d == Radix(k - 1, sizes, Len(ps))
           want == Flatten([i \in DOMAIN ps |-> L(IF ps[i].v[d[i]].t = "pipe" THEN ps[i].v[d[i]].v ELSE <<ps[i].v[d[i]]>>)])
       IN res.v[k] = Pipe(want)
CrossOrder ==
  IsTemplateCase /\ ~IsErr(out.t2) =>
    LET v0 == MergeVars(out.vars, out.ov)  fx == Fix(v0, FillVars(v0), 0)
        made == O([i \in DOMAIN fx.v |-> <<fx.v[i][1], M2(fx.v[i][2])>>])
        recipes == FillV(IF out.envs.t = "lst" THEN out.envs ELSE L(<<out.envs>>), made)
    IN \A e \in DOMAIN recipes.v :
         LET item == recipes.v[e] IN
         (item.t = "lst" /\ Len(item.v) >= 2) =>
           LET ps == [i \in DOMAIN item.v |-> Build2(item.v[i])] IN
           (IsSrc(ps[1].v[1]) /\ IsFlt(ps[2].v[1])) => PipeOrderOf(ps, Build2(item))

(* the V2 result is ordered by shuffle seed, and pipelines of equal seed keep their document order: it is *)
(* the concatenation, over the seeds in increasing order, of the document-order pipelines with that seed  *)
SeedOfPipeline(p) == Seed(Pipe(p.v))
RECURSIVE BySeeds(_, _)
BySeeds(es, seeds) == IF seeds = {} THEN <<>>
                      ELSE LET m == CHOOSE s \in seeds : \A s2 \in seeds : s <= s2
                           IN SelectSeq(es, LAMBDA p : SeedOfPipeline(p) = m) \o BySeeds(es, seeds \ {m})
SeedOrder ==
  IsTemplateCase /\ ~IsErr(out.t2) =>
    LET raw == Envs(T2Raw([vars |-> out.vars, envs |-> out.envs], out.ov).v).v IN
    /\ \A i \in 1..(Len(out.t2.v) - 1) : SeedOfPipeline(out.t2.v[i]) <= SeedOfPipeline(out.t2.v[i + 1])
    /\ out.t2.v = BySeeds(raw, {SeedOfPipeline(raw[i]) : i \in DOMAIN raw})

(* the registry binds a name to the class of the first registration that names it, for good *)
FirstWins == go /\ out.kind = "registry" =>
  \A n \in RegNames :
    LET idx == {i \in DOMAIN out.ops : out.ops[i][1] = n} IN
    IF idx = {} THEN out.final[n] = "none"
    ELSE LET f == CHOOSE i \in idx : \A j \in idx : i <= j IN
         /\ out.final[n] = out.ops[f][2]
         /\ \A i \in idx : (out.results[i] = "ok") = (out.ops[i][2] = out.ops[f][2])

(* from_template is the V2 reading whenever V2 accepts the document *)
Fallback == IsTemplateCase => /\ (~IsErr(out.t2) => out.ft = out.t2)
                              /\ (IsErr(out.t2) /\ ~IsErr(out.t1) => out.ft = out.t1)
                              /\ (IsErr(out.t2) /\ IsErr(out.t1) => IsErr(out.ft))
=============================================================================
