------------------------------- MODULE EnvRead -------------------------------
(***************************************************************************)
(* Reading an environment pipeline any number of times (C04).              *)
(* A pipeline object is a source of items 1..N followed by filters; two    *)
(* filters keep state between reads and are modelled as the code has them: *)
(*   pipes.Cache (coba/pipes/filters.py 385-413): `cache` buffer, a saved  *)
(*     upstream iterator (`itAlive`, position `itpos`), filled in slices   *)
(*     of `Slice` items; a read that finds a half-filled cache yields the  *)
(*     buffer and then CONTINUES the saved iterator;                       *)
(*   environments.Shuffle on logged data (environments/filters.py 38-69):  *)
(*     the seed is replaced by seed*3.21 while a read is in progress and   *)
(*     put back when the read ends.                                        *)
(* Reads are sequential (one live iterator at a time, as the property      *)
(* says): Open, then Next ... then either Finish (exhausted) or Drop (the  *)
(* caller abandons the iterator: GeneratorExit at the current yield;       *)
(* `finally` blocks run, plain statements after the yield do not).         *)
(* Between reads: Params look-ups, Pickle (what a multi-process experiment *)
(* does to an environment the user has peeked at).                         *)
(*                                                                         *)
(* Invariants: every read yields a prefix of the reference sequence and a  *)
(* finished read yields all of it; every read starts with the filter       *)
(* parameters the object was built with (so params never change).          *)
(* `hist` is the reader-level history; the driver replays each history on  *)
(* a catalogue of real pipelines (harness/drivers/c04.py).                 *)
(***************************************************************************)
EXTENDS Integers, Sequences, FiniteSets, TLC, Json
CONSTANTS N, Slice, MaxOps,
          HasCache, HasShuffle,   \* which stateful filters the modelled pipeline has
          ShuffleMode,            \* how Shuffle handles its changed seed on logged data:
                                  \*   "local"   a local variable, the object is never modified (the repaired tree)
                                  \*   "finally" stored on the object, put back in a `finally`
                                  \*   "plain"   stored on the object, put back by a plain statement (the pinned tree)
          DropKillsIter           \* deliberately broken Cache: abandoning a read discards the saved iterator (guard)
Source == [i \in 1..N |-> i]
VARIABLES cache, cacheOn, itAlive, itpos,   \* pipes.Cache
          swapped,                         \* Shuffle: seed currently replaced
          rpc, mode, ci, cur, out,         \* the live reader
          startOK,                         \* every read so far began with the original parameters
          hist, n
vars == <<cache, cacheOn, itAlive, itpos, swapped, rpc, mode, ci, cur, out, startOK, hist, n>>
Init == /\ cache = <<>> /\ cacheOn = FALSE /\ itAlive = FALSE /\ itpos = 0 /\ swapped = FALSE
        /\ rpc = "none" /\ mode = "-" /\ ci = 0 /\ cur = <<>> /\ out = <<>> /\ startOK = TRUE /\ hist = <<>> /\ n = 0

(* ---- a read begins: the generator chain is created and started (first next()) ---- *)
Open == /\ rpc = "none" /\ n < MaxOps
        /\ rpc' = "live" /\ out' = <<>> /\ ci' = 0 /\ cur' = <<>>
        /\ startOK' = (startOK /\ ~swapped)
        /\ swapped' = (IF HasShuffle /\ ShuffleMode # "local" /\ (~HasCache \/ (~cacheOn /\ ~itAlive)) THEN TRUE ELSE swapped)   \* the Shuffle generator starts when upstream is first pulled
        /\ IF ~HasCache THEN mode' = "direct" /\ UNCHANGED <<cache, cacheOn, itAlive, itpos>>
           ELSE IF ~cacheOn /\ ~itAlive THEN mode' = "fill" /\ cacheOn' = TRUE /\ cache' = <<>> /\ itAlive' = TRUE /\ itpos' = 0
           ELSE IF cacheOn /\ ~itAlive THEN mode' = "replay" /\ UNCHANGED <<cache, cacheOn, itAlive, itpos>>
           ELSE mode' = "resume" /\ UNCHANGED <<cache, cacheOn, itAlive, itpos>>      \* half-filled: buffer first, then the saved iterator
        /\ UNCHANGED <<hist, n>>
EndRead(kind, k) == /\ rpc' = "none" /\ n' = n + 1 /\ hist' = Append(hist, [op |-> kind, k |-> k])
(* ---- the reader asks for the next item ---- *)
Yield(x) == out' = Append(out, x)
Min(a,b) == IF a < b THEN a ELSE b
Next1 ==
  /\ rpc = "live"
  /\ CASE mode = "direct" ->
            IF Len(out) < N THEN Yield(Source[Len(out)+1]) /\ UNCHANGED <<rpc, hist, n, swapped, cache, cacheOn, itAlive, itpos, ci, cur, mode>>
            ELSE EndRead("full", N) /\ swapped' = FALSE /\ UNCHANGED <<out, cache, cacheOn, itAlive, itpos, ci, cur, mode>>
       [] mode = "replay" ->
            IF ci < Len(cache) THEN Yield(cache[ci+1]) /\ ci' = ci + 1 /\ UNCHANGED <<rpc, hist, n, swapped, cache, cacheOn, itAlive, itpos, cur, mode>>
            ELSE EndRead("full", N) /\ swapped' = FALSE /\ UNCHANGED <<out, cache, cacheOn, itAlive, itpos, ci, cur, mode>>
       [] mode \in {"fill", "resume"} ->
            IF ci < Len(cache) /\ cur = <<>> /\ mode = "resume"            \* yield from self._cache
            THEN Yield(cache[ci+1]) /\ ci' = ci + 1 /\ UNCHANGED <<rpc, hist, n, swapped, cache, cacheOn, itAlive, itpos, cur, mode>>
            ELSE IF cur # <<>>                                                \* yield from current
            THEN Yield(Head(cur)) /\ cur' = Tail(cur) /\ UNCHANGED <<rpc, hist, n, swapped, cache, cacheOn, itAlive, itpos, ci, mode>>
            ELSE IF itAlive /\ itpos < N                                      \* current := list(islice(self._iter, n_slice)); cache.extend
            THEN LET k == Min(Slice, N - itpos)  sl == SubSeq(Source, itpos + 1, itpos + k) IN
                 /\ cache' = cache \o sl /\ itpos' = itpos + k /\ ci' = Len(cache) + k
                 /\ Yield(Head(sl)) /\ cur' = Tail(sl) /\ mode' = "fill"
                 /\ UNCHANGED <<rpc, hist, n, swapped, cacheOn, itAlive>>
            ELSE /\ itAlive' = FALSE /\ EndRead("full", N) /\ swapped' = FALSE             \* self._iter = None
                 /\ UNCHANGED <<out, cache, cacheOn, itpos, ci, cur, mode>>
  /\ UNCHANGED startOK
(* ---- the caller drops the iterator after Len(out) items ---- *)
Drop == /\ rpc = "live" /\ Len(out) < N
        /\ EndRead("partial", Len(out))
        \* the drop reaches Shuffle's generator only if no Cache keeps that generator for later; `finally` then restores
        /\ swapped' = (IF (~HasCache \/ DropKillsIter) /\ ShuffleMode = "finally" THEN FALSE ELSE swapped)
        /\ itAlive' = (IF DropKillsIter THEN FALSE ELSE itAlive)
        /\ UNCHANGED <<out, cache, cacheOn, itpos, ci, cur, mode, startOK>>
Params == /\ rpc = "none" /\ n < MaxOps /\ n' = n + 1 /\ hist' = Append(hist, [op |-> "params", k |-> 0])
          /\ startOK' = (startOK /\ ~swapped)      \* params shows the seed as it is now
          /\ UNCHANGED <<cache, cacheOn, itAlive, itpos, swapped, rpc, mode, ci, cur, out>>
(* pickling copies the object's state (a live saved iterator cannot be pickled: the copy starts with what is in the buffer
   only if the buffer is complete; the driver checks that pickling works at all) *)
Pickle == /\ rpc = "none" /\ n < MaxOps /\ n' = n + 1 /\ hist' = Append(hist, [op |-> "pickle", k |-> 0])
          /\ UNCHANGED <<cache, cacheOn, itAlive, itpos, swapped, rpc, mode, ci, cur, out, startOK>>
Next == Open \/ Next1 \/ Drop \/ Params \/ Pickle
Spec == Init /\ [][Next]_vars

IsPrefix(a, b) == Len(a) <= Len(b) /\ \A i \in DOMAIN a : a[i] = b[i]
PrefixAlways  == IsPrefix(out, Source)
FullWhenDone  == \A i \in DOMAIN hist : hist[i].op = "full" => hist[i].k = N
FinishedAll   == (rpc = "none" /\ hist # <<>> /\ hist[Len(hist)].op = "full") => out = Source
ParamsStable  == startOK
CacheSound    == HasCache => IsPrefix(cache, Source) /\ (cacheOn /\ ~itAlive /\ rpc = "none" => cache = Source)
Emit == (n = MaxOps /\ rpc = "none") => PrintT(ToJson(hist))
=============================================================================
