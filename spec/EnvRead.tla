------------------------------- MODULE EnvRead -------------------------------
(***************************************************************************)
(* Reading an environment pipeline any number of times (C04).              *)
(* A pipeline object is a source of items 1..N followed by filters; two    *)
(* filters keep state between reads and are modelled as the code has them: *)
(*   pipes.Cache (coba/pipes/filters.py 385-413): `cache` buffer, a saved  *)
(*     upstream iterator (`itAlive`, position `itpos`), filled in slices   *)
(*     of `Slice` items; a read that finds a half-filled cache yields the  *)
(*     buffer and then CONTINUES the saved iterator;                       *)
(*   environments.Shuffle on logged data (environments/filters.py 38-69):  *)
(*     the seed is replaced by seed*3.21 while a read is in progress and   *)
(*     put back when the read ends.                                        *)
(* Reads are sequential (one live iterator at a time, as the property      *)
(* says): Open, then Next ... then either Finish (exhausted) or Drop (the  *)
(* caller abandons the iterator: GeneratorExit at the current yield;       *)
(* `finally` blocks run, plain statements after the yield do not).         *)
(* Between reads: Params look-ups, Pickle (what a multi-process experiment *)
(* does to an environment the user has peeked at), and (Others) complete   *)
(* reads of other environment objects living in the same process.          *)
(*                                                                         *)
(* Invariants: every read yields a prefix of the reference sequence and a  *)
(* finished read yields all of it; every read starts with the filter       *)
(* parameters the object was built with (so params never change).          *)
(* save()/from_save() (coba/environments/serialized.py): save() makes one   *)
(* complete read of the object, cuts what it yields into batches of        *)
(* `batch` interactions (header, params, batch, batch, ...), COLLECTS them *)
(* in a list and pickles each afterwards; the environment save() returns   *)
(* reads the concatenation of the stored batches and keeps no state.  The  *)
(* size of the environment relative to the batch size (below one batch,    *)
(* exactly one, one more, several and a partial one) is a dimension of the *)
(* case space: `batch` is chosen in Init from BatchSet.  Invariant          *)
(* SavedSound: what is on disk, concatenated, is the reference sequence.   *)
(* `hist` is the reader-level history; the driver replays each history on  *)
(* a catalogue of real pipelines (harness/drivers/c04.py).                 *)
(***************************************************************************)
EXTENDS Integers, Sequences, FiniteSets, TLC, Json
CONSTANTS N, Slice, MaxOps,
          HasCache, HasShuffle,   \* which stateful filters the modelled pipeline has
          ShuffleMode,            \* how Shuffle handles its changed seed on logged data:
                                  \*   "local"   a local variable, the object is never modified (the repaired tree)
                                  \*   "finally" stored on the object, put back in a `finally`
                                  \*   "plain"   stored on the object, put back by a plain statement (the pinned tree)
          DropKillsIter,          \* deliberately broken Cache: abandoning a read discards the saved iterator (guard)
          BatchSet,               \* batch sizes of save() to explore ({} = histories without save(), the original model)
          AliasBatches,           \* deliberately broken save(): the collected full batches are one reused buffer (guard)
          Others,                 \* the history may contain complete reads of OTHER environment objects (built through the same
                                  \*   public constructors, with other arguments) between the steps on this one
          SharedDefault           \* deliberately broken constructor: an argument left at its default is ONE object shared by every
                                  \*   environment built that way, and a read of another environment rewrites it (guard)
Source == [i \in 1..N |-> i]
VARIABLES cache, cacheOn, itAlive, itpos,   \* pipes.Cache
          swapped,                         \* Shuffle: seed currently replaced
          rpc, mode, ci, cur, out,         \* the live reader
          startOK,                         \* every read so far began with the original parameters
          hist, n,
          batch, saving, saved, disk       \* save(): batch size, the live read is save()'s, the object is now the saved one, stored batches
vars == <<cache, cacheOn, itAlive, itpos, swapped, rpc, mode, ci, cur, out, startOK, hist, n, batch, saving, saved, disk>>
SaveOn == BatchSet # {}
Init == /\ batch \in (IF SaveOn THEN BatchSet ELSE {1}) /\ saving = FALSE /\ saved = FALSE /\ disk = <<>>
        /\ cache = <<>> /\ cacheOn = FALSE /\ itAlive = FALSE /\ itpos = 0 /\ swapped = FALSE
        /\ rpc = "none" /\ mode = "-" /\ ci = 0 /\ cur = <<>> /\ out = <<>> /\ startOK = TRUE /\ hist = <<>> /\ n = 0

(* ---- save(): the collected batches.  Cut = fresh lists of `batch` items (islice); the guard variant collects ONE reused
        buffer (cleared and refilled after each yield), so every full batch on disk shows the buffer's final content ---- *)
Min(a,b) == IF a < b THEN a ELSE b
Cut(s) == IF ~AliasBatches
          THEN [i \in 1..((Len(s) + batch - 1) \div batch) |-> SubSeq(s, (i-1)*batch + 1, Min(i*batch, Len(s)))]
          ELSE LET full == Len(s) \div batch  rest == SubSeq(s, full*batch + 1, Len(s)) IN
               [i \in 1..(full + (IF rest = <<>> THEN 0 ELSE 1)) |-> rest]
RECURSIVE FlatTo(_,_)
FlatTo(d, i) == IF i = 0 THEN <<>> ELSE FlatTo(d, i-1) \o d[i]
Flat(d) == FlatTo(d, Len(d))                \* EnvironmentFromObjects.read: chain.from_iterable(batches)

(* ---- a read begins: the generator chain is created and started (first next()) ---- *)
OpenPipe ==
        /\ startOK' = (startOK /\ ~swapped)
        /\ swapped' = (IF HasShuffle /\ ShuffleMode # "local" /\ (~HasCache \/ (~cacheOn /\ ~itAlive)) THEN TRUE ELSE swapped)   \* the Shuffle generator starts when upstream is first pulled
        /\ IF ~HasCache THEN mode' = "direct" /\ UNCHANGED <<cache, cacheOn, itAlive, itpos>>
           ELSE IF ~cacheOn /\ ~itAlive THEN mode' = "fill" /\ cacheOn' = TRUE /\ cache' = <<>> /\ itAlive' = TRUE /\ itpos' = 0
           ELSE IF cacheOn /\ ~itAlive THEN mode' = "replay" /\ UNCHANGED <<cache, cacheOn, itAlive, itpos>>
           ELSE mode' = "resume" /\ UNCHANGED <<cache, cacheOn, itAlive, itpos>>      \* half-filled: buffer first, then the saved iterator
OpenRead(sv) ==
        /\ rpc = "none" /\ n < MaxOps
        /\ rpc' = "live" /\ out' = <<>> /\ ci' = 0 /\ cur' = <<>> /\ saving' = sv
        /\ UNCHANGED <<hist, n, batch, saved, disk>>
        /\ (IF saved THEN mode' = "saved" /\ UNCHANGED <<startOK, swapped, cache, cacheOn, itAlive, itpos>>      \* EnvironmentFromObjects.read: no filter, no state
            ELSE OpenPipe)
Open == ~saving /\ OpenRead(FALSE)
Save == SaveOn /\ OpenRead(TRUE)            \* save() = one complete read of the object as it is now (never abandoned), then Finish
EndRead(kind, k) == /\ rpc' = "none" /\ n' = n + 1 /\ hist' = Append(hist, [op |-> kind, k |-> k])
(* the read is exhausted: an ordinary read ends; save()'s read stores the batches and the object becomes the saved one *)
Finish == /\ EndRead(IF saving THEN "save" ELSE "full", Len(out)) /\ saving' = FALSE
          /\ (IF saving THEN disk' = Cut(out) /\ saved' = TRUE ELSE UNCHANGED <<disk, saved>>)
          /\ UNCHANGED <<out, batch>>
(* ---- the reader asks for the next item ---- *)
Yield(x) == out' = Append(out, x) /\ UNCHANGED <<rpc, hist, n, swapped, batch, saving, saved, disk>>
Next1 ==
  /\ rpc = "live"
  /\ CASE mode = "direct" ->
            IF Len(out) < N THEN Yield(Source[Len(out)+1]) /\ UNCHANGED <<cache, cacheOn, itAlive, itpos, ci, cur, mode>>
            ELSE Finish /\ swapped' = FALSE /\ UNCHANGED <<cache, cacheOn, itAlive, itpos, ci, cur, mode>>
       [] mode = "saved" ->
            IF Len(out) < Len(Flat(disk)) THEN Yield(Flat(disk)[Len(out)+1]) /\ UNCHANGED <<cache, cacheOn, itAlive, itpos, ci, cur, mode>>
            ELSE Finish /\ UNCHANGED <<swapped, cache, cacheOn, itAlive, itpos, ci, cur, mode>>
       [] mode = "replay" ->
            IF ci < Len(cache) THEN Yield(cache[ci+1]) /\ ci' = ci + 1 /\ UNCHANGED <<cache, cacheOn, itAlive, itpos, cur, mode>>
            ELSE Finish /\ swapped' = FALSE /\ UNCHANGED <<cache, cacheOn, itAlive, itpos, ci, cur, mode>>
       [] mode \in {"fill", "resume"} ->
            IF ci < Len(cache) /\ cur = <<>> /\ mode = "resume"            \* yield from self._cache
            THEN Yield(cache[ci+1]) /\ ci' = ci + 1 /\ UNCHANGED <<cache, cacheOn, itAlive, itpos, cur, mode>>
            ELSE IF cur # <<>>                                                \* yield from current
            THEN Yield(Head(cur)) /\ cur' = Tail(cur) /\ UNCHANGED <<cache, cacheOn, itAlive, itpos, ci, mode>>
            ELSE IF itAlive /\ itpos < N                                      \* current := list(islice(self._iter, n_slice)); cache.extend
            THEN LET k == Min(Slice, N - itpos)  sl == SubSeq(Source, itpos + 1, itpos + k) IN
                 /\ cache' = cache \o sl /\ itpos' = itpos + k /\ ci' = Len(cache) + k
                 /\ Yield(Head(sl)) /\ cur' = Tail(sl) /\ mode' = "fill"
                 /\ UNCHANGED <<cacheOn, itAlive>>
            ELSE /\ itAlive' = FALSE /\ Finish /\ swapped' = FALSE             \* self._iter = None
                 /\ UNCHANGED <<cache, cacheOn, itpos, ci, cur, mode>>
  /\ UNCHANGED startOK
(* ---- the caller drops the iterator after Len(out) items (save() never abandons its read) ---- *)
Drop == /\ rpc = "live" /\ ~saving /\ Len(out) < N
        /\ EndRead("partial", Len(out))
        \* the drop reaches Shuffle's generator only if no Cache keeps that generator for later; `finally` then restores
        /\ swapped' = (IF (~HasCache \/ DropKillsIter) /\ ShuffleMode = "finally" /\ mode # "saved" THEN FALSE ELSE swapped)
        /\ itAlive' = (IF DropKillsIter /\ mode # "saved" THEN FALSE ELSE itAlive)
        /\ UNCHANGED <<out, cache, cacheOn, itpos, ci, cur, mode, startOK, batch, saving, saved, disk>>
Params == /\ rpc = "none" /\ n < MaxOps /\ n' = n + 1 /\ hist' = Append(hist, [op |-> "params", k |-> 0])
          /\ startOK' = (startOK /\ (saved \/ ~swapped))      \* params shows the seed as it is now (a saved environment: the stored params)
          /\ UNCHANGED <<cache, cacheOn, itAlive, itpos, swapped, rpc, mode, ci, cur, out, batch, saving, saved, disk>>
(* pickling copies the object's state (a live saved iterator cannot be pickled: the copy starts with what is in the buffer
   only if the buffer is complete; the driver checks that pickling works at all) *)
Pickle == /\ rpc = "none" /\ n < MaxOps /\ n' = n + 1 /\ hist' = Append(hist, [op |-> "pickle", k |-> 0])
          /\ UNCHANGED <<cache, cacheOn, itAlive, itpos, swapped, rpc, mode, ci, cur, out, startOK, batch, saving, saved, disk>>
(* another environment object is built and read completely.  Objects are independent: nothing this object holds - buffer, saved
   iterator, parameters - is touched (the property: "reading never modifies the data held by the source", and this object's reads
   and params stay what they were).  Guard SharedDefault: the two objects hold one shared argument object which the other read
   rewrites, so from here on this object no longer has the parameters it was built with (seen by its next read / params). *)
Other == /\ Others /\ rpc = "none" /\ n < MaxOps /\ n' = n + 1 /\ hist' = Append(hist, [op |-> "other", k |-> 0])
         /\ swapped' = (IF SharedDefault /\ ~saved THEN TRUE ELSE swapped)
         /\ UNCHANGED <<cache, cacheOn, itAlive, itpos, rpc, mode, ci, cur, out, startOK, batch, saving, saved, disk>>
Next == Open \/ Save \/ Next1 \/ Drop \/ Params \/ Pickle \/ Other
Spec == Init /\ [][Next]_vars

IsPrefix(a, b) == Len(a) <= Len(b) /\ \A i \in DOMAIN a : a[i] = b[i]
PrefixAlways  == IsPrefix(out, Source)
FullWhenDone  == \A i \in DOMAIN hist : hist[i].op \in {"full", "save"} => hist[i].k = N
FinishedAll   == (rpc = "none" /\ hist # <<>> /\ hist[Len(hist)].op \in {"full", "save"}) => out = Source
ParamsStable  == startOK
CacheSound    == HasCache => IsPrefix(cache, Source) /\ (cacheOn /\ ~itAlive /\ rpc = "none" => cache = Source)
SavedSound    == saved => Flat(disk) = Source        \* the saved environment holds the sequence that was saved
(* without save(): every history, as a list.  With save(): the histories that contain a save(), with the size class
   (N items against batches of `batch`) that the driver renders as a real environment of the corresponding length *)
Emit == (n = MaxOps /\ rpc = "none") =>
          (IF ~SaveOn THEN PrintT(ToJson(hist))
           ELSE ((\E i \in DOMAIN hist : hist[i].op = "save") => PrintT(ToJson([hist |-> hist, size |-> N, batch |-> batch]))))
=============================================================================
