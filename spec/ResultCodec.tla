---------------------------- MODULE ResultCodec ----------------------------
(***************************************************************************)
(* What Experiment.run must record (C07).  Evaluator rows and component    *)
(* params are values of a small grammar; the log normalises them           *)
(* (coba/utilities.py minimize 151-185, coba/json.py, TransactionEncode    *)
(* 506-539 column packing over the union of keys sorted by str,            *)
(* TransactionResult 541-616 unpacking, numbering 1..N):                   *)
(*   float   -> rounded to 5 decimals (an integral float reads as int)     *)
(*   NaN/inf -> kept                                                       *)
(*   list / tuple at the top of a cell -> tuple; nested -> list            *)
(*   dict    -> dict whose keys are strings                                *)
(*   a field absent from a row -> None                                     *)
(*   a reward object -> the dict {registered name: state of THAT object}   *)
(* Values: [t |-> "int", v], [t |-> "flt", v |-> value * 10^7],            *)
(* [t |-> "str", v], [t |-> "none"], [t |-> "nan"], [t |-> "inf"],         *)
(* [t |-> "lst", v |-> <<..>>], [t |-> "tup", v |-> <<..>>],               *)
(* [t |-> "dct", v |-> <<<<key, value>>, ..>>], [t |-> "rwd", v |-> <<class,*)
(* args>>] (expected: [t |-> "rlog", same v]).  Expected floats are        *)
(* [t |-> "f5", v |-> value * 10^5].                                       *)
(* The spec is used as a generator/oracle: every initial state is one      *)
(* input (a list of rows with ragged key sets), its successor prints       *)
(* input and expected tables.                                              *)
(***************************************************************************)
EXTENDS Integers, Sequences, FiniteSets, TLC, Json
I(n) == [t |-> "int", v |-> n]
F(n) == [t |-> "flt", v |-> n]
S(s) == [t |-> "str", v |-> s]
None == [t |-> "none", v |-> 0]
NaN  == [t |-> "nan", v |-> 0]
Inf  == [t |-> "inf", v |-> 0]
L(xs) == [t |-> "lst", v |-> xs]
T(xs) == [t |-> "tup", v |-> xs]
D(ps) == [t |-> "dct", v |-> ps]
(* a reward object (coba.primitives L1Reward / BinaryReward / HammingReward / DiscreteReward: classes registered with     *)
(* getstate/setstate, coba/json.py dumps_registered): c = the registered name, args = the constructor arguments of THIS    *)
(* object.  It is logged, wherever it sits in a cell, as the one-entry dict {c: state of this object} - [t |-> "rlog"] -   *)
(* where the state is the object's own (it is a function of c and args only, rendered by the binding; it is not touched by *)
(* the float / sequence normalisation, so the generator uses only floats with <= 5 decimals in args).                      *)
R(c, args) == [t |-> "rwd", v |-> <<c, args>>]
(* a whole-number float beyond the scaled 32-bit representation (k indexes a table kept by the binding: 3965164488755.0,    *)
(* the largest finite double, -3121000059417.0): a whole number is its own rounding to 5 decimals, so its normal form is itself *)
Big(k) == [t |-> "big", v |-> k]

(* round half away is never exercised: the generator has no value ending in ...5 at the 6th decimal *)
Round5(x) == IF x >= 0 THEN (x + 50) \div 100 ELSE -((-x + 50) \div 100)
KeyStr(k) == IF k.t = "int" THEN S(ToString(k.v)) ELSE k
RECURSIVE Norm(_,_)
Norm(x, top) ==
  CASE x.t = "flt" -> IF x.v % 10000000 = 0 THEN I(x.v \div 10000000) ELSE [t |-> "f5", v |-> Round5(x.v)]
    [] x.t \in {"lst","tup"} -> [t |-> IF top THEN "tup" ELSE "lst", v |-> [i \in DOMAIN x.v |-> Norm(x.v[i], FALSE)]]
    [] x.t = "rwd" -> [t |-> "rlog", v |-> x.v]
    [] x.t = "dct" -> D([i \in DOMAIN x.v |-> <<KeyStr(x.v[i][1]), Norm(x.v[i][2], FALSE)>>])
    [] OTHER -> x

Scalars == {I(0), I(7), F(25000000), F(1234567), F(30000000), F(-98765433), S("a"), S("e\\n\"x"), None, NaN, Inf}
Seqs    == {L(<<I(1), F(1234567)>>), T(<<I(1), I(2)>>), L(<<>>), L(<<L(<<I(1)>>), T(<<I(2)>>)>>), L(<<None, S("z")>>)}
Dicts   == {D(<<<<S("k"), I(1)>>>>), D(<<<<I(3), S("x")>>, <<S("y"), L(<<I(1)>>)>>>>)}
Vals    == Scalars \cup Seqs \cup Dicts
TextVals == {S("e\\n\"x"), Inf, NaN, T(<<I(1), I(2)>>), D(<<<<S("L1"), F(2500000)>>>>)}     \* {"L1": 0.25}: a plain dict that happens to look like the serialised form of a registered class     \* the binding turns the two characters backslash-n into a real newline followed by non-ASCII characters
SmallVals == {I(7), F(1234567), None, L(<<I(1), F(1234567)>>), D(<<<<I(3), S("x")>>, <<S("y"), L(<<I(1)>>)>>>>)}
MidVals == {I(0), F(25000000), F(1234567), F(30000000), S("e\\n\"x"), None, NaN, T(<<I(1), I(2)>>), L(<<L(<<I(1)>>), T(<<I(2)>>)>>), D(<<<<I(3), S("x")>>, <<S("y"), L(<<I(1)>>)>>>>)}
BigVals == {Big(1), Big(2), Big(3), L(<<Big(1), F(1234567)>>)}
(* reward objects: two states per class (what is logged is the state of the object the evaluator yielded, not of another  *)
(* object of its class), as a cell and nested in a list cell, with scalar / tuple / list arguments                          *)
RewardVals == {R("L1", <<I(100)>>), R("L1", <<F(2500000)>>), R("BR", <<I(2), F(5000000)>>),
               L(<<R("HR", <<L(<<I(1), I(2)>>)>>), R("BR", <<I(1)>>), R("DR", <<L(<<I(0), I(1)>>), L(<<F(5000000), I(1)>>)>>), R("HR", <<L(<<I(3)>>)>>)>>)}
Keys    == {S("a"), S("b"), I(5)}           \* I(5): a non-string field name

(* a row: set of <<key, value>> with distinct keys *)
CONSTANTS MaxRows, ValSet
VARIABLES rows, go
vars == <<rows, go>>
RowsOver(KS) == [KS -> ValSet]
Init == /\ go = FALSE
        /\ \E n \in 1..MaxRows : \E ks \in [1..n -> (SUBSET Keys) \ {{}}] :
             \E r \in [1..n -> [Keys -> ValSet]] : rows = [i \in 1..n |-> [k \in ks[i] |-> r[i][k]]]
Next == ~go /\ go' = TRUE /\ UNCHANGED rows
Spec == Init /\ [][Next]_vars

AllKeys == UNION {DOMAIN rows[i] : i \in DOMAIN rows}
Expected == [i \in DOMAIN rows |-> [k \in AllKeys |-> IF k \in DOMAIN rows[i] THEN Norm(rows[i][k], TRUE) ELSE None]]
(* printed as sequences of <<key, value>> pairs (a function over records is not JSON) *)
Pairs(f) == LET RECURSIVE P(_) 
                P(Sx) == IF Sx = {} THEN <<>> ELSE LET k == CHOOSE x \in Sx : TRUE IN <<<<k, f[k]>>>> \o P(Sx \ {k})
            IN P(DOMAIN f)
Emit == go => PrintT(ToJson([rows |-> [i \in DOMAIN rows |-> Pairs(rows[i])], expected |-> [i \in DOMAIN rows |-> Pairs(Expected[i])]]))
(* the normalisation is idempotent and total on the grammar *)
NormIdem == \A v \in ValSet : Norm(Norm(v,TRUE),TRUE) = Norm(v,TRUE)
=============================================================================
