------------------------------ MODULE LazyRows ------------------------------
(***************************************************************************)
(* C13 - lazy row views are indistinguishable from the eager table they    *)
(* describe.                                                               *)
(*                                                                         *)
(* The spec is the EAGER model of coba/pipes/rows.py: a table is a list of *)
(* plain rows (dense row = sequence of values, sparse row = finite map     *)
(* key -> value), an optional header (dense: one name per position;        *)
(* sparse: keys are renamed) and an optional label column.  Every stage of *)
(* a pipeline is applied to the WHOLE table at once, the way one would do  *)
(* it with plain lists and dicts:                                          *)
(*                                                                         *)
(*   DoHead      HeadRows.filter      rows.py 221-238 (HeadDense 179-193,  *)
(*                                    HeadSparse 195-219)                  *)
(*   DoEncode    EncodeRows.filter    rows.py 284-310 (EncodeDense 240-254,*)
(*                                    EncodeSparse 256-282)                *)
(*   DoDrop      DropRows.filter      rows.py 377-432 (KeepDense 331-347,  *)
(*                                    DropSparse 349-375, args 394-416)    *)
(*   DoLabel     LabelRows.filter     rows.py 516-531 (LabelDense 434-465, *)
(*                                    DropOne 312-329, LabelSparse 467-514)*)
(*   DoEncodeCat EncodeCatRows.filter rows.py 533-623                      *)
(*   Init        ArffReader.filter    readers.py 274-317 (LazyDense 9-61,  *)
(*                                    LazySparse 63-135) for the arff bases*)
(*                                                                         *)
(* After the stages (phase "access") a behaviour is a history of accesses  *)
(* on ONE row object (the driver performs it on every row of the table):   *)
(* __getitem__ by position / by header name / by key, __iter__ (complete   *)
(* or abandoned after k values), __len__, keys, items, __eq__, headers,    *)
(* feats / label / tipe / labeled and the same accesses on the feats part. *)
(* What an access must return is Obs(tab, row, acc): a function of the     *)
(* eager table only - the history does not enter (that is the second       *)
(* sentence of the property; the hidden state of a lazy ARFF row, `loaded`,*)
(* is carried as a variable and provably never read by Obs).               *)
(*                                                                         *)
(* Values are tagged records [t, v]:  "i" int, "f" float with an integral  *)
(* value, "s" str, "n" None, "c" Categorical <<value, levels>>, "t" tuple  *)
(* of ints (a one-hot tuple), "u" an undefined ARFF cell spelled as an     *)
(* empty field or a quoted '?' (see U below), "err" = the access must     *)
(* raise a LookupError                                                     *)
(* (position = length, a name / key the eager table does not have).        *)
(* Positions are 0-based in everything that is printed (Python terms) and  *)
(* 1-based inside the operators.                                           *)
(*                                                                         *)
(* Sparse rows: an absent entry stands for the raw text "0" (that is what  *)
(* sparse ARFF means and what EncodeRows assumes, rows.py 303-309 and      *)
(* readers.py 308-314): encoding materialises an absent entry of column k  *)
(* exactly when enc_k("0") is not the number 0 (the "not sparse" columns). *)
(* LabelRows makes the label column a defaulted column with default 0      *)
(* (rows.py 475-501).                                                      *)
(*                                                                         *)
(* REUSE RULE.  A filter object is its constructor parameters and nothing  *)
(* else: what `filter(rows)` yields is a function of those parameters and  *)
(* of the rows of THAT call only.  In the model every stage is an operator *)
(* XT(table, stage record) - there is no place where something learnt from *)
(* an earlier table (column positions, header maps, encoder lists, the     *)
(* dense / sparse decision, categorical columns) could be kept; the        *)
(* invariant StackIsFunction states it (the table built step by step is    *)
(* the fold of the stage operators over the stack).  So the same stack of  *)
(* parameters may be applied to a second, different table (the "twin":     *)
(* other width / header order / values, or the other container kind where  *)
(* the parameters mean the same there) and to the first again; EmitStack   *)
(* prints what every access must return on the twin, computed by the same  *)
(* fold, and the driver feeds the SAME filter objects the first table, the *)
(* twin, and the first table again.                                        *)
(***************************************************************************)
EXTENDS Integers, Sequences, FiniteSets, TLC, Json, SequencesExt

CONSTANTS BaseNames,   \* subset of {"dense","sparse","arffd","arffs","arffu","catd","cats","cats3"}
          MaxStages,   \* at most this many filters are stacked
          MaxAcc,      \* exactly this many accesses form a history
          Lite         \* TRUE: fewer stage variants / a shorter access alphabet (deeper bounds stay enumerable)

I(n)    == [t |-> "i", v |-> n]
F(n)    == [t |-> "f", v |-> n]
S(s)    == [t |-> "s", v |-> s]
NoneV   == [t |-> "n", v |-> 0]
C(s, L) == [t |-> "c", v |-> <<s, L>>]
T(xs)   == [t |-> "t", v |-> xs]
Err     == [t |-> "err", v |-> 0]
(* an UNDEFINED cell of a numeric / nominal ARFF column that is not spelled with the bare missing marker: an empty field
   (`3,,y`) or a quoted question mark (`5,'?',x`).  The row-level scanner does not flag such a row (missing = FALSE), the
   cell itself cannot be decoded.  Its eager value is ONE of None / the text - the reading of quoted '?' is C12's known
   finding, so either is accepted - but it is one value: the same for every access path (position, name, iteration,
   equality, feats / label, under every filter).  The driver asks the reader once, by position on a fresh row, which
   reading it has and demands that reading everywhere. *)
U(text, ty) == [t |-> "u", v |-> <<text, ty>>]

Digits == {"0","1","2","3","4","5","6","7","8","9"}
StrInt == [s \in Digits |-> CHOOSE n \in 0..9 : ToString(n) = s]

(* ------------------------------ encoders ------------------------------ *)
(* the per-column callables handed to EncodeRows:                          *)
(*   "id" lambda x: x    "int" int    "inc" lambda x: int(x)+1   "str" str *)
(* "inc" is deliberately not idempotent: encoding a value twice shows.     *)
EncOK(e, x) == CASE e = "id"  -> TRUE
                 [] e \in {"int","inc"} -> x.t \in {"i","f"} \/ (x.t = "s" /\ x.v \in Digits)
                 [] e = "str" -> x.t \in {"i","s"}
                 [] OTHER -> TRUE                                   \* "none": the column has no encoder
AsInt(x) == IF x.t = "s" THEN StrInt[x.v] ELSE x.v
Enc(e, x) == CASE e = "id"  -> x
               [] e = "int" -> I(AsInt(x))
               [] e = "inc" -> I(AsInt(x) + 1)
               [] e = "str" -> IF x.t = "i" THEN S(ToString(x.v)) ELSE x
(* rows.py 305-309: column k is "not sparse" iff enc_k('0') != 0 *)
HasDef(e) == Enc(e, S("0")) # I(0)
Def(e)    == Enc(e, S("0"))

(* ------------------------------ base tables ------------------------------ *)
(* TLC orders strings by the moment they are first created; the one-hot keys "k_i" are built at run time (EncodeCatT), by
   whichever worker gets there first.  Naming them here fixes their order, so SetToSeq / CHOOSE - and with them the set of
   generated behaviours - are the same in every run. *)
OneHotKeyNames == <<"0_0","0_1","0_2","1_0","1_1","1_2","2_0","2_1","2_2","3_0","3_1","3_2","zz","#">>
HN == <<"c","a","d","b","g","e","f","h","j">>     \* header names by position; deliberately not alphabetical
L3 == <<"x","y","z">>
L2 == <<"p","q">>
DenseRows  == << <<I(1),S("2"),I(3),S("4")>>, <<I(5),S("6"),I(7),S("8")>>, <<I(9),S("0"),I(0),S("1")>> >>
SparseRows == << ("0" :> I(1)) @@ ("2" :> S("3")),
                 ("0" :> I(5)) @@ ("1" :> S("6")) @@ ("3" :> I(8)),
                 ("1" :> I(2)) @@ ("2" :> I(0)) >>
CatDRows   == << <<I(1),C("y",L3),S("u"),C("q",L2)>>, <<I(2),C("z",L3),S("v"),C("p",L2)>>, <<I(3),C("x",L3),S("w"),C("q",L2)>> >>
LB == <<"m","n">>
CatSRows   == << ("0" :> I(1)) @@ ("1" :> C("n",LB)) @@ ("3" :> C("q",L2)),
                 ("1" :> C("m",LB)) @@ ("2" :> S("v")) @@ ("3" :> C("p",L2)),
                 ("1" :> C("n",LB)) @@ ("3" :> C("q",L2)) >>
(* the same with a three-level categorical (used only directly under EncodeCatRows) *)
CatS3Rows  == << ("0" :> I(1)) @@ ("1" :> C("y",L3)) @@ ("3" :> C("q",L2)),
                 ("1" :> C("z",L3)) @@ ("2" :> S("v")) @@ ("3" :> C("p",L2)),
                 ("1" :> C("x",L3)) @@ ("3" :> C("q",L2)) >>
(* ARFF: attribute list and raw cell texts; "?" is ARFF's missing value *)
Attrs == << [name |-> "c", type |-> "num", levels |-> <<>>], [name |-> "a", type |-> "nom", levels |-> L3],
            [name |-> "d", type |-> "str", levels |-> <<>>], [name |-> "b", type |-> "num", levels |-> <<>>] >>
ArffDRaw == << <<"1","y","s","4">>, <<"?","x","t","5">>, <<"3","?","?","6">>, <<"7","z","u","?">> >>
(* the other spellings of an undefined cell: empty field, quoted question mark - numeric and nominal, first / middle / last
   column; first and last row plain (row predicates take their comparison values from them) *)
ArffURaw == << <<"1","y","s","4">>, <<"","x","t","5">>, <<"2","","u","6">>, <<"3","z","s","">>,
               <<"'?'","y","t","7">>, <<"5","'?'","u","8">>, <<"6","x","s","'?'">>, <<"?","z","t","9">>, <<"7","x","u","0">> >>
ArffSRaw == << ("0" :> "1") @@ ("1" :> "y") @@ ("3" :> "4"),
               ("1" :> "?") @@ ("2" :> "t"),
               ("0" :> "?") @@ ("3" :> "6"),
               ("0" :> "2") @@ ("1" :> "z") @@ ("2" :> "u") @@ ("3" :> "8") >>

(* twins: second tables for the same stack of filter objects (never explored as first tables) *)
Dense2Rows  == << <<S("7"),I(8),S("9"),I(1),I(2)>>, <<S("3"),I(4),S("5"),I(6),S("7")>> >>                     \* wider
Dense3Rows  == << <<I(4),S("1"),I(2),S("3")>>, <<I(1),S("5"),I(6),S("7")>> >>                                 \* same width, other rows
Sparse2Rows == << ("1" :> S("4")) @@ ("3" :> I(2)), ("0" :> I(3)) @@ ("2" :> S("5")), ("0" :> I(0)) @@ ("1" :> I(7)) >>
CatD2Rows   == << <<C("q",L2),I(7),C("x",L3),S("k"),I(2)>>, <<C("p",L2),I(8),C("z",L3),S("m"),I(3)>> >>       \* categoricals elsewhere
CatS2Rows   == << ("0" :> C("m",LB)) @@ ("2" :> C("p",L2)) @@ ("3" :> I(4)),
                  ("0" :> C("n",LB)) @@ ("1" :> S("w")) @@ ("2" :> C("q",L2)) >>
Attrs2 == << [name |-> "b", type |-> "num", levels |-> <<>>], [name |-> "c", type |-> "num", levels |-> <<>>],   \* other order, one more
             [name |-> "e", type |-> "str", levels |-> <<>>], [name |-> "a", type |-> "nom", levels |-> L3],
             [name |-> "d", type |-> "str", levels |-> <<>>] >>
ArffD2Raw == << <<"2","?","k","z","s">>, <<"9","4","?","x","t">>, <<"5","6","m","y","?">> >>
ArffD3Raw == << <<"8","x","q","2">>, <<"?","?","r","3">> >>                                                    \* Attrs, other rows
ArffS2Raw == << ("0" :> "3") @@ ("3" :> "y"), ("1" :> "?") @@ ("2" :> "k") @@ ("4" :> "s"), ("0" :> "1") @@ ("1" :> "2") >>
ArffS3Raw == << ("1" :> "x") @@ ("2" :> "w"), ("0" :> "5") @@ ("3" :> "?") >>                                  \* Attrs, other rows

Base(b) == CASE b = "dense"  -> [kind |-> "dense",  src |-> "rows", rows |-> DenseRows,  attrs |-> <<>>]
             [] b = "sparse" -> [kind |-> "sparse", src |-> "rows", rows |-> SparseRows, attrs |-> <<>>]
             [] b = "catd"   -> [kind |-> "dense",  src |-> "rows", rows |-> CatDRows,   attrs |-> <<>>]
             [] b = "cats"   -> [kind |-> "sparse", src |-> "rows", rows |-> CatSRows,   attrs |-> <<>>]
             [] b = "cats3"  -> [kind |-> "sparse", src |-> "rows", rows |-> CatS3Rows,  attrs |-> <<>>]
             [] b = "arffd"  -> [kind |-> "dense",  src |-> "arff", rows |-> ArffDRaw,   attrs |-> Attrs]
             [] b = "arffs"  -> [kind |-> "sparse", src |-> "arff", rows |-> ArffSRaw,   attrs |-> Attrs]
             [] b = "arffu"  -> [kind |-> "dense",  src |-> "arff", rows |-> ArffURaw,   attrs |-> Attrs]
             [] b = "dense2" -> [kind |-> "dense",  src |-> "rows", rows |-> Dense2Rows, attrs |-> <<>>]
             [] b = "dense3" -> [kind |-> "dense",  src |-> "rows", rows |-> Dense3Rows, attrs |-> <<>>]
             [] b = "sparse2"-> [kind |-> "sparse", src |-> "rows", rows |-> Sparse2Rows,attrs |-> <<>>]
             [] b = "catd2"  -> [kind |-> "dense",  src |-> "rows", rows |-> CatD2Rows,  attrs |-> <<>>]
             [] b = "cats2"  -> [kind |-> "sparse", src |-> "rows", rows |-> CatS2Rows,  attrs |-> <<>>]
             [] b = "arffd2" -> [kind |-> "dense",  src |-> "arff", rows |-> ArffD2Raw,  attrs |-> Attrs2]
             [] b = "arffd3" -> [kind |-> "dense",  src |-> "arff", rows |-> ArffD3Raw,  attrs |-> Attrs]
             [] b = "arffs2" -> [kind |-> "sparse", src |-> "arff", rows |-> ArffS2Raw,  attrs |-> Attrs2]
             [] b = "arffs3" -> [kind |-> "sparse", src |-> "arff", rows |-> ArffS3Raw,  attrs |-> Attrs]
(* the second tables tried for a first table: same container kind (first that the stack is meaningful on), other kind *)
TwinsSame(b)  == CASE b = "dense" -> <<"dense2","dense3">> [] b = "sparse" -> <<"sparse2">>
                   [] b = "arffd" -> <<"arffd2","arffd3">> [] b = "arffs" -> <<"arffs2","arffs3">> [] b = "arffu" -> <<"arffd2","arffd3">>
                   [] b = "catd"  -> <<"catd2">> [] b = "cats" -> <<"cats2">> [] b = "cats3" -> <<"cats">> [] OTHER -> <<>>
TwinsOther(b) == CASE b = "dense" -> <<"sparse">> [] b = "sparse" -> <<"dense">>
                   [] b = "arffd" -> <<"arffs2","arffs">> [] b = "arffs" -> <<"arffd2","arffd">>
                   [] b = "catd"  -> <<"cats">> [] b = "cats" -> <<"catd">> [] OTHER -> <<>>

(* what ArffReader makes of one cell (readers.py 96-121; '?' -> None: rows.py 34-40, 55-61, 93-99) *)
ArffEnc(a, raw, sparse) ==
  IF raw = "?" THEN NoneV ELSE
  IF raw \in {"", "'?'"} THEN U(IF raw = "" THEN "" ELSE "?", a.type) ELSE      \* only in numeric / nominal columns of dense ARFF
  CASE a.type = "num" -> F(StrInt[raw])
    [] a.type = "nom" -> C(raw, IF sparse THEN <<"0">> \o a.levels ELSE a.levels)     \* readers.py 111-115: "0" is prepended
    [] a.type = "str" -> S(raw)
ArffHasDef(a) == a.type \in {"nom","str"}                                               \* enc('0') != 0
ArffDef(a)    == IF a.type = "nom" THEN C("0", <<"0">> \o a.levels) ELSE S("0")

(* a table *)
Tab(kind, src, rows, hdr, miss) == [kind |-> kind, src |-> src, rows |-> rows, hdr |-> hdr, labeled |-> FALSE, lab |-> 0, labk |-> "",
                                    tipe |-> "", gone |-> {}, miss |-> miss]
InitTab(b) ==
  LET B == Base(b) IN
  IF B.src = "rows" THEN Tab(B.kind, "rows", B.rows, <<>>, [r \in DOMAIN B.rows |-> FALSE])
  ELSE IF B.kind = "dense" THEN
    Tab("dense", "arff", [r \in DOMAIN B.rows |-> [p \in DOMAIN B.rows[r] |-> ArffEnc(B.attrs[p], B.rows[r][p], FALSE)]],
        [p \in DOMAIN B.attrs |-> B.attrs[p].name],
        [r \in DOMAIN B.rows |-> \E p \in DOMAIN B.rows[r] : B.rows[r][p] = "?"])
  ELSE
    LET AttrOfKey(k) == B.attrs[StrInt[k] + 1]
        AttrOfName(nm) == B.attrs[CHOOSE p \in DOMAIN B.attrs : B.attrs[p].name = nm]
        KeyOfName(nm) == ToString((CHOOSE p \in DOMAIN B.attrs : B.attrs[p].name = nm) - 1)
        DefNames == {B.attrs[p].name : p \in {q \in DOMAIN B.attrs : ArffHasDef(B.attrs[q])}}
        Row(raw) == [nm \in {AttrOfKey(k).name : k \in DOMAIN raw} \cup DefNames |->
                        IF KeyOfName(nm) \in DOMAIN raw THEN ArffEnc(AttrOfName(nm), raw[KeyOfName(nm)], TRUE) ELSE ArffDef(AttrOfName(nm))]
    IN Tab("sparse", "arff", [r \in DOMAIN B.rows |-> Row(B.rows[r])], <<>>,
           [r \in DOMAIN B.rows |-> \E k \in DOMAIN B.rows[r] : B.rows[r][k] = "?"])

(* ------------------------------ helpers ------------------------------ *)
RECURSIVE KeepPos(_,_,_)
KeepPos(i, n, D) == IF i > n THEN <<>> ELSE (IF i \in D THEN <<>> ELSE <<i>>) \o KeepPos(i + 1, n, D)
DropSeq(s, D) == LET kp == KeepPos(1, Len(s), D) IN [j \in 1..Len(kp) |-> s[kp[j]]]
Has(s, x) == \E i \in DOMAIN s : s[i] = x
IndexOf(s, x) == CHOOSE i \in DOMAIN s : s[i] = x
RestrictTo(f, Ks) == [k \in Ks |-> f[k]]
NCols(t) == Len(t.rows[1])
AllKeys(t) == UNION {DOMAIN t.rows[r] : r \in DOMAIN t.rows}
(* a column reference as the user writes it: by 0-based index or by header name *)
Pos(t, ref) == IF ref.by = "idx" THEN ref.c + 1 ELSE IndexOf(t.hdr, ref.c)
RefOK(t, ref) == IF ref.by = "idx" THEN ref.c + 1 \in 1..NCols(t) ELSE Has(t.hdr, ref.c)

(* ------------------------------ row predicates (DropRows drop_row) ------------------------------ *)
(* evaluated on the rows as they are BEFORE the columns are dropped (rows.py 423)                    *)
PredHolds(t, pred, r) ==
  CASE pred.a = "none"    -> FALSE
    [] pred.a = "missing" -> t.miss[r]                                        \* attrgetter('missing'), openml.py 106
    [] pred.a = "poseq"   -> t.rows[r][pred.c + 1] = pred.v                    \* lambda row: row[c] == v
    [] pred.a = "nameeq"  -> t.rows[r][IndexOf(t.hdr, pred.c)] = pred.v        \* lambda row: row['c'] == v
    [] pred.a = "haskey"  -> pred.c \in DOMAIN t.rows[r]                       \* lambda row: c in row.keys()
Survivors(t, pred) == SelectSeq([r \in DOMAIN t.rows |-> r], LAMBDA r : ~PredHolds(t, pred, r))

(* ------------------------------ the stages, eagerly ------------------------------ *)
HeadT(t, st) ==
  IF t.kind = "dense" THEN [t EXCEPT !.hdr = st.names]
  ELSE LET NameOf(k) == st.names[CHOOSE i \in DOMAIN st.keys : st.keys[i] = k]
           KeyOf(nm) == st.keys[IndexOf(st.names, nm)]
       IN [t EXCEPT !.hdr = st.names,        \* from here on the rows are keyed by name
                    !.rows = [r \in DOMAIN t.rows |-> [nm \in {NameOf(k) : k \in DOMAIN t.rows[r]} |-> t.rows[r][KeyOf(nm)]]]]

EncAtPos(t, asg, p) == IF \E i \in DOMAIN asg : Pos(t, asg[i]) = p THEN asg[CHOOSE i \in DOMAIN asg : Pos(t, asg[i]) = p].e ELSE "id"
EncAtKey(asg, k)    == IF \E i \in DOMAIN asg : asg[i].c = k THEN asg[CHOOSE i \in DOMAIN asg : asg[i].c = k].e ELSE "none"
EncodeT(t, st) ==
  IF t.kind = "dense"
  THEN [t EXCEPT !.rows = [r \in DOMAIN t.rows |-> [p \in DOMAIN t.rows[r] |-> Enc(EncAtPos(t, st.asg, p), t.rows[r][p])]]]
  ELSE LET DefKeys == {st.asg[i].c : i \in {j \in DOMAIN st.asg : HasDef(st.asg[j].e)}}
           Row(row) == [k \in DOMAIN row \cup DefKeys |->
                          IF k \in DOMAIN row THEN (IF EncAtKey(st.asg, k) = "none" THEN row[k] ELSE Enc(EncAtKey(st.asg, k), row[k]))
                          ELSE Def(EncAtKey(st.asg, k))]
       IN [t EXCEPT !.rows = [r \in DOMAIN t.rows |-> Row(t.rows[r])]]
EncodeOK(t, st) ==
  IF t.kind = "dense"
  THEN \A r \in DOMAIN t.rows : \A p \in DOMAIN t.rows[r] : EncOK(EncAtPos(t, st.asg, p), t.rows[r][p])
  ELSE \A r \in DOMAIN t.rows : \A k \in DOMAIN t.rows[r] : EncOK(EncAtKey(st.asg, k), t.rows[r][k])

DropT(t, st) ==
  LET keep == Survivors(t, st.pred) IN
  IF t.kind = "dense" THEN
    LET D == {Pos(t, st.cols[i]) : i \in DOMAIN st.cols} IN
    [t EXCEPT !.rows = [j \in DOMAIN keep |-> DropSeq(t.rows[keep[j]], D)],
              !.miss = [j \in DOMAIN keep |-> t.miss[keep[j]]],
              !.hdr  = IF t.hdr = <<>> THEN <<>> ELSE DropSeq(t.hdr, D),
              !.gone = IF t.hdr = <<>> THEN t.gone ELSE t.gone \cup {t.hdr[p] : p \in D}]
  ELSE
    LET D == {st.cols[i].c : i \in DOMAIN st.cols} IN
    [t EXCEPT !.rows = [j \in DOMAIN keep |-> RestrictTo(t.rows[keep[j]], DOMAIN t.rows[keep[j]] \ D)],
              !.miss = [j \in DOMAIN keep |-> t.miss[keep[j]]],
              !.gone = t.gone \cup D]

LabelT(t, st) ==
  IF t.kind = "dense" THEN [t EXCEPT !.labeled = TRUE, !.lab = Pos(t, st.col), !.tipe = st.tipe]
  ELSE [t EXCEPT !.labeled = TRUE, !.labk = st.col.c, !.tipe = st.tipe,
                 !.rows = [r \in DOMAIN t.rows |-> IF st.col.c \in DOMAIN t.rows[r] THEN t.rows[r] ELSE t.rows[r] @@ (st.col.c :> I(0))]]

(* categoricals: 'string' -> the plain str, 'onehot_tuple' -> the one-hot tuple in place, 'onehot' -> dense: the one-hot
   values spliced in at the column's position; sparse: the entry k is replaced by "k_<level index>" -> 1 *)
OneHot(c) == [j \in DOMAIN c.v[2] |-> IF c.v[2][j] = c.v[1] THEN 1 ELSE 0]
LevelIdx(c) == (CHOOSE j \in DOMAIN c.v[2] : c.v[2][j] = c.v[1]) - 1
RECURSIVE Flat(_)
Flat(s) == IF s = <<>> THEN <<>>
           ELSE (IF Head(s).t = "c" THEN [j \in DOMAIN OneHot(Head(s)) |-> I(OneHot(Head(s))[j])] ELSE <<Head(s)>>) \o Flat(Tail(s))
CatVal(x, tipe) == IF x.t # "c" THEN x ELSE IF tipe = "string" THEN S(x.v[1]) ELSE T(OneHot(x))
EncodeCatT(t, st) ==
  IF t.kind = "dense" THEN
    [t EXCEPT !.rows = [r \in DOMAIN t.rows |-> IF st.tipe = "onehot" THEN Flat(t.rows[r]) ELSE [p \in DOMAIN t.rows[r] |-> CatVal(t.rows[r][p], st.tipe)]]]
  ELSE
    LET Row(row) == IF st.tipe # "onehot" THEN [k \in DOMAIN row |-> CatVal(row[k], st.tipe)]
                    ELSE LET CK == {k \in DOMAIN row : row[k].t = "c"}
                             NK(k) == k \o "_" \o ToString(LevelIdx(row[k]))
                         IN RestrictTo(row, DOMAIN row \ CK) @@ [kk \in {NK(k) : k \in CK} |-> I(1)]
    IN [t EXCEPT !.rows = [r \in DOMAIN t.rows |-> Row(t.rows[r])]]

(* ------------------------------ the choices offered at each stage ------------------------------ *)
Idx(p)  == [by |-> "idx",  c |-> p - 1]
Nm(t,p) == [by |-> "name", c |-> t.hdr[p]]
Key(k)  == [by |-> "key",  c |-> k]
NoPred  == [a |-> "none", c |-> 0, v |-> NoneV]

HeadChoices(t) ==
  IF t.kind = "dense"
  THEN {[op |-> "head", form |-> f, names |-> SubSeq(HN, 1, NCols(t)), keys |-> <<>>] : f \in (IF Lite THEN {"seq","maprev"} ELSE {"seq","map","maprev"})}
  ELSE LET ks == SetToSeq(AllKeys(t))      \* sparse: HeadRows({name: key}); the list form HeadRows([names]) is the map name_i -> i
           n  == Len(ks)
           ordered == [i \in 1..n |-> ToString(i - 1)]
       IN {[op |-> "head", form |-> "map", names |-> SubSeq(HN, 1, n), keys |-> ks]}
          \cup (IF AllKeys(t) = {ordered[i] : i \in 1..n} THEN {[op |-> "head", form |-> "seq", names |-> SubSeq(HN, 1, n), keys |-> ordered]} ELSE {})

EncPat == <<"inc","id","str","int","inc","str","int","inc","id">>
ColOK(t, p, e) == \A r \in DOMAIN t.rows : EncOK(e, t.rows[r][p])
KeyOK(t, k, e) == \A r \in DOMAIN t.rows : IF k \in DOMAIN t.rows[r] THEN EncOK(e, t.rows[r][k]) ELSE TRUE
EncodeChoices(t) ==
  IF t.kind = "dense" THEN
    LET n == NCols(t)
        full == [p \in 1..n |-> [by |-> "idx", c |-> p - 1, e |-> IF ColOK(t, p, EncPat[p]) THEN EncPat[p] ELSE "id"]]
        one(p, e, nm) == <<[by |-> IF nm THEN "name" ELSE "idx", c |-> IF nm THEN t.hdr[p] ELSE p - 1, e |-> e]>>
        P1 == {p \in (IF Lite THEN {n} ELSE {1, n}) : ColOK(t, p, "inc")}
    IN  {[op |-> "encode", form |-> "seq", asg |-> full]}
   \cup {[op |-> "encode", form |-> "map", asg |-> one(p, "inc", FALSE)] : p \in P1}
   \cup (IF t.hdr = <<>> THEN {} ELSE {[op |-> "encode", form |-> "map", asg |-> one(p, "inc", TRUE)] : p \in P1})
   \cup (IF n >= 3 /\ ColOK(t, 1, "str") /\ ColOK(t, n, "inc") /\ ~Lite
         THEN {[op |-> "encode", form |-> "map", asg |-> one(1, "str", t.hdr # <<>>) \o one(n, "inc", FALSE)]} ELSE {})
  ELSE
    LET ks == SetToSeq(AllKeys(t))
        intkeys == AllKeys(t) # {} /\ \A k \in AllKeys(t) : k \in Digits      \* a sequence of encoders is dict(enumerate(seq)): integer keys
        full == [i \in 1..4 |-> [by |-> "key", c |-> ToString(i - 1), e |-> IF KeyOK(t, ToString(i - 1), EncPat[i]) THEN EncPat[i] ELSE "int"]]
        K1 == {k \in AllKeys(t) : KeyOK(t, k, "inc")}
    IN  (IF intkeys /\ \A i \in 1..4 : KeyOK(t, ToString(i - 1), full[i].e) THEN {[op |-> "encode", form |-> "seq", asg |-> full]} ELSE {})
   \cup {[op |-> "encode", form |-> "map", asg |-> <<[by |-> "key", c |-> k, e |-> e]>>] : k \in K1, e \in (IF Lite THEN {"inc"} ELSE {"inc","int","str"})}

(* column sets to drop: every single column, and (not Lite) every pair; a dense table keeps at least one column *)
DropSets(t) ==
  LET n == NCols(t) IN
  {{p} : p \in 1..n} \cup (IF Lite THEN (IF n >= 3 THEN {{1, n}} ELSE {}) ELSE {{p, q} : p \in 1..n, q \in 1..n})
DenseDropCols(t) ==
  LET sets == {D \in DropSets(t) : Cardinality(D) < NCols(t)}
      asIdx(D)  == LET s == SetToSeq(D) IN [i \in DOMAIN s |-> Idx(s[i])]
      asName(D) == LET s == SetToSeq(D) IN [i \in DOMAIN s |-> Nm(t, s[i])]
      mixed(D)  == LET s == SetToSeq(D) IN [i \in DOMAIN s |-> IF i = 1 THEN Idx(s[i]) ELSE Nm(t, s[i])]
  IN {asIdx(D) : D \in sets}
     \cup (IF t.hdr = <<>> THEN {} ELSE {asName(D) : D \in sets} \cup {mixed(D) : D \in {E \in sets : Cardinality(E) = 2}})
(* a comparison value must tell the rows apart the same way under both readings of an undefined cell *)
CmpOK(t, p, v) == v.t # "u" /\ (v.t = "n" => \A r \in DOMAIN t.rows : t.rows[r][p].t # "u")
DensePreds(t) ==
  {NoPred} \cup (IF CmpOK(t, 1, t.rows[1][1]) THEN {[a |-> "poseq", c |-> 0, v |-> t.rows[1][1]]} ELSE {})
           \cup (IF t.hdr = <<>> \/ ~CmpOK(t, NCols(t), t.rows[Len(t.rows)][NCols(t)]) THEN {}
                 ELSE {[a |-> "nameeq", c |-> t.hdr[NCols(t)], v |-> t.rows[Len(t.rows)][NCols(t)]]})
           \cup (IF \E r \in DOMAIN t.miss : t.miss[r] THEN {[a |-> "missing", c |-> 0, v |-> NoneV]} ELSE {})
SparsePreds(t) ==
  {NoPred} \cup {[a |-> "haskey", c |-> kk, v |-> NoneV] : kk \in {k \in AllKeys(t) : \E r \in DOMAIN t.rows : k \notin DOMAIN t.rows[r]}}
           \cup (IF \E r \in DOMAIN t.miss : t.miss[r] THEN {[a |-> "missing", c |-> 0, v |-> NoneV]} ELSE {})
DropChoices(t) ==
  IF t.kind = "dense" THEN
    {[op |-> "drop", cols |-> cs, pred |-> NoPred] : cs \in DenseDropCols(t)}
    \cup {[op |-> "drop", cols |-> cs, pred |-> pr] : cs \in {<<>>} \cup (IF NCols(t) >= 2 THEN {<<Idx(2)>>} ELSE {}), pr \in DensePreds(t) \ {NoPred}}
  ELSE
    LET ks == AllKeys(t)
        one == {<<Key(k)>> : k \in ks}
        two == IF Cardinality(ks) >= 3 THEN {LET s == SetToSeq(ks) IN <<Key(s[1]), Key(s[Len(s)])>>} ELSE {}
    IN {[op |-> "drop", cols |-> cs, pred |-> NoPred] : cs \in one \cup two}
       \cup {[op |-> "drop", cols |-> cs, pred |-> pr] : cs \in {<<>>} \cup (IF ks = {} THEN {} ELSE {<<Key(CHOOSE k \in ks : TRUE)>>}), pr \in SparsePreds(t) \ {NoPred}}
DropOK(t, st) == Len(Survivors(t, st.pred)) >= 1        \* at least one row is left

LabelChoices(t) ==
  IF t.kind = "dense" THEN
    {[op |-> "label", col |-> Idx(p), tipe |-> "c"] : p \in 1..NCols(t)}
    \cup (IF t.hdr = <<>> THEN {} ELSE {[op |-> "label", col |-> Nm(t, p), tipe |-> "r"] : p \in 1..NCols(t)})
  ELSE {[op |-> "label", col |-> Key(k), tipe |-> "c"] : k \in AllKeys(t)}

EncodeCatChoices == {[op |-> "encodecat", tipe |-> x] : x \in {"string","onehot_tuple","onehot"}}

(* ------------------------------ accesses and what they must return ------------------------------ *)
Acc(a, k) == [a |-> a, k |-> k]
Mid(n) == (n + 1) \div 2
Feats(t, r) == IF t.kind = "dense" THEN DropSeq(t.rows[r], {t.lab}) ELSE RestrictTo(t.rows[r], DOMAIN t.rows[r] \ {t.labk})
LabelOf(t, r) == IF t.kind = "dense" THEN t.rows[r][t.lab] ELSE t.rows[r][t.labk]
(* the object a row is compared with: the eager row itself; a row that differs in the middle (the comparison stops early);
   a row that is one entry short *)
OtherD(row, kind) == CASE kind = "same"  -> row
                       [] kind = "mid"   -> [row EXCEPT ![Mid(Len(row))] = S("#")]
                       [] kind = "short" -> SubSeq(row, 1, Len(row) - 1)
OtherS(row, kind) == CASE kind = "same"  -> row
                       [] kind = "mid"   -> IF DOMAIN row = {} THEN ("zz" :> S("#")) ELSE [row EXCEPT ![CHOOSE k \in DOMAIN row : TRUE] = S("#")]
                       [] kind = "short" -> IF DOMAIN row = {} THEN ("zz" :> S("#")) ELSE RestrictTo(row, DOMAIN row \ {CHOOSE k \in DOMAIN row : TRUE})
EqObs(row, other) == [other |-> other, res |-> (other = row)]

ObsD(t, r, acc) ==
  LET row == t.rows[r]  n == Len(row)  fs == Feats(t, r) IN
  CASE acc.a = "pos"     -> IF acc.k < n THEN row[acc.k + 1] ELSE Err                      \* row[k]
    [] acc.a = "name"    -> IF Has(t.hdr, acc.k) THEN row[IndexOf(t.hdr, acc.k)] ELSE Err \* row['k']
    [] acc.a = "iter"    -> row                                                            \* list(row)
    [] acc.a = "part"    -> SubSeq(row, 1, acc.k)                                          \* the first k values of iter(row), iterator abandoned
    [] acc.a = "len"     -> n
    [] acc.a = "copy"    -> row                                                            \* row.copy()
    [] acc.a = "eq"      -> EqObs(row, OtherD(row, acc.k))                                 \* row == other
    [] acc.a = "hdrs"    -> [h \in {t.hdr[p] : p \in DOMAIN t.hdr} |-> IndexOf(t.hdr, h) - 1]   \* dict(row.headers)
    [] acc.a = "feats"   -> fs                                                             \* list(row.feats)
    [] acc.a = "fpos"    -> IF acc.k < Len(fs) THEN fs[acc.k + 1] ELSE Err                 \* row.feats[k]
    [] acc.a = "fpart"   -> SubSeq(fs, 1, acc.k)
    [] acc.a = "flen"    -> Len(fs)
    [] acc.a = "feq"     -> EqObs(fs, OtherD(fs, acc.k))
    [] acc.a = "label"   -> LabelOf(t, r)                                                  \* row.label
    [] acc.a = "tipe"    -> t.tipe
    [] acc.a = "labeled" -> [feats |-> fs, label |-> LabelOf(t, r), tipe |-> t.tipe]       \* row.labeled
ObsS(t, r, acc) ==
  LET row == t.rows[r]  fs == Feats(t, r) IN
  CASE acc.a = "key"     -> IF acc.k \in DOMAIN row THEN row[acc.k] ELSE Err               \* row[k]
    [] acc.a = "iter"    -> DOMAIN row                                                     \* set(iter(row))
    [] acc.a = "keys"    -> DOMAIN row                                                     \* set(row.keys())
    [] acc.a = "len"     -> Cardinality(DOMAIN row)
    [] acc.a = "items"   -> row                                                            \* dict(row.items())
    [] acc.a = "copy"    -> row
    [] acc.a = "eq"      -> EqObs(row, OtherS(row, acc.k))
    [] acc.a = "feats"   -> fs                                                             \* dict(row.feats.items())
    [] acc.a = "fkey"    -> IF acc.k \in DOMAIN fs THEN fs[acc.k] ELSE Err
    [] acc.a = "fkeys"   -> DOMAIN fs
    [] acc.a = "flen"    -> Cardinality(DOMAIN fs)
    [] acc.a = "feq"     -> EqObs(fs, OtherS(fs, acc.k))
    [] acc.a = "label"   -> LabelOf(t, r)
    [] acc.a = "tipe"    -> t.tipe
    [] acc.a = "labeled" -> [feats |-> fs, label |-> LabelOf(t, r), tipe |-> t.tipe]
Obs(t, r, acc) == IF t.kind = "dense" THEN ObsD(t, r, acc) ELSE ObsS(t, r, acc)
ObsAll(t, acc) == [r \in DOMAIN t.rows |-> Obs(t, r, acc)]

(* every access the table supports (the sweep the driver performs after each history) ... *)
AsSeq(S0) == SetToSeq(S0)
FullAcc(t) ==
  IF t.kind = "dense" THEN
    LET n == NCols(t) IN
       [i \in 1..(n + 1) |-> Acc("pos", i - 1)]
    \o (IF t.hdr = <<>> THEN <<>> ELSE [i \in 1..n |-> Acc("name", t.hdr[i])] \o <<Acc("name", "zz"), Acc("hdrs", 0)>>
                                      \o (LET g == AsSeq(t.gone) IN [i \in DOMAIN g |-> Acc("name", g[i])]))
    \o <<Acc("len", 0), Acc("iter", 0), Acc("copy", 0), Acc("eq", "same"), Acc("eq", "mid"), Acc("eq", "short")>>
    \o [i \in 1..(n - 1) |-> Acc("part", i)]
    \o (IF ~t.labeled THEN <<>> ELSE
          <<Acc("label", 0), Acc("tipe", 0), Acc("feats", 0), Acc("flen", 0), Acc("labeled", 0), Acc("feq", "same")>>
          \o (IF n >= 2 THEN <<Acc("feq", "mid"), Acc("feq", "short")>> ELSE <<>>)
          \o [i \in 1..n |-> Acc("fpos", i - 1)] \o [i \in 1..(n - 2) |-> Acc("fpart", i)])
  ELSE
    LET ks == AsSeq(AllKeys(t) \cup t.gone \cup {"zz"}) IN
       [i \in DOMAIN ks |-> Acc("key", ks[i])]
    \o <<Acc("len", 0), Acc("iter", 0), Acc("keys", 0), Acc("items", 0), Acc("copy", 0), Acc("eq", "same"), Acc("eq", "mid"), Acc("eq", "short")>>
    \o (IF ~t.labeled THEN <<>> ELSE
          <<Acc("label", 0), Acc("tipe", 0), Acc("feats", 0), Acc("flen", 0), Acc("fkeys", 0), Acc("labeled", 0), Acc("feq", "same"), Acc("feq", "mid")>>
          \o [i \in DOMAIN ks |-> Acc("fkey", ks[i])])
(* ... and the shorter alphabet histories are built from *)
HistAcc(t) ==
  IF t.kind = "dense" THEN
    LET n == NCols(t) IN
       <<Acc("pos", 0), Acc("pos", n)>> \o (IF n >= 2 THEN <<Acc("pos", n - 1)>> ELSE <<>>)
    \o (IF t.hdr = <<>> THEN <<>> ELSE <<Acc("name", t.hdr[n]), Acc("hdrs", 0)>> \o (IF Lite \/ n < 2 THEN <<>> ELSE <<Acc("name", t.hdr[1])>>)
                                      \o (IF t.gone = {} THEN <<>> ELSE <<Acc("name", CHOOSE g \in t.gone : TRUE)>>))
    \o <<Acc("len", 0), Acc("iter", 0), Acc("eq", "same"), Acc("eq", "mid")>> \o (IF Lite THEN <<>> ELSE <<Acc("eq", "short")>>)
    \o (IF n >= 2 THEN <<Acc("part", 1)>> ELSE <<>>) \o (IF n >= 3 THEN <<Acc("part", n - 1)>> ELSE <<>>)
    \o (IF ~t.labeled THEN <<>> ELSE
          <<Acc("label", 0), Acc("feats", 0), Acc("labeled", 0)>> \o (IF Lite THEN <<>> ELSE <<Acc("flen", 0), Acc("feq", "same")>>)
          \o (IF n >= 2 THEN <<Acc("fpos", 0), Acc("feq", "mid")>> ELSE <<>>)
          \o (IF n >= 3 THEN <<Acc("fpos", n - 2), Acc("fpart", 1)>> ELSE <<>>))
  ELSE
    LET ks == AllKeys(t)
        k1 == IF ks = {} THEN "zz" ELSE CHOOSE k \in ks : TRUE
        k2 == IF ks = {} THEN "zz" ELSE CHOOSE k \in ks : \A j \in ks : (\E r \in DOMAIN t.rows : j \notin DOMAIN t.rows[r]) => (\E r \in DOMAIN t.rows : k \notin DOMAIN t.rows[r])
    IN <<Acc("key", k1)>> \o (IF k2 # k1 THEN <<Acc("key", k2)>> ELSE <<>>) \o <<Acc("key", "zz")>>
    \o (IF t.gone = {} THEN <<>> ELSE <<Acc("key", CHOOSE g \in t.gone : TRUE)>>)
    \o <<Acc("len", 0), Acc("iter", 0), Acc("items", 0), Acc("eq", "same"), Acc("eq", "mid")>> \o (IF Lite THEN <<>> ELSE <<Acc("keys", 0), Acc("eq", "short")>>)
    \o (IF ~t.labeled THEN <<>> ELSE
          <<Acc("label", 0), Acc("feats", 0), Acc("labeled", 0), Acc("fkey", t.labk), Acc("flen", 0)>> \o (IF Lite THEN <<>> ELSE <<Acc("fkeys", 0), Acc("feq", "same"), Acc("fkey", k1)>>))

(* which accesses read the row's data (a lazy ARFF row parses its line then: rows.py 19-24, 74-79) *)
Loads(acc) == acc.a \notin {"hdrs", "tipe"}

(* ------------------------------ a stack of filters as a function of its input ------------------------------ *)
StageT(t, st) == CASE st.op = "head" -> HeadT(t, st) [] st.op = "encode" -> EncodeT(t, st) [] st.op = "drop" -> DropT(t, st)
                   [] st.op = "label" -> LabelT(t, st) [] st.op = "encodecat" -> EncodeCatT(t, st)
(* the same constructor arguments read on the other container kind: position i <-> key i, header name <-> key name
   (colref / pykey in the driver give the identical Python argument); row predicates that index a row do not carry over *)
TrRef(ref, toKind) ==
  IF toKind = "dense"
  THEN (IF ref.by = "key" THEN (IF ref.c \in Digits THEN [by |-> "idx", c |-> StrInt[ref.c]] ELSE [by |-> "name", c |-> ref.c]) ELSE ref)
  ELSE (IF ref.by = "idx" THEN [by |-> "key", c |-> ToString(ref.c)] ELSE IF ref.by = "name" THEN [by |-> "key", c |-> ref.c] ELSE ref)
Invalid == [op |-> "invalid"]
Tr(st, toKind) ==
  CASE st.op = "head" ->
         IF toKind = "sparse" THEN [st EXCEPT !.keys = [i \in DOMAIN st.names |-> ToString(i - 1)]]
         ELSE LET n == Len(st.keys) IN
              IF {st.keys[i] : i \in 1..n} # {ToString(i - 1) : i \in 1..n} THEN Invalid
              ELSE [st EXCEPT !.keys = <<>>, !.names = [i \in 1..n |-> st.names[CHOOSE j \in 1..n : st.keys[j] = ToString(i - 1)]]]
    [] st.op = "encode" -> [st EXCEPT !.asg = [i \in DOMAIN st.asg |-> [by |-> TrRef(st.asg[i], toKind).by, c |-> TrRef(st.asg[i], toKind).c, e |-> st.asg[i].e]]]
    [] st.op = "drop"   -> IF st.pred.a \notin {"none", "missing"} THEN Invalid
                           ELSE [st EXCEPT !.cols = [i \in DOMAIN st.cols |-> TrRef(st.cols[i], toKind)]]
    [] st.op = "label"  -> [st EXCEPT !.col = TrRef(st.col, toKind)]
    [] OTHER -> st
(* is the stage meaningful on this table (the domain of the property: see the assumptions in the driver) *)
PredOK(t, pred) == CASE pred.a = "none" -> TRUE
                     [] pred.a = "missing" -> t.src = "arff"
                     [] pred.a = "poseq"   -> t.kind = "dense" /\ pred.c < NCols(t)
                     [] pred.a = "nameeq"  -> t.kind = "dense" /\ Has(t.hdr, pred.c)
                     [] pred.a = "haskey"  -> t.kind = "sparse"
KeyRefOK(t, ref) == ref.by = "key" /\ ((t.src = "arff" \/ t.hdr # <<>>) => ref.c \notin Digits)   \* sparse ARFF rows / headed sparse rows are keyed by name
IntKeys(t) == AllKeys(t) # {} /\ \A k \in AllKeys(t) : k \in Digits
StageOK(t, st) ==
  CASE st.op = "invalid" -> FALSE
    [] st.op = "head" -> /\ ~t.labeled /\ t.src = "rows" /\ t.hdr = <<>>
                         /\ (IF t.kind = "dense" THEN Len(st.names) = NCols(t)
                                                 ELSE AllKeys(t) \subseteq {st.keys[i] : i \in DOMAIN st.keys})
    [] st.op = "encode" ->
         /\ ~t.labeled
         /\ (IF t.kind = "dense"
             THEN /\ \A i \in DOMAIN st.asg : st.asg[i].by # "key" /\ RefOK(t, st.asg[i])
                  /\ \A i, j \in DOMAIN st.asg : Pos(t, st.asg[i]) = Pos(t, st.asg[j]) => i = j
                  /\ (st.form = "seq" => Len(st.asg) = NCols(t) /\ \A i \in DOMAIN st.asg : st.asg[i].by = "idx" /\ st.asg[i].c = i - 1)
             ELSE /\ \A i \in DOMAIN st.asg : KeyRefOK(t, st.asg[i])
                  /\ (st.form = "seq" => IntKeys(t)))
         /\ EncodeOK(t, st)
    [] st.op = "drop" ->
         /\ ~t.labeled /\ PredOK(t, st.pred)
         /\ (IF t.kind = "dense"
             THEN /\ \A i \in DOMAIN st.cols : st.cols[i].by # "key" /\ RefOK(t, st.cols[i])
                  /\ Cardinality({Pos(t, st.cols[i]) : i \in DOMAIN st.cols}) < NCols(t)
             ELSE \A i \in DOMAIN st.cols : KeyRefOK(t, st.cols[i]))
         /\ DropOK(t, st)
    [] st.op = "label" -> /\ ~t.labeled
                          /\ (IF t.kind = "dense" THEN st.col.by # "key" /\ RefOK(t, st.col) ELSE KeyRefOK(t, st.col))
    [] st.op = "encodecat" ->
         /\ ~t.labeled /\ t.src = "rows" /\ t.hdr = <<>>
         /\ (t.kind = "sparse" => \A r \in DOMAIN t.rows : {k \in DOMAIN t.rows[r] : t.rows[r][k].t = "c"} = {k \in DOMAIN t.rows[1] : t.rows[1][k].t = "c"})
(* the table a stack of filters (written for tables of kind `from`) makes of the input table t *)
RECURSIVE Fold(_,_,_,_)
Fold(t, sts, i, from) ==
  IF i > Len(sts) THEN [ok |-> TRUE, tab |-> t]
  ELSE LET st == IF from = t.kind THEN sts[i] ELSE Tr(sts[i], t.kind) IN
       IF ~StageOK(t, st) THEN [ok |-> FALSE, tab |-> t] ELSE Fold(StageT(t, st), sts, i + 1, from)

(* ------------------------------ the state machine ------------------------------ *)
VARIABLES base, stack, tab, phase, hist, loaded
vars == <<base, stack, tab, phase, hist, loaded>>

Init == /\ base \in BaseNames /\ stack = <<>> /\ tab = InitTab(base) /\ phase = "build" /\ hist = <<>> /\ loaded = FALSE

Building == /\ phase = "build" /\ Len(stack) < MaxStages
            /\ ~tab.labeled                                 \* LabelRows is the last filter of a pipeline
            /\ (base = "cats3" => stack = <<>>)
Stage(st, t2) == /\ stack' = Append(stack, st) /\ tab' = t2 /\ UNCHANGED <<base, phase, hist, loaded>>

DoHead == /\ Building /\ tab.hdr = <<>> /\ Base(base).src = "rows" /\ ~\E i \in DOMAIN stack : stack[i].op = "head"
          /\ \E st \in HeadChoices(tab) : Stage(st, HeadT(tab, st))
DoEncode == /\ Building /\ ~\E i \in DOMAIN stack : stack[i].op = "encode"
            /\ \E st \in EncodeChoices(tab) : EncodeOK(tab, st) /\ Stage(st, EncodeT(tab, st))
DoDrop == /\ Building
          /\ \E st \in DropChoices(tab) : DropOK(tab, st) /\ Stage(st, DropT(tab, st))
DoLabel == /\ Building
           /\ \E st \in LabelChoices(tab) : Stage(st, LabelT(tab, st))
(* EncodeCatRows works on materialised rows (list / tuple / dict): it is the first filter over the plain cat tables *)
DoEncodeCat == /\ Building /\ stack = <<>> /\ base \in {"catd", "cats", "cats3"}
               /\ \E st \in EncodeCatChoices : Stage(st, EncodeCatT(tab, st))
(* the pipeline is read: from here on one row object is accessed again and again *)
Pick == /\ phase = "build" /\ phase' = "access" /\ UNCHANGED <<base, stack, tab, hist, loaded>>
Access == /\ phase = "access" /\ Len(hist) < MaxAcc
          /\ \E i \in DOMAIN HistAcc(tab) :
               LET acc == HistAcc(tab)[i] IN
               /\ hist' = Append(hist, [acc |-> acc, obs |-> ObsAll(tab, acc)])
               /\ loaded' = (loaded \/ Loads(acc))
          /\ UNCHANGED <<base, stack, tab, phase>>

Next == DoHead \/ DoEncode \/ DoDrop \/ DoLabel \/ DoEncodeCat \/ Pick \/ Access
Spec == Init /\ [][Next]_vars

(* ------------------------------ what the design guarantees (checked by TLC) ------------------------------ *)
Rectangular   == tab.kind = "dense" => \A r \in DOMAIN tab.rows : Len(tab.rows[r]) = NCols(tab) /\ NCols(tab) >= 1
HeaderBijective == (tab.kind = "dense" /\ tab.hdr # <<>>) =>
                     /\ Len(tab.hdr) = NCols(tab)
                     /\ \A i, j \in DOMAIN tab.hdr : tab.hdr[i] = tab.hdr[j] => i = j
                     /\ \A g \in tab.gone : ~Has(tab.hdr, g)
(* by length, by iteration and by items a row has the same number of entries *)
LenAgrees == \A r \in DOMAIN tab.rows :
               IF tab.kind = "dense" THEN Obs(tab, r, Acc("len", 0)) = Len(Obs(tab, r, Acc("iter", 0)))
               ELSE /\ Obs(tab, r, Acc("len", 0)) = Cardinality(Obs(tab, r, Acc("iter", 0)))
                    /\ Obs(tab, r, Acc("len", 0)) = Cardinality(DOMAIN Obs(tab, r, Acc("items", 0)))
                    /\ Obs(tab, r, Acc("keys", 0)) = Obs(tab, r, Acc("iter", 0))
(* position, name and iteration agree with each other *)
PosNameIterAgree == tab.kind = "dense" => \A r \in DOMAIN tab.rows : \A p \in 1..NCols(tab) :
                      /\ Obs(tab, r, Acc("pos", p - 1)) = Obs(tab, r, Acc("iter", 0))[p]
                      /\ tab.hdr # <<>> => Obs(tab, r, Acc("name", tab.hdr[p])) = Obs(tab, r, Acc("pos", p - 1))
(* feats and label are a partition of the row *)
FeatsLabelPartition == tab.labeled => \A r \in DOMAIN tab.rows :
                         IF tab.kind = "dense"
                         THEN LET fs == Feats(tab, r) IN
                              SubSeq(fs, 1, tab.lab - 1) \o <<LabelOf(tab, r)>> \o SubSeq(fs, tab.lab, Len(fs)) = tab.rows[r]
                         ELSE Feats(tab, r) @@ (tab.labk :> LabelOf(tab, r)) = tab.rows[r] /\ tab.labk \notin DOMAIN Feats(tab, r)
(* a row equals itself and nothing else that is offered *)
EqSound == \A r \in DOMAIN tab.rows : /\ Obs(tab, r, Acc("eq", "same")).res
                                      /\ ~Obs(tab, r, Acc("eq", "mid")).res
                                      /\ ~Obs(tab, r, Acc("eq", "short")).res
(* the second sentence of the property: what a history recorded for an access is what the access returns on a fresh row,
   whatever was accessed before and whether or not the lazy row has been parsed *)
HistoryIndependent == \A i \in DOMAIN hist : hist[i].obs = ObsAll(tab, hist[i].acc)
(* dropping by name is dropping by the position the name stands for; encoding and dropping other columns commute *)
DropByNameIsByIndex ==
  (phase = "build" /\ tab.kind = "dense" /\ tab.hdr # <<>>) => \A p \in 1..NCols(tab) : NCols(tab) >= 2 =>
     DropT(tab, [cols |-> <<Nm(tab, p)>>, pred |-> NoPred]) = DropT(tab, [cols |-> <<Idx(p)>>, pred |-> NoPred])
EncodeDropCommute ==
  (phase = "build" /\ tab.kind = "dense" /\ NCols(tab) >= 2 /\ ColOK(tab, NCols(tab), "inc")) =>
     LET e == [asg |-> <<[by |-> "idx", c |-> NCols(tab) - 1, e |-> "inc"]>>]
         e2 == [asg |-> <<[by |-> "idx", c |-> NCols(tab) - 2, e |-> "inc"]>>]
         d == [cols |-> <<Idx(1)>>, pred |-> NoPred]
     IN DropT(EncodeT(tab, e), d) = EncodeT(DropT(tab, d), e2)
(* dropping nothing changes nothing *)
DropNothing == phase = "build" => DropT(tab, [cols |-> <<>>, pred |-> NoPred]).rows = tab.rows

(* REUSE RULE: the table is a function of the stack's parameters and of the input table alone (see the header) *)
StackIsFunction == LET f == Fold(InitTab(base), stack, 1, Base(base).kind) IN f.ok /\ f.tab = tab
(* the second tables of a pipeline: the first candidate of the same kind and the first of the other kind on which every
   stage of the stack is meaningful *)
FirstOK(cands) == LET ok == {i \in DOMAIN cands : Fold(InitTab(cands[i]), stack, 1, Base(base).kind).ok} IN
                  IF ok = {} THEN <<>> ELSE <<cands[CHOOSE i \in ok : \A j \in ok : i <= j]>>
Twins == FirstOK(TwinsSame(base)) \o FirstOK(TwinsOther(base))
BaseRec(b) == [name |-> b, kind |-> Base(b).kind, src |-> Base(b).src, rows |-> Base(b).rows, attrs |-> Base(b).attrs]
FullOf(t) == LET fa == FullAcc(t) IN [i \in DOMAIN fa |-> [acc |-> fa[i], obs |-> ObsAll(t, fa[i])]]
TwinRec(b) == LET t2 == Fold(InitTab(b), stack, 1, Base(base).kind).tab IN
              [base |-> BaseRec(b), nrows |-> Len(t2.rows), kind |-> t2.kind, full |-> FullOf(t2)]

(* what TLC prints for the driver: one line per pipeline when it is read (base table, filters, what every access must return
   for every row - on the first table and on its twins), and one line per history (the accesses in order, each with what it must return for every row) *)
EmitStack == (phase = "access" /\ hist = <<>>) =>
          PrintT(ToJson([k |-> "stack",
                         base  |-> BaseRec(base), stack |-> stack, nrows |-> Len(tab.rows), kind |-> tab.kind, full |-> FullOf(tab),
                         twins |-> [i \in DOMAIN Twins |-> TwinRec(Twins[i])]]))
EmitHist == (phase = "access" /\ MaxAcc > 0 /\ Len(hist) = MaxAcc) =>
          PrintT(ToJson([k |-> "hist", base |-> base, stack |-> stack, hist |-> hist]))
=============================================================================
