----------------------------- MODULE Interactions -----------------------------
(***************************************************************************)
(* C20 - what InteractionsEncoder(terms).encode(x=.., a=..) must return    *)
(* (coba/encodings.py 302-415).                                            *)
(*                                                                         *)
(* The spec is a decision table used as generator and oracle: every        *)
(* initial state is one input (a term list and one value per namespace),   *)
(* its single successor prints the input together with the expected        *)
(* output.  Nothing about the expectation is computed outside this module. *)
(*                                                                         *)
(* INPUT GRAMMAR                                                           *)
(*   term list : sequence of elements [c, t]; c # 0 is a numeric constant, *)
(*               c = 0 is the term t, a sequence of namespace names        *)
(*               (<<"x","x","a">> is the Python string 'xxa').             *)
(*   namespace value : [t |-> tag, v |-> entries]                          *)
(*       "absent"  the keyword is not passed to encode at all              *)
(*       "none"    None                                                    *)
(*       "scalar"  one entry, passed bare (2, 0, 'p')                      *)
(*       "seq"     a dense vector (list / tuple / LazyDense ..)            *)
(*       "map"     a sparse mapping with string keys                       *)
(*       "imap"    a sparse mapping with integer keys                      *)
(*   entry : [k |-> key ("" in a seq), str |-> is the value a string,      *)
(*            s |-> the string, n |-> the number]                          *)
(*   The entries of a mapping are listed in insertion order, which is not  *)
(*   always the ascending order of the keys (Shuffled); vectors have up to *)
(*   MaxLen positions, and twelve (two-digit position names) in Long.      *)
(*                                                                         *)
(* MEANING (the property statement, sentence by sentence)                  *)
(*  * "Scalar, empty and None namespaces behave as vectors of length one   *)
(*    and zero" (and, DESIGN.md, so does a namespace that is not passed):  *)
(*    Features.  A string-valued feature is the indicator of (position,    *)
(*    string): value 1, name = namespace + position + string               *)
(*    (encode 328-340: make_dict / handle_str / the ns prefix).            *)
(*  * "each unordered combination of features once": the degree-m          *)
(*    monomials over n features are the non-decreasing index sequences of  *)
(*    length m over 1..n in lexicographic order - Combos (what _pows       *)
(*    384-400 is meant to build, level by level, with its `starts`         *)
(*    offsets).                                                            *)
(*  * "namespaces crossed as a full outer product": Cross, first namespace *)
(*    of the term major (_cross 402-415; the namespaces of a term in order *)
(*    of first appearance with their multiplicities is what                *)
(*    OrderedDict(Counter(term)) at 311 holds).                            *)
(*  * "terms in the order given, the constant first": Monos / Dense        *)
(*    (377-380; 363 for the mapping).  The constant feature is the sum of  *)
(*    the numeric terms (310; test_dense_x_a_with_const).                  *)
(*  * "a vector for dense inputs and, for sparse or string-valued inputs,  *)
(*    a mapping whose keys identify the participating features and whose   *)
(*    values equal the corresponding products": Mode, Dense, Sparse.       *)
(*    The mapping is given as a sequence of [names, v, d]: names = the     *)
(*    feature names taking part (with repetition), v = the product, d =    *)
(*    the number of numeric factors (lets the driver feed p/2 instead of p *)
(*    and compare with v / 2^d - a change of unit, not of oracle).  When   *)
(*    the only sparse-typed namespace is one that no term names the        *)
(*    property does not say which form is returned: Mode = "either".       *)
(***************************************************************************)
EXTENDS Integers, Sequences, FiniteSets, TLC, Json

CONSTANTS MaxLen,     \* longest vector / mapping explored for one namespace (<= 4)
          MaxMult,    \* largest multiplicity of one namespace in a term (<= 5)
          Degrees,    \* total degrees of the single-term lists explored in this run
          Multi,      \* which multi-term lists are explored in this run: "none", "few", "all"
          Pairs       \* namespace values seen by the single-term lists: "lite" = Lite x Lite,
                      \* "wide" = Full x Lite and Lite x Full, "full" = Full x Full (multi-term lists: Lite x Lite)

VARIABLES case, go
vars == <<case, go>>

NS == <<"x", "a">>

----------------------------------------------------------------------------
(* input grammar *)
Num(k, n)  == [k |-> k, str |-> FALSE, s |-> "", n |-> n]
Str(k, s)  == [k |-> k, str |-> TRUE,  s |-> s,  n |-> 0]
Absent     == [t |-> "absent", v |-> <<>>]
None       == [t |-> "none",   v |-> <<>>]
Scalar(e)  == [t |-> "scalar", v |-> <<e>>]

(* distinct primes: every monomial of a case has its own value *)
Prime(ns)   == IF ns = "x" THEN <<2, 3, 5, 7>> ELSE <<11, 13, 17, 19>>
Strs(ns)    == IF ns = "x" THEN <<"p", "q", "r", "s">> ELSE <<"d", "e", "f", "g">>
MapKeys     == <<"u", "v", "w", "z">>
IntKeys     == <<"5", "6", "8", "9">>

(* entry i of a container of namespace ns: a string where i \in ss, else the i-th prime (0 if i = z) *)
Ent(ns, i, key, ss, z) == IF i \in ss THEN Str(key, Strs(ns)[i]) ELSE Num(key, IF z = i THEN 0 ELSE Prime(ns)[i])
Cont(ns, tag, n, ss, z) ==
  [t |-> tag,
   v |-> IF n = 0 THEN <<>>
         ELSE [i \in 1..n |-> Ent(ns, i, IF tag = "seq" THEN "" ELSE IF tag = "imap" THEN IntKeys[i] ELSE MapKeys[i], ss, z)]]

Scalars(ns) == {Scalar(Num("", Prime(ns)[1])), Scalar(Num("", 0)), Scalar(Str("", Strs(ns)[1]))}
(* all-numeric with at most one zero; every non-empty set of string positions *)
Containers(ns, tag, L) ==
  UNION {{Cont(ns, tag, n, {}, z) : z \in 0..n} \cup {Cont(ns, tag, n, ss, 0) : ss \in (SUBSET (1..n)) \ {{}}} : n \in 0..L}
Full(ns) == {Absent, None} \cup Scalars(ns) \cup Containers(ns, "seq", MaxLen) \cup Containers(ns, "map", MaxLen)
            \cup {Cont(ns, "imap", n, {}, 0) : n \in 1..MaxLen} \cup {Cont(ns, "imap", n, 1..n, 0) : n \in 1..MaxLen}
(* KEY ORDER.  A mapping lists its features in the order they were inserted, which need not be the ascending order  *)
(* of the keys ({'v': 2, 'u': 3}, {6: 2, 5: 3}).  Entry i keeps its value (the i-th prime / string) and gets the key  *)
(* Keys[perm[i]]: the oracle (Features / Feat) names every feature by ITS OWN key, whatever the order of the keys.     *)
KeyOrders(n) == CASE n = 2 -> {<<2, 1>>}
                  [] n = 3 -> {<<3, 2, 1>>, <<2, 3, 1>>}
                  [] n = 4 -> {<<4, 3, 2, 1>>, <<2, 4, 1, 3>>}
                  [] OTHER -> {}
PermCont(ns, tag, n, ss, perm) ==
  [t |-> tag, v |-> [i \in 1..n |-> Ent(ns, i, IF tag = "imap" THEN IntKeys[perm[i]] ELSE MapKeys[perm[i]], ss, 0)]]
(* the fully reversed order in three kinds (numbers; a string last; integer keys), the other orders with numbers and a string *)
Shuffled(ns) == UNION {UNION {{PermCont(ns, "map", n, {n}, p)}
                               \cup (IF p[1] = n THEN {PermCont(ns, "map", n, {}, p), PermCont(ns, "imap", n, {}, p)} ELSE {})
                               : p \in KeyOrders(n)} : n \in 2..MaxLen}
(* LONG VECTORS.  Twelve positions: the positional feature names have one and two digits ("10" < "2" as text).        *)
LongLen == 12
LongVals(ns) == IF ns = "x" THEN <<2, 3, 5, 7, 11, 13, 17, 19, 23, 29, 31, 37>> ELSE <<41, 43, 47, 53, 59, 61, 67, 71, 73, 79, 83, 89>>
LongCont(ns, ss) == [t |-> "seq", v |-> [i \in 1..LongLen |-> IF i \in ss THEN Str("", Strs(ns)[1]) ELSE Num("", LongVals(ns)[i])]]
Long(ns) == {LongCont(ns, {}), LongCont(ns, {1}), LongCont(ns, {LongLen}), LongCont(ns, {3, 11})}
Lite(ns) == {Absent, None} \cup Scalars(ns)
            \cup {Cont(ns, "seq", 0, {}, 0), Cont(ns, "seq", 2, {}, 0), Cont(ns, "seq", MaxLen, {}, 0), Cont(ns, "seq", 2, {2}, 0)}
            \cup {Cont(ns, "map", 0, {}, 0), Cont(ns, "map", 2, {}, 0), Cont(ns, "map", 2, {1}, 0)}

PairsLite == Lite("x") \X Lite("a")
(* mappings with shuffled keys: against every Lite value and against each other *)
PairsShuffled == (Shuffled("x") \X (Lite("a") \cup Shuffled("a"))) \cup ((Lite("x") \cup Shuffled("x")) \X Shuffled("a"))
PairsSingle == CASE Pairs = "lite" -> PairsLite \cup PairsShuffled
                 [] Pairs = "wide" -> (Full("x") \X Lite("a")) \cup (Lite("x") \X Full("a")) \cup PairsShuffled
                 [] Pairs = "full" -> (Full("x") \X Full("a")) \cup PairsShuffled
(* multi-term lists: Lite x Lite, plus one shuffled mapping (numbers and a string) on either side *)
ShuffledOne(ns) == {PermCont(ns, "map", MaxLen, {MaxLen}, CHOOSE p \in KeyOrders(MaxLen) : p[1] = 2)}
PairsMulti == PairsLite \cup (ShuffledOne("x") \X Lite("a")) \cup (Lite("x") \X ShuffledOne("a"))
PairsLong == (Long("x") \X Lite("a")) \cup (Lite("x") \X Long("a"))

(* terms *)
Rep(ns, i) == [k \in 1..i |-> ns]
T(t) == [c |-> 0, t |-> t]
C(c) == [c |-> c, t |-> <<>>]
(* x^i a^j in both spellings ('xxa' and 'axx'), multiplicity <= MaxMult *)
Grouped(D) == UNION {{Rep("x", p[1]) \o Rep("a", p[2]), Rep("a", p[2]) \o Rep("x", p[1])} :
                        p \in {q \in (0..MaxMult) \X (0..MaxMult) : q[1] + q[2] \in D}}
SingleLists == {<<T(t)>> : t \in Grouped(Degrees)}

X1 == <<"x">>            A1 == <<"a">>             XA == <<"x", "a">>           AX == <<"a", "x">>
X2 == <<"x", "x">>       A2 == <<"a", "a">>        XXA == <<"x", "x", "a">>     XAA == <<"x", "a", "a">>
XXAA == <<"x", "x", "a", "a">>                      X4 == <<"x", "x", "x", "x">>
SmallTerms == IF Multi = "all" THEN {X1, A1, XA, AX, X2, A2, XXA, XAA, XXAA, X4} ELSE {X1, A1, XA, XXA, A2}
SameBag(s, t) == \A n \in {"x", "a"} : Cardinality({i \in DOMAIN s : s[i] = n}) = Cardinality({i \in DOMAIN t : t[i] = n})
InsertAt(s, i, e) == SubSeq(s, 1, i) \o <<e>> \o SubSeq(s, i + 1, Len(s))
(* no constant; one constant at every position; two constants (they add up) *)
WithConst(l) == {l} \cup {InsertAt(l, i, C(3)) : i \in 0..Len(l)} \cup {<<C(1)>> \o l \o <<C(2)>>}
BaseLists == {<<T(s)>> : s \in SmallTerms}
             \cup {<<T(p[1]), T(p[2])>> : p \in {q \in SmallTerms \X SmallTerms : ~SameBag(q[1], q[2])}}
             \cup {<<T(X1), T(A1), T(XA), T(XXA)>>, <<T(A1), T(XA), T(XXA), T(XXAA)>>, <<T(XXAA), T(XXA), T(AX), T(X1)>>, <<>>}
MultiLists == IF Multi = "none" THEN {} ELSE UNION {WithConst(l) : l \in BaseLists}
(* long vectors only meet terms of degree <= 2 (78 monomials for 'xx'); they ride with the multi-term lists of a run *)
LongLists == IF Multi = "none" THEN {} ELSE {<<T(t)>> : t \in {X1, A1, XA, AX, X2, A2}} \cup {<<C(3), T(X1), T(XA)>>}

----------------------------------------------------------------------------
(* the oracle *)
Feat(ns, key, e) == IF e.str THEN [name |-> ns \o key \o e.s, v |-> 1, num |-> 0]
                             ELSE [name |-> ns \o key,         v |-> e.n, num |-> 1]
(* the features of a namespace: scalar = length one; None / not passed / empty = length zero *)
Features(ns, val) ==
  CASE val.t \in {"absent", "none"} -> <<>>
    [] val.t = "scalar" -> <<Feat(ns, "0", val.v[1])>>
    [] val.t = "seq"    -> [i \in DOMAIN val.v |-> Feat(ns, ToString(i - 1), val.v[i])]
    [] OTHER            -> [i \in DOMAIN val.v |-> Feat(ns, val.v[i].k, val.v[i])]
IsSparseTyped(val) == val.t \in {"map", "imap"} \/ \E i \in DOMAIN val.v : val.v[i].str

(* non-decreasing index sequences of length m over lo..n, in lexicographic order *)
RECURSIVE Combos(_, _, _)
Combos(lo, n, m) ==
  IF m = 0 THEN << <<>> >>
  ELSE IF lo > n THEN <<>>
  ELSE LET rest == Combos(lo, n, m - 1)
       IN [j \in 1..Len(rest) |-> <<lo>> \o rest[j]] \o Combos(lo + 1, n, m)
(* the degree-m monomials over the features F: sequences of m features *)
Powers(F, m) == LET c == Combos(1, Len(F), m) IN [j \in 1..Len(c) |-> [i \in 1..m |-> F[c[j][i]]]]
(* full outer product, A major *)
Cross(A, B) == [k \in 1..(Len(A) * Len(B)) |-> A[((k - 1) \div Len(B)) + 1] \o B[((k - 1) % Len(B)) + 1]]

RECURSIVE Order(_)
Order(t) == IF t = <<>> THEN <<>>
            ELSE LET r == Order(SubSeq(t, 1, Len(t) - 1)) IN
                 IF \E i \in DOMAIN r : r[i] = t[Len(t)] THEN r ELSE Append(r, t[Len(t)])
Mult(t, ns) == Cardinality({i \in DOMAIN t : t[i] = ns})

TermMonos(t, val) ==
  LET o == Order(t)
      RECURSIVE X(_)
      X(k) == IF k = 0 THEN << <<>> >> ELSE Cross(X(k - 1), Powers(Features(o[k], val[o[k]]), Mult(t, o[k])))
  IN X(Len(o))

RECURSIVE ProdV(_)
ProdV(m) == IF m = <<>> THEN 1 ELSE m[1].v * ProdV(Tail(m))
RECURSIVE SumNum(_)
SumNum(m) == IF m = <<>> THEN 0 ELSE m[1].num + SumNum(Tail(m))
RECURSIVE SumSeq(_)
SumSeq(s) == IF s = <<>> THEN 0 ELSE s[1] + SumSeq(Tail(s))

Val(c) == [n \in {"x", "a"} |-> IF n = "x" THEN c.x ELSE c.a]
RECURSIVE Monos(_, _)
Monos(tl, val) == IF tl = <<>> THEN <<>>
                  ELSE (IF tl[1].c # 0 THEN <<>> ELSE TermMonos(tl[1].t, val)) \o Monos(Tail(tl), val)
Const(tl) == SumSeq([i \in DOMAIN tl |-> tl[i].c])
Used(tl)  == UNION {{tl[i].t[j] : j \in DOMAIN tl[i].t} : i \in DOMAIN tl}

Sparse(c) == LET ms == Monos(c.terms, Val(c))
             IN [i \in 1..Len(ms) |-> [names |-> [j \in DOMAIN ms[i] |-> ms[i][j].name], v |-> ProdV(ms[i]), d |-> SumNum(ms[i])]]
Dense(c)  == LET sp == Sparse(c) IN
             (IF Const(c.terms) # 0 THEN <<Const(c.terms)>> ELSE <<>>) \o [i \in 1..Len(sp) |-> sp[i].v]
Mode(c)   == IF \E n \in Used(c.terms) : IsSparseTyped(Val(c)[n]) THEN "sparse"
             ELSE IF \E n \in {"x", "a"} : IsSparseTyped(Val(c)[n]) THEN "either"
             ELSE "dense"
Expected(c) == [terms |-> c.terms, x |-> c.x, a |-> c.a, mode |-> Mode(c), const |-> Const(c.terms),
                dense |-> Dense(c), sparse |-> Sparse(c)]

----------------------------------------------------------------------------
(* generator: one initial state per case, evaluated and printed in its successor *)
Init == /\ go = FALSE
        /\ \/ \E tl \in SingleLists : \E p \in PairsSingle : case = [terms |-> tl, x |-> p[1], a |-> p[2]]
           \/ \E tl \in MultiLists  : \E p \in PairsMulti : case = [terms |-> tl, x |-> p[1], a |-> p[2]]
           \/ \E tl \in LongLists   : \E p \in PairsLong : case = [terms |-> tl, x |-> p[1], a |-> p[2]]
Next == ~go /\ go' = TRUE /\ UNCHANGED case
Spec == Init /\ [][Next]_vars

Emit == go => PrintT(ToJson(Expected(case)))

----------------------------------------------------------------------------
(* design-level facts, checked by TLC *)
Binom(n, k) == IF k < 0 \/ n < k THEN 0
               ELSE LET RECURSIVE B(_, _)
                        B(a, b) == IF b = 0 THEN 1 ELSE (B(a - 1, b - 1) * a) \div b
                    IN B(n, k)
Bag(s, n) == [i \in 1..n |-> Cardinality({j \in DOMAIN s : s[j] = i})]
RECURSIVE SumF(_, _)
SumF(f, n) == IF n = 0 THEN 0 ELSE f[n] + SumF(f, n - 1)
LexLess(s, t) == \E i \in DOMAIN s : s[i] < t[i] /\ \A j \in 1..(i - 1) : s[j] = t[j]
(* Combos is the combinatorial object of the statement: every multiset of size m over n features exactly *)
(* once (compared with the set-based definition), C(n+m-1, m) of them, in strictly increasing lexicographic order *)
CombosAreTheMultisets ==
  \A n \in 0..MaxLen : \A m \in 0..MaxMult :
    LET c == Combos(1, n, m)
        bags == {Bag(c[j], n) : j \in 1..Len(c)}
    IN /\ bags = {b \in [1..n -> 0..m] : SumF(b, n) = m}
       /\ Cardinality(bags) = Len(c)
       /\ Len(c) = (IF n = 0 THEN (IF m = 0 THEN 1 ELSE 0) ELSE Binom(n + m - 1, m))
       /\ \A j \in 1..Len(c) : \A i \in 1..(m - 1) : c[j][i] <= c[j][i + 1]
       /\ \A j \in 1..(Len(c) - 1) : LexLess(c[j], c[j + 1])
ASSUME CombosAreTheMultisets

(* complete homogeneous symmetric polynomial h_m(v_1..v_n) by its recurrence - independent of Combos *)
RECURSIVE H(_, _, _)
H(vs, n, m) == IF m = 0 THEN 1 ELSE IF n = 0 THEN 0 ELSE H(vs, n - 1, m) + vs[n] * H(vs, n, m - 1)
FeatVals(F) == [i \in 1..Len(F) |-> F[i].v]
RECURSIVE ProdOver(_, _, _)
ProdOver(o, t, val) == IF o = <<>> THEN 1
                       ELSE LET F == Features(o[1], val[o[1]]) IN H(FeatVals(F), Len(F), Mult(t, o[1])) * ProdOver(Tail(o), t, val)
RECURSIVE CountOver(_, _, _)
CountOver(o, t, val) == IF o = <<>> THEN 1
                        ELSE LET n == Len(Features(o[1], val[o[1]])) m == Mult(t, o[1]) IN
                             (IF n = 0 THEN 0 ELSE Binom(n + m - 1, m)) * CountOver(Tail(o), t, val)
(* the expansion of every term sums to the product of the h_m of its namespaces, and has the binomial count; *)
(* a term naming an empty / None / absent namespace contributes nothing *)
PolynomialIdentity ==
  go => \A i \in DOMAIN case.terms :
          case.terms[i].c = 0 =>
            LET t == case.terms[i].t  ms == TermMonos(t, Val(case)) IN
            /\ SumSeq([j \in 1..Len(ms) |-> ProdV(ms[j])]) = ProdOver(Order(t), t, Val(case))
            /\ Len(ms) = CountOver(Order(t), t, Val(case))
            /\ \A j \in 1..Len(ms) : Len(ms[j]) = Len(t)
(* the mapping form is a bijection: no two monomials of a case have the same multiset of feature names, *)
(* and feature names are distinct within a namespace and across namespaces *)
NameBag(names) == LET S == {names[j] : j \in DOMAIN names} IN [nm \in S |-> Cardinality({j \in DOMAIN names : names[j] = nm})]
KeysIdentify ==
  go => LET sp == Sparse(case)
            fs == Features("x", case.x) \o Features("a", case.a)
        IN /\ Cardinality({NameBag(sp[i].names) : i \in 1..Len(sp)}) = Len(sp)
           /\ Cardinality({fs[i].name : i \in 1..Len(fs)}) = Len(fs)
(* dense and mapping forms agree: same monomials, same order, the constant first *)
FormsAgree ==
  go => LET d == Dense(case) sp == Sparse(case) k == (IF Const(case.terms) # 0 THEN 1 ELSE 0) IN
        /\ Len(d) = Len(sp) + k
        /\ \A i \in 1..Len(sp) : d[i + k] = sp[i].v
        /\ (k = 1 => d[1] = Const(case.terms))
(* scalar = length one; None / absent = length zero *)
Lengths ==
  go => \A n \in {"x", "a"} : LET val == Val(case)[n] IN
          Len(Features(n, val)) = (CASE val.t \in {"absent", "none"} -> 0 [] val.t = "scalar" -> 1 [] OTHER -> Len(val.v))
=============================================================================
