---------------------------- MODULE MC_LazyRows ----------------------------
EXTENDS LazyRows
AllBases   == {"dense", "sparse", "arffd", "arffs", "arffu", "catd", "cats", "cats3"}
PlainBases == {"dense", "sparse"}
ArffBases  == {"arffd", "arffs", "arffu"}
CatBases   == {"catd", "cats", "cats3"}
DenseOnly  == {"dense"}
=============================================================================
