---------------------------- MODULE MC_LazyRows ----------------------------
EXTENDS LazyRows
AllBases   == {"dense", "sparse", "arffd", "arffs", "catd", "cats"}
PlainBases == {"dense", "sparse"}
ArffBases  == {"arffd", "arffs"}
CatBases   == {"catd", "cats"}
DenseOnly  == {"dense"}
=============================================================================
