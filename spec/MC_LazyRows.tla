---------------------------- MODULE MC_LazyRows ----------------------------
EXTENDS LazyRows
AllBases   == {"dense", "sparse", "arffd", "arffs", "catd", "cats", "cats3"}
PlainBases == {"dense", "sparse"}
ArffBases  == {"arffd", "arffs"}
CatBases   == {"catd", "cats", "cats3"}
DenseOnly  == {"dense"}
=============================================================================
