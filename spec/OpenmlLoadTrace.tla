-------------------------- MODULE OpenmlLoadTrace --------------------------
(***************************************************************************)
(* Trace validation for OpenmlLoad.tla.  IOEnv.TRACE_FILE holds a JSON     *)
(* array of executions of the REAL OpenmlSource.read recorded under the    *)
(* virtual scheduler (harness/drivers/x01.py):                             *)
(*   [cfg |-> .., pre |-> [key |-> "absent"|"good"|"bad"], ev |-> <<e>>]   *)
(* One event per spec action, logged at the action's linearisation point   *)
(* (virtual semaphore, inner cache operation, fake HTTP request, read-lock *)
(* release, row handed to the consumer, close(), result of the read):      *)
(*   [e, l (loader), k (key), v (outcome / result), n (try / row number)]  *)
(* Every event must be the observation of an enabled action of that loader *)
(* (obs' = event), and every invariant of OpenmlLoad is evaluated in every *)
(* state of every trace.                                                   *)
(***************************************************************************)
EXTENDS OpenmlLoad, IOUtils, TLCExt
trLoaders  == {"a","b","c"}
trDatasets == {"d1","d2"}
trNone     == {}
Traces == JsonDeserialize(IOEnv.TRACE_FILE)
VARIABLES tid, pos
tvars == <<vars, tid, pos>>
Evs == Traces[tid].ev
Ev  == Evs[pos]

TraceInit == /\ tid \in 1..Len(Traces) /\ pos = 1
             /\ cfg = Traces[tid].cfg
             /\ cache = [k \in Keys |-> Traces[tid].pre[k]]
             /\ InitRest
TraceNext == /\ pos <= Len(Evs) /\ Step(Ev.l) /\ obs' = Ev /\ pos' = pos + 1 /\ UNCHANGED tid
TraceSpec == TraceInit /\ [][TraceNext]_tvars

AtEnd   == pos = Len(Evs) + 1
Accept  == AtEnd => PrintT(ToJson([acc |-> tid]))
EndDone == AtEnd => AllDone       \* a recorded execution is complete: every loader finished every read
Diag    == PrintT(ToJson([tid |-> tid, l |-> pos]))
=============================================================================
