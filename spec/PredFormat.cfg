SPECIFICATION PSpec
CONSTANTS
  A = 116646453
  C = 9
  H = 15
  Inst <- pfInst
  NAs <- pfNAs
  BSizes <- pfBSizes
  Seeds <- pfSeeds
INVARIANT Emit
INVARIANT Meaningful
CHECK_DEADLOCK FALSE
