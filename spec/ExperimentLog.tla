---------------------------- MODULE ExperimentLog ----------------------------
(***************************************************************************)
(* Experiment.run as a state machine over its transaction log.             *)
(*   coba/experiments/core.py 140-209   run: restore, MakeTasks |          *)
(*        ChunkTasks | CobaMultiprocessor(ProcessTasks) | preamble |       *)
(*        TransactionEncode | DiskSink(batch=1)                            *)
(*   coba/experiments/process.py        MakeTasks 36-82, ChunkTasks        *)
(*        84-127, ProcessTasks 129-189                                     *)
(*   coba/results/core.py 498-616       TransactionDecode/Encode/Result    *)
(*   coba/pipes/sinks.py 75-102         DiskSink: open-append, write one   *)
(*        line, flush, close per record                                    *)
(*                                                                         *)
(* Properties served: C01 (the decoded result does not depend on the       *)
(* execution configuration or schedule), C02 (crash at any cell of any     *)
(* record, then resume: nothing lost, nothing evaluated again, nothing     *)
(* recorded twice, never unusable), C03 (every evaluation starts from a    *)
(* pristine learner; a failing triple removes only its own record).        *)
(*                                                                         *)
(* A shape is [tr |-> sequence of <<env,lrn,val>> object ids numbered by   *)
(* first appearance from 0, ch |-> chunk class of each env (0 = no         *)
(* chunk()), fail |-> set of triples whose evaluation raises].             *)
(* Record keys: <<"ver">>, <<"exp">>, <<"E",i>>, <<"L",i>>, <<"V",i>>,     *)
(* <<"I",e,l,v>>.  A record on disk is K content cells plus a terminator   *)
(* cell; only the last record can be incomplete (torn).                    *)
(***************************************************************************)
EXTENDS Integers, Sequences, FiniteSets, TLC

CONSTANTS Shapes,     \* set of experiment shapes TLC may choose from
          Cfgs,       \* set of execution configurations [p |-> processes, mt |-> maxtasksperchunk, ip |-> in-process?]
          K,          \* content cells per record
          MaxCrash,   \* bound on the number of crashes in a behaviour
          AsCoded,    \* TRUE: model the restore as the pinned tree had it (documents the repaired defect)
          NoCopy      \* TRUE: deliberately broken variant without the deepcopy (guards against vacuity)

VARIABLES shape, cfg, phase, exists, disk, pre, queue, wk, lst, outq, cur,
          evald, atStart, istart, reeval, crashes
vars == <<shape, cfg, phase, exists, disk, pre, queue, wk, lst, outq, cur, evald, atStart, istart, reeval, crashes>>

(* ------------------------------------------------------------------ *)
(* MakeTasks (process.py 45-82)                                        *)
(* ------------------------------------------------------------------ *)
Task(e,l,v,c) == [e |-> e, l |-> l, v |-> v, copy |-> c]
IsFirst(tr,i,pos) == \A j \in 1..(i-1) : tr[j][pos] # tr[i][pos]
LCount(tr,l) == Cardinality({i \in DOMAIN tr : tr[i][2] = l})
TasksAt(tr,i,R) ==
  LET e == tr[i][1]  l == tr[i][2]  v == tr[i][3] IN
     (IF IsFirst(tr,i,1) /\ <<"E",e>> \notin R THEN <<Task(e,-1,-1,FALSE)>> ELSE <<>>)
  \o (IF IsFirst(tr,i,2) /\ <<"L",l>> \notin R THEN <<Task(-1,l,-1,FALSE)>> ELSE <<>>)
  \o (IF IsFirst(tr,i,3) /\ <<"V",v>> \notin R THEN <<Task(-1,-1,v,FALSE)>> ELSE <<>>)
  \o (IF <<"I",e,l,v>> \notin R THEN <<Task(e,l,v,LCount(tr,l) > 1)>> ELSE <<>>)
RECURSIVE MakeFrom(_,_,_)
MakeFrom(tr,i,R) == IF i > Len(tr) THEN <<>> ELSE TasksAt(tr,i,R) \o MakeFrom(tr,i+1,R)
MakeTasks(tr,R) == MakeFrom(tr,1,R)

(* ------------------------------------------------------------------ *)
(* ChunkTasks (process.py 89-127)                                      *)
(* ------------------------------------------------------------------ *)
(* stable sort of a sequence of tasks by (e,l): selection of the minimum (e,l,position) *)
Less(a,i,b,j) == \/ a.e < b.e \/ (a.e = b.e /\ a.l < b.l) \/ (a.e = b.e /\ a.l = b.l /\ i < j)
RECURSIVE SortIdx(_,_)
SortIdx(s,I) == IF I = {} THEN <<>> ELSE
                  LET m == CHOOSE i \in I : \A j \in I \ {i} : Less(s[i],i,s[j],j)
                  IN <<s[m]>> \o SortIdx(s, I \ {m})
StableSort(s) == SortIdx(s, DOMAIN s)
RECURSIVE SplitEvery(_,_)
SplitEvery(s,n) == IF s = <<>> THEN <<>> ELSE IF n = 0 \/ Len(s) <= n THEN <<s>>
                   ELSE <<SubSeq(s,1,n)>> \o SplitEvery(SubSeq(s,n+1,Len(s)),n)
Singletons(s) == [i \in DOMAIN s |-> <<s[i]>>]
ClassOf(ch,t) == ch[t.e + 1]
RECURSIVE ClassChunks(_,_,_,_)
ClassChunks(withenv,ch,CS,mt) ==       \* classes in order of their smallest env id
  IF CS = {} THEN <<>> ELSE
    LET MinEnv(c) == CHOOSE e \in {withenv[i].e : i \in {j \in DOMAIN withenv : ClassOf(ch,withenv[j]) = c}} :
                        \A i \in DOMAIN withenv : ClassOf(ch,withenv[i]) = c => e <= withenv[i].e
        c == CHOOSE x \in CS : \A y \in CS : MinEnv(x) <= MinEnv(y)
        grp == SelectSeq(withenv, LAMBDA t : ClassOf(ch,t) = c)
    IN SplitEvery(StableSort(grp), mt) \o ClassChunks(withenv,ch,CS \ {c},mt)
ChunkTasks(tasks,ch,mt) ==
  LET sans == SelectSeq(tasks, LAMBDA t : t.e = -1)
      withenv == SelectSeq(tasks, LAMBDA t : t.e # -1)
      plain == SelectSeq(withenv, LAMBDA t : ClassOf(ch,t) = 0)
      CS == {ClassOf(ch,withenv[i]) : i \in DOMAIN withenv} \ {0}
  IN Singletons(sans) \o Singletons(plain) \o ClassChunks(withenv,ch,CS,mt)

(* ------------------------------------------------------------------ *)
(* ProcessTasks (process.py 131-189): order inside a chunk and records *)
(* sorted(key=(env or -1, lrn or -1), reverse=True) then pop() from    *)
(* the end: ascending keys, ties in reverse of the chunk order         *)
(* ------------------------------------------------------------------ *)
LessP(a,i,b,j) == \/ a.e < b.e \/ (a.e = b.e /\ a.l < b.l) \/ (a.e = b.e /\ a.l = b.l /\ i > j)
RECURSIVE ProcIdx(_,_)
ProcIdx(s,I) == IF I = {} THEN <<>> ELSE
                  LET m == CHOOSE i \in I : \A j \in I \ {i} : LessP(s[i],i,s[j],j)
                  IN <<s[m]>> \o ProcIdx(s, I \ {m})
ProcessOrder(chunk) == ProcIdx(chunk, DOMAIN chunk)
KeyOf(t) == IF t.l = -1 /\ t.v = -1 THEN <<"E",t.e>> ELSE IF t.e = -1 /\ t.v = -1 THEN <<"L",t.l>>
            ELSE IF t.e = -1 /\ t.l = -1 THEN <<"V",t.v>> ELSE <<"I",t.e,t.l,t.v>>
(* the work items of a chunk: [k |-> key, copy |-> evaluate on a deep copy] *)
Work(chunk) == LET o == ProcessOrder(chunk) IN [i \in DOMAIN o |-> [k |-> KeyOf(o[i]), copy |-> o[i].copy]]

(* ------------------------------------------------------------------ *)
(* what a complete, uninterrupted log must decode to                   *)
(* ------------------------------------------------------------------ *)
TripleKeys(s) == {<<"I",s.tr[i][1],s.tr[i][2],s.tr[i][3]>> : i \in DOMAIN s.tr}
ParamKeys(s)  == {<<"E",s.tr[i][1]>> : i \in DOMAIN s.tr} \cup {<<"L",s.tr[i][2]>> : i \in DOMAIN s.tr}
                 \cup {<<"V",s.tr[i][3]>> : i \in DOMAIN s.tr}
FailKeys(s)   == {<<"I",t[1],t[2],t[3]>> : t \in s.fail}
Canonical(s)  == {<<"ver">>,<<"exp">>} \cup ParamKeys(s) \cup (TripleKeys(s) \ FailKeys(s))

(* ------------------------------------------------------------------ *)
(* the disk                                                            *)
(* ------------------------------------------------------------------ *)
Complete(r) == r.n = K + 1 /\ ~r.junk
CompleteKeys(d) == {d[i].k : i \in {j \in DOMAIN d : Complete(d[j])}}
Last(d) == d[Len(d)]
(* TransactionDecode as the pinned tree had it: every non-empty line is json-decoded, the first must exist *)
ParsableAsCoded(d) == /\ Len(d) > 0 /\ d[1].n >= 1
                      /\ \A i \in DOMAIN d : (d[i].n >= K /\ ~d[i].junk) \/ d[i].n = 0
Decodable(d) == {d[i].k : i \in {j \in DOMAIN d : d[j].n >= K /\ ~d[j].junk}}

InitRest ==
        /\ cfg = [p |-> 1, mt |-> 0, ip |-> TRUE]
        /\ phase = "idle" /\ exists = FALSE /\ disk = <<>> /\ pre = <<>> /\ queue = <<>>
        /\ wk = [w \in 1..3 |-> <<>>] /\ lst = [w \in 1..3 |-> {}] /\ outq = <<>> /\ cur = <<"none">>
        /\ evald = {} /\ atStart = {} /\ istart = {} /\ reeval = FALSE /\ crashes = 0
Init == shape \in Shapes /\ InitRest

(* ---- Start: restore what the file holds, then plan the remaining work (core.py 172-196) ---- *)
Start(c) ==
  /\ phase \in {"idle","crashed"}
  /\ IF AsCoded /\ exists /\ ~ParsableAsCoded(disk)
     THEN /\ phase' = "unusable"
          /\ UNCHANGED <<shape,cfg,exists,disk,pre,queue,wk,lst,outq,cur,evald,atStart,istart,reeval,crashes>>
     ELSE LET kept == SelectSeq(disk, LAMBDA x : x.n >= K /\ ~x.junk)       \* repaired restore: a record whose content is all there
              d    == IF ~exists THEN <<>> ELSE IF AsCoded THEN disk         \* is kept and terminated, a partial one is dropped
                      ELSE [i \in DOMAIN kept |-> [kept[i] EXCEPT !.n = K + 1]]
              have == IF AsCoded THEN Decodable(d) ELSE CompleteKeys(d)
              fresh == ~exists \/ (~AsCoded /\ <<"ver">> \notin have)      \* intended: nothing usable = start over
              d2   == IF fresh THEN <<>> ELSE d
              hv   == IF fresh THEN {} ELSE have
              pr   == IF AsCoded THEN (IF exists THEN <<>> ELSE <<<<"ver">>,<<"exp">>>>)
                      ELSE (IF <<"ver">> \in hv THEN <<>> ELSE <<<<"ver">>>>) \o (IF <<"exp">> \in hv THEN <<>> ELSE <<<<"exp">>>>)
              chunks == ChunkTasks(MakeTasks(shape.tr, hv), shape.ch, c.mt)
          IN /\ disk' = d2 /\ exists' = TRUE /\ atStart' = hv /\ pre' = pr
             /\ queue' = [i \in DOMAIN chunks |-> Work(chunks[i])]
             /\ cfg' = c /\ phase' = "running" /\ cur' = <<"none">> /\ outq' = <<>>
             /\ wk' = [w \in 1..3 |-> <<>>] /\ lst' = [w \in 1..3 |-> {}] /\ evald' = {}
             /\ UNCHANGED <<shape,istart,reeval,crashes>>

(* ---- a worker takes the next chunk; a chunk sent to another process is a pickled copy: learner state starts afresh ---- *)
Take(w) == /\ phase = "running" /\ w <= cfg.p /\ wk[w] = <<>> /\ queue # <<>>
           /\ wk' = [wk EXCEPT ![w] = Head(queue)] /\ queue' = Tail(queue)
           /\ lst' = IF cfg.ip THEN lst ELSE [lst EXCEPT ![w] = {}]
           /\ UNCHANGED <<shape,cfg,phase,exists,disk,pre,outq,cur,evald,atStart,istart,reeval,crashes>>
(* ---- the worker finishes its next work item: parameters recorded / triple evaluated (or raising) ---- *)
IsTriple(k) == k[1] = "I"
Emit(w) == /\ phase = "running" /\ wk[w] # <<>>
           /\ LET it == Head(wk[w])  k == it.k  l == IF IsTriple(k) THEN k[3] ELSE -1
                  failing == IsTriple(k) /\ <<k[2],k[3],k[4]>> \in shape.fail
                  usecopy == it.copy /\ ~NoCopy
                  start == IF usecopy THEN {} ELSE {x \in lst[w] : x[3] = l}        \* what this learner object has already learned
              IN /\ wk' = [wk EXCEPT ![w] = Tail(@)]
                 /\ outq' = IF failing THEN outq ELSE Append(outq, k)
                 /\ evald' = IF IsTriple(k) THEN evald \cup {k} ELSE evald
                 /\ reeval' = (reeval \/ (IsTriple(k) /\ k \in atStart))
                 /\ istart' = IF IsTriple(k) THEN istart \cup {<<k, start>>} ELSE istart
                 /\ lst' = IF IsTriple(k) /\ ~usecopy THEN [lst EXCEPT ![w] = @ \cup {k}] ELSE lst
           /\ UNCHANGED <<shape,cfg,phase,exists,disk,pre,queue,cur,atStart,crashes>>
(* ---- the sink: DiskSink(batch=1) appends one record, cell by cell, flushing after each ---- *)
Begin == /\ phase = "running" /\ cur = <<"none">> /\ (pre # <<>> \/ outq # <<>>)
         /\ LET k == IF pre # <<>> THEN Head(pre) ELSE Head(outq)
                merge == AsCoded /\ Len(disk) > 0 /\ Last(disk).n < K + 1     \* appended right after a line without terminator
            IN /\ cur' = k
               /\ pre' = IF pre # <<>> THEN Tail(pre) ELSE pre
               /\ outq' = IF pre # <<>> THEN outq ELSE Tail(outq)
               /\ disk' = IF merge THEN [disk EXCEPT ![Len(disk)].junk = TRUE] \o <<[k |-> k, n |-> 0, junk |-> TRUE]>>
                          ELSE Append(disk, [k |-> k, n |-> 0, junk |-> FALSE])
         /\ UNCHANGED <<shape,cfg,phase,exists,queue,wk,lst,evald,atStart,istart,reeval,crashes>>
WriteCell == /\ phase = "running" /\ cur # <<"none">>
             /\ disk' = [disk EXCEPT ![Len(disk)].n = @ + 1]
             /\ cur' = IF Last(disk).n + 1 = K + 1 THEN <<"none">> ELSE cur
             /\ UNCHANGED <<shape,cfg,phase,exists,pre,queue,wk,lst,outq,evald,atStart,istart,reeval,crashes>>
Finish == /\ phase = "running" /\ cur = <<"none">> /\ pre = <<>> /\ outq = <<>> /\ queue = <<>>
          /\ \A w \in 1..3 : wk[w] = <<>>
          /\ phase' = "done"
          /\ UNCHANGED <<shape,cfg,exists,disk,pre,queue,wk,lst,outq,cur,evald,atStart,istart,reeval,crashes>>
(* ---- a kill at any moment: everything in memory is gone, the disk keeps every flushed cell ---- *)
Crash == /\ phase = "running" /\ crashes < MaxCrash
         /\ phase' = "crashed" /\ crashes' = crashes + 1 /\ cur' = <<"none">> /\ pre' = <<>> /\ outq' = <<>> /\ queue' = <<>>
         /\ wk' = [w \in 1..3 |-> <<>>] /\ lst' = [w \in 1..3 |-> {}]
         /\ UNCHANGED <<shape,cfg,exists,disk,evald,atStart,istart,reeval>>

Work1 == Begin \/ WriteCell \/ Finish \/ (\E c \in Cfgs : Start(c)) \/ (\E w \in 1..3 : Take(w) \/ Emit(w))
Next == Work1 \/ Crash
Spec == Init /\ [][Next]_vars /\ WF_vars(Work1)

(* ------------------------------------------------------------------ *)
(* properties                                                          *)
(* ------------------------------------------------------------------ *)
P1_NoDuplicate == \A i, j \in DOMAIN disk : i # j /\ Complete(disk[i]) /\ Complete(disk[j]) => disk[i].k # disk[j].k
P2_NoReEval    == ~reeval
P3_Usable      == phase # "unusable"
P4_Complete    == phase = "done" => CompleteKeys(disk) = Canonical(shape) /\ \A i \in DOMAIN disk : Complete(disk[i])
(* C01: the decoded content is a function of the shape alone - whatever cfg, schedule and crash history *)
C01_ConfigFree == P4_Complete
(* C03: every evaluation starts from a pristine learner *)
C03_Isolated   == \A x \in istart : x[2] = {}
(* C03: a failing triple removes exactly its own record (implied by P4 with Canonical) *)
PreambleFirst  == \A i \in DOMAIN disk : (Complete(disk[i]) /\ disk[i].k \notin {<<"ver">>,<<"exp">>}) => <<"ver">> \in CompleteKeys(SubSeq(disk,1,i))
Completes      == <>(phase \in {"done","unusable"})
=============================================================================
