------------------------------ MODULE Rejection ------------------------------
(***************************************************************************)
(* RejectionCB (coba/evaluators/sequential.py 343-535): rejection-sampling *)
(* evaluation of a learner on logged data (Dudik et al. 2012) - check X02. *)
(*                                                                         *)
(* For every logged interaction, in order:                                 *)
(*   Score     exactly one score(context, actions, logged action) -> on    *)
(*   Draw      exactly one uniform u = s/2^30 of CobaRandom(seed), seed =   *)
(*             the evaluator's seed, else the experiment seed (also 0)     *)
(*   Accept    iff u <= c * on / log :  learn(context, logged action,      *)
(*             logged reward, on), then Row (one output row), then UpdateC *)
(*   Reject    otherwise: no learn, no row, c unchanged                    *)
(* c starts (Start) at cinit, or at                                        *)
(*     min( logged p and (1-p)/(k-1) of the first 100 interactions, cmax ) *)
(* (zero terms dropped; a one-action interaction has no second term), and  *)
(* after every acceptance is min(cpct-quantile of the ratios log/on seen   *)
(* so far, cmax).  The quantile rule (linear interpolation between the     *)
(* closest ranks, position cpct*(n-1)) is coba.statistics.percentile: an   *)
(* IMPLEMENTATION CHOICE that is mirrored here, not a requirement of the   *)
(* paper.  Inputs outside the domain are rejected before any learner call  *)
(* (RejectInput); SafeLearner.has_score's probing call score(None,None,    *)
(* None) is the named deviation ProbeScore.                                *)
(*                                                                         *)
(* ARITHMETIC IS EXACT.  Probabilities are multiples of 1/G (G = 8, 16 or  *)
(* 12), rewards multiples of 1/RG, c a reduced rational <<cn, cd>>, the    *)
(* uniform the 30-bit numerator s of the real generator (CobaRandom.tla,   *)
(* real constants).  u <= c*on/log  <=>  s*M <= N*2^30 with N = cn*on,     *)
(* M = cd*log, decided by a 30 step long division (every intermediate      *)
(* below 2^31).  The float computation of the code differs from the exact  *)
(* value by a relative 2^-50 at most, i.e. by less than 2^-20 in units of  *)
(* s, while s and N*2^30/M differ by 0 or by at least 1/M > 2^-20: the two *)
(* can only disagree when s*M = N*2^30 EXACTLY (a tie).  A tie is FIRM     *)
(* (must be accepted, the rule says <=) when every float operation that    *)
(* led to it is exact: G a power of two, c derived from dyadic values only *)
(* (cfirm), on/log dyadic - or on = 0.  In any other tie the spec allows   *)
(* both outcomes (named deviation FloatTie).                               *)
(*                                                                         *)
(* The module is used (a) as a bounded generator model (MC_Rejection.tla:  *)
(* tid = 0, the case in gin, the learner's scores part of the case) on     *)
(* which TLC checks the design invariants below, (b) as a trace            *)
(* specification: IOEnv.TRACE_FILE holds executions of the real            *)
(* RejectionCB with a recording learner and a recording generator.         *)
(*                                                                         *)
(* input  mode = [G, D, rec, ope "none"|"ips", cpn, cpd, cmn, cin, sev,    *)
(*                sex, kind, info]   cmax = cmn/G, cinit = cin/G or NoVal, *)
(*                sev / sex = evaluator / experiment seed or NoVal,        *)
(*                kind = "ok" | what makes the input invalid,              *)
(*                D = common denominator of reward values (RG*lp | D)      *)
(*        env  = sequence of [ctx, acts, la, lr, lp] (+ sc in model (a))   *)
(*        ev   = probe | rng seed | score ctx acts a rs | draw s |          *)
(*               learn ctx a r p | row .. | end | reject                   *)
(***************************************************************************)
EXTENDS Integers, Sequences, FiniteSets, TLC, Json, IOUtils, TLCExt
R == INSTANCE CobaRandom WITH A <- 116646453, C <- 9, H <- 15, Inst <- {}, inst <- <<>>
NoVal == -1
RG == 4
Traces == JsonDeserialize(IOEnv.TRACE_FILE)
VARIABLES tid, gin, l, i, pc, c, cfirm, Q, rs, on, pend, cnt, outcome, hist
vars == <<tid, gin, l, i, pc, c, cfirm, Q, rs, on, pend, cnt, outcome, hist>>
Tr   == tid > 0
In   == IF Tr THEN Traces[tid] ELSE gin
Env  == In.env
Mode == In.mode
Evs  == In.ev
Ev   == Evs[l]
It   == Env[i]
G    == Mode.G
Rec(x) == \E k \in DOMAIN Mode.rec : Mode.rec[k] = x
Ips  == Mode.ope = "ips"
EffSeed == IF Mode.sev # NoVal THEN Mode.sev ELSE Mode.sex       \* sequential.py 408-409: `is not None`, so 0 is a seed

(* ---- exact rationals <<n, d>>, d > 0 ---- *)
RECURSIVE Gcd(_,_)
Gcd(x, y) == IF y = 0 THEN x ELSE Gcd(y, x % y)
Red(n, d) == LET g == Gcd(n, d) IN <<n \div g, d \div g>>
RatLe(p, q) == p[1] * q[2] <= q[1] * p[2]
RatLt(p, q) == p[1] * q[2] < q[1] * p[2]
RatMin(p, q) == IF RatLe(p, q) THEN p ELSE q
IsPow2(x) == x \in {1, 2, 4, 8, 16, 32, 64, 128, 256, 512, 1024, 2048, 4096}
Dy(n, d) == IsPow2(d \div Gcd(n, d))                              \* n/d is a dyadic rational
Cmax == <<Mode.cmn, G>>

(* ---- the initial multiplier (sequential.py 446, 449) ---- *)
RECURSIVE FirstMin(_,_)
FirstMin(j, m) == IF j = 0 THEN m ELSE
    LET b == Env[j].lp  k == Len(Env[j].acts)
        m1 == RatMin(m, <<b, G>>)                                          \* the logged probability
        m2 == IF k > 1 /\ b < G THEN RatMin(m1, <<G - b, G * (k - 1)>>) ELSE m1   \* (1-p)/(k-1); 0 is dropped; k = 1: no such term
    IN FirstMin(j - 1, m2)
First100 == IF Len(Env) < 100 THEN Len(Env) ELSE 100
C0 == IF Mode.cin # NoVal THEN Red(Mode.cin, G) ELSE LET m == FirstMin(First100, Cmax) IN Red(m[1], m[2])
C0Firm == IsPow2(G) /\ IsPow2(C0[2])

(* ---- the sorted ratios log/on as pairs <<log, on>> (insort, 488-489) ---- *)
Ins(Qs, x) == LET k == Cardinality({j \in DOMAIN Qs : Qs[j][1] * x[2] <= x[1] * Qs[j][2]})
              IN SubSeq(Qs, 1, k) \o <<x>> \o SubSeq(Qs, k + 1, Len(Qs))
(* coba.statistics.percentile(Q, cpct, sort=False): position t = cpct*(n-1), value (1-w)*Q[I] + w*Q[I+1] (0-based) *)
QPos(Qs) == Mode.cpn * (Len(Qs) - 1)
Quant(Qs) == LET I == QPos(Qs) \div Mode.cpd  fr == QPos(Qs) % Mode.cpd  x == Qs[I + 1]
             IN IF fr = 0 THEN Red(x[1], x[2])
                ELSE LET y == Qs[I + 2] IN Red((Mode.cpd - fr) * x[1] * y[2] + fr * y[1] * x[2], Mode.cpd * x[2] * y[2])
QuantFirm(Qs) == LET I == QPos(Qs) \div Mode.cpd  fr == QPos(Qs) % Mode.cpd  x == Qs[I + 1]
                 IN IsPow2(G) /\ IsPow2(Mode.cpd) /\ Dy(x[1], x[2]) /\ (IF fr = 0 THEN TRUE ELSE Dy(Qs[I + 2][1], Qs[I + 2][2]))
NewC(Qs)     == IF Qs = <<>> THEN c ELSE RatMin(Cmax, Quant(Qs))                  \* 524; no ratio seen yet: nothing to re-estimate
NewCFirm(Qs) == IF Qs = <<>> THEN cfirm ELSE
                IF RatLt(Cmax, Quant(Qs)) THEN IsPow2(G) ELSE QuantFirm(Qs)

(* ---- u <= c*on/log, exactly ---- *)
RECURSIVE DivBits(_,_,_,_)
DivBits(r, M, k, q) == IF k = 0 THEN <<q, r>> ELSE
                       IF 2 * r >= M THEN DivBits(2 * r - M, M, k - 1, 2 * q + 1) ELSE DivBits(2 * r, M, k - 1, 2 * q)
Decide(s) == LET N == c[1] * on  M == c[2] * It.lp IN
             IF N >= M THEN "yes" ELSE
             LET t == DivBits(N, M, 30, 0) IN                       \* t = <<floor(N*2^30/M), remainder>>
             IF s < t[1] THEN "yes" ELSE IF s > t[1] THEN "no" ELSE IF t[2] = 0 THEN "tie" ELSE "yes"
Firm == on = 0 \/ (cfirm /\ IsPow2(G) /\ Dy(on, It.lp))

(* ---- pending off-policy estimates as <<sum numerator over D, count, last>> (479-480, 502-505, 516, 523) ---- *)
LrD == It.lr * (Mode.D \div RG)

Adv == l' = l + 1
Init0 == /\ l = 1 /\ i = 1 /\ pc = "begin" /\ c = <<0, 1>> /\ cfirm = FALSE /\ Q = <<>> /\ rs = 0 /\ on = NoVal
         /\ pend = <<0, 0, 0>> /\ cnt = [score |-> 0, draw |-> 0, acc |-> 0, learn |-> 0, rows |-> 0] /\ outcome = "running" /\ hist = <<>>
TraceInit == Init0 /\ tid \in 1..Len(Traces) /\ gin = 0

(* the generator being constructed, when it was observed (optional observation): its seed *)
RngEvent == /\ pc = "begin" /\ Tr /\ Ev.e = "rng" /\ Ev.seed = EffSeed /\ Adv
            /\ UNCHANGED <<tid, gin, i, pc, c, cfirm, Q, rs, on, pend, cnt, outcome, hist>>
(* named deviation: SafeLearner.has_score calls score(None, None, None) once to find out whether the learner scores *)
ProbeScore == /\ pc = "begin" /\ Tr /\ Ev.e = "probe" /\ Adv
              /\ UNCHANGED <<tid, gin, i, pc, c, cfirm, Q, rs, on, pend, cnt, outcome, hist>>
(* 419-429: missing keys, continuous actions, batches, a learner without score: CobaException before any learner call *)
RejectInput == /\ pc = "begin" /\ Mode.kind # "ok"
               /\ (IF Tr THEN Ev.e = "reject" /\ Adv ELSE UNCHANGED l)
               /\ outcome' = "rejected" /\ pc' = "end" /\ UNCHANGED <<tid, gin, i, c, cfirm, Q, rs, on, pend, cnt, hist>>
(* evaluate() starts: nothing is carried over from an earlier evaluate() of the same object *)
Start == /\ pc = "begin" /\ Mode.kind = "ok"
         /\ (IF Len(Env) > 0 THEN c' = C0 /\ cfirm' = C0Firm ELSE UNCHANGED <<c, cfirm>>)
         /\ rs' = EffSeed % R!Mod /\ pc' = "interaction"
         /\ UNCHANGED <<tid, gin, l, i, Q, on, pend, cnt, outcome, hist>>
Score == /\ pc = "interaction" /\ i <= Len(Env)
         /\ (IF Tr THEN Ev.e = "score" /\ Ev.ctx = It.ctx /\ Ev.acts = It.acts /\ Ev.a = It.la /\ Adv ELSE UNCHANGED l)
         /\ LET o == IF Tr THEN Ev.rs ELSE It.sc IN
              /\ o \in 0..G /\ on' = o
              /\ Q' = (IF o # 0 THEN Ins(Q, <<It.lp, o>>) ELSE Q)
              /\ pend' = (IF Ips THEN LET e == o * It.lr * (Mode.D \div (RG * It.lp)) IN <<pend[1] + e, pend[2] + 1, e>> ELSE pend)
         /\ cnt' = [cnt EXCEPT !.score = @ + 1] /\ pc' = "draw"
         /\ UNCHANGED <<tid, gin, i, c, cfirm, rs, outcome, hist>>
(* one uniform per interaction (499); a draw that was observed must be this one *)
Draw == /\ pc = "draw" /\ rs' = R!Step(rs)
        /\ (IF Tr /\ Ev.e = "draw" THEN Ev.s = rs' /\ Adv ELSE UNCHANGED l)
        /\ cnt' = [cnt EXCEPT !.draw = @ + 1] /\ pc' = "decide"
        /\ UNCHANGED <<tid, gin, i, c, cfirm, Q, on, pend, outcome, hist>>
(* accepted: learn(context, logged action, logged reward, on) *)
AcceptLearn == /\ pc = "decide" /\ Decide(rs) \in {"yes", "tie"}
               /\ (IF Tr THEN Ev.e = "learn" /\ Ev.ctx = It.ctx /\ Ev.a = It.la /\ Ev.r = It.lr /\ Ev.p = on /\ Adv ELSE UNCHANGED l)
               /\ pend' = (IF Ips THEN <<pend[1] - pend[3] + LrD, pend[2], LrD>> ELSE <<LrD, 1, LrD>>)
               /\ cnt' = [cnt EXCEPT !.acc = @ + 1, !.learn = @ + 1] /\ pc' = "row"
               /\ hist' = (IF Tr THEN hist ELSE Append(hist, [acc |-> 1, cn |-> c[1], cd |-> c[2]]))
               /\ UNCHANGED <<tid, gin, i, c, cfirm, Q, rs, on, outcome>>
(* rejected: no learn, no row, c unchanged.  FloatTie: an exact tie computed with inexact floats may fall either way *)
Reject == /\ pc = "decide" /\ (Decide(rs) = "no" \/ (Decide(rs) = "tie" /\ ~Firm))
          /\ i' = i + 1 /\ pc' = "interaction"
          /\ hist' = (IF Tr THEN hist ELSE Append(hist, [acc |-> 0, cn |-> c[1], cd |-> c[2]]))
          /\ UNCHANGED <<tid, gin, l, c, cfirm, Q, rs, on, pend, cnt, outcome>>
(* the output row; a row without any field is not emitted (521) *)
RowEmpty == ~Mode.info /\ \A x \in {"context", "actions", "action", "reward", "probability", "time"} : ~Rec(x)
Row == /\ pc = "row"
       /\ IF RowEmpty THEN UNCHANGED <<l, cnt>>
          ELSE /\ (IF Tr THEN /\ Ev.e = "row"
                              /\ Ev.ctx = (IF Rec("context") THEN It.ctx ELSE NoVal)
                              /\ Ev.acts = (IF Rec("actions") THEN It.acts ELSE <<>>)
                              /\ Ev.a = (IF Rec("action") THEN It.la ELSE NoVal)
                              /\ Ev.p = (IF Rec("probability") THEN on ELSE NoVal)
                              /\ Ev.rn = (IF Rec("reward") THEN pend[1] ELSE NoVal)   \* reward = mean of the pending estimates
                              /\ Ev.rc = (IF Rec("reward") THEN pend[2] ELSE NoVal)   \*        = rn / (rc * D)
                              /\ Ev.time = (IF Rec("time") THEN 1 ELSE 0)
                              /\ Ev.sc = (IF Mode.info THEN cnt.score ELSE NoVal)     \* what the learner wrote to learning_info in
                              /\ Ev.li = (IF Mode.info THEN cnt.learn ELSE NoVal)     \* this interaction's score and learn calls
                              /\ Ev.junk = 0                                          \* nothing from before evaluate()
                              /\ Ev.n = cnt.rows + 1
                              /\ Adv
                   ELSE UNCHANGED l)
               /\ cnt' = [cnt EXCEPT !.rows = @ + 1]
       /\ pc' = "update" /\ UNCHANGED <<tid, gin, i, c, cfirm, Q, rs, on, pend, outcome, hist>>
UpdateC == /\ pc = "update" /\ c' = NewC(Q) /\ cfirm' = NewCFirm(Q) /\ pend' = <<0, 0, 0>>
           /\ i' = i + 1 /\ pc' = "interaction"
           /\ UNCHANGED <<tid, gin, l, Q, rs, on, cnt, outcome, hist>>
Finish == /\ pc = "interaction" /\ i = Len(Env) + 1
          /\ (IF Tr THEN Ev.e = "end" /\ Adv ELSE UNCHANGED l)
          /\ outcome' = "done" /\ pc' = "end" /\ UNCHANGED <<tid, gin, i, c, cfirm, Q, rs, on, pend, cnt, hist>>
Next == /\ (IF Tr THEN l <= Len(Evs) ELSE TRUE)
        /\ (RngEvent \/ ProbeScore \/ RejectInput \/ Start \/ Score \/ Draw \/ AcceptLearn \/ Reject \/ Row \/ UpdateC \/ Finish)
TraceSpec == TraceInit /\ [][Next]_vars

AtEnd  == pc = "end" /\ (IF Tr THEN l = Len(Evs) + 1 ELSE TRUE)
Accept == (Tr /\ AtEnd) => PrintT(ToJson([acc |-> tid]))
Diag   == PrintT(ToJson([tid |-> tid, l |-> l]))

(* ---- design invariants (model (a) and every validated trace) ---- *)
Running == pc \notin {"begin", "end"} \/ outcome = "done"
RowsLeInteractions == cnt.rows <= cnt.acc /\ cnt.acc <= cnt.score /\ cnt.score <= Len(Env)
LearnEqRows == /\ cnt.learn = cnt.acc
               /\ (pc \in {"interaction", "end"} => cnt.rows = (IF RowEmpty THEN 0 ELSE cnt.acc))
OneUniformPerInteraction == /\ cnt.draw = (IF pc = "draw" THEN cnt.score - 1 ELSE cnt.score)
                            /\ (outcome = "rejected" => cnt.draw = 0 /\ cnt.score = 0)
CRange == (Running /\ Len(Env) > 0) => c[1] > 0 /\ RatLe(c, Cmax)                  \* c in (0, cmax]
(* cpct = 0: c*on/log <= 1 for every interaction SEEN so far once c has been re-estimated; with cinit = None c*on/log <= on <= 1
   for each of the first 100 interactions until then.  (For an interaction not seen before the ratio may exceed 1 - it is then
   accepted with certainty and lowers c; NaiveBound below is refuted by TLC.) *)
Hindsight == /\ (Mode.cpn = 0 /\ cnt.acc > 0 /\ pc = "interaction" /\ Q # <<>>) => RatLe(c, <<Q[1][1], Q[1][2]>>)
             /\ (Mode.cin = NoVal /\ cnt.acc = 0 /\ pc = "decide" /\ i <= 100) => c[1] * on <= c[2] * It.lp
NaiveBound == (Mode.cpn = 0 /\ Mode.cin = NoVal /\ pc = "decide") => c[1] * on <= c[2] * It.lp
TwoOutcomes == AtEnd => (outcome = "rejected" /\ cnt.score = 0) \/ (outcome = "done" /\ i = Len(Env) + 1)
(* what the driver must guarantee about its own encoding *)
WellFormed == (pc = "draw" /\ Ips) => Mode.D % (RG * It.lp) = 0
=============================================================================
