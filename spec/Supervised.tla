---------------------------- MODULE Supervised ----------------------------
(***************************************************************************)
(* C14 - supervised data becomes a bandit problem whose best action is the *)
(* true label (coba/environments/supervised.py SupervisedSimulation        *)
(* __init__ 162-183 and read 189-237, coba/pipes/rows.py LabelRows 516-531 *)
(* LabelDense 434-465 (feats = DropOne 312-329) LabelSparse 467-514 (feats *)
(* = DropSparse 349-375), coba/primitives.py L1Reward 533 BinaryReward 563 *)
(* HammingReward 603, coba/environments/core.py from_supervised 369-387).  *)
(*                                                                         *)
(* Part 1 (ORACLE) defines, for a sequence of examples <<x, y>> and a      *)
(* label type, the interactions the environment must produce.              *)
(* Part 2 (SOURCES) defines what examples a source denotes: X/Y sequences, *)
(* dense rows (with / without headers), sparse rows, and CSV / ARFF /      *)
(* sparse ARFF / LibSVM / Manik text written by a canonical writer.        *)
(* Part 3 (GENERATOR) makes every initial state one case; its successor    *)
(* prints the input and the expected interactions (decision-table style,   *)
(* BUILDING.md pitfall 1) and is where the design invariants are checked.  *)
(*                                                                         *)
(* Values are tagged records [t, v]:                                       *)
(*   "int" n | "half" n (the float n/2) | "str" s | "cat" s (a Categorical *)
(*   over Levels) | "lst" <<values>> (a Python list) | "none"              *)
(*   a "cat" handed to the implementation may carry lv = the order in which *)
(*   THIS object lists the levels (OwnLevels); without lv: Levels           *)
(*   "seq" <<values>> (dense features) | "map" <<<<key, value>>, ..>>      *)
(* Rewards are exact rationals <<num, den>>, den > 0.                      *)
(***************************************************************************)
EXTENDS Integers, Sequences, FiniteSets, TLC, Json, IOUtils

I(n)   == [t |-> "int",  v |-> n]
H(n)   == [t |-> "half", v |-> n]
S(s)   == [t |-> "str",  v |-> s]
Cat(s) == [t |-> "cat",  v |-> s]
L(xs)  == [t |-> "lst",  v |-> xs]
DenseV(xs) == [t |-> "seq", v |-> xs]
SparseV(ps) == [t |-> "map", v |-> ps]
NoneV  == [t |-> "none", v |-> 0]

Levels == <<"b", "a", "c">>          \* the declared level list of every categorical label (declaration order, not sorted)
Range(s) == {s[i] : i \in DOMAIN s}
Min(a, b) == IF a <= b THEN a ELSE b
Abs(a) == IF a >= 0 THEN a ELSE -a

(***************************************************************************)
(* Part 1.  ORACLE                                                         *)
(***************************************************************************)
(* The spelling of the type letter is not part of its meaning: "C", "R", "M" mean what "c", "r",  *)
(* "m" mean (supervised.py 204; the class documents c/r/m and its own tests pass "C", "R", "M"), *)
(* for EVERY kind of source - also when the rows were labelled upstream by LabelRows(label_col,  *)
(* label_type) and carry the type as it was given.  Norm is the only place the spelling enters.  *)
Norm(lt)  == CASE lt = "C" -> "c" [] lt = "R" -> "r" [] lt = "M" -> "m" [] OTHER -> lt
Upper(lt) == CASE lt = "c" -> "C" [] lt = "r" -> "R" [] lt = "m" -> "M" [] OTHER -> lt
(* a classification label given as a one-element list labels like its element (supervised.py 226-228)   *)
Single(y) == IF y.t = "lst" THEN y.v[1] ELSE y
IsNum(y)  == y.t \in {"int", "half"}
Twice(y)  == IF y.t = "int" THEN 2 * y.v ELSE y.v
(* "label types c/r/m or inferred": without a label type numeric labels mean regression,   *)
(* everything else classification (supervised.py 199-202); the data is never empty here    *)
EffType(lt, data) == IF lt # "none" THEN Norm(lt) ELSE IF IsNum(data[1].y) THEN "r" ELSE "c"

(* "every interaction offers the same action set - exactly the distinct labels of the data": *)
(* a categorical label carries its declared levels, which ARE the label set of the data     *)
(* (supervised.py 211-216); otherwise the labels that occur (218-229); multi-label: the     *)
(* distinct members of the label sets.  Regression offers no discrete action set.           *)
LabelSet(T, data) ==
  CASE T = "c" -> IF data[1].y.t = "cat" THEN {Cat(Levels[k]) : k \in DOMAIN Levels}
                                         ELSE {Single(data[i].y) : i \in DOMAIN data}
    [] T = "m" -> UNION {Range(data[i].y.v) : i \in DOMAIN data}
    [] T = "r" -> {}

Jaccard(A, B) == <<Cardinality(A \cap B), Cardinality(A \cup B)>>
(* "reward is 1 for the example's label and 0 for every other action; multi-label data      *)
(* rewards an action by its Jaccard overlap with the true label set and regression data by  *)
(* the negative absolute error" - an offered multi-label action is ONE label a, i.e. {a}    *)
Reward(T, y, a) ==
  CASE T = "c" -> IF a = Single(y) THEN <<1, 1>> ELSE <<0, 1>>
    [] T = "m" -> Jaccard({a}, Range(y.v))
    [] T = "r" -> <<-Abs(Twice(a) - Twice(y)), 2>>

(* one interaction per example, in order; context = the example's features *)
Interaction(ex, T, data, probes) ==
  [ctx |-> ex.x, acts |-> LabelSet(T, data), rw |-> {<<a, Reward(T, ex.y, a)>> : a \in probes}]
Interactions(T, data, probes) == [k \in DOMAIN data |-> Interaction(data[k], T, data, probes)]

(* "or of the seeded reservoir sample when take is given": the sample is a parameter of the *)
(* spec - the positions the real Reservoir(take) selects from n items, read from            *)
(* IOEnv.C14_RESERVOIR[n+1][take+1] - constrained by the predicate IsSample                 *)
ResTable == JsonDeserialize(IOEnv.C14_RESERVOIR)
Order(n, take) == IF take = -1 THEN [k \in 1..n |-> k] ELSE ResTable[n + 1][take + 1]
IsSample(p, n, take) == /\ Len(p) = Min(take, n)
                        /\ \A k \in DOMAIN p : p[k] \in 1..n
                        /\ \A j, k \in DOMAIN p : j # k => p[j] # p[k]

(***************************************************************************)
(* Part 2.  SOURCES: a case c = [src, lk, lt, nf, pos, by, take, xk, n, lab]*)
(*   src  kind of source            lk  kind of label     lt  label_type   *)
(*   nf   number of feature columns pos column of the label (0-based)      *)
(*   by   label_col given by "index" / "name" ("none": no label_col)       *)
(*   take -1 = not given            xk  feature container of X (src "xy")  *)
(*   n    number of examples        lab label choice of every example      *)
(***************************************************************************)
IntLab  == <<2, 1, 3>>
HalfLab == <<3, 0, 4>>               \* 1.5, 0.0, 2.0
Str2Lab == <<"10", "9", "ab">>       \* labels of more than one character
(* "exactly the distinct labels of the data": a label is the value AS IT IS.  Strings that a clean-up   *)
(* might "normalise" are different labels: differing only by a leading / trailing blank, by case, or    *)
(* being empty.  (A digit string next to the equal number is a mixed-type label set: outside, see below.) *)
StrbLab == <<"a", "a ", " a">>       \* differ only by blanks
StreLab == <<"A", "a", "">>          \* differ only by case; the empty string
StrCLab == <<"A", "a", "aA">>        \* what the LibSVM / Manik grammar allows (labels are blank- and comma-separated tokens)
Lab(lk, l) == CASE lk = "int"  -> I(IntLab[l])
                [] lk = "half" -> H(HalfLab[l])
                [] lk = "str"  -> S(Levels[l])
                [] lk = "str2" -> S(Str2Lab[l])
                [] lk = "strb" -> S(StrbLab[l])
                [] lk = "stre" -> S(StreLab[l])
                [] lk = "strC" -> S(StrCLab[l])
                [] lk = "cat"  -> Cat(Levels[l])
                [] lk = "lst"  -> L(<<I(IntLab[l])>>)
IsMulti(lk)  == lk \in {"mint", "mstr", "mstr2", "mstrb", "mstrC"}
ElemKind(lk) == CASE lk = "mint" -> "int" [] lk = "mstr" -> "str" [] lk = "mstr2" -> "str2" [] lk = "mstrb" -> "strb" [] lk = "mstrC" -> "strC" [] OTHER -> lk
(* label sets are lists without repetition, not necessarily ordered *)
MSeqs == {<<1>>, <<2>>, <<2, 1>>, <<3>>, <<1, 3>>, <<3, 2>>, <<1, 2, 3>>}
LabelVal(lk, ch) == IF IsMulti(lk) THEN L([k \in DOMAIN ch |-> Lab(ElemKind(lk), ch[k])]) ELSE Lab(lk, ch)
(* the actions at which the reward function is compared: every label of the alphabet (offered or not) *)
Probes(T, lk) == IF T = "r" THEN {H(0), H(1), H(3), H(4), H(9), I(0), I(2), I(5)}
                 ELSE {Single(Lab(ElemKind(lk), l)) : l \in 1..3}

InsertAt(s, p, e) == SubSeq(s, 1, p) \o <<e>> \o SubSeq(s, p + 1, Len(s))
RECURSIVE Join(_, _)
Join(xs, sep) == IF xs = <<>> THEN "" ELSE IF Len(xs) = 1 THEN xs[1] ELSE xs[1] \o sep \o Join(Tail(xs), sep)
RECURSIVE Flat(_)
Flat(ss) == IF ss = <<>> THEN <<>> ELSE ss[1] \o Flat(Tail(ss))
HalfTxt(n) == IF n % 2 = 0 THEN ToString(n \div 2) ELSE ToString(n \div 2) \o ".5"
Txt(v) == CASE v.t = "int" -> ToString(v.v) [] v.t = "half" -> HalfTxt(v.v) [] OTHER -> v.v

Dense(src)  == src \in {"rows", "rowsH", "csv", "csvH", "arff"}
Sparse(src) == src \in {"sparse", "arffS", "libsvm", "manik"}
Text(src)   == src \in {"csv", "csvH", "arff", "arffS", "libsvm", "manik"}
Pairs(src)  == src \in {"xy", "libsvm", "manik"}     \* the source yields (features, label) pairs: no label_col

(* feature j of example i has the value 10i+j (all distinct: a permuted or shifted context is noticed); *)
(* a CSV reader yields text; a sparse example i holds feature j iff i+j is even                         *)
(* fv = "label" ("all example sets": nothing keeps a feature from having the value of the label): the features of a  *)
(* dense example are drawn from the label's own alphabet - feature j of example i IS the example's label when i+j is    *)
(* even and the next label of the alphabet otherwise - so a feature left or right of the label column equals the label  *)
(* (0/1-coded data with a 0/1 label).  The context is still the features BY POSITION: Row inserts the label at pos.     *)
NextL(l) == (l % 3) + 1
FVal(c, i, j) == IF c.fv = "label" THEN Lab(c.lk, IF (i + j) % 2 = 0 THEN c.lab[i] ELSE NextL(c.lab[i]))
                 ELSE IF c.src \in {"csv", "csvH"} THEN S(ToString(10 * i + j)) ELSE I(10 * i + j)
RECURSIVE PresJs(_, _)
PresJs(i, nf) == IF nf = 0 THEN <<>> ELSE PresJs(i, nf - 1) \o (IF (i + nf) % 2 = 0 THEN <<nf>> ELSE <<>>)
Js(c, i) == IF Sparse(c.src) THEN PresJs(i, c.nf) ELSE [j \in 1..c.nf |-> j]
Col(c, j) == IF j - 1 < c.pos THEN j - 1 ELSE j                      \* 0-based column of feature j
FName(j) == "f" \o ToString(j)
Names(c) == InsertAt([j \in 1..c.nf |-> FName(j)], c.pos, "lbl")     \* header of column k-1 is Names(c)[k]

Y(c, i) == LabelVal(c.lk, c.lab[i])
(* A categorical label IS its value; every categorical object also lists the levels of its attribute, in   *)
(* the order of the declaration it was read under.  lo = "same": every label of the data lists Levels;      *)
(* lo = "own": example i lists the same levels in its own order (examples merged from files that declare   *)
(* the nominal classes in different orders), none of the first four orders being that of another.  The     *)
(* order is presentation only: it enters the INPUT (YIn), never the examples the input denotes (Y), so     *)
(* the expected interactions cannot depend on it ("reward is 1 for the example's label": the label, not    *)
(* its position in some list of levels).                                                                    *)
LvPerms == << <<2, 1, 3>>, <<1, 2, 3>>, <<3, 2, 1>>, <<2, 3, 1>> >>
OwnLevels(i) == LET p == LvPerms[((i - 1) % 4) + 1] IN [k \in 1..3 |-> Levels[p[k]]]
YIn(c, i) == IF c.lk = "cat" /\ c.lo = "own" THEN [t |-> "cat", v |-> Y(c, i).v, lv |-> OwnLevels(i)] ELSE Y(c, i)
(* the key under which a sparse example presents feature j *)
FKey(c, j) == CASE c.src = "sparse" -> IF c.by = "name" THEN S(FName(j)) ELSE I(Col(c, j))
                [] c.src = "arffS"  -> S(FName(j))                   \* ARFF rows are keyed by attribute name
                [] OTHER            -> I(j)                          \* libsvm / manik: the written index
X(c, i) ==
  CASE c.src = "xy" -> (CASE c.xk = "scalar" -> I(10 * i) [] c.xk = "tuple" -> DenseV(<<I(10 * i + 1), I(10 * i + 2)>>)
                          [] c.xk = "dict" -> SparseV(<<<<S("f1"), I(10 * i + 1)>>>>) [] c.xk = "none" -> NoneV
                          [] c.xk = "str" -> S(ToString(10 * i)))
    [] Dense(c.src) -> DenseV([j \in 1..c.nf |-> FVal(c, i, j)])
    [] OTHER -> SparseV([k \in DOMAIN Js(c, i) |-> <<FKey(c, Js(c, i)[k]), FVal(c, i, Js(c, i)[k])>>])
Examples(c) == [i \in 1..c.n |-> [x |-> X(c, i), y |-> Y(c, i)]]

(* ---- what is handed to the implementation ---- *)
LabelCol(c) == IF Pairs(c.src) THEN NoneV ELSE IF c.by = "name" THEN S("lbl") ELSE I(c.pos)
(* object rows: a dense row is the features with the label inserted at pos; a sparse row is a map *)
LKey(c) == IF c.by = "name" THEN S("lbl") ELSE I(c.pos)
SparseRowW(c, i, y) ==
  LET js == Js(c, i)
      before == SelectSeq(js, LAMBDA j : Col(c, j) < c.pos)
      after  == SelectSeq(js, LAMBDA j : Col(c, j) > c.pos)
      P(s) == [k \in DOMAIN s |-> <<FKey(c, s[k]), FVal(c, i, s[k])>>]
  IN  SparseV(P(before) \o <<<<LKey(c), y>>>> \o P(after))
RowW(c, i, y) == IF c.src = "sparse" THEN SparseRowW(c, i, y) ELSE DenseV(InsertAt(X(c, i).v, c.pos, y))
Row(c, i)   == RowW(c, i, Y(c, i))          \* the row the source denotes
RowIn(c, i) == RowW(c, i, YIn(c, i))        \* the row object handed over (a categorical label with its own level order)
(* text: a canonical writer (no quoting, no blanks; the file syntax itself is C12's subject) *)
(* a field that is empty or begins / ends with a blank is written quoted, as the grammars require (RFC 4180 *)
(* double quotes for CSV, single quotes for an ARFF string value); nothing else is ever quoted             *)
NeedsQuote(v) == v.t = "str" /\ v.v \in {"a ", " a", ""}
FieldTxt(c, v) == IF ~NeedsQuote(v) THEN Txt(v) ELSE IF c.src = "arff" THEN "'" \o v.v \o "'" ELSE "\"" \o v.v \o "\""
DenseLine(c, i) == Join([k \in 1..c.nf + 1 |-> FieldTxt(c, Row(c, i).v[k])], ",")
ArffType(c) == CASE c.lk = "cat" -> "{" \o Join(Levels, ",") \o "}" [] c.lk = "half" -> "numeric" [] OTHER -> "string"
ArffHead(c) == <<"@relation r">> \o [k \in 1..c.nf + 1 |-> "@attribute " \o Names(c)[k] \o " " \o (IF k - 1 = c.pos \/ c.fv = "label" THEN ArffType(c) ELSE "numeric")] \o <<"@data">>
(* a sparse ARFF line lists "column value" for the stored columns in column order; a zero label is not stored *)
ArffSLine(c, i) ==
  LET js == Js(c, i)
      before == SelectSeq(js, LAMBDA j : Col(c, j) < c.pos)
      after  == SelectSeq(js, LAMBDA j : Col(c, j) > c.pos)
      P(s) == [k \in DOMAIN s |-> ToString(Col(c, s[k])) \o " " \o Txt(FVal(c, i, s[k]))]
      lbl == IF Twice(Y(c, i)) = 0 THEN <<>> ELSE <<ToString(c.pos) \o " " \o Txt(Y(c, i))>>
  IN  "{" \o Join(P(before) \o lbl \o P(after), ",") \o "}"
SvmLine(c, i) ==
  LET js == Js(c, i)
      lbls == IF IsMulti(c.lk) THEN Join([k \in DOMAIN Y(c, i).v |-> Txt(Y(c, i).v[k])], ",") ELSE Txt(Y(c, i))
  IN  Join(<<lbls>> \o [k \in DOMAIN js |-> ToString(js[k]) \o ":" \o Txt(FVal(c, i, js[k]))], " ")
Lines(c) ==
  CASE c.src = "csv"    -> [i \in 1..c.n |-> DenseLine(c, i)]
    [] c.src = "csvH"   -> <<Join(Names(c), ",")>> \o [i \in 1..c.n |-> DenseLine(c, i)]
    [] c.src = "arff"   -> ArffHead(c) \o [i \in 1..c.n |-> DenseLine(c, i)]
    [] c.src = "arffS"  -> ArffHead(c) \o [i \in 1..c.n |-> ArffSLine(c, i)]
    [] c.src = "libsvm" -> [i \in 1..c.n |-> SvmLine(c, i)]
    [] c.src = "manik"  -> <<ToString(c.n) \o " " \o ToString(c.nf) \o " 3">> \o [i \in 1..c.n |-> SvmLine(c, i)]
    [] OTHER -> <<>>
Input(c) ==
  [src |-> c.src, lt |-> c.lt, take |-> c.take, labelcol |-> LabelCol(c),
   headers |-> IF c.src = "rowsH" THEN Names(c) ELSE <<>>,
   rows  |-> IF c.src \in {"rows", "rowsH", "sparse"} THEN [i \in 1..c.n |-> RowIn(c, i)] ELSE <<>>,
   xs    |-> IF c.src = "xy" THEN [i \in 1..c.n |-> X(c, i)] ELSE <<>>,
   ys    |-> IF c.src = "xy" THEN [i \in 1..c.n |-> YIn(c, i)] ELSE <<>>,
   lines |-> Lines(c)]

(***************************************************************************)
(* Part 3.  GENERATOR                                                      *)
(***************************************************************************)
CONSTANTS MaxRows,    \* single-label example sets have 0..MaxRows examples (text sources 1..MaxRows)
          MaxRowsM,   \* multi-label example sets have 1..MaxRowsM examples
          NL,         \* labels in use: the first NL of each alphabet
          Srcs, Takes, Shapes, XKs,
          MaxRowsL,   \* example sets with fv = "label" have at most MaxRowsL examples
          FeatVals,   \* feature values of dense examples: "distinct" (10i+j) and / or "label" (drawn from the label alphabet, see FVal)
          SpellRule   \* "lower" | "upper" | "alt": how a given label type is spelled (see Spelled)
VARIABLES case, perm, go
vars == <<case, perm, go>>

(* the <<label kind, label_type>> pairs explored per source.  Excluded on purpose (DESIGN.md C14):       *)
(* numeric label types on text that the reader leaves as strings (CSV, LibSVM 'r'), mixed-type labels     *)
(* (unorderable in Python), nominal labels in sparse ARFF (the reader adds a level "0" by design).        *)
Combos(src) ==
  CASE src = "xy" -> ({"int", "half"} \X {"c", "r", "none"})
                     \cup ({"str", "str2", "strb", "stre", "cat", "lst"} \X {"c", "none"}) \cup ({"mint", "mstr", "mstr2", "mstrb"} \X {"m"})
    [] src \in {"rows", "rowsH", "sparse"} -> ({"int", "half"} \X {"c", "r", "none"}) \cup ({"str", "cat"} \X {"c", "none"}) \cup {<<"strb", "c">>, <<"stre", "none">>}
    [] src \in {"csv", "csvH"} -> ({"str", "str2"} \X {"c", "none"}) \cup {<<"strb", "none">>, <<"stre", "c">>}
    [] src = "arff"  -> ({"half"} \X {"c", "r", "none"}) \cup ({"str", "str2", "cat"} \X {"c", "none"}) \cup {<<"strb", "c">>, <<"stre", "none">>}
    [] src = "arffS" -> {"half"} \X {"c", "r", "none"}
    [] src \in {"libsvm", "manik"} -> ({"str", "str2", "strC"} \X {"c", "none"}) \cup ({"mstr", "mstr2", "mstrC"} \X {"m"})
Bys(src) == CASE Pairs(src) -> {"none"} [] src \in {"rows", "csv"} -> {"index"} [] OTHER -> {"index", "name"}
ShapesOf(src) == CASE src = "xy" -> {<<0, 0>>} [] src \in {"libsvm", "manik"} -> {sh \in Shapes : sh[2] = 0} [] OTHER -> Shapes
TakesOf(src) == IF src = "xy" THEN {-1} ELSE Takes
XKsOf(src, lk) == IF src # "xy" THEN {"-"} ELSE IF IsMulti(lk) THEN XKs \cap {"tuple", "none"} ELSE XKs
NRange(src, lk) == IF IsMulti(lk) THEN 1..MaxRowsM ELSE IF Text(src) THEN 1..MaxRows ELSE 0..MaxRows
FVsOf(src) == IF Dense(src) THEN FeatVals ELSE {"distinct"}
NRangeFV(src, lk, fv) == IF fv = "label" THEN {n \in NRange(src, lk) : n <= MaxRowsL} ELSE NRange(src, lk)
(* the level order of categorical labels: objects only (in an ARFF file one declaration orders all labels) *)
LOsOf(src, lk, n) == IF lk = "cat" /\ n >= 1 /\ src \in {"xy", "rows", "rowsH", "sparse"} THEN {"same", "own"} ELSE {"same"}
Choices(lk) == IF IsMulti(lk) THEN {s \in MSeqs : \A k \in DOMAIN s : s[k] <= NL} ELSE 1..NL

(* How the given label type is spelled (for every source, label kind and construction): SpellRule   *)
(* "lower" / "upper" spell every given type that way; "alt" alternates with the parity of n + the    *)
(* first example's label choice, so that every configuration (source, label kind, type, shape, by,   *)
(* take) is enumerated with both spellings.  The expectation does not depend on it (SpellingIrrelevant). *)
Spelled(lt, lk, n, lab) ==
  IF lt = "none" \/ n = 0 \/ SpellRule = "lower" THEN lt
  ELSE IF SpellRule = "upper" THEN Upper(lt)
  ELSE IF (n + (IF IsMulti(lk) THEN Len(lab[1]) ELSE lab[1])) % 2 = 1 THEN Upper(lt) ELSE lt
Init == /\ go = FALSE
        /\ \E src \in Srcs : \E cb \in Combos(src) : \E sh \in ShapesOf(src) : \E by \in Bys(src) :
           \E tk \in TakesOf(src) : \E fv \in FVsOf(src) : \E xk \in XKsOf(src, cb[1]) : \E n \in NRangeFV(src, cb[1], fv) :
           \E lab \in [1..n -> Choices(cb[1])] : \E lo \in LOsOf(src, cb[1], n) :
             /\ case = [src |-> src, lk |-> cb[1], lt |-> Spelled(cb[2], cb[1], n, lab), nf |-> sh[1], pos |-> sh[2], by |-> by,
                        take |-> tk, fv |-> fv, xk |-> xk, n |-> n, lab |-> lab, lo |-> lo]
             /\ perm = Order(n, tk)
Next == ~go /\ go' = TRUE /\ UNCHANGED <<case, perm>>
Spec == Init /\ [][Next]_vars

(* the data of the environment: the examples, or the reservoir sample of them *)
Data == [k \in DOMAIN perm |-> Examples(case)[perm[k]]]
T    == EffType(case.lt, Data)
Out  == IF Data = <<>> THEN <<>> ELSE Interactions(T, Data, Probes(T, case.lk))

(* ---- reads ------------------------------------------------------------------------------------ *)
(* read() (supervised.py 189-237) is the only public action of the environment and it changes        *)
(* nothing: "the number and order of interactions equal those of the examples" is said of the        *)
(* simulation, hence of EVERY read of one and the same object - the second read as well as the       *)
(* first, a read that follows a read abandoned part way, and the reads of every pipeline that shares *)
(* the object (Environments.from_supervised(..).shuffle(n=2): two pipelines, one simulation).  With  *)
(* take the seeded reservoir sample is the same on every read (perm is no function of the history).  *)
(* Plan is the sequence of reads performed on ONE object: "full" = read to the end, "abandon" = the  *)
(* consumer stops after the first interaction.  ReadExpect gives what read number r must deliver     *)
(* after the reads hist: it ignores hist.                                                            *)
CONSTANT Plan
ReadExpect(hist, kind) == IF kind = "abandon" THEN SubSeq(Out, 1, Min(1, Len(Out))) ELSE Out
PlanOut == [r \in DOMAIN Plan |-> [kind |-> Plan[r], n |-> Len(ReadExpect(SubSeq(Plan, 1, r - 1), Plan[r]))]]
(* every complete read delivers Out whatever came before; an abandoned read is a prefix of it *)
EveryReadAlike == go => \A r \in DOMAIN Plan :
   LET e == ReadExpect(SubSeq(Plan, 1, r - 1), Plan[r]) IN
     /\ Plan[r] = "full" => e = Out
     /\ Plan[r] = "abandon" => (Len(e) <= 1 /\ e = SubSeq(Out, 1, Len(e)))
Emit == go => PrintT(ToJson([case |-> case, T |-> IF Data = <<>> THEN "-" ELSE T, perm |-> perm, inp |-> Input(case), out |-> Out, plan |-> PlanOut]))

(***************************************************************************)
(* Design-level facts, checked by TLC in every generated case              *)
(***************************************************************************)
Geq(p, q) == p[1] * q[2] >= q[1] * p[2]
Gt(p, q)  == p[1] * q[2] >  q[1] * p[2]
Rw(o, a)  == (CHOOSE p \in o.rw : p[1] = a)[2]
(* the number of interactions is that of the examples / of the sample, and the sample is a sample *)
CountOK  == go => Len(Out) = (IF case.take = -1 THEN case.n ELSE Min(case.take, case.n))
SampleOK == case.take # -1 => IsSample(perm, case.n, case.take)
(* the title of the property: among the offered actions the true label, and only it, earns the most *)
BestIsLabel == (go /\ Data # <<>> /\ T = "c") =>
  \A k \in DOMAIN Out : LET o == Out[k] IN
     /\ Single(Data[k].y) \in o.acts
     /\ {a \in o.acts : \A b \in o.acts : Geq(Rw(o, a), Rw(o, b))} = {Single(Data[k].y)}
     /\ \A p \in o.rw : p[2] \in {<<0, 1>>, <<1, 1>>}
(* multi-label: every true label is offered, earns 1/|Y| and beats every label outside Y, which earns 0 *)
BestIsLabelM == (go /\ Data # <<>> /\ T = "m") =>
  \A k \in DOMAIN Out : LET o == Out[k]  Ys == Range(Data[k].y.v) IN
     /\ Ys \subseteq o.acts
     /\ \A a \in Ys : Rw(o, a) = <<1, Cardinality(Ys)>>
     /\ \A a \in Ys : \A b \in o.acts \ Ys : Gt(Rw(o, a), Rw(o, b)) /\ Rw(o, b)[1] = 0
(* regression: the label earns 0, everything else less, symmetric in the error *)
BestIsLabelR == (go /\ Data # <<>> /\ T = "r") =>
  \A k \in DOMAIN Out : \A p \in Out[k].rw :
     IF Twice(p[1]) = Twice(Data[k].y) THEN p[2][1] = 0 ELSE p[2][1] < 0
(* one action set for all interactions; without declared levels it holds exactly the labels that occur *)
SameActions == (go /\ Data # <<>>) =>
  /\ \A j, k \in DOMAIN Out : Out[j].acts = Out[k].acts
  /\ (T = "c" /\ Data[1].y.t # "cat") => (\A a \in Out[1].acts : \E k \in DOMAIN Data : Single(Data[k].y) = a)
(* the context and the label partition the row: nothing of the label stays in the context, no feature is lost *)
ContextIsRowWithoutLabel == (go /\ Dense(case.src)) =>
  \A i \in 1..case.n : /\ InsertAt(X(case, i).v, case.pos, Y(case, i)) = Row(case, i).v
                       /\ Len(X(case, i).v) = case.nf
(* fv = "label" does what it is for: in every dense example with two features (one: every other example) a feature has the value of the label, and *)
(* (two features, label last) it stands LEFT of the label next to a different value, so position and value disagree    *)
FeatureEqualsLabel == (go /\ case.fv = "label" /\ case.nf >= 1) =>
  \A i \in 1..case.n : /\ (case.nf >= 2 \/ i % 2 = 1) => (\E j \in 1..case.nf : X(case, i).v[j] = Y(case, i))
                       /\ (case.nf = 2 /\ i % 2 = 1) => (X(case, i).v[1] = Y(case, i) /\ X(case, i).v[2] # Y(case, i))
(* the level order is presentation: what is handed over is the same label over the same set of levels, and with n >= 2 *)
(* "own" does what it is for - two labels of one dataset list the levels in different orders                          *)
LevelOrderIsPresentation == go =>
  /\ \A i \in 1..case.n : /\ YIn(case, i).t = Y(case, i).t /\ YIn(case, i).v = Y(case, i).v
                           /\ Range(OwnLevels(i)) = Range(Levels) /\ Len(OwnLevels(i)) = Len(Levels)
  /\ (case.lo = "own" /\ case.n >= 2) => YIn(case, 1).lv # YIn(case, 2).lv
(* the expectation is a function of the meaning of the label type, not of its spelling *)
SpellingIrrelevant == (go /\ Data # <<>>) =>
  /\ EffType(Upper(case.lt), Data) = T /\ EffType(Norm(case.lt), Data) = T
  /\ Interactions(EffType(Upper(case.lt), Data), Data, Probes(T, case.lk)) = Out
(* the oracle is total: every interaction states a reward for every probe action of the label alphabet *)
OracleTotal == go => \A k \in DOMAIN Out : \A a \in Probes(T, case.lk) : \E p \in Out[k].rw : p[1] = a
=============================================================================
