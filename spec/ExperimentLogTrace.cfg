SPECIFICATION TraceSpec
CONSTANTS
  Shapes <- trNone
  Cfgs <- trNone
  K = 2
  MaxCrash = 9
  AsCoded = FALSE
  NoCopy = FALSE
INVARIANT P1_NoDuplicate
INVARIANT P2_NoReEval
INVARIANT P3_Usable
INVARIANT P4_Complete
INVARIANT C03_Isolated
INVARIANT PreambleFirst
INVARIANT EndDone
INVARIANT Accept
CHECK_DEADLOCK FALSE
