------------------------------ MODULE SafeWrap ------------------------------
(***************************************************************************)
(* The safety wrappers of coba/safety.py (extra specification X11):        *)
(* SafeLearner (apart from prediction-format parsing, which is C15 /       *)
(* PredFormat.tla), SafeEnvironment and SafeEvaluator, as DECISION TABLES  *)
(* over call histories.                                                    *)
(*                                                                         *)
(* One case = one table (Tbl), one SHAPE of the wrapped object (how it     *)
(* offers `params`, which `learn` signature it has, whether it takes       *)
(* batches, whether and how it fails, ...) and one PROGRAM = a sequence of *)
(* public calls on the wrapper (the same wrapper object is used for the    *)
(* whole program; `pickle` replaces it by its pickled copy).  One named    *)
(* action per public call; the abstract state `st` is what the wrapper and *)
(* the wrapped object remember between calls:                              *)
(*   d, ref  the params dictionaries that exist and which object holds     *)
(*           which (two wrapped objects of DIFFERENT classes may hold the   *)
(*           same dictionary: a shared hyper-parameter dict)               *)
(*   n       number of the next learner-facing call (values are made from  *)
(*           it, so every call carries different, recognisable values)     *)
(*   mL, mS, mP  what SafeLearner._safe_call (280-302) has latched for     *)
(*           learn / score / predict: 0 nothing, 1 call directly, 2 call   *)
(*           row by row                                                    *)
(* `obs` collects, per call, what the wrapper must return or raise:        *)
(*   out = "ok"    with the value / the calls the learner must have        *)
(*                 accepted, in order, with exactly these arguments        *)
(*   out = "coba"  must raise CobaException (the documented translations:  *)
(*                 kwargs of predict not accepted by learn, learn wants    *)
(*                 kwargs that predict did not give, score not implemented)*)
(*   out = "own"   must re-raise the wrapped object's OWN exception (the   *)
(*                 very object it raised), kind = which one                *)
(*                                                                         *)
(* TABLES                                                                  *)
(*  "lparams" SafeLearner.params / full_name (244-256, 232-242): the       *)
(*     learner's own params (a dict attribute, a property, a plain method, *)
(*     missing, a property failing with AttributeError, not a dict) plus   *)
(*     "family" = its own family or else the CLASS NAME OF THAT LEARNER;   *)
(*     full_name = family(k=v,...) over the other params in their order.   *)
(*     (nest: a wrapper of a wrapper is the wrapper of the object itself.) *)
(*  "env"  SafeEnvironment.params / str / read (23-48): own params plus    *)
(*     "env_type" = own or else the class name of the environment (of its  *)
(*     first pipe when it is a pipeline); read passes through.             *)
(*  "eval" SafeEvaluator.params / evaluate (414-436): own params plus      *)
(*     "eval_type" = function name or class name; evaluate hands           *)
(*     (environment, learner) - either may be None - to the function /     *)
(*     callable / .evaluate and returns its result untouched.              *)
(*  "learn" SafeLearner.learn (401-409) through _safe_call: signatures     *)
(*     plain (c,a,r,p) | varkw (c,a,r,p,**kw) | named (c,a,r,p,k) |        *)
(*     optional (c,a,r,p,k=None) | star (variadic); learners that take    *)
(*     batches or refuse them (then every row reaches the learner exactly  *)
(*     once, in order, with its own kwargs); learners whose learn raises.  *)
(*  "calls" SafeLearner.score (381-387), has_score (258-265) and predict   *)
(*     (389-399; (action,prob[,kwargs]) answers only) through _safe_call.  *)
(*                                                                         *)
(* Domain: a wrapper sees either only batched or only unbatched calls; a   *)
(* learner that cannot take a batch says so by raising; a learner's own    *)
(* failure depends on the data it is given (context ids FailAt), not on    *)
(* how often it was called; exception texts of the learner do not contain  *)
(* the phrases the wrapper looks for ("score", "got an unexpected",        *)
(* "learn() missing").                                                     *)
(*                                                                         *)
(* Variant = "spec" is the specification.  Deliberately broken designs     *)
(* that TLC must reject (the driver fails as vacuous otherwise):           *)
(*  "write_through"  the default family / env_type is written into the     *)
(*                   wrapped object's own dictionary (DefaultIsOwnClass)   *)
(*  "translate_all"  learn turns every TypeError into CobaException        *)
(*                   (OwnPass)                                             *)
(*  "latch_direct"   a successful row-by-row fallback latches "direct"     *)
(*                   (RefusalNeverEscapes)                                 *)
(***************************************************************************)
EXTENDS Integers, Sequences, FiniteSets, TLC, Json
CONSTANTS MaxLen,      \* length of every program
          Variant,
          Tables       \* which tables to enumerate
NoVal == -1

(* ------------------------------------------------------------------ params as ordered <<key, value>> lists *)
HasKey(ps, k) == \E i \in DOMAIN ps : ps[i][1] = k
ValOf(ps, k) == ps[CHOOSE i \in DOMAIN ps : ps[i][1] = k][2]
Without(ps, k) == SelectSeq(ps, LAMBDA x : x[1] # k)
WithDefault(ps, k, v) == IF HasKey(ps, k) THEN ps ELSE Append(ps, <<k, v>>)
NameOf(ps, k) == [head |-> ValOf(ps, k), args |-> Without(ps, k)]       \* rendered head(k1=v1,k2=v2) / head
pa == <<"a", "A">>
pb == <<"b", "B">>
OwnOf(tk, tv) == { <<>>, <<pa>>, <<pa, pb>>, <<pb, pa>>, << <<tk, tv>> >>, << <<tk, tv>>, pa >>, << pa, <<tk, tv>> >>, << pa, <<tk, tv>>, pb >> }
OwnL == OwnOf("family", "F")
OwnE == { <<>>, <<pa>>, << <<"env_type", "T">> >>, << pa, <<"env_type", "T">> >> }
OwnV == { <<>>, <<pa>> }

(* ------------------------------------------------------------------ shapes *)
LShapes == { [pk |-> "absent", own |-> <<>>, share |-> FALSE, nd |-> "", nest |-> n] : n \in BOOLEAN }
           \cup { [pk |-> "attrerr", own |-> <<>>, share |-> FALSE, nd |-> "", nest |-> FALSE] }
           \cup { [pk |-> "nondict", own |-> <<>>, share |-> FALSE, nd |-> x, nest |-> FALSE] : x \in {"abc", "None"} }
           \cup { [pk |-> k, own |-> o, share |-> FALSE, nd |-> "", nest |-> n] : k \in {"attr", "prop", "method"}, o \in OwnL, n \in BOOLEAN }
           \cup { [pk |-> "attr", own |-> o, share |-> TRUE, nd |-> "", nest |-> FALSE] : o \in OwnL }
EShapes == { [pk |-> "absent", own |-> <<>>, share |-> FALSE, idx |-> i, nest |-> FALSE] : i \in {"plain", "pipe"} }
           \cup { [pk |-> k, own |-> o, share |-> FALSE, idx |-> i, nest |-> FALSE] : k \in {"attr", "prop"}, o \in OwnE, i \in {"plain", "pipe"} }
           \cup { [pk |-> "mapping", own |-> o, share |-> FALSE, idx |-> "plain", nest |-> FALSE] : o \in OwnE }      \* (a pipeline demands dict params of its members itself)
           \cup { [pk |-> k, own |-> o, share |-> FALSE, idx |-> "plain", nest |-> TRUE] : k \in {"attr", "prop", "mapping"}, o \in OwnE }
           \cup { [pk |-> "attr", own |-> o, share |-> TRUE, idx |-> i, nest |-> FALSE] : o \in OwnE, i \in {"plain", "pipe"} }
VShapes == { [kind |-> k, pk |-> "absent", own |-> <<>>, nest |-> n] : k \in {"func", "lambda", "callable", "object"}, n \in BOOLEAN }
           \cup { [kind |-> k, pk |-> p, own |-> o, nest |-> n] : k \in {"callable", "object"}, p \in {"attr", "prop", "mapping"}, o \in OwnV, n \in BOOLEAN }
FailKinds == {"value", "type", "attr", "coba", "kbd"}
FailAts == {0, 21, 22}                      \* 0: every call; 21 / 22: the call that holds that context id (second call, row 1 / 2)
LrnShapes == { [lsig |-> s, batch |-> b, fk |-> "none", fat |-> 0] : s \in {"plain", "varkw", "named", "optional", "star"}, b \in {"takes", "refuses"} }
             \cup { [lsig |-> s, batch |-> b, fk |-> f, fat |-> t] : s \in {"plain", "varkw"}, b \in {"takes", "refuses"}, f \in FailKinds, t \in FailAts }
CShapes == { [sc |-> s, batch |-> b, probe |-> p, pfmt |-> IF p = "returns" THEN "AP" ELSE "APK"] :
               s \in {"present", "absent", "base", "fails_attr", "fails_value"}, b \in {"takes", "refuses"}, p \in {"returns", "raises"} }

(* ------------------------------------------------------------------ programs *)
Who(sh) == IF sh.share THEN {1, 2} ELSE {1}
AlphaL(sh) == { [op |-> o, who |-> w] : o \in {"params", "full_name", "pickle"}, w \in Who(sh) }
AlphaE(sh) == { [op |-> o, who |-> w] : o \in {"params", "str", "read", "pickle"}, w \in Who(sh) }
AlphaV(sh) == { [op |-> "params"], [op |-> "evaluate", args |-> "both"], [op |-> "evaluate", args |-> "env"], [op |-> "evaluate", args |-> "lrn"] }
              \cup (IF sh.kind = "lambda" THEN {} ELSE { [op |-> "pickle"] })
AlphaLrn(batched) == { [op |-> "learn", b |-> b, kw |-> k] : b \in (IF batched THEN {2, 3} ELSE {0}), k \in BOOLEAN } \cup { [op |-> "pickle"] }
AlphaC(batched) == { [op |-> "score", b |-> b] : b \in (IF batched THEN {2, 3} ELSE {0}) }
                   \cup { [op |-> "predict", b |-> b, aset |-> s] : b \in (IF batched THEN {2, 3} ELSE {0}), s \in {"A", "B"} }
                   \cup { [op |-> "has_score"], [op |-> "pickle"] }

VARIABLES tbl, shape, prog, pc, st, obs, go
vars == <<tbl, shape, prog, pc, st, obs, go>>

St0(own) == [d |-> <<own, own>>, ref |-> <<1, 2>>, n |-> 1, mL |-> 0, mS |-> 0, mP |-> 0]
Init == /\ pc = 1 /\ obs = <<>> /\ go = FALSE
        /\ \/ /\ "lparams" \in Tables /\ tbl = "lparams"
              /\ \E sh \in LShapes : \E p \in [1..MaxLen -> AlphaL(sh)] :
                   shape = sh /\ prog = p /\ st = [St0(sh.own) EXCEPT !.ref = IF sh.share THEN <<1, 1>> ELSE <<1, 2>>]
           \/ /\ "env" \in Tables /\ tbl = "env"
              /\ \E sh \in EShapes : \E p \in [1..MaxLen -> AlphaE(sh)] :
                   shape = sh /\ prog = p /\ st = [St0(sh.own) EXCEPT !.ref = IF sh.share THEN <<1, 1>> ELSE <<1, 2>>]
           \/ /\ "eval" \in Tables /\ tbl = "eval"
              /\ \E sh \in VShapes : \E p \in [1..MaxLen -> AlphaV(sh)] : shape = sh /\ prog = p /\ st = St0(sh.own)
           \/ /\ "learn" \in Tables /\ tbl = "learn"
              /\ \E sh \in LrnShapes : \E bt \in BOOLEAN : \E p \in [1..MaxLen -> AlphaLrn(bt)] : shape = sh /\ prog = p /\ st = St0(<<>>)
           \/ /\ "calls" \in Tables /\ tbl = "calls"
              /\ \E sh \in CShapes : \E bt \in BOOLEAN : \E p \in [1..MaxLen -> AlphaC(bt)] : shape = sh /\ prog = p /\ st = St0(<<>>)

Cur == prog[pc]
Running == ~go /\ pc <= MaxLen
Step(newst, ob) == /\ st' = newst /\ obs' = Append(obs, ob) /\ pc' = pc + 1 /\ UNCHANGED <<tbl, shape, prog, go>>

(* ================================================================== params tables ================================== *)
ClassOf(t, who) == IF t = "lparams" THEN (IF who = 1 THEN "LA" ELSE "LB")
                   ELSE IF t = "env" THEN (IF who = 1 THEN "EA" ELSE "EB")
                   ELSE CASE shape.kind = "func" -> "fn_eval" [] shape.kind = "lambda" -> "<lambda>"
                          [] shape.kind = "callable" -> "CallableEval" [] OTHER -> "ObjEval"
TypeKey(t) == IF t = "lparams" THEN "family" ELSE IF t = "env" THEN "env_type" ELSE "eval_type"
(* what the wrapped object itself answers when asked for params: a list of pairs, or "none" (missing / AttributeError) *)
OwnNow(who) == IF shape.pk = "attr" THEN st.d[st.ref[who]] ELSE shape.own
(* safety.py 244-256 / 23-36 / 418-430 *)
ParamsOf(t, who) ==
  IF shape.pk \in {"absent", "attrerr"} THEN << <<TypeKey(t), ClassOf(t, who)>> >>
  ELSE IF shape.pk = "nondict" THEN << <<"params", shape.nd>>, <<TypeKey(t), ClassOf(t, who)>> >>
  ELSE WithDefault(OwnNow(who), TypeKey(t), ClassOf(t, who))
(* the broken design writes the completed dictionary back into the object that holds it *)
AfterParams(t, who) == IF Variant = "write_through" /\ shape.pk = "attr" THEN [st EXCEPT !.d[st.ref[who]] = ParamsOf(t, who)] ELSE st
IsParamsTbl == tbl \in {"lparams", "env"}

Params == /\ Running /\ IsParamsTbl /\ Cur.op = "params"
          /\ Step(AfterParams(tbl, Cur.who), [op |-> "params", who |-> Cur.who, out |-> "ok", params |-> ParamsOf(tbl, Cur.who)])
(* full_name (232-242) / __str__ (41-48, 411-412): built from params *)
FullName == /\ Running /\ IsParamsTbl /\ Cur.op \in {"full_name", "str"}
            /\ Step(AfterParams(tbl, Cur.who), [op |-> Cur.op, who |-> Cur.who, out |-> "ok", name |-> NameOf(ParamsOf(tbl, Cur.who), TypeKey(tbl))])
(* read (38-39): the environment's own answer, one underlying read per call *)
EnvRead == /\ Running /\ tbl = "env" /\ Cur.op = "read"
           /\ Step(st, [op |-> "read", who |-> Cur.who, out |-> "ok", ret |-> "same", reads |-> 1])
(* a pickled copy holds a copy of the dictionary: it no longer shares it *)
PickleObj == /\ Running /\ IsParamsTbl /\ Cur.op = "pickle"
             /\ Step([st EXCEPT !.d = Append(st.d, st.d[st.ref[Cur.who]]), !.ref[Cur.who] = Len(st.d) + 1], [op |-> "pickle", who |-> Cur.who, out |-> "ok"])
EvalParams == /\ Running /\ tbl = "eval" /\ Cur.op = "params"
              /\ Step(st, [op |-> "params", who |-> 1, out |-> "ok", params |-> ParamsOf("eval", 1)])
(* evaluate (432-436): (environment, learner) reach the evaluator as given, its result comes back untouched *)
Evaluate == /\ Running /\ tbl = "eval" /\ Cur.op = "evaluate"
            /\ Step(st, [op |-> "evaluate", out |-> "ok", got |-> Cur.args, ret |-> "same"])
PickleEval == /\ Running /\ tbl = "eval" /\ Cur.op = "pickle" /\ Step(st, [op |-> "pickle", out |-> "ok"])

(* ================================================================== _safe_call (280-302) =========================== *)
(* Inv(rows, batched) = what ONE invocation of the learner's method does: "ok" or why it raises.
   A result: tag, calls = the invocations the learner accepted, att = invocations attempted, m = the new latch. *)
Direct(Inv(_, _), rows, batched) ==
  LET t == Inv(rows, batched) IN [tag |-> t, calls |-> IF t = "ok" THEN << [b |-> batched, rows |-> rows] >> ELSE <<>>, att |-> 1]
ByRows(Inv(_, _), rows) ==
  LET bad == { i \in DOMAIN rows : Inv(<<rows[i]>>, FALSE) # "ok" }
      fb  == IF bad = {} THEN 0 ELSE CHOOSE i \in bad : \A j \in bad : i <= j
      okn == IF fb = 0 THEN Len(rows) ELSE fb - 1
  IN [tag |-> IF fb = 0 THEN "ok" ELSE Inv(<<rows[fb]>>, FALSE), calls |-> [i \in 1..okn |-> [b |-> FALSE, rows |-> <<rows[i]>>]],
      att |-> IF fb = 0 THEN Len(rows) ELSE fb]
SafeCall(Inv(_, _), m, rows, batched, interrupt) ==
  IF m = 1 THEN Direct(Inv, rows, batched) @@ [m |-> 1]
  ELSE IF m = 2 THEN ByRows(Inv, rows) @@ [m |-> 2]
  ELSE IF ~batched THEN Direct(Inv, rows, FALSE) @@ [m |-> 1]
  ELSE LET d == Direct(Inv, rows, TRUE) IN
       IF d.tag = "ok" THEN d @@ [m |-> 1]
       ELSE IF d.tag = "fail" /\ interrupt THEN d @@ [m |-> 0]          \* a BaseException is not an Exception: no second try
       ELSE LET r == ByRows(Inv, rows) IN
            [tag |-> r.tag, calls |-> r.calls, att |-> d.att + r.att,
             m |-> IF r.tag = "ok" THEN (IF Variant = "latch_direct" THEN 1 ELSE 2) ELSE 0]
NRows(o) == IF o.b = 0 THEN 1 ELSE o.b

(* ================================================================== learn ========================================== *)
LRows(o, n) == [r \in 1..NRows(o) |-> LET c == 10 * n + r IN [c |-> c, a |-> c + 100, r |-> c + 200, p |-> c + 300, k |-> IF o.kw THEN c + 400 ELSE NoVal]]
(* Python binds the arguments before the body runs: a signature that does not fit fails first *)
SigErr(o) == IF o.kw /\ shape.lsig = "plain" THEN "unexpected" ELSE IF ~o.kw /\ shape.lsig = "named" THEN "missing" ELSE "none"
FailsOn(rows) == shape.fk # "none" /\ (shape.fat = 0 \/ \E i \in DOMAIN rows : rows[i].c = shape.fat)
InvLearn(o, rows, batched) == IF SigErr(o) # "none" THEN SigErr(o)
                              ELSE IF batched /\ shape.batch = "refuses" THEN "refused"
                              ELSE IF FailsOn(rows) THEN "fail" ELSE "ok"
LearnRes(o) == SafeCall(LAMBDA rs, bt : InvLearn(o, rs, bt), st.mL, LRows(o, st.n), o.b > 0, shape.fk = "kbd")
(* 401-409: the two documented translations; everything else the learner raised passes unchanged *)
LearnObs(o) == LET r == LearnRes(o) IN
  CASE r.tag = "ok" -> [op |-> "learn", out |-> "ok", calls |-> r.calls]
    [] r.tag \in {"unexpected", "missing"} -> [op |-> "learn", out |-> "coba", why |-> r.tag]
    [] r.tag = "refused" -> [op |-> "learn", out |-> "own", kind |-> "refused", att |-> NoVal]
    [] OTHER -> IF Variant = "translate_all" /\ shape.fk = "type" THEN [op |-> "learn", out |-> "coba", why |-> "translated"]
                ELSE [op |-> "learn", out |-> "own", kind |-> shape.fk, att |-> IF shape.fk = "kbd" THEN r.att ELSE NoVal]
LearnCall == /\ Running /\ tbl = "learn" /\ Cur.op = "learn"
             /\ Step([st EXCEPT !.mL = LearnRes(Cur).m, !.n = st.n + 1], LearnObs(Cur))
(* pickling keeps what was latched and nothing else matters *)
PickleLearner == /\ Running /\ tbl \in {"learn", "calls"} /\ Cur.op = "pickle" /\ Step(st, [op |-> "pickle", out |-> "ok"])

(* ================================================================== score / has_score / predict ==================== *)
SRows(o, n) == [r \in 1..NRows(o) |-> LET c == 10 * n + r IN [c |-> c, acts |-> <<c + 1, c + 2>>, a |-> c + 1 + (c % 2)]]
ScoreVal(row) == ((row.c + row.a) % 4) * 250                              \* the learner's propensity, scaled by 1000
InvScore(rows, batched) == IF shape.sc = "base" THEN "notimpl"
                           ELSE IF batched /\ shape.batch = "refuses" THEN "refused"
                           ELSE IF shape.sc \in {"fails_attr", "fails_value"} THEN "fail" ELSE "ok"
ScoreRes(o) == SafeCall(InvScore, st.mS, SRows(o, st.n), o.b > 0, FALSE)
(* 381-387: a learner without score -> CobaException; its own exceptions (also AttributeErrors) pass *)
ScoreObs(o) ==
  IF shape.sc = "absent" THEN [op |-> "score", out |-> "coba", why |-> "no score"]
  ELSE LET r == ScoreRes(o) IN
    CASE r.tag = "ok" -> [op |-> "score", out |-> "ok", calls |-> r.calls, vals |-> [i \in 1..NRows(o) |-> ScoreVal(SRows(o, st.n)[i])]]
      [] r.tag = "notimpl" -> [op |-> "score", out |-> "own", kind |-> "notimpl"]
      [] r.tag = "refused" -> [op |-> "score", out |-> "own", kind |-> "refused"]
      [] OTHER -> [op |-> "score", out |-> "own", kind |-> IF shape.sc = "fails_attr" THEN "attr" ELSE "value"]
ScoreCall == /\ Running /\ tbl = "calls" /\ Cur.op = "score"
             /\ Step([st EXCEPT !.mS = IF shape.sc = "absent" THEN st.mS ELSE ScoreRes(Cur).m, !.n = st.n + 1], ScoreObs(Cur))
(* 258-265: does the learner implement score (whatever its score does with the probing arguments) *)
HasScore == /\ Running /\ tbl = "calls" /\ Cur.op = "has_score"
            /\ Step(st, [op |-> "has_score", out |-> "ok", v |-> shape.sc \notin {"absent", "base"}])
ASet(s) == IF s = "A" THEN <<11, 12, 13>> ELSE <<21, 22>>
Probs == <<250, 500, 1000>>
PRows(o, n) == [r \in 1..NRows(o) |-> LET c == 10 * n + r IN [c |-> c, acts |-> ASet(o.aset)]]
PAnswer(row) == [a |-> row.acts[(row.c % Len(row.acts)) + 1], p |-> Probs[(row.c % 3) + 1], k |-> IF shape.pfmt = "APK" THEN row.c + 400 ELSE NoVal]
InvPredict(rows, batched) == IF batched /\ shape.batch = "refuses" THEN "refused" ELSE "ok"
PredRes(o) == SafeCall(InvPredict, st.mP, PRows(o, st.n), o.b > 0, FALSE)
PredictCall == /\ Running /\ tbl = "calls" /\ Cur.op = "predict"
               /\ LET r == PredRes(Cur) IN
                  Step([st EXCEPT !.mP = r.m, !.n = st.n + 1],
                       IF r.tag = "ok" THEN [op |-> "predict", out |-> "ok", rows |-> [i \in 1..NRows(Cur) |-> PAnswer(PRows(Cur, st.n)[i])]]
                       ELSE [op |-> "predict", out |-> "own", kind |-> "refused"])

Finish == /\ ~go /\ pc = MaxLen + 1 /\ go' = TRUE /\ UNCHANGED <<tbl, shape, prog, pc, st, obs>>
Next == Params \/ FullName \/ EnvRead \/ PickleObj \/ EvalParams \/ Evaluate \/ PickleEval
        \/ LearnCall \/ PickleLearner \/ ScoreCall \/ HasScore \/ PredictCall \/ Finish
Spec == Init /\ [][Next]_vars

Emit == go => PrintT(ToJson([tbl |-> tbl, shape |-> shape, prog |-> prog, obs |-> obs]))

(* ================================================================== design facts ==================================== *)
ParamObs == { i \in DOMAIN obs : obs[i].op = "params" }
(* the type key is always there, exactly once *)
TypeKeyOnce == \A i \in ParamObs : Cardinality({ j \in DOMAIN obs[i].params : obs[i].params[j][1] = TypeKey(tbl) }) = 1
(* everything the object says about itself is reported, with its own values (also its own family / env_type) *)
OwnKept == \A i \in ParamObs : shape.pk \in {"attr", "prop", "method", "mapping"} =>
             \A j \in DOMAIN shape.own : \E k \in DOMAIN obs[i].params : obs[i].params[k] = shape.own[j]
(* an object that does not name its type is reported under ITS OWN class name - whatever other objects were asked before *)
DefaultIsOwnClass == \A i \in ParamObs : (shape.pk \in {"absent", "attrerr", "nondict"} \/ ~HasKey(shape.own, TypeKey(tbl))) =>
                       ValOf(obs[i].params, TypeKey(tbl)) = ClassOf(tbl, obs[i].who)
(* nothing is invented: type key + own params (+ the "params" entry of a non-dict) *)
NothingElse == \A i \in ParamObs : \A k \in DOMAIN obs[i].params :
                 \/ obs[i].params[k][1] = TypeKey(tbl)
                 \/ (shape.pk = "nondict" /\ obs[i].params[k] = <<"params", shape.nd>>)
                 \/ \E j \in DOMAIN shape.own : shape.own[j] = obs[i].params[k]
(* two ways of asking agree: a name is the type followed by the other params in their order *)
NameConsistent == \A i \in DOMAIN obs : obs[i].op \in {"full_name", "str"} =>
                    /\ obs[i].name.head = (IF HasKey(shape.own, TypeKey(tbl)) /\ shape.pk \notin {"absent", "attrerr", "nondict"}
                                           THEN ValOf(shape.own, TypeKey(tbl)) ELSE ClassOf(tbl, obs[i].who))
                    /\ ~HasKey(obs[i].name.args, TypeKey(tbl))
(* only the documented translations become CobaException; whatever else the learner raised comes out as it was *)
OwnPass == \A i \in DOMAIN obs :
             /\ (tbl = "learn" /\ obs[i].op = "learn" /\ obs[i].out = "coba") => SigErr(prog[i]) # "none"
             /\ (tbl = "learn" /\ obs[i].op = "learn" /\ SigErr(prog[i]) # "none") => obs[i].out = "coba"
             /\ (tbl = "learn" /\ obs[i].op = "learn" /\ obs[i].out = "own") => obs[i].kind \in {shape.fk, "refused"}
             /\ (tbl = "calls" /\ obs[i].op = "score" /\ obs[i].out = "coba") => shape.sc = "absent"
             /\ (tbl = "calls" /\ obs[i].op = "score" /\ shape.sc = "absent") => obs[i].out = "coba"
(* a learner that cannot take batches never makes a call fail for that reason *)
RefusalNeverEscapes == \A i \in DOMAIN obs : obs[i].out = "own" => obs[i].kind # "refused"
(* a successful learn / score delivers every row exactly once, in order, batched or row by row *)
Flat(calls) == [i \in 1..Len(calls) |-> calls[i].rows]
RECURSIVE Concat(_)
Concat(ss) == IF ss = <<>> THEN <<>> ELSE Head(ss) \o Concat(Tail(ss))
NthCall(i) == Cardinality({ j \in 1..i : prog[j].op \notin {"pickle", "has_score"} })     \* the value of st.n when op i ran
RowsExact == \A i \in DOMAIN obs :
               /\ (tbl = "learn" /\ obs[i].op = "learn" /\ obs[i].out = "ok") => Concat(Flat(obs[i].calls)) = LRows(prog[i], NthCall(i))
               /\ (tbl = "calls" /\ obs[i].op = "score" /\ obs[i].out = "ok") => Concat(Flat(obs[i].calls)) = SRows(prog[i], NthCall(i))
(* a learner without failures and with a fitting signature never sees an exception, and one that takes batches gets them whole *)
Total == \A i \in DOMAIN obs : (tbl = "learn" /\ obs[i].op = "learn" /\ shape.fk = "none" /\ SigErr(prog[i]) = "none") =>
           /\ obs[i].out = "ok"
           /\ (shape.batch = "takes" => Len(obs[i].calls) = 1)
(* what is latched is true of the learner *)
LatchSound == /\ st.mL = 2 => (tbl = "learn" /\ shape.batch = "refuses")
              /\ (st.mS = 2 \/ st.mP = 2) => (tbl = "calls" /\ shape.batch = "refuses")
(* the interrupt stops the call: one attempt, nothing after it *)
InterruptStops == \A i \in DOMAIN obs : (tbl = "learn" /\ obs[i].op = "learn" /\ obs[i].out = "own" /\ obs[i].kind = "kbd" /\ prog[i].b > 0 /\ shape.batch = "takes") => obs[i].att = 1
(* every program runs to its end: one observation per call *)
Complete == go => Len(obs) = MaxLen
(* pickling is invisible: the latches survive it *)
PickleKeeps == [][(Running /\ tbl \in {"learn", "calls"} /\ Cur.op = "pickle") => (st'.mL = st.mL /\ st'.mS = st.mS /\ st'.mP = st.mP /\ st'.n = st.n)]_vars
=============================================================================
