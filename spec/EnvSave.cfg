\* X06 generator / design run.  The driver rewrites the CONSTANTS lines per configuration (harness/drivers/x06.py).
SPECIFICATION Spec
CONSTANTS
  NI <- NI3
  SelfSet <- SelfB
  ProcSet <- P1
  OwSet <- OwBoth
  FaultSet <- FAll
  ExtSet <- ESome
  MaxCalls = 2
  BatchMax = 1000
  Record = TRUE
  Variant = "ok"
INVARIANT TypeOK
INVARIANT Consistent
INVARIANT NumsIncreasing
INVARIANT Partition
INVARIANT ArchIsStoredPlusDone
INVARIANT NoRematerialize
INVARIANT CompareIsMultiset
INVARIANT ReturnedIsSelf
INVARIANT AcceptedReadable
INVARIANT LoggerRestored
INVARIANT Emit
PROPERTY AppendOnly
PROPERTY RefusalTouchesNothing
CHECK_DEADLOCK FALSE
