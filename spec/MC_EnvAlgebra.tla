---------------------------- MODULE MC_EnvAlgebra ----------------------------
(* Model constants of EnvAlgebra.tla (X07): initial stores and call alphabets.  harness/drivers/x07.py picks them per run. *)
EXTENDS EnvAlgebra
C(op, f, x, y, vf, v) == [op |-> op, f |-> f, x |-> x, y |-> y, vf |-> vf, v |-> v]
P(op, x, y) == C(op, "p", x, y, "omit", <<>>)       \* positional spelling, no multi-valued argument
K(op, x, y) == C(op, "k", x, y, "omit", <<>>)       \* keyword spelling
PV(op, x, vf, v) == C(op, "p", x, <<>>, vf, v)
KV(op, x, vf, v) == C(op, "k", x, <<>>, vf, v)

(* ---- initial stores: ONE Environments over 0-3 custom sources / two small LambdaSimulations ---- *)
Src(i) == <<St("Src", <<i>>, <<>>)>>
Lam(k, s) == <<St("Lambda", <<k, s>>, <<>>)>>
S0 == << <<>> >>
S1 == << <<Src(1)>> >>
S2 == << <<Src(1), Src(2)>> >>
S3 == << <<Src(1), Src(2), Src(3)>> >>
SL == << <<Lam(6, -1), Lam(5, 3)>> >>
SL1 == << <<Lam(6, 4)>> >>

(* ---- every documented spelling of every call (used at depth 1 and 2) ---- *)
ShuffleForms ==
  {PV("shuffle", <<>>, "omit", <<>>)}
  \cup {PV("shuffle", <<>>, "one", <<s>>) : s \in {0, 1, 3}}
  \cup {PV("shuffle", <<>>, "kwone", <<s>>) : s \in {0, 3}}
  \cup {PV("shuffle", <<>>, "kwsone", <<3>>)}
  \cup {PV("shuffle", <<>>, "list", v) : v \in {<<2, 1>>, <<0>>, <<1, 1>>, <<3, 0, 2>>}}
  \cup {PV("shuffle", <<>>, vf, <<2, 1>>) : vf \in {"tuple", "varargs", "kwlist", "kwseedlist", "gen", "kwgen"}}
  \cup {PV("shuffle", <<>>, "varargs", <<0, 1>>)}
  \cup {PV("shuffle", <<>>, vf, <<2>>) : vf \in {"range", "kwrange", "n"}}
  \cup {PV("shuffle", <<>>, "n", <<k>>) : k \in {1, 3}}
ShuffleEmpty == {PV("shuffle", <<>>, "list", <<>>), PV("shuffle", <<>>, "kwlist", <<>>), PV("shuffle", <<>>, "n", <<0>>),
                 PV("shuffle", <<>>, "range", <<0>>), PV("shuffle", <<>>, "gen", <<>>)}
MultiForms ==
  {C("reservoir", f, <<2>>, <<>>, vf, v) : f \in {"p", "k"}, vf \in {"omit"}, v \in {<<>>}}
  \cup {C("reservoir", f, <<2>>, <<>>, "one", <<s>>) : f \in {"p", "k"}, s \in {0, 3}}
  \cup {C("reservoir", f, <<2, 1>>, <<>>, "list", <<3, 1>>) : f \in {"p", "k"}}
  \cup {PV("reservoir", <<2>>, vf, <<3, 1>>) : vf \in {"list", "tuple"}}
  \cup {PV("reservoir", <<1>>, "list", v) : v \in {<<>>, <<2>>, <<1, 1>>}}
  \cup {PV("reservoir", <<2>>, "range", <<2>>), PV("reservoir", <<2, 1>>, "omit", <<>>)}
  \cup {C("cycle", f, <<>>, <<>>, "one", <<2>>) : f \in {"p", "k"}}
  \cup {PV("cycle", <<>>, vf, <<2, 1>>) : vf \in {"list", "tuple"}}
  \cup {PV("cycle", <<>>, "list", <<>>), PV("cycle", <<>>, "list", <<0>>)}
  \cup {C("noise", "k", <<>>, <<>>, "omit", <<>>), C("noise", "p", <<1>>, <<>>, "omit", <<>>), C("noise", "k", <<0, 2, 3>>, <<>>, "one", <<2>>),
        C("noise", "p", <<1, 0, 2>>, <<>>, "list", <<2, 1>>), C("noise", "k", <<3>>, <<>>, "range", <<2>>), C("noise", "k", <<1>>, <<>>, "tuple", <<0, 5>>),
        C("noise", "k", <<1>>, <<>>, "list", <<>>)}
  \cup {C("logged", f, <<>>, <<>>, "one", <<l>>) : f \in {"p", "k"}, l \in {1, 2}}
  \cup {C("logged", f, x, <<>>, vf, <<1, 2>>) : f \in {"p", "k"}, x \in {<<>>, <<-1>>, <<200>>}, vf \in {"list", "tuple"}}
  \cup {PV("logged", <<>>, "list", <<>>), PV("logged", <<>>, "list", <<2>>), PV("logged", <<-1>>, "one", <<2>>)}
  \cup {PV("ope", <<>>, "omit", <<>>), PV("ope", <<>>, "one", <<1>>), PV("ope", <<>>, "one", <<0>>), KV("ope", <<>>, "one", <<1>>),
        PV("ope", <<>>, "list", <<1, 0>>), PV("ope", <<>>, "tuple", <<1>>), PV("ope", <<>>, "list", <<>>), KV("ope", <<>>, "list", <<0, 1>>)}
  \cup {C("filter", f, <<>>, <<>>, "one", <<u>>) : f \in {"p", "k"}, u \in {1, 9}}
  \cup {PV("filter", <<>>, vf, <<1, 2>>) : vf \in {"list", "tuple"}}
  \cup {PV("filter", <<>>, "list", v) : v \in {<<>>, <<2>>, <<9, 1>>, <<1, 1>>}}
  \cup {PV("impute", <<>>, "omit", <<>>), PV("impute", <<>>, "one", <<2>>), KV("impute", <<>>, "one", <<3>>), PV("impute", <<0, 3>>, "list", <<1, 3>>),
        KV("impute", <<0, 3>>, "tuple", <<1, 3>>), PV("impute", <<>>, "list", <<>>), KV("impute", <<0>>, "omit", <<>>)}
SingleForms ==
  {P("binary", <<>>, <<>>), P("flatten", <<>>, <<>>), P("unbatch", <<>>, <<>>), P("cache", <<>>, <<>>), P("materialize", <<>>, <<>>)}
  \cup {P("sparse", <<>>, <<>>), P("sparse", <<0>>, <<>>), P("sparse", <<0, 1>>, <<>>), K("sparse", <<0, 1>>, <<>>), K("sparse", <<1, 1>>, <<>>)}
  \cup {P("dense", <<3>>, <<"lookup">>), P("dense", <<3, 0, 1>>, <<"hashing">>), K("dense", <<4, 0, 1>>, <<"hashing">>), K("dense", <<3>>, <<"lookup">>)}
  \cup {PV("sort", <<>>, "omit", <<>>), PV("sort", <<>>, "one", <<0>>), PV("sort", <<>>, "varargs", <<0, 1>>), PV("sort", <<>>, "list", <<1, 0>>)}
  \cup {P("riffle", <<2>>, <<>>), P("riffle", <<2, 3>>, <<>>), K("riffle", <<1, 4>>, <<>>), K("riffle", <<2>>, <<>>)}
  \cup {P("params", <<7>>, <<"p">>), K("params", <<8>>, <<"id">>)}
  \cup {P("take", <<2>>, <<>>), P("take", <<2, 1>>, <<>>), K("take", <<3, 1>>, <<>>), K("take", <<0>>, <<>>)}
  \cup {P("slice", <<1>>, <<>>), P("slice", <<1, 3>>, <<>>), P("slice", <<0, 4, 2>>, <<>>), K("slice", <<-1, 2>>, <<>>), K("slice", <<1, -1, 2>>, <<>>), P("slice", <<-1, 3>>, <<>>)}
  \cup {P("scale", <<>>, <<>>), P("scale", <<>>, <<"mean", "std">>), P("scale", <<2>>, <<"med", "iqr", "context">>), K("scale", <<3>>, <<"min", "maxabs">>), K("scale", <<>>, <<"mean">>)}
  \cup {K("where", <<>>, <<>>), K("where", <<3>>, <<>>), K("where", <<-1, 2, 4>>, <<>>), K("where", <<2, 3>>, <<>>)}
  \cup {P("grounded", <<4, 2, 3, 1>>, <<>>), P("grounded", <<4, 2, 3, 1, 5>>, <<>>), K("grounded", <<5, 5, 2, 2, 0>>, <<>>), K("grounded", <<4, 2, 3, 1>>, <<>>)}
  \cup {P("repr", <<>>, <<>>), P("repr", <<>>, <<"onehot_tuple">>), P("repr", <<>>, <<"string", "onehot_tuple">>), K("repr", <<>>, <<"onehot", "string">>)}
  \cup {P("batch", <<2>>, <<>>), P("batch", <<3>>, <<"list">>), K("batch", <<1>>, <<"list">>), K("batch", <<2>>, <<>>)}
  \cup {P("chunk", <<>>, <<>>), P("chunk", <<0>>, <<>>), K("chunk", <<1>>, <<>>), K("chunk", <<0>>, <<>>)}
ConstructForms ==
  {C("from_linear", f, x, y, vf, v) : f \in {"p", "k"}, x \in {<<4>>, <<4, 2, 3, 4, 5>>}, y \in {<<>>, <<"xa">>}, vf \in {"list"}, v \in {<<3, 1>>}}
  \cup {C("from_linear", "p", <<3>>, <<>>, vf, v) : vf \in {"omit"}, v \in {<<>>}}
  \cup {C("from_linear", "k", <<3, 2>>, <<>>, "one", <<7>>), C("from_linear", "p", <<3>>, <<>>, "tuple", <<3, 1>>), C("from_linear", "p", <<3>>, <<>>, "range", <<2>>),
        C("from_linear", "p", <<3>>, <<>>, "list", <<>>), C("from_linear", "p", <<3>>, <<>>, "list", <<2, 2>>)}
  \cup {C("from_bandit", f, x, <<>>, vf, v) : f \in {"p", "k"}, x \in {<<4>>, <<4, 2>>}, vf \in {"list"}, v \in {<<3, 1>>}}
  \cup {C("from_bandit", "p", <<3>>, <<>>, "omit", <<>>), C("from_bandit", "p", <<3, 3>>, <<>>, "one", <<0>>), C("from_bandit", "k", <<3>>, <<>>, "range", <<3>>),
        C("from_bandit", "k", <<-1, 2>>, <<>>, "tuple", <<2, 5>>)}
  \cup {C("from_neighbors", f, x, <<>>, vf, v) : f \in {"p", "k"}, x \in {<<4>>, <<4, 2, 3, 4, 6>>}, vf \in {"list", "omit"}, v \in {<<3, 1>>}}
  \cup {C("from_neighbors", "p", <<3>>, <<>>, "one", <<2>>)}
  \cup {C("from_kernel", f, x, y, vf, v) : f \in {"p", "k"}, x \in {<<4>>, <<4, 2, 3, 4, 5, 2, 2>>}, y \in {<<>>, <<"polynomial">>, <<"linear">>}, vf \in {"list"}, v \in {<<3, 1>>}}
  \cup {C("from_kernel", "k", <<3>>, <<"exponential">>, "one", <<2>>), C("from_kernel", "p", <<3>>, <<>>, "omit", <<>>)}
  \cup {C("from_mlp", f, x, <<>>, vf, v) : f \in {"p", "k"}, x \in {<<4>>, <<4, 2, 3, 4>>}, vf \in {"list", "omit"}, v \in {<<3, 1>>}}
  \cup {C("from_mlp", "p", <<3>>, <<>>, "one", <<2>>), C("from_mlp", "p", <<3>>, <<>>, "range", <<2>>)}
  \cup {P("from_lambda", <<3>>, <<>>), P("from_lambda", <<3, 5>>, <<>>), K("from_lambda", <<2, 0>>, <<>>), K("from_lambda", <<4>>, <<>>)}
  \cup {P("from_supervised", <<>>, <<>>), P("from_supervised", <<>>, <<"R">>), K("from_supervised", <<>>, <<"c">>)}
  \cup {PV(op, <<>>, vf, v) : op \in {"from_custom", "ctor"}, vf \in {"varargs", "list", "tuple", "gen", "mixed"}, v \in {<<1, 2, 3>>, <<2>>}}
  \cup {PV(op, <<>>, vf, <<>>) : op \in {"from_custom", "ctor"}, vf \in {"varargs", "list"}}
GetSlices == {P("getslice", <<a, b, NoneI>>, <<>>) : a \in {NoneI, 0, 1, -1, 5}, b \in {NoneI, 0, 2, -1}}
             \cup {P("getslice", <<a, b, s>>, <<>>) : a \in {NoneI, 1, -1}, b \in {NoneI, 0}, s \in {2, -1}}
SeqForms ==
  GetSlices
  \cup {P("add", <<>>, <<>>), P("wrap_iter", <<>>, <<>>)}
  \cup {PV("wrap_idx", <<>>, vf, v) : vf \in {"varargs", "list", "gen"}, v \in {<<0>>, <<-1, 0>>, <<0, 0>>}}
  \cup {P("len", <<>>, <<>>), P("iter", <<>>, <<>>), P("str", <<>>, <<>>), P("reversed", <<>>, <<>>)}
  \cup {P("index", <<i>>, <<>>) : i \in {0, 1, -1, 2, -3, 3, -4}}
AllForms == ShuffleForms \cup ShuffleEmpty \cup MultiForms \cup SingleForms \cup ConstructForms \cup SeqForms

(* ---- one spelling per call: pairs of calls, all receivers ---- *)
Canon ==
  {PV("shuffle", <<>>, "omit", <<>>), PV("shuffle", <<>>, "list", <<2, 1>>), PV("shuffle", <<>>, "n", <<2>>), PV("shuffle", <<>>, "one", <<0>>)}
  \cup {PV("reservoir", <<2>>, "list", <<3, 1>>), PV("reservoir", <<1>>, "omit", <<>>), PV("cycle", <<>>, "list", <<2, 1>>), PV("cycle", <<>>, "one", <<1>>),
        C("noise", "k", <<1>>, <<>>, "list", <<2, 1>>), PV("logged", <<>>, "list", <<1, 2>>), PV("logged", <<-1>>, "one", <<2>>),
        PV("ope", <<>>, "list", <<1, 0>>), PV("ope", <<>>, "one", <<1>>), PV("filter", <<>>, "list", <<1, 2>>), PV("filter", <<>>, "one", <<2>>),
        PV("filter", <<>>, "one", <<9>>), PV("filter", <<>>, "list", <<>>), PV("impute", <<>>, "list", <<1, 3>>), PV("impute", <<>>, "omit", <<>>)}
  \cup {P("binary", <<>>, <<>>), P("flatten", <<>>, <<>>), P("unbatch", <<>>, <<>>), P("cache", <<>>, <<>>), P("materialize", <<>>, <<>>),
        P("sparse", <<>>, <<>>), P("dense", <<3>>, <<"lookup">>), PV("sort", <<>>, "varargs", <<0, 1>>), P("riffle", <<2>>, <<>>),
        P("params", <<7>>, <<"p">>), K("params", <<8>>, <<"id">>), P("take", <<2>>, <<>>), P("take", <<1, 1>>, <<>>), P("slice", <<1, 3>>, <<>>),
        P("scale", <<>>, <<>>), K("where", <<3>>, <<>>), P("grounded", <<4, 2, 3, 1>>, <<>>), P("repr", <<>>, <<"string", "string">>),
        P("batch", <<2>>, <<>>), P("chunk", <<>>, <<>>), P("chunk", <<0>>, <<>>)}
  \cup {C("from_linear", "p", <<3>>, <<>>, "list", <<3, 1>>), C("from_bandit", "p", <<3>>, <<>>, "omit", <<>>), PV("ctor", <<>>, "varargs", <<3, 1>>), P("from_lambda", <<3, 5>>, <<>>)}
  \cup {P("getslice", <<0, 2, NoneI>>, <<>>), P("getslice", <<1, NoneI, NoneI>>, <<>>), P("getslice", <<NoneI, NoneI, -1>>, <<>>), P("getslice", <<NoneI, -1, NoneI>>, <<>>),
        P("add", <<>>, <<>>), P("wrap_iter", <<>>, <<>>), PV("wrap_idx", <<>>, "varargs", <<-1, 0>>), PV("wrap_idx", <<>>, "list", <<0>>),
        P("len", <<>>, <<>>), P("iter", <<>>, <<>>), P("str", <<>>, <<>>), P("index", <<0>>, <<>>), P("index", <<-1>>, <<>>), P("index", <<2>>, <<>>)}

(* ---- the sequence protocol in depth: slices of slices, sums, re-wrapping, Finalize by the user, a few shortcuts ---- *)
SeqDeep ==
  {P("getslice", <<0, 2, NoneI>>, <<>>), P("getslice", <<1, NoneI, NoneI>>, <<>>), P("getslice", <<NoneI, NoneI, -1>>, <<>>), P("getslice", <<-2, NoneI, NoneI>>, <<>>),
   P("add", <<>>, <<>>), P("wrap_iter", <<>>, <<>>), PV("wrap_idx", <<>>, "varargs", <<-1, 0>>),
   PV("filter", <<>>, "one", <<9>>), P("take", <<2>>, <<>>), P("batch", <<2>>, <<>>), PV("shuffle", <<>>, "list", <<2, 1>>), P("cache", <<>>, <<>>), P("materialize", <<>>, <<>>),
   P("iter", <<>>, <<>>), P("index", <<-1>>, <<>>)}
SeqDeeper ==
  {P("getslice", <<0, 2, NoneI>>, <<>>), P("add", <<>>, <<>>), PV("wrap_idx", <<>>, "varargs", <<0>>),
   PV("filter", <<>>, "one", <<9>>), PV("shuffle", <<>>, "list", <<2, 1>>), P("materialize", <<>>, <<>>)}
SeqQuick ==
  {P("getslice", <<0, 2, NoneI>>, <<>>), P("getslice", <<1, NoneI, NoneI>>, <<>>), P("add", <<>>, <<>>),
   PV("wrap_idx", <<>>, "varargs", <<-1, 0>>), PV("filter", <<>>, "one", <<9>>), P("take", <<2>>, <<>>),
   PV("shuffle", <<>>, "list", <<2, 1>>), P("materialize", <<>>, <<>>), P("index", <<-1>>, <<>>)}

(* ---- multi-valued shortcuts chained: lengths multiply, orders compose ---- *)
MultiDeep ==
  {PV("shuffle", <<>>, "list", <<2, 1>>), PV("shuffle", <<>>, "n", <<2>>), PV("shuffle", <<>>, "one", <<3>>), PV("reservoir", <<2>>, "list", <<3, 1>>),
   PV("cycle", <<>>, "list", <<2, 1>>), PV("filter", <<>>, "list", <<1, 2>>), PV("filter", <<>>, "list", <<>>), PV("logged", <<>>, "list", <<1, 2>>),
   PV("ope", <<>>, "list", <<1, 0>>), C("noise", "k", <<1>>, <<>>, "range", <<2>>), PV("impute", <<>>, "list", <<1, 3>>), P("take", <<2>>, <<>>),
   C("from_linear", "p", <<3>>, <<>>, "list", <<3, 1>>), P("add", <<>>, <<>>), P("getslice", <<1, NoneI, NoneI>>, <<>>)}

MultiQuick ==
  {PV("shuffle", <<>>, "list", <<2, 1>>), PV("reservoir", <<2>>, "list", <<3, 1>>), PV("cycle", <<>>, "list", <<2, 1>>),
   PV("filter", <<>>, "list", <<1, 2>>), PV("logged", <<>>, "list", <<1, 2>>), PV("impute", <<>>, "list", <<1, 3>>),
   P("take", <<2>>, <<>>), C("from_linear", "p", <<3>>, <<>>, "list", <<3, 1>>), P("add", <<>>, <<>>)}

(* ---- calls whose pipelines are READ: data-transforming filters over the small LambdaSimulations ---- *)
ReadCalls ==
  {PV("shuffle", <<>>, "list", <<2, 1>>), PV("shuffle", <<>>, "omit", <<>>), PV("reservoir", <<3>>, "list", <<3, 1>>), PV("reservoir", <<9, 1>>, "one", <<2>>),
   PV("cycle", <<>>, "list", <<2, 1>>), C("noise", "k", <<1, 0, 3>>, <<>>, "list", <<2, 1>>), C("noise", "k", <<>>, <<>>, "omit", <<>>),
   PV("logged", <<>>, "list", <<1, 2>>), PV("logged", <<200>>, "one", <<2>>), PV("ope", <<>>, "list", <<1, 0>>), PV("filter", <<>>, "list", <<1, 2>>),
   PV("filter", <<>>, "one", <<9>>), PV("impute", <<>>, "list", <<1, 3>>),
   P("binary", <<>>, <<>>), P("flatten", <<>>, <<>>), P("unbatch", <<>>, <<>>), P("cache", <<>>, <<>>), P("materialize", <<>>, <<>>), P("sparse", <<1, 1>>, <<>>),
   P("sparse", <<>>, <<>>), P("dense", <<6>>, <<"lookup">>), PV("sort", <<>>, "varargs", <<1>>), PV("sort", <<>>, "omit", <<>>), P("riffle", <<2, 3>>, <<>>),
   P("params", <<7>>, <<"p">>), P("take", <<3>>, <<>>), P("take", <<6, 1>>, <<>>), P("slice", <<1, 5, 2>>, <<>>), P("scale", <<>>, <<"mean", "std">>),
   P("scale", <<3>>, <<>>), K("where", <<6>>, <<>>), K("where", <<-1, 3>>, <<>>), P("grounded", <<4, 2, 3, 1>>, <<>>), P("repr", <<>>, <<"string", "string">>),
   P("batch", <<2>>, <<>>), P("batch", <<4>>, <<>>), P("chunk", <<>>, <<>>),
   P("getslice", <<1, NoneI, NoneI>>, <<>>), P("add", <<>>, <<>>), PV("wrap_idx", <<>>, "varargs", <<-1>>), P("wrap_iter", <<>>, <<>>), P("from_lambda", <<3, 5>>, <<>>)}

(* ---- small alphabets for the deliberately broken designs ---- *)
GuardCalls == {PV("shuffle", <<>>, "list", <<2, 1>>), PV("filter", <<>>, "list", <<1, 2>>), P("take", <<2>>, <<>>), P("getslice", <<NoneI, NoneI, NoneI>>, <<>>),
               PV("wrap_idx", <<>>, "varargs", <<0>>), P("iter", <<>>, <<>>), P("index", <<0>>, <<>>)}
=============================================================================
