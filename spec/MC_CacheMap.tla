---------------------------- MODULE MC_CacheMap ----------------------------
EXTENDS CacheMap
KAll   == {"null", "mem", "disk", "cnull", "cmem", "cdisk"}
KMems  == {"null", "mem", "cnull", "cmem"}
KDisks == {"disk", "cdisk"}
KConcs == {"cnull", "cmem", "cdisk"}
KUses  == {"mem", "cnull", "cmem", "cdisk"}
KHold2 == {"cnull", "cmem"}
KHold3 == {"mem", "disk", "cdisk"}
KMem   == {"mem"}
KNull  == {"null"}
KDisk  == {"disk"}
KCmem  == {"cmem"}
KCdisk == {"cdisk"}
K1 == {"k1"}
K2 == {"k1", "k2"}
K3 == {"k1", "k2", "k3"}
(* k1 and k2 share a slot of the lock table (the driver finds two real keys that do), k3 has its own *)
SlotColl == [k1 |-> "s1", k2 |-> "s1", k3 |-> "s2"]
SlotDist == [k1 |-> "s1", k2 |-> "s2", k3 |-> "s3"]
A(f, v, u) == [f |-> f, v |-> v, u |-> u]
(* every getter form and value, the context manager read entirely *)
ArgsValues == {A("fn_list", "e", "all"), A("fn_list", "one", "all"), A("fn_list", "multi", "all"), A("fn_gen", "e", "all"), A("fn_gen", "multi", "all"),
               A("fn_iter", "two", "all"), A("fn_term", "multi", "all"), A("val_list", "two", "all"), A("val_gen", "multi", "all"), A("val_str", "one", "all"),
               A("fn_raise", "one", "all"), A("fn_raiseK", "one", "all"), A("gen_raise", "multi", "all"), A("valgen_raise", "two", "all")}
ArgsValuesD == {A("fn_list", "e", "all"), A("fn_list", "multi", "all"), A("fn_gen", "multi", "all"), A("fn_term", "multi", "all"), A("val_gen", "two", "all"), A("val_str", "one", "all"),
               A("fn_raiseK", "one", "all"), A("valgen_raise", "two", "all")}
ArgsFew    == {A("fn_list", "one", "all"), A("fn_gen", "multi", "all"), A("val_list", "e", "all"), A("fn_raise", "one", "all"), A("gen_raise", "multi", "all")}
(* what the caller does with the context manager *)
ArgsUses   == {A("fn_list", "one", "all"), A("fn_gen", "multi", "part"), A("fn_list", "two", "braise"), A("fn_list", "multi", "hold"), A("val_gen", "two", "hold"),
               A("fn_raise", "one", "all"), A("fn_raiseK", "one", "all"), A("gen_raise", "two", "all")}
ArgsUsesQ  == {A("fn_list", "one", "all"), A("fn_gen", "multi", "part"), A("fn_list", "two", "braise"), A("fn_list", "multi", "hold"), A("fn_raiseK", "one", "all")}
ArgsEnvQ   == {A("fn_list", "one", "all"), A("gen_raise", "multi", "all"), A("io_write", "multi", "all"), A("none", "one", "all")}
ArgsIo     == {A("fn_list", "two", "all"), A("io_open", "one", "all"), A("io_write", "multi", "all"), A("io_write", "one", "all"), A("none", "one", "all"), A("none", "one", "part")}
ArgsFewQ   == {A("fn_list", "one", "all"), A("val_list", "e", "all"), A("gen_raise", "multi", "all")}
ArgsHold   == {A("fn_list", "one", "all"), A("fn_list", "two", "hold"), A("fn_raise", "one", "all")}
ArgsEnv    == {A("fn_list", "one", "all"), A("fn_gen", "multi", "part"), A("gen_raise", "multi", "all"), A("fn_list", "two", "hold"),
               A("io_open", "one", "all"), A("io_write", "multi", "all"), A("none", "one", "all")}
ArgsAll    == ArgsValues \cup ArgsUses \cup ArgsIo
OpsMap   == {"in", "rmv", "getset"}
OpsPut   == {"rmv", "getset"}
OpsUse   == {"rmv", "getset", "release"}
OpsEnv   == {"rmv", "getset", "release", "setdir", "setdirbad", "badkey", "newobj", "foreign", "litter"}
OpsAll   == {"in"} \cup OpsEnv
=============================================================================
