------------------------------ MODULE CacheMap ------------------------------
(***************************************************************************)
(* The cachers of coba/context/cachers.py as SEQUENTIAL objects (X09).     *)
(*                                                                         *)
(* Public interface (Cacher 19-46): `key in c`, `c.rmv(key)` and           *)
(* `c.get_set(key, getter)` which returns a CONTEXT MANAGER for the value  *)
(* ("Get a key from the cache. If the key is not in the cache put it first *)
(* using getter"; getter: Union[Callable[[],V], V]: a function, or the     *)
(* value itself; the tests use `get_set(key, None)` as the plain `get` of  *)
(* a present key).  There is no separate get / put / release: put = a      *)
(* get_set that misses, get = a get_set that hits, release = leaving the   *)
(* returned context manager.  DiskCacher adds the settable                 *)
(* `cache_directory`.                                                      *)
(*                                                                         *)
(* Abstract state: per directory (one pseudo directory "m" for the memory  *)
(* kinds) a partial map key -> entry; an entry is absent, a VALUE (a       *)
(* sequence of lines), or - DiskCacher only, written by somebody else -    *)
(* "empty" (a zero-length file) or "torn" (a gz cut short / garbage).      *)
(* Open HANDLES: context managers returned by get_set and not yet left.    *)
(* For the ConcurrentCacher kinds `arr` is the lock table (the `list`      *)
(* constructor argument) per slot; used from ONE thread a slot holds the   *)
(* number of this thread's open handles on keys of that slot, nothing else.*)
(*                                                                         *)
(* kind (chosen in Init from the constant Kinds, fixed for the history)    *)
(* kind          object                              deviations            *)
(* "null"        NullCacher (48-62)                  stores nothing, the   *)
(*               getter is called on EVERY get_set, its value passes       *)
(*               through untouched ("A cacher which does not cache")       *)
(* "mem"         MemoryCacher (64-84)                an iterator / generator*)
(*               value is consumed once and kept as a list                 *)
(* "disk"        DiskCacher (86-145)                 lines are written     *)
(*               without their line terminator and read back with "\n"     *)
(*               (tests: ["test"] -> ["test\n"]); a str is one line;       *)
(*               `in` = the file exists - TRUE also for a zero-length file *)
(*               (test_overwrite_empty_cache) although get_set treats that *)
(*               file as absent, removes it and puts; a torn / garbage     *)
(*               file is served, READING it raises, it stays until rmv     *)
(*               (test_get_corrupted_cache); keys with characters outside  *)
(*               alnum ' ' '.' '_' raise CobaException in every method     *)
(*               (test_bad_file_key); cache_directory = None raises        *)
(*               CobaException (test_bad_directory); the state is the      *)
(*               directory: a new object on the same directory sees it     *)
(* "cnull" "cmem" "cdisk"  ConcurrentCacher (147-271) around the above,    *)
(*               one thread.  Same map behaviour as the inner cacher, plus *)
(*               the lock table: a hit takes a read lock held until the    *)
(*               context manager is left; a miss needs the write lock of   *)
(*               the key's slot; asking for a write lock (miss, rmv of a   *)
(*               present key) while THIS thread holds a read lock in that  *)
(*               slot can never be granted: CobaException "unrecoverable   *)
(*               state", nothing changed (test_rmv_during_get_set_same_    *)
(*               process_without_release; `_locks`: "for safety to make    *)
(*               sure our current process/thread isn't waiting on          *)
(*               itself") - never a hang, for the same key and for a key   *)
(*               that shares the slot alike.                               *)
(*                                                                         *)
(* One action per public call: Contains, Rmv, GetSet (with what the caller *)
(* does with the context manager: read all / read one line and leave /     *)
(* raise in the body / hold it), Release (leave a held context manager),   *)
(* SetDir / SetDirBad (cache_directory), BadKey; environment actions:      *)
(* NewObject (a new cacher object on the same directory), Foreign (a       *)
(* zero-length or torn file appears, as a killed process leaves it),       *)
(* Litter (files and sub-directories that are not entries).                *)
(* GetSet is written as the code's steps: clean a zero-length file         *)
(* (119-120) -> hit? -> (miss) write lock -> getter runs / raises ->       *)
(* lines written / generator raises half-way -> entry complete or removed  *)
(* (122-135; the same clean-up when opening / writing the file fails) ->   *)
(* context manager (137).  Every step appends to `hist` what the call must *)
(* return / raise (`obs`: outcome, exception class, lines read, getter     *)
(* called or not) and the whole abstract state after it (`post`); the      *)
(* driver compares both with the real object after every call.             *)
(*                                                                         *)
(* Getter forms (f): fn_list / fn_gen / fn_iter / fn_term = a function     *)
(* returning a list / a generator (lazy) / an iterator / a list of lines   *)
(* that still carry "\n" or "\r\n"; val_list / val_gen / val_str = the     *)
(* value itself (list, generator object, one str); fn_raise / fn_raiseK =  *)
(* the function raises Exception / KeyboardInterrupt; gen_raise /          *)
(* valgen_raise = a generator (returned by the function / given itself)    *)
(* that yields the first half of the lines and then raises; io_open /      *)
(* io_write = the getter is fine but the file cannot be opened for writing *)
(* / a write after the first one fails (OSError); none = None is given     *)
(* (the `get` of the tests; for an absent key there is nothing to put).    *)
(*                                                                         *)
(* Variant = "ok" is the design; the others are deliberately broken and    *)
(* TLC must reject each (guards of the invariants):                        *)
(*  "keep_partial"   a generator that raises half-way leaves the lines     *)
(*                   written so far as the entry         -> NoPartial      *)
(*  "overwrite"      get_set over a present key calls the getter and       *)
(*                   replaces the value                  -> KeepOnHit      *)
(*  "null_stores"    NullCacher keeps the value          -> NullEmpty      *)
(*  "shared_entry"   k1 and k2 are mapped to one file    -> IndependentKeys*)
(*  "wrong_release"  the error path of a refused write lock releases a     *)
(*                   read lock (of another handle)       -> LocksBalanced  *)
(*  "leak_on_braise" a body that raises keeps the read lock-> LocksBalanced*)
(***************************************************************************)
EXTENDS Integers, Sequences, FiniteSets, TLC, Json
CONSTANTS Kinds,       \* the cacher kinds explored: subset of {"null", "mem", "disk", "cnull", "cmem", "cdisk"}
          Keys,        \* key names
          Slot,        \* key -> lock-table slot of ConcurrentCacher (equal slots = colliding keys)
          Args,        \* the [f, v, u] records get_set is called with
          Ops,         \* subset of {"in","rmv","getset","release","setdir","setdirbad","badkey","newobj","foreign","litter"}
          MaxOps, MaxHandles, Variant
VARIABLES kind,        \* the kind of the cacher object of this history (chosen in Init, never changes)
          files,       \* [Dirs -> [Keys -> entry]]
          cur,         \* the cacher's current directory
          hs,          \* open handles, in the order they were obtained: [k, d, v, st]
          arr,         \* lock table per slot (ConcurrentCacher kinds; all 0 otherwise)
          litter,      \* directories that hold files which are not entries
          hist, n
vars == <<kind, files, cur, hs, arr, litter, hist, n>>

IsNull == kind \in {"null", "cnull"}
IsDisk == kind \in {"disk", "cdisk"}
IsConc == kind \in {"cnull", "cmem", "cdisk"}
Dirs   == IF IsDisk THEN {"d1", "d2"} ELSE {"m"}
Slots  == {Slot[k] : k \in Keys}

(* the values: empty, one line, two lines, several lines with an empty one and a blank inside *)
Val == [e |-> <<>>, one |-> <<"a">>, two |-> <<"b", "c">>, multi |-> <<"d", "", "e f", "g">>]
ValIds == DOMAIN Val
Absent    == [t |-> "absent", v |-> <<>>]
Empty     == [t |-> "empty",  v |-> <<>>]
Torn      == [t |-> "torn",   v |-> <<>>]
Stored(v) == [t |-> "val",    v |-> v]

LazyFail == {"gen_raise", "valgen_raise"}
StrForms == {"val_str"}
IoFail   == {"io_open", "io_write"}      \* the getter is fine, writing the file fails (disk kinds): when it is opened / after the first line
Fails(f) == CASE f \in {"fn_raise"} \cup LazyFail -> "E" [] f = "fn_raiseK" -> "K" [] f \in IoFail -> "IO"
              [] f = "none" -> "err"         \* get_set(key, None) of an absent key: nothing to put (disk kinds: some exception, no trace)
              [] OTHER -> "none"
Partial(v) == SubSeq(Val[v], 1, (Len(Val[v]) + 1) \div 2)       \* what a half-way failing generator delivered

Ok(lines)  == [r |-> "ok",    x |-> "", lines |-> lines]
Raise(x)   == [r |-> "raise", x |-> x,  lines |-> <<>>]
Unspec     == [r |-> "any",   x |-> "", lines |-> <<>>]          \* not specified (the driver only runs it)
(* what the caller sees when it uses the context manager of a handle *)
Consume(st, v, u) ==
  CASE u = "braise"              -> Raise("B")       \* the body raises before reading: the same exception leaves the with-block
    [] st = "stale"              -> Unspec            \* the entry was removed while the handle was open (plain kinds): not specified
    [] st = "torn" /\ u = "all"  -> Raise("err")     \* a torn entry never reads as end-of-data
    [] st = "torn"               -> Unspec
    [] u = "all"                 -> Ok(v)
    [] OTHER                     -> Ok(IF v = <<>> THEN <<>> ELSE <<v[1]>>)     \* "part": one line, then the block is left

NoArg == [f |-> "", v |-> "", u |-> ""]
Post == [files |-> files', cur |-> cur', hs |-> hs', arr |-> arr', litter |-> litter']
Record(op, k, a, w, out, called) ==
  /\ hist' = Append(hist, [op |-> op, k |-> k, a |-> a, vl |-> (IF a.v \in ValIds THEN Val[a.v] ELSE <<>>), w |-> w, obs |-> [r |-> out.r, x |-> out.x, lines |-> out.lines, called |-> called], post |-> Post])
  /\ n' = n + 1 /\ kind' = kind
Last == hist[Len(hist)]

Init == /\ kind \in Kinds
        /\ files = [d \in Dirs |-> [k \in Keys |-> Absent]]
        /\ cur = (IF IsDisk THEN "d1" ELSE "m") /\ hs = <<>> /\ arr = [s \in Slots |-> 0] /\ litter = {}
        /\ hist = <<>> /\ n = 0

Twin(k) == IF Variant = "shared_entry" /\ k \in {"k1", "k2"} THEN {"k1", "k2"} \cap Keys ELSE {k}
SetEntry(k, e) == [files EXCEPT ![cur] = [q \in Keys |-> IF q \in Twin(k) THEN e ELSE @[q]]]

(* ---- key in c : __contains__ 55 / 71 / 111 / 171 ---- *)
Contains(k) ==
  /\ n < MaxOps /\ "in" \in Ops
  /\ UNCHANGED <<files, cur, hs, arr, litter>>
  /\ Record("in", k, NoArg, IF files[cur][k].t # "absent" THEN "true" ELSE "false", Ok(<<>>), FALSE)

(* ---- c.rmv(key) : 58 / 74 / 114 / 174-185 ---- *)
Rmv(k) ==
  LET present  == files[cur][k].t # "absent"
      selfwait == IsConc /\ present /\ arr[Slot[k]] > 0       \* 177-178: the write lock is asked for while this thread reads in the slot
  IN /\ n < MaxOps /\ "rmv" \in Ops
     /\ files' = (IF selfwait \/ ~present THEN files ELSE SetEntry(k, Absent))
     /\ hs' = (IF selfwait \/ ~present THEN hs ELSE [i \in DOMAIN hs |-> IF hs[i].k = k /\ hs[i].d = cur THEN [hs[i] EXCEPT !.st = "stale"] ELSE hs[i]])
     /\ UNCHANGED <<cur, arr, litter>>
     /\ Record("rmv", k, NoArg, "", IF selfwait THEN Raise("coba") ELSE Ok(<<>>), FALSE)

(* ---- c.get_set(key, getter) and what the caller does with the context manager : 61 / 78-84 / 117-137 / 187-214 ---- *)
GetSet(k, a) ==
  LET e0       == files[cur][k]
      s        == Slot[k]
      cleaned  == e0.t = "empty"                                   \* 119-120: a zero-length file is removed, the key counts as absent
      e        == IF cleaned THEN Absent ELSE e0
      hit      == ~IsNull /\ e.t \in {"val", "torn"} /\ Variant # "overwrite"          \* 79 / 122 / 191
      selfwait == IsConc /\ ~hit /\ arr[s] > 0                     \* 195 -> 237: write lock while this thread reads in the slot
      fl       == Fails(a.f)
      stored   == IF fl = "none" THEN Stored(Val[a.v])
                  ELSE IF Variant = "keep_partial" /\ a.f \in LazyFail THEN Stored(Partial(a.v))
                  ELSE Absent                                      \* 132-135: whatever was written is removed
      newEntry == IF selfwait THEN e0
                  ELSE IF IsNull THEN (IF Variant = "null_stores" /\ fl = "none" THEN Stored(Val[a.v]) ELSE e0)
                  ELSE IF hit THEN e ELSE stored
      produced == ~selfwait /\ (hit \/ fl = "none")                \* a context manager comes back
      h        == [k |-> k, d |-> cur, v |-> IF hit THEN e.v ELSE Val[a.v], st |-> IF hit /\ e.t = "torn" THEN "torn" ELSE "good"]
      held     == produced /\ a.u = "hold"
      out      == IF selfwait THEN Raise("coba") ELSE IF ~produced THEN Raise(fl)
                  ELSE IF held THEN Ok(<<>>) ELSE Consume(h.st, h.v, a.u)
  IN /\ n < MaxOps /\ "getset" \in Ops
     /\ (a.u = "hold" => Len(hs) < MaxHandles)
     /\ ~(selfwait /\ cleaned)                   \* not specified: whether the zero-length file is gone when the lock is refused
     /\ (IsNull => a.f \notin LazyFail)          \* not specified here: NullCacher hands the failing generator through unconsumed
     /\ (a.f \in StrForms => Len(Val[a.v]) = 1)
     /\ (a.f \in IoFail => IsDisk)
     /\ ((a.f = "none" /\ ~hit) => IsDisk)       \* not specified for the memory kinds (MemoryCacher keeps None as the value)
     /\ files' = SetEntry(k, newEntry)
     /\ hs' = (IF held THEN Append(hs, h) ELSE hs)
     /\ arr' = (IF IsConc /\ held THEN [arr EXCEPT ![s] = @ + 1]                                          \* 192 / 201-202: the read lock stays with the handle
                ELSE IF IsConc /\ produced /\ a.u = "braise" /\ Variant = "leak_on_braise" THEN [arr EXCEPT ![s] = @ + 1]
                ELSE IF selfwait /\ Variant = "wrong_release" THEN [arr EXCEPT ![s] = @ - 1]
                ELSE arr)                                                                                  \* 208-214: released when the block is left, however
     /\ UNCHANGED <<cur, litter>>
     /\ Record("getset", k, a, e0.t, out, ~selfwait /\ ~hit /\ a.f # "none")

(* ---- the caller enters and leaves a context manager it held : 208-214 / the file object of 137 ---- *)
Release(i, u) ==
  /\ n < MaxOps /\ "release" \in Ops /\ i \in DOMAIN hs
  /\ hs' = [j \in 1..(Len(hs) - 1) |-> IF j < i THEN hs[j] ELSE hs[j + 1]]
  /\ arr' = (IF IsConc /\ ~(u = "braise" /\ Variant = "leak_on_braise") THEN [arr EXCEPT ![Slot[hs[i].k]] = @ - 1] ELSE arr)
  /\ UNCHANGED <<files, cur, litter>>
  /\ Record("release", hs[i].k, [NoArg EXCEPT !.u = u], ToString(i), Consume(hs[i].st, hs[i].v, u), FALSE)

(* ---- c.cache_directory = d (str or Path) : 105-109 ; = None raises CobaException and changes nothing ---- *)
SetDir(d, form) ==
  /\ n < MaxOps /\ "setdir" \in Ops /\ IsDisk /\ d \in Dirs
  /\ cur' = d /\ UNCHANGED <<files, hs, arr, litter>>
  /\ Record("setdir", "", [NoArg EXCEPT !.f = form], d, Ok(<<>>), FALSE)
SetDirBad ==
  /\ n < MaxOps /\ "setdirbad" \in Ops /\ IsDisk
  /\ UNCHANGED <<files, cur, hs, arr, litter>>
  /\ Record("setdirbad", "", NoArg, "", Raise("coba"), FALSE)

(* ---- a key that cannot be made into a file name, given to `in` / rmv / get_set : 139-142 ---- *)
BadKey(op) ==
  /\ n < MaxOps /\ "badkey" \in Ops /\ IsDisk
  /\ UNCHANGED <<files, cur, hs, arr, litter>>
  /\ Record("badkey", "", NoArg, op, Raise("badkey"), FALSE)

(* ---- environment: a new cacher object on the same directory (persistence) ---- *)
NewObject ==
  /\ n < MaxOps /\ "newobj" \in Ops /\ IsDisk /\ hs = <<>>
  /\ UNCHANGED <<files, cur, hs, arr, litter>>
  /\ Record("newobj", "", NoArg, "", Ok(<<>>), FALSE)
(* ---- environment: a file the cacher did not write appears under an entry's name (a killed writer) ---- *)
Foreign(k, w) ==
  /\ n < MaxOps /\ "foreign" \in Ops /\ IsDisk /\ files[cur][k].t = "absent" /\ \A i \in DOMAIN hs : hs[i].k # k
  /\ files' = SetEntry(k, IF w = "empty" THEN Empty ELSE Torn)
  /\ UNCHANGED <<cur, hs, arr, litter>>
  /\ Record("foreign", k, NoArg, w, Ok(<<>>), FALSE)
(* ---- environment: a sub-directory and files that are not entries appear in the directory; they never matter and stay ---- *)
Litter ==
  /\ n < MaxOps /\ "litter" \in Ops /\ IsDisk /\ cur \notin litter
  /\ litter' = litter \cup {cur} /\ UNCHANGED <<files, cur, hs, arr>>
  /\ Record("litter", "", NoArg, cur, Ok(<<>>), FALSE)

Next == \/ \E k \in Keys : Contains(k) \/ Rmv(k) \/ (\E a \in Args : GetSet(k, a)) \/ (\E w \in {"empty", "torn"} : Foreign(k, w))
        \/ \E i \in 1..MaxHandles : \E u \in {"all", "braise"} : Release(i, u)
        \/ \E d \in {"d1", "d2"} : \E form \in {"str", "path"} : SetDir(d, form)
        \/ SetDirBad \/ NewObject \/ Litter
        \/ \E op \in {"in", "rmv", "getset"} : BadKey(op)
Spec == Init /\ [][Next]_vars

(* ======================= what the design guarantees (checked by TLC) ======================= *)
TypeOK == /\ kind \in Kinds
          /\ \A d \in Dirs : \A k \in Keys : files[d][k].t \in {"absent", "empty", "torn", "val"}
          /\ cur \in Dirs /\ Len(hs) <= MaxHandles /\ litter \subseteq Dirs
(* an entry is a COMPLETE value: never the first lines of one *)
NoPartial == \A d \in Dirs : \A k \in Keys : files[d][k].t = "val" => \E id \in ValIds : Val[id] = files[d][k].v
(* the null kinds never hold anything; only the disk kinds ever hold a foreign file *)
NullEmpty == /\ IsNull => \A d \in Dirs : \A k \in Keys : files[d][k] = Absent
             /\ ~IsDisk => \A d \in Dirs : \A k \in Keys : files[d][k].t \in {"absent", "val"}
(* one thread: a slot of the lock table holds exactly this thread's open handles, so everything is free once they are left *)
LocksBalanced == \A s \in Slots : arr[s] = (IF IsConc THEN Cardinality({i \in DOMAIN hs : Slot[hs[i].k] = s}) ELSE 0)
(* `in` says what the map says; what was read entirely is the stored value *)
Consistent == hist # <<>> =>
   /\ (Last.op = "in" => (Last.w = "true") = (files[cur][Last.k].t # "absent"))
   /\ (Last.op = "getset" /\ ~IsNull /\ Last.obs.r = "ok" /\ Last.a.u = "all") => files[cur][Last.k] = Stored(Last.obs.lines)
   /\ (Last.op = "getset" /\ Last.obs.r = "ok" /\ Last.a.u = "all" /\ Last.obs.called) => Last.obs.lines = Val[Last.a.v]
(* a getter that raises (at once or half-way) leaves no entry, its own exception reaches the caller; a refused lock changes nothing *)
FailLeavesNothing == hist # <<>> =>
   /\ (Last.op = "getset" /\ Last.obs.called /\ Fails(Last.a.f) # "none") => (Last.obs.r = "raise" /\ Last.obs.x = Fails(Last.a.f) /\ files[cur][Last.k] = Absent)
   /\ (Last.op = "getset" /\ Last.a.f = "none" /\ Last.obs.x = "err" /\ Last.a.u # "all") => files[cur][Last.k] = Absent
   /\ (Last.obs.x \in {"coba", "badkey"}) => (~Last.obs.called /\ (Len(hist) > 1 => Last.post.files = hist[Len(hist) - 1].post.files))

(* action properties *)
(* a present value is served as it is, without calling the getter, and stays *)
KeepOnHit == [][\A k \in Keys : (files[cur][k].t = "val" /\ ~IsNull /\ hist'[Len(hist')].op = "getset" /\ hist'[Len(hist')].k = k)
                   => (files'[cur][k] = files[cur][k] /\ ~hist'[Len(hist')].obs.called)]_vars
(* two different keys never share an entry: a call changes at most the entry of its own key in the current directory *)
IndependentKeys == [][\A d \in Dirs : \A k \in Keys : files'[d][k] # files[d][k] => (d = cur /\ hist'[Len(hist')].k = k)]_vars
(* only rmv, a put, the cleaning of a zero-length file and the environment ever change an entry; rmv of an absent key changes nothing *)
OnlyWriters == [][files' # files => hist'[Len(hist')].op \in {"rmv", "getset", "foreign"}]_vars
(* every miss calls the getter exactly once, every call is one step *)
OneStep == [][n' = n + 1 /\ Len(hist') = Len(hist) + 1]_vars

Emit == (n = MaxOps) => PrintT(ToJson([kind |-> kind, h |-> hist]))
=============================================================================
