\* X02 generator model (the driver substitutes MaxN, and INVARIANT NaiveBound for the expected refutation)
SPECIFICATION GenSpec
CONSTANTS
  MaxN = 2
INVARIANT Emit
INVARIANT RowsLeInteractions
INVARIANT LearnEqRows
INVARIANT OneUniformPerInteraction
INVARIANT CRange
INVARIANT Hindsight
INVARIANT TwoOutcomes
INVARIANT WellFormed
CHECK_DEADLOCK FALSE
