---------------------------- MODULE MC_CacherInd ----------------------------
(* Model constants and proof obligations for CacherInd.tla (X05), for Apalache and for TLC.
   The driver harness/drivers/x05.py writes one TLC-format cfg per run into its scratch directory
   (CONSTANTS Callers <- CallersN, Variant = "..", and for TLC DiskLike = ..), used by both tools:

     obligation          apalache-mc check --config=<cfg> --cinit=AnyDisk --length=L --init=..    --inv=..
     Init => IndInv                                                         0          Init         IndInv
     IndInv /\ Next => IndInv'                                              1          IndInit      IndInv
     IndInv => Safety                                                       0          IndInit      Safety
     LockInv /\ Next => LockInv'                                            1          LockInit     LockInv
     LockInv => LockSafety                                                  0          LockInit     LockSafety
     (guard) IndInit has states with steps                                  1          IndInit      AllIdle     must FAIL
     (guard) Variant = "wgrant" / "norel"                                   1          IndInit      IndInv      must FAIL
   (Init => LockInv is part of Init => IndInv: LockInv is a sub-conjunction of IndInv.)

   TLC (cross-check that IndInv and Safety hold on the reachable states, all actions taken):
     SPECIFICATION Spec  INVARIANT IndInv Safety *)
EXTENDS CacherInd

Callers2 == 1..2
Callers3 == 1..3
Callers4 == 1..4
Callers5 == 1..5
Callers6 == 1..6
Callers7 == 1..7

(* an arbitrary state that satisfies IndInv: every variable is drawn from its type, then constrained *)
IndInit == /\ pc \in [Callers -> PCs] /\ held \in [Callers -> -1..2] /\ arr \in Int
           /\ entry \in {"absent","writing","present"}
           /\ readers \in SUBSET Callers /\ nreaders \in SUBSET Callers /\ writers \in SUBSET Callers
           /\ gcalls \in 0..1
           /\ IndInv

(* the same for the lock part: entry and gcalls are arbitrary *)
LockInit == /\ pc \in [Callers -> PCs] /\ held \in [Callers -> -1..2] /\ arr \in Int
            /\ entry \in {"absent","writing","present"}
            /\ readers \in SUBSET Callers /\ nreaders \in SUBSET Callers /\ writers \in SUBSET Callers
            /\ gcalls \in Int
            /\ LockInv

(* Apalache --cinit: both kinds of inner cache in one run (DiskLike is left out of the cfg then) *)
AnyDisk == DiskLike \in BOOLEAN

(* guard: must be refuted from IndInit within one step (the induction step is not vacuous) *)
AllIdle == \A c \in Callers : pc[c] = "idle"
=============================================================================
