------------------------------ MODULE ExpPlan ------------------------------
(***************************************************************************)
(* Decision-table use of ExperimentLog.tla: for every (shape, restored     *)
(* record keys, maxtasksperchunk) TLC evaluates MakeTasks and ChunkTasks    *)
(* and prints the expected task list and chunk list as JSON; the driver    *)
(* (harness/drivers/c01.py) feeds the same inputs to the real              *)
(* coba.experiments.process.MakeTasks / ChunkTasks and compares exactly    *)
(* (ids, copy flags, order, chunk boundaries).                             *)
(***************************************************************************)
EXTENDS MC_ExperimentLog, Json
VARIABLE pc
PlanKeys(s) == ParamKeys(s) \cup TripleKeys(s)
Rs(s) == {X \in SUBSET PlanKeys(s) : Cardinality(X) <= 2} \cup {PlanKeys(s)}     \* restored record keys: none, few, all
PlanQuick    == ShapesOf(2,0) \cup Curated
PlanThorough == ShapesOf(3,0) \cup Curated
CONSTANT PlanShapes
TaskJ(t) == <<t.e, t.l, t.v, IF t.copy THEN 1 ELSE 0>>
Out(c) == LET tasks == MakeTasks(c.shape.tr, c.R)
              chunks == ChunkTasks(tasks, c.shape.ch, c.mt)
          IN [tr |-> c.shape.tr, ch |-> c.shape.ch, R |-> c.R, mt |-> c.mt,
              tasks |-> [i \in DOMAIN tasks |-> TaskJ(tasks[i])],
              chunks |-> [i \in DOMAIN chunks |-> [j \in DOMAIN chunks[i] |-> TaskJ(chunks[i][j])]],
              order |-> [i \in DOMAIN chunks |-> [j \in DOMAIN Work(chunks[i]) |-> Work(chunks[i])[j].k]]]
(* one cheap initial state per case; the case is evaluated and printed in its single successor,
   so that TLC's workers share the work *)
VARIABLE go
PInit == \E s \in PlanShapes : \E m \in 0..2 : \E R \in Rs(s) :
            pc = [shape |-> s, R |-> R, mt |-> m] /\ go = FALSE /\ shape = s /\ InitRest
PNext == ~go /\ go' = TRUE /\ UNCHANGED <<pc, vars>>
PSpec == PInit /\ [][PNext]_<<pc, go, vars>>
Emit1 == go => PrintT(ToJson(Out(pc)))
=============================================================================
