\* C12: one configuration, re-written by the driver per run (Mode and bounds substituted textually)
SPECIFICATION Spec
CONSTANTS
  Mode = "delim"
  Syms = {"x", "E", "L", "C"}
  MaxSyms = 3
  CutMode = "all"
  K = 1
  Shapes = {"nsc"}
  Rich = FALSE
  SparseSet = {FALSE, TRUE}
  Reads = 2
INVARIANT DelimPrefix
INVARIANT DelimDone
INVARIANT WriteRead
INVARIANT AppendRead
INVARIANT ConcatLines
INVARIANT ArffSound
INVARIANT CsvSound
INVARIANT SvmSound
INVARIANT ArffReuse
INVARIANT CsvReuse
INVARIANT SvmReuse
INVARIANT ArffRepeat
INVARIANT CsvRepeat
INVARIANT SvmRepeat
INVARIANT DelimEmit
INVARIANT ArffEmit
INVARIANT CsvEmit
INVARIANT SvmEmit
CHECK_DEADLOCK FALSE
