\* C12: one configuration, re-written by the driver per run (Mode and bounds substituted textually)
SPECIFICATION Spec
CONSTANTS
  Mode = "delim"
  Syms = {"x", "E", "L", "C"}
  MaxSyms = 3
  CutMode = "all"
  K = 1
  Shapes = {"nsc"}
  Rich = FALSE
  SparseSet = {FALSE, TRUE}
INVARIANT DelimPrefix
INVARIANT DelimDone
INVARIANT WriteRead
INVARIANT ArffSound
INVARIANT CsvSound
INVARIANT SvmSound
INVARIANT DelimEmit
INVARIANT ArffEmit
INVARIANT CsvEmit
INVARIANT SvmEmit
CHECK_DEADLOCK FALSE
