---------------------------- MODULE MC_OpenmlLoad ----------------------------
(* Model constants for OpenmlLoad.tla.  Configurations are enumerated STRUCTURALLY in the initial predicate
   (BUILDING.md pitfall 1).  Two families:
     Seq*  one loader "a", 1-3 reads of the same object, every failure placement: the behaviour is deterministic, its
           event history is printed (EmitHist) and replayed on the real OpenmlSource by harness/drivers/x01.py;
     Con*  two or three concurrent loaders of the same / of two datasets: exhaustive interleavings, safety + liveness. *)
EXTENDS OpenmlLoad

mcLoaders  == {"a","b","c"}
mcDatasets == {"d1","d2"}
None == {}

mcLoaders2 == {"a","b"}
mcLoaders1 == {"a"}
Fn(a,b,c)    == [l \in Loaders |-> IF l = "a" THEN a ELSE IF l = "b" THEN b ELSE c]
Script1(k,s) == <<(<<k,s>>)>>
Script2(k1,s1,k2,s2) == IF k1 = k2 THEN <<(<<k1, s1 \o s2>>)>> ELSE <<(<<k1,s1>>), (<<k2,s2>>)>>
NoScript     == <<>>
(* the cache at the beginning, by name *)
PreOf(p) == [x \in Keys |->
   IF p = "none" THEN "absent"
   ELSE IF p = "all"   THEN (IF x \in {"d1t","d1d","d1f","d1a"} THEN "good" ELSE "absent")
   ELSE IF p = "df"    THEN (IF x \in {"d1d","d1f"} THEN "good" ELSE "absent")
   ELSE IF p = "t"     THEN (IF x = "d1t" THEN "good" ELSE "absent")
   ELSE IF p = "dfa"   THEN (IF x \in {"d1d","d1f","d1a"} THEN "good" ELSE "absent")
   ELSE IF p = "badd"  THEN (IF x = "d1d" THEN "bad" ELSE IF x \in {"d1t","d1f","d1a"} THEN "good" ELSE "absent")
   ELSE IF p = "badf"  THEN (IF x = "d1f" THEN "bad" ELSE IF x \in {"d1t","d1d","d1a"} THEN "good" ELSE "absent")
   ELSE IF p = "bada"  THEN (IF x = "d1a" THEN "bad" ELSE IF x \in {"d1t","d1d","d1f"} THEN "good" ELSE "absent")
   ELSE IF p = "badt"  THEN (IF x = "d1t" THEN "bad" ELSE IF x \in {"d1d","d1f","d1a"} THEN "good" ELSE "absent")
   ELSE "absent"]
AllPres == {"none","all","df","t","dfa","badd","badf","bada","badt"}

(* outcome sequences of the successive requests of one document *)
JSeqs == {<<"to">>, <<"to","to">>, <<"to","to","to">>, <<"to","to","to","to">>, <<"herr">>, <<"boom">>, <<"corrupt">>,
          <<"to","herr">>, <<"to","to","boom">>, <<"to","corrupt">>}
ASeqs == JSeqs \cup {<<"tomid">>, <<"tomid","to","to">>, <<"to","tomid">>}
SeqsOf(kd) == IF kd = "a" THEN ASeqs ELSE JSeqs
OneScripts(QuickOnly) ==
   {NoScript} \cup UNION {{Script1(Key("d1",kd), s) : s \in (IF QuickOnly THEN SeqsOf(kd) \ {<<"to","to">>, <<"to","to","to","to">>, <<"to","to","boom">>, <<"to","tomid">>} ELSE SeqsOf(kd))} : kd \in Kinds}
Short == {<<"herr">>, <<"boom">>, <<"corrupt">>, <<"to","to","to">>}
TwoScripts == UNION {{Script2(Key("d1",k1), s1, Key("d1",k2), s2) : s1 \in Short, s2 \in Short} : k1 \in Kinds, k2 \in {"f","a"}}

ReadPatsQ == {<<-1,-1>>, <<1,-1>>, <<-1,2,-1>>}
ReadPatsT == ReadPatsQ \cup {<<-1>>, <<2>>, <<1,1,-1>>, <<-1,-1,-1>>, <<3,-1>>}
Doms      == {"ok","deact","notarget","badtype","nosrc"}

SeqCfg(cap,fm,dm,nn,p,rp,sc) ==
   cfg = [cap |-> cap, form |-> Fn(fm,"data","data"), ds |-> Fn("d1","d1","d1"), reads |-> Fn(Len(rp),0,0),
    ab |-> Fn(rp,<<>>,<<>>), n |-> Fn(nn,2,2), dom |-> [d \in mcDatasets |-> IF d = "d1" THEN dm ELSE "ok"],
    script |-> sc, pre |-> p] /\ cache = PreOf(p)
(* quick: every single-document script x every initial cache x both forms x with/without semaphore (dom = ok);
          every domain outcome with few scripts *)
SeqInitQ ==
   \/ \E cap \in {0,1}, fm \in {"data","task"}, p \in AllPres \ {"t","dfa"}, rp \in ReadPatsQ : \E sc \in OneScripts(TRUE) :
         SeqCfg(cap, fm, "ok", IF cap = 0 THEN 2 ELSE 3, p, rp, sc)
   \/ \E cap \in {0,1}, fm \in {"data","task"}, dm \in Doms \ {"ok"}, p \in {"none","all","df","badd"}, rp \in {<<-1,-1>>} :
         \E sc \in {NoScript, Script1("d1d",<<"herr">>), Script1("d1f",<<"boom">>), Script1("d1t",<<"to">>)} :
         SeqCfg(cap, fm, dm, 2, p, rp, sc)
DomScripts == {NoScript, Script1("d1t",<<"herr">>), Script1("d1t",<<"corrupt">>), Script1("d1t",<<"to","to","to">>), Script1("d1d",<<"herr">>),
               Script1("d1d",<<"boom">>), Script1("d1d",<<"corrupt">>), Script1("d1f",<<"boom">>), Script1("d1a",<<"herr">>)}
SeqInitT ==
   \/ \E cap \in {0,1}, fm \in {"data","task"}, p \in AllPres, rp \in ReadPatsT : \E sc \in OneScripts(FALSE) :
         SeqCfg(cap, fm, "ok", IF cap = 1 \/ rp = <<3,-1>> THEN 3 ELSE 2, p, rp, sc)
   \/ \E cap \in {0,1}, fm \in {"data","task"}, p \in {"none","df","badf"}, rp \in {<<-1,-1>>, <<1,-1,-1>>} : \E sc \in TwoScripts :
         SeqCfg(cap, fm, "ok", 2, p, rp, sc)
   \/ \E cap \in {0,1}, fm \in {"data","task"}, dm \in Doms \ {"ok"}, p \in AllPres, rp \in {<<-1,-1>>, <<1,-1>>} :
         \E sc \in DomScripts : SeqCfg(cap, fm, dm, 2, p, rp, sc)

(* ---- concurrent loaders: shapes = who loads what, how ---- *)
Shape(fa,fb,fc, da,db,dc, ra,rb,rc, aa,ab_,ac, na,nb,nc) ==
   [form |-> Fn(fa,fb,fc), ds |-> Fn(da,db,dc), reads |-> Fn(ra,rb,rc), ab |-> Fn(aa,ab_,ac), n |-> Fn(na,nb,nc)]
Shapes2 == {
   Shape("data","data","data", "d1","d1","d1", 1,1,0, <<>>,<<>>,<<>>, 2,1,1),      \* two loaders of the same dataset (different drop_missing)
   Shape("data","task","data", "d1","d1","d1", 1,1,0, <<>>,<<1>>,<<>>, 1,2,1),     \* by data id and by task id; one abandons
   Shape("task","task","data", "d1","d1","d1", 1,1,0, <<>>,<<>>,<<>>, 1,1,1),      \* both by task id
   Shape("data","data","data", "d1","d2","d1", 1,1,0, <<>>,<<>>,<<>>, 1,1,1),      \* two datasets
   Shape("data","task","data", "d1","d1","d1", 2,1,0, <<1>>,<<>>,<<>>, 1,1,1),     \* a reads twice
   Shape("task","task","data", "d1","d1","d1", 2,1,0, <<>>,<<>>,<<>>, 1,1,1) }     \* a re-read object that knows its data id
Shapes3 == {
   Shape("data","data","data", "d1","d1","d1", 1,1,1, <<>>,<<>>,<<>>, 1,1,1),
   Shape("task","data","data", "d1","d1","d2", 1,1,1, <<>>,<<1>>,<<>>, 1,1,1),
   Shape("task","task","data", "d1","d1","d1", 1,1,1, <<>>,<<>>,<<>>, 1,1,1) }
ConCfg(cap,sh,dm,p,sc) ==
   cfg = [cap |-> cap, form |-> sh.form, ds |-> sh.ds, reads |-> sh.reads, ab |-> sh.ab, n |-> sh.n,
    dom |-> [d \in mcDatasets |-> IF d = "d1" THEN dm ELSE "ok"], script |-> sc, pre |-> p] /\ cache = PreOf(p)
ConOne(S) == {NoScript} \cup UNION {{Script1(Key("d1",kd), s) : s \in S} : kd \in Kinds}
QScripts == {NoScript, Script1("d1a",<<"herr">>), Script1("d1f",<<"boom">>), Script1("d1d",<<"corrupt">>),
             Script1("d1t",<<"corrupt">>), Script1("d1a",<<"to","to","to">>), Script1("d1t",<<"boom">>)}
Big(x) == x.reads["a"] = 2
Con2InitQ ==
   \/ \E cap \in {2}, sh \in {x \in Shapes2 : ~Big(x)}, p \in {"none"} :
         \E sc \in {NoScript, Script1("d1a",<<"boom">>), Script1("d1t",<<"corrupt">>), Script1("d1d",<<"herr">>)} : ConCfg(cap, sh, "ok", p, sc)
   \/ \E cap \in {2}, sh \in {x \in Shapes2 : Big(x)}, p \in {"none"} : \E sc \in {NoScript, Script1("d1d",<<"herr">>)} : ConCfg(cap, sh, "ok", p, sc)
   \/ \E cap \in {2}, sh \in {x \in Shapes2 : ~Big(x)}, p \in {"bada","badt"} : ConCfg(cap, sh, "ok", p, NoScript)
   \/ \E cap \in {1}, sh \in Shapes2, p \in {"none"} : \E sc \in {NoScript, Script1("d1f",<<"boom">>)} : ConCfg(cap, sh, "ok", p, sc)
   \/ \E cap \in {2}, sh \in {x \in Shapes2 : ~Big(x)}, dm \in {"deact","nosrc"}, p \in {"none","all"} : ConCfg(cap, sh, dm, p, NoScript)
Con3InitQ ==
   \E cap \in {2}, sh \in {CHOOSE x \in Shapes3 : x.form["a"] = "task" /\ x.ds["c"] = "d2"}, p \in {"none"} :
         \E sc \in {Script1("d1a",<<"boom">>)} : ConCfg(cap, sh, "ok", p, sc)
Con2InitT ==
   \/ \E cap \in {1,2}, sh \in Shapes2, p \in {"none","df","bada","badt","badd"} :
         \E sc \in ConOne({<<"herr">>, <<"boom">>, <<"corrupt">>, <<"to","to","to">>, <<"corrupt","boom">>}) : ConCfg(cap, sh, "ok", p, sc)
   \/ \E cap \in {1,2}, sh \in Shapes2, dm \in Doms \ {"ok"}, p \in {"none","all","df"} :
         \E sc \in {NoScript, Script1("d1d",<<"boom">>)} : ConCfg(cap, sh, dm, p, sc)
   \/ \E cap \in {2}, sh \in {x \in Shapes2 : ~Big(x) /\ x.form["b"] = "task"}, p \in {"none"} : \E sc \in TwoScripts : ConCfg(cap, sh, "ok", p, sc)
Con3InitT ==
   \/ \E cap \in {2}, sh \in Shapes3, p \in {"none"} :
         \E sc \in {NoScript, Script1("d1a",<<"boom">>), Script1("d1t",<<"corrupt">>), Script1("d1d",<<"herr">>)} : ConCfg(cap, sh, "ok", p, sc)
   \/ \E cap \in {3}, sh \in Shapes3, p \in {"none"} : \E sc \in {NoScript, Script1("d1t",<<"corrupt">>)} : ConCfg(cap, sh, "ok", p, sc)
   \/ \E cap \in {1}, sh \in Shapes3, p \in {"none","bada"} : \E sc \in {NoScript, Script1("d1f",<<"boom">>), Script1("d1t",<<"corrupt">>)} : ConCfg(cap, sh, "ok", p, sc)

(* liveness is checked (PROPERTY Terminates, weak fairness per loader) on the *Live families; the larger families are
   checked for safety and for deadlock (a state without successor that is not AllDone), which is equivalent to
   termination under weak fairness as long as the state graph is acyclic - which the Live runs confirm *)
Con2LiveQ == \E cap \in {1,2}, sh \in {x \in Shapes2 : x.form["b"] = "task" /\ x.reads["a"] = 1}, p \in {"none"} :
                \E sc \in {Script1("d1a",<<"boom">>), Script1("d1t",<<"corrupt">>)} : ConCfg(cap, sh, "ok", p, sc)
Con2LiveT == \E cap \in {1,2}, sh \in {x \in Shapes2 : ~Big(x)}, p \in {"none","bada","badt"} : \E sc \in QScripts : ConCfg(cap, sh, "ok", p, sc)
NextD == Next \/ (AllDone /\ UNCHANGED vars)
SeqSpecQ   == SeqInitQ  /\ InitRest /\ [][NextD]_vars
SeqSpecT   == SeqInitT  /\ InitRest /\ [][NextD]_vars
Con2SpecQ  == Con2InitQ /\ InitRest /\ [][NextD]_vars
Con2SpecT  == Con2InitT /\ InitRest /\ [][NextD]_vars
Con3SpecQ  == Con3InitQ /\ InitRest /\ [][NextD]_vars
Con3SpecT  == Con3InitT /\ InitRest /\ [][NextD]_vars
LiveSpecQ  == Con2LiveQ /\ InitRest /\ [][Next]_vars /\ Fair
LiveSpecT  == Con2LiveT /\ InitRest /\ [][Next]_vars /\ Fair
=============================================================================
