---------------------------- MODULE MC_Encoders ----------------------------
(* the <<kind, alphabet>> sets of the runs of harness/drivers/x12.py *)
EXTENDS Encoders
NF      == {<<"onehot", "abc">>, <<"factor", "abc">>, <<"categorical", "abc">>, <<"missing_onehot", "onehot_missing">>}
NF3     == {<<"onehot", "abc">>, <<"factor", "abc">>, <<"categorical", "abc">>}
NFX     == {<<"onehot", "mixed">>, <<"factor", "ints">>, <<"categorical", "mixed">>}
TX      == {<<"identity", "text">>, <<"string", "text">>, <<"numeric", "text">>, <<"missing", "text">>, <<"missing_numeric", "text">>, <<"missing_custom", "text">>}
TXN     == {<<"numeric", "text">>, <<"missing_numeric", "text">>}
All     == NF \cup NFX \cup TX
OneHot  == {<<"onehot", "abc">>}
Factor  == {<<"factor", "abc">>}
Categ   == {<<"categorical", "abc">>}
MissOH  == {<<"missing_onehot", "onehot_missing">>}
Numeric == {<<"numeric", "text">>}
=============================================================================
