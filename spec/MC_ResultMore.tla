---------------------------- MODULE MC_ResultMore ----------------------------
(* Model constants for ResultMore.tla; harness/drivers/x13.py picks them per run by textual substitution in ResultMore.cfg *)
EXTENDS ResultMore
(* ---- parameter columns (as in MC_ResultFin: sequences indexed by id, duplicates on purpose) *)
PDistinct == [ea |-> <<1,2,3>>, eb |-> <<0,0,0>>, la |-> <<1,2,3>>, lb |-> <<0,0,0>>, va |-> <<1,2>>]
PDup      == [ea |-> <<1,1,2>>, eb |-> <<0,0,1>>, la |-> <<1,1,2>>, lb |-> <<0,1,0>>, va |-> <<1,1>>]
PDup2     == [ea |-> <<1,1,2>>, eb |-> <<0,1,0>>, la |-> <<1,1,1>>, lb |-> <<0,1,1>>, va |-> <<1,2>>]
PDup3     == [ea |-> <<1,2,1>>, eb |-> <<1,1,1>>, la |-> <<2,1,2>>, lb |-> <<0,0,0>>, va |-> <<1,1>>]
P1 == {PDistinct}
P2 == {PDistinct, PDup}
P4 == {PDistinct, PDup, PDup2, PDup3}
LP3 == {<<0,0,0,1>>, <<1,1,1,0>>, <<1,2,0,1>>}
LP6 == {<<0,0,0,1>>, <<1,0,0,0>>, <<0,1,0,0>>, <<1,1,1,0>>, <<1,2,0,1>>, <<2,1,1,0>>}
D221 == {<<2,2,1>>}
D222 == {<<2,2,2>>}
D321 == {<<3,2,1>>}
D231 == {<<2,3,1>>}
D331 == {<<3,3,1>>}
D232 == {<<2,3,2>>}
DSome == {<<2,2,1>>, <<2,2,2>>, <<3,2,1>>, <<2,3,1>>}
DAll == {<<2,2,1>>, <<2,2,2>>, <<3,2,1>>, <<2,3,1>>, <<2,3,2>>, <<3,3,1>>}
Bools == {TRUE, FALSE}
OnlyF == {FALSE}
OnlyT == {TRUE}
None0 == {}
Plain == {[ea |-> "ea", eb |-> "eb", la |-> "la", lb |-> "lb", va |-> "va"]}
(* ---- column choices *)
Lid == <<"learner_id">>
La  == <<"la">>
Lab == <<"la","lb">>
Lav == <<"la","va">>
Pid == <<"environment_id">>
Pa  == <<"ea">>
Pab == <<"ea","eb">>
Pv  == <<"environment_id","evaluator_id">>
Vid == <<"evaluator_id">>
Pel == <<"environment_id","learner_id">>
X == <<"index">>
(* ---- conditions: sequences of atoms <<kind, column, operator, values>> *)
K(col, op, vs) == <<"kw", col, op, vs>>
EnvFew == { <<K("environment_id","in",{1,2})>>, <<K("environment_id","eq",{2})>>, <<K("ea","eq",{1})>>,
            <<<<"pred","environment_id","in",{1,3}>>>>, <<<<"call","eb","in",{0}>>>>, <<K("ea","eq",{2}), K("eb","eq",{1})>> }
EnvAll == EnvFew \cup { <<K("environment_id","ne",{1})>>, <<K("environment_id","nin",{1,3})>>, <<K("environment_id","le",{1})>>,
                        <<K("environment_id","gt",{1})>>, <<K("environment_id","eq",{3})>>, <<K("ea","in",{2,3})>>, <<K("ea","ne",{1})>>,
                        <<K("eb","nin",{0})>>, <<<<"pred","ea","eq",{1}>>>>, <<<<"call","environment_id","ge",{2}>>>>,
                        <<K("environment_id","eq",{1}), K("ea","eq",{2})>>, <<K("ea","eq",{7})>> }
EnvMid == EnvFew \cup { <<K("environment_id","ne",{1})>>, <<K("environment_id","le",{1})>>, <<K("environment_id","eq",{3})>>, <<K("ea","in",{2,3})>>,
                        <<K("eb","nin",{0})>>, <<<<"call","environment_id","ge",{2}>>>> }
LrnFew == { <<K("learner_id","in",{1})>>, <<K("la","eq",{1})>>, <<K("learner_id","ne",{1})>>,
            <<<<"pred","learner_id","in",{2,3}>>>>, <<<<"call","lb","in",{0}>>>>, <<K("la","eq",{2}), K("lb","eq",{1})>> }
LrnAll == LrnFew \cup { <<K("learner_id","in",{1,2})>>, <<K("learner_id","nin",{2})>>, <<K("learner_id","lt",{2})>>, <<K("learner_id","ge",{2})>>,
                        <<K("la","in",{1,3})>>, <<K("la","ne",{1})>>, <<K("lb","eq",{1})>>, <<<<"pred","la","in",{2}>>>>,
                        <<<<"call","learner_id","le",{1}>>>>, <<K("learner_id","eq",{9})>> }
LrnMid == LrnFew \cup { <<K("learner_id","nin",{2})>>, <<K("learner_id","lt",{2})>>, <<K("la","in",{1,3})>>, <<<<"pred","la","in",{2}>>>>, <<K("learner_id","eq",{9})>> }
ValFew == { <<K("evaluator_id","eq",{1})>>, <<K("va","in",{2})>>, <<<<"pred","evaluator_id","in",{2}>>>> }
ValAll == ValFew \cup { <<K("evaluator_id","ne",{1})>>, <<K("va","eq",{1})>>, <<<<"call","va","in",{1}>>>>, <<K("evaluator_id","in",{1,2})>> }
Env2 == { <<K("environment_id","in",{1})>>, <<K("ea","ne",{1})>> }
Lrn2 == { <<K("learner_id","eq",{2})>>, <<<<"pred","la","in",{1}>>>> }
Val1 == { <<K("evaluator_id","eq",{1})>> }
Int2 == { K("index","le",{1}), K("reward","gt",{5}) }
IntFew == { K("index","le",{1}), K("index","ge",{2}), K("reward","gt",{5}), <<"pred","reward","le",{4}>>, K("environment_id","in",{1}),
            <<"call","index","lt",{2}>> }
IntAll == IntFew \cup { K("index","lt",{3}), K("index","eq",{2}), K("index","in",{1,3}), K("index","ne",{1}), K("index","gt",{4}),
                        K("reward","le",{3}), K("reward","ge",{9}), K("reward","eq",{0}), K("reward","nin",{0,1,2,3}),
                        <<"pred","index","le",{2}>>, <<"pred","learner_id","eq",{2}>>, <<"call","reward","gt",{6}>>,
                        K("learner_id","ne",{1}), K("evaluator_id","eq",{1}) }
IntMid == IntFew \cup { K("index","lt",{3}), K("index","in",{1,3}), K("reward","le",{3}), K("reward","eq",{0}), <<"pred","learner_id","eq",{2}>>,
                        K("learner_id","ne",{1}) }
(* ---- raw_contrast: <<A, B, x, l, p, span>> *)
L1(a) == {<<a>>}
CtrFew == { <<L1(1), L1(2), Pid, Lid, Pid, 0>>, <<L1(1), L1(2), X, Lid, Pid, 0>>, <<L1(2), L1(1), X, Lid, Pid, 2>>,
            <<L1(2), L1(1), Pa, Lid, Pid, 1>>, <<L1(1), L1(1), Pid, Lid, Pid, 0>>, <<L1(1), L1(2), Pid, La, Pid, 0>>,
            <<L1(1), L1(2), Pid, Pa, Lid, 0>>, <<L1(1), L1(3), X, Lid, Pv, 0>>, <<L1(1), L1(2), Pid, <<"nocol">>, Pid, 0>>, <<{<<1,0>>}, {<<2,0>>}, Pab, Lab, Pid, 0>> }
CtrAll == CtrFew \cup
          ({L1(1)} \X {L1(2), L1(3)} \X {X, Pid, Pa, Pab} \X {Lid} \X {Pid, Pv} \X {0, 1, 2})
          \cup ({L1(2)} \X {L1(1)} \X {X, Pid} \X {La} \X {Pid, Pa, Pv} \X {0, 2})
          \cup ({L1(1), L1(2)} \X {L1(2), L1(3)} \X {X, Pid, Pa} \X {Pa, Pid} \X {Lid, Pel} \X {0, 1})        \* l = an environment column, pairs = learners
          \cup ({L1(1)} \X {L1(2)} \X {X, Pid, Lid} \X {Vid} \X {Pel, Pid} \X {0, 3})                          \* l = evaluator_id
          \cup ({{<<1>>, <<2>>}} \X {L1(3)} \X {Pa, Pid} \X {Pa, Lid} \X {Lid, Pid} \X {0})                    \* several levels as l1
          \cup ({L1(3)} \X {{<<1>>, <<2>>}} \X {Lid, La} \X {Lid} \X {Pid} \X {0, 1})                          \* several levels as l2, x = l
          \cup ({{<<1,0>>}, {<<1,1>>}} \X {{<<2,0>>}, {<<1,0>>}} \X {X, Pab, Pid} \X {Lab} \X {Pid, Pab} \X {0, 2})
CtrMid == CtrFew \cup
          ({L1(1)} \X {L1(2)} \X {X, Pid, Pa} \X {Lid} \X {Pid, Pv} \X {0, 2})
          \cup ({L1(2)} \X {L1(1)} \X {X, Pid} \X {La} \X {Pid, Pa} \X {0, 1})
          \cup ({L1(1)} \X {L1(2)} \X {X, Pid, Pa} \X {Pa, Pid} \X {Lid} \X {0, 1})
          \cup ({L1(1)} \X {L1(2)} \X {X, Lid} \X {Vid} \X {Pel} \X {0, 3})
          \cup ({{<<1>>, <<2>>}} \X {L1(3)} \X {Pa, Pid} \X {Pa, Lid} \X {Lid, Pid} \X {0})
          \cup ({L1(3)} \X {{<<1>>, <<2>>}} \X {Lid} \X {Lid} \X {Pid} \X {0, 1})
          \cup ({{<<1,0>>}} \X {{<<2,0>>}, {<<1,1>>}} \X {X, Pab} \X {Lab} \X {Pid, Pab} \X {0, 2})
(* ---- where_best: <<l, p, nb>> *)
BestMid == {La, Lab, Lid} \X {Pid, Pa, Pv, <<>>} \X {0, 1}
BestFew == {<<La, Pid, 0>>, <<La, Pa, 1>>, <<La, <<>>, 0>>, <<Lab, Pid, 2>>}
BestAll == {La, Lab, Lid, Lav} \X {Pid, Pa, Pab, Pv, <<>>} \X {0, 1, 2}
(* ---- operations *)
AllX == {"copy", "setexp", "load", "fpar", "fint", "best", "contrast", "eq"}
CallsX == {"fpar", "fint", "best", "contrast"}
ObjX == {"copy", "setexp", "load", "fpar", "fint", "eq"}
CtrBest == {"contrast", "best"}
DesignOnly == {"design"}
OnlyCtr == {"contrast"}
OnlyBest == {"best"}
OnlyFil == {"fpar", "fint"}
Exp01 == {0, 1}
Exp1 == {1}
Exp12 == {1, 2}
Exp012 == {0, 1, 2}
(* ---- logged mode *)
E2 == {1, 2}
E3 == {1, 2, 3}
V01 == {0, 1}
V012 == {0, 1, 2}
Len02 == {0, 2}
Len012 == {0, 1, 2}
(* ---- table mode *)
TV2 == {0, 1}
TV3 == {0, 1, 2}
TI == {0, 1, 2, 3}
TI13 == {1, 3}
TW3 == {<<>>, <<"c", {1, 2}>>}
TWFew == {<<>>, <<"a", {1}>>, <<"c", {0}>>}
TWAll == {<<>>, <<"a", {1}>>, <<"a", {0, 1}>>, <<"b", {0}>>, <<"c", {0}>>, <<"c", {1, 2}>>, <<"b", {5}>>}
(* ---- unused ResultFin constants *)
NoArgs == {}
N2 == {0, -1, 1, 2}
NoW1 == {[k |-> "none", s |-> <<>>]}
=============================================================================
