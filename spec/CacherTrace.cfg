SPECIFICATION TraceSpec
CONSTANTS
  Callers <- trCallers
  Keys <- trKeys
  Idx <- trIdx
  DiskLike = FALSE
  ProgSet <- trNone
INVARIANT MutexRW
INVARIANT NoBad
INVARIANT SingleFlight
INVARIANT Released
INVARIANT ArrSane
INVARIANT TableAgrees
INVARIANT EndDone
INVARIANT Accept
CHECK_DEADLOCK FALSE
