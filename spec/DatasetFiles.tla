---------------------------- MODULE DatasetFiles ----------------------------
(***************************************************************************)
(* C12 - what coba reads from a dataset file is what the file says.        *)
(*                                                                         *)
(* The module holds the two halves of the property; `Mode` selects one.    *)
(*                                                                         *)
(* Mode = "delim"  (byte delivery; coba/pipes/sources.py 179-198           *)
(*   HttpSource._byte_it_, 213-248 DelimSource, 79-113 DiskSource,         *)
(*   coba/pipes/sinks.py 90-102 DiskSink.write).                           *)
(*   A text is a sequence of characters x, y (the driver sends a blank    *)
(*   for y, a letter for x), E (a two-byte character),                     *)
(*   W (a three-byte character), L (LF) and C (CR LF); it is delivered as  *)
(*   bytes cut into chunks at an arbitrary set of positions.  The state    *)
(*   machine Feed / End is the reference line assembler (incremental       *)
(*   decoder + terminator that may straddle a cut); TLC checks in every    *)
(*   state that what it emitted is a prefix of, and at the end equal to,   *)
(*   SplitLines(Decode(bytes)) - the lines of the text read at once.  The  *)
(*   content encodings (identity / gzip / deflate) are byte-stream         *)
(*   transducers: they change where the cuts fall, never the bytes, so the *)
(*   expected lines are the same for all three.                            *)
(*                                                                         *)
(* Mode = "arff" / "csv" / "svm"  (coba/pipes/readers.py: ArffReader       *)
(*   274-317 with ArffAttrReader 40-120, ArffDataReader 122-152,           *)
(*   ArffLineReader 154-272; CsvReader 17-38; LibsvmReader 319-339;        *)
(*   ManikReader 341-352; rows.py LazyDense / LazySparse / HeadRows).      *)
(*   A case = a table (shape + contents) and one value for every lexical   *)
(*   choice point of the format grammar.  Every choice point has a default *)
(*   (what Weka / OpenML / an RFC-4180 writer emits); a case departs from  *)
(*   the defaults in at most K fields (contents included), so that every   *)
(*   combination of K quirks is produced.  Write(table, cfg) is the file;  *)
(*   Parse(file) is the reference grammar (Weka's tokenizer: blanks, tabs  *)
(*   and commas separate tokens, ' and " quote, backslash escapes the next *)
(*   character, % starts a comment; RFC 4180 for csv; strtok(" \t") for    *)
(*   libsvm / manik).  TLC checks WriterSound: Parse(Write(t, cfg)) = t    *)
(*   for every case, which guards the oracle itself.  `common` says        *)
(*   whether every lexical choice is one the common dialect makes: such    *)
(*   files must be accepted; any other must parse to the table or raise.   *)
(*                                                                         *)
(* REUSE RULE.  What is read is a function of the file's bytes and of the   *)
(* reader's / source's constructor parameters only: an object carries       *)
(* nothing from one application to the next.  In the spec this is the fact  *)
(* that Parse is an operator of the file alone; it is stated for histories  *)
(* as ReadHistory / ArffReuse, CsvReuse, SvmReuse (one reader object        *)
(* applied to <<f, g, f>> gives <<T(f), T(g), T(f)>>, g = the default file  *)
(* of the case's shape), and for sources by the action Again: after End the *)
(* same source is read a second time (Reads = 2) from a fresh assembler and *)
(* must emit the same lines (DelimDone holds after every read).  The driver *)
(* replays it with ONE reader object over file A, another file B, A again   *)
(* (also interleaved, also after a file that is rejected), one source /     *)
(* environment object read twice, and one DiskSink written twice (append:   *)
(* LfBytes(a) \o LfBytes(b) reads back as a \o b, invariant AppendRead).    *)
(*                                                                         *)
(* LONG BODIES.  A text that ends in a terminator can be repeated: the      *)
(* lines of t \o t are the lines of t followed by the lines of t            *)
(* (ConcatLines; by induction for any number of repetitions), and a table   *)
(* file whose data lines are written twice is the table with its rows       *)
(* twice (ArffRepeat, CsvRepeat, SvmRepeat).  The driver uses this to build *)
(* long, highly compressible bodies (a piece repeated 50-500 times, files   *)
(* of >= 1000 rows) whose expected lines / rows are still the spec's, and   *)
(* delivers them really compressed in many chunk sizes.                    *)
(*                                                                         *)
(* Text is a sequence of pieces (one-character strings, or a keyword as    *)
(* one piece); Str() concatenates them for printing.  "~" stands for a     *)
(* non-ASCII character (mapped by the driver).  Numbers are tenths.        *)
(***************************************************************************)
EXTENDS Integers, Sequences, FiniteSets, TLC, Json

CONSTANTS Mode,      \* "delim" | "arff" | "csv" | "svm"
          Syms,      \* delim: alphabet of the text
          MaxSyms,   \* delim: longest text
          CutMode,   \* delim: "all" (every set of cut positions) | "uniform" (every fixed chunk size)
          K,         \* tables: at most K fields depart from their default
          Shapes,    \* tables: which shapes to enumerate
          SparseSet, \* arff: {FALSE} dense rows, {TRUE} sparse rows, or both
          Rich,      \* tables: TRUE = the large option sets
          Reads      \* delim: how many times the same source is read (1 or 2)

VARIABLES inp,   \* the case (constant along a behaviour)
          dl,    \* delim: state of the line assembler
          done
vars == <<inp, dl, done>>

RECURSIVE Str(_)
Str(cs) == IF cs = <<>> THEN "" ELSE cs[1] \o Str(Tail(cs))
RECURSIVE Flat(_)
Flat(ss) == IF ss = <<>> THEN <<>> ELSE ss[1] \o Flat(Tail(ss))
Min(S) == CHOOSE x \in S : \A y \in S : x <= y
RECURSIVE Join(_,_)
Join(ss, sep) == IF ss = <<>> THEN <<>> ELSE IF Len(ss) = 1 THEN ss[1] ELSE ss[1] \o sep \o Join(Tail(ss), sep)
SeqMap(Op(_), s) == [i \in DOMAIN s |-> Op(s[i])]

(***************************************************************************)
(*                              D E L I M                                  *)
(***************************************************************************)
BytesOf(s) == CASE s = "x" -> <<"x">> [] s = "y" -> <<"y">> [] s = "E" -> <<"M1","M2">>
                [] s = "W" -> <<"T1","T2","T3">> [] s = "L" -> <<"LF">> [] s = "C" -> <<"CR","LF">>
Bytes(t) == Flat([i \in DOMAIN t |-> BytesOf(t[i])])
Need(b) == CASE b = "M1" -> 2 [] b = "T1" -> 3 [] OTHER -> 1
CharOf(b) == CASE b = "M1" -> "E" [] b = "T1" -> "W" [] OTHER -> b
(* incremental decoder: complete characters of bs and the undecodable tail (an incomplete character) *)
RECURSIVE Dec(_)
Dec(bs) == IF bs = <<>> THEN [cs |-> <<>>, rest |-> <<>>]
           ELSE LET n == Need(bs[1]) IN
                IF Len(bs) < n THEN [cs |-> <<>>, rest |-> bs]
                ELSE LET r == Dec(SubSeq(bs, n+1, Len(bs))) IN [cs |-> <<CharOf(bs[1])>> \o r.cs, rest |-> r.rest]
(* the text read at once: str.splitlines on LF / CR LF (a final unterminated line is a line) *)
RECURSIVE SplitLines(_)
SplitLines(cs) ==
  IF cs = <<>> THEN <<>>
  ELSE LET brk == {i \in 1..Len(cs) : cs[i] \in {"CR","LF"}} IN
       IF brk = {} THEN <<cs>>
       ELSE LET i == Min(brk)
                skip == IF cs[i] = "CR" /\ i < Len(cs) /\ cs[i+1] = "LF" THEN 2 ELSE 1
            IN <<SubSeq(cs, 1, i-1)>> \o SplitLines(SubSeq(cs, i+skip, Len(cs)))
Ref(bs) == SplitLines(Dec(bs).cs)
(* one character into the assembler: a CR ends the line at once and remembers itself so that an
   LF that follows - possibly in the next chunk - is not a second terminator *)
RECURSIVE Eat(_,_)
Eat(s, cs) ==
  IF cs = <<>> THEN s
  ELSE LET c == cs[1] IN
       Eat(CASE c = "LF" /\ s.cr -> [s EXCEPT !.cr = FALSE]
             [] c = "LF" /\ ~s.cr -> [s EXCEPT !.out = Append(s.out, s.line), !.line = <<>>]
             [] c = "CR" -> [s EXCEPT !.out = Append(s.out, s.line), !.line = <<>>, !.cr = TRUE]
             [] OTHER -> [s EXCEPT !.line = Append(s.line, c), !.cr = FALSE], Tail(cs))

CutSets(n) == IF n <= 1 THEN {{}}
              ELSE IF CutMode = "all" THEN SUBSET (1..(n-1))
              ELSE {{i \in 1..(n-1) : i % k = 0} : k \in 1..n}
DlInit == [pos |-> 0, pendB |-> <<>>, line |-> <<>>, cr |-> FALSE, out |-> <<>>, reads |-> 1]
DelimInit == \E n \in 0..MaxSyms : \E t \in [1..n -> Syms] : \E c \in CutSets(Len(Bytes(t))) :
               /\ inp = [text |-> t, bytes |-> Bytes(t), cuts |-> c]
               /\ dl = DlInit
(* DelimSource.read loop body 226-233 / chunks() 193-196: one chunk arrives *)
Feed == /\ Mode = "delim" /\ ~done /\ dl.pos < Len(inp.bytes)
        /\ LET later == {c \in inp.cuts : c > dl.pos}
               nxt == IF later = {} THEN Len(inp.bytes) ELSE Min(later)
               d == Dec(dl.pendB \o SubSeq(inp.bytes, dl.pos + 1, nxt))
               s == Eat(dl, d.cs)
           IN dl' = [s EXCEPT !.pos = nxt, !.pendB = d.rest]
        /\ UNCHANGED <<inp, done>>
(* DelimSource.read 247-248: the source is exhausted *)
End == /\ Mode = "delim" /\ ~done /\ dl.pos = Len(inp.bytes)
       /\ dl' = [dl EXCEPT !.out = IF dl.line # <<>> THEN Append(dl.out, dl.line) ELSE dl.out, !.line = <<>>]
       /\ done' = TRUE /\ UNCHANGED inp
(* the same source object is read again (DiskSource.read / DelimSource.read called a second time): nothing of
   the first read is left - the assembler starts from its initial state on the same bytes *)
Again == /\ Mode = "delim" /\ done /\ dl.reads < Reads
         /\ dl' = [DlInit EXCEPT !.reads = dl.reads + 1]
         /\ done' = FALSE /\ UNCHANGED inp
IsPrefix(a, b) == Len(a) <= Len(b) /\ SubSeq(b, 1, Len(a)) = a
(* what is emitted never has to be taken back, and at the end it is the text's lines: for EVERY chunking *)
DelimPrefix == Mode = "delim" => IsPrefix(dl.out, Ref(inp.bytes))
DelimDone   == (Mode = "delim" /\ done) => (dl.out = Ref(inp.bytes) /\ dl.pendB = <<>>)
(* DiskSink writes line + LF (sinks.py 101); reading that text back gives the lines again *)
LfBytes(ls) == Flat([i \in DOMAIN ls |-> Flat(SeqMap(BytesOf, ls[i])) \o <<"LF">>])
LineSyms(l) == [i \in DOMAIN l |-> l[i]]
WriteRead   == (Mode = "delim" /\ done) =>
                 LET ls == Ref(inp.bytes) IN
                 Ref(Flat([i \in DOMAIN ls |-> Flat([j \in DOMAIN ls[i] |-> BytesOf(ls[i][j])]) \o <<"LF">>])) = ls
(* appending with one DiskSink: the second write continues the file of the first *)
AppendRead  == (Mode = "delim" /\ done) =>
                 LET ls == Ref(inp.bytes)
                     wr(xs) == Flat([i \in DOMAIN xs |-> Flat([j \in DOMAIN xs[i] |-> BytesOf(xs[i][j])]) \o <<"LF">>])
                 IN Ref(wr(ls) \o wr(ls)) = ls \o ls
(* the piece that may be repeated: the text, closed by LF when it does not end in a terminator *)
TermBytes(bs) == IF bs # <<>> /\ bs[Len(bs)] = "LF" THEN bs ELSE bs \o <<"LF">>
ConcatLines == (Mode = "delim" /\ done /\ dl.reads = 1) =>
                 LET t == TermBytes(inp.bytes) IN Ref(t \o t) = Ref(t) \o Ref(t)
DelimEmit == (Mode = "delim" /\ done /\ dl.reads = 1) =>
               PrintT(ToJson([mode |-> "delim", bytes |-> inp.bytes,
                              cuts |-> [i \in 1..Len(inp.bytes) |-> i \in inp.cuts],
                              lines |-> [i \in DOMAIN dl.out |-> Str(dl.out[i])],
                              unit |-> LET u == Ref(TermBytes(inp.bytes)) IN [i \in DOMAIN u |-> Str(u[i])]]))

(***************************************************************************)
(*                      S H A R E D   L E X I C A L                        *)
(***************************************************************************)
Blank == {" ", "\t"}
Quotes == {"'", "\""}
Special == {" ", "\t", ",", "'", "\"", "\\", "%", "{", "}"}
(* a value may be written without quotes (Weka Utils.quote) *)
Bare(v) == v # <<>> /\ v # <<"?">> /\ \A i \in DOMAIN v : v[i] \notin Special
(* backslash escapes inside q..q.  "weka": Utils.backQuoteChars escapes \ ' " %; "min": only what is needed *)
Esc(v, q, style) == Flat([i \in DOMAIN v |->
                       IF v[i] = q \/ v[i] = "\\" THEN <<"\\", v[i]>>
                       ELSE IF style = "weka" /\ v[i] \in {"'", "\"", "%"} THEN <<"\\", v[i]>>
                       ELSE <<v[i]>>])
Lex(v, qopt, style) ==
  CASE qopt = "auto" -> (IF Bare(v) THEN v ELSE <<"'">> \o Esc(v, "'", style) \o <<"'">>)
    [] qopt = "sq"   -> <<"'">> \o Esc(v, "'", style) \o <<"'">>
    [] qopt = "dq"   -> <<"\"">> \o Esc(v, "\"", style) \o <<"\"">>

(* ---- the reference tokenizer (weka.core.converters.ArffLoader.initTokenizer: whitespaceChars(0,' '),
   whitespaceChars(',',','), commentChar('%'), quoteChar('"'), quoteChar('\''), ordinaryChar('{'),
   ordinaryChar('}')) over one line.  A token is [q |-> was quoted, v |-> pieces].  ---- *)
WsA == {" ", "\t", ","}
RECURSIVE QuotedTok(_,_,_)
QuotedTok(cs, i, q) ==
  IF i > Len(cs) THEN [v |-> <<"<unterminated>">>, next |-> i]
  ELSE IF cs[i] = q THEN [v |-> <<>>, next |-> i + 1]
  ELSE IF cs[i] = "\\" /\ i < Len(cs) THEN LET r == QuotedTok(cs, i + 2, q) IN [v |-> <<cs[i+1]>> \o r.v, next |-> r.next]
  ELSE LET r == QuotedTok(cs, i + 1, q) IN [v |-> <<cs[i]>> \o r.v, next |-> r.next]
RECURSIVE BareTok(_,_)
BareTok(cs, i) ==
  IF i > Len(cs) \/ cs[i] \in WsA \cup Quotes \cup {"{", "}", "%"} THEN [v |-> <<>>, next |-> i]
  ELSE LET r == BareTok(cs, i + 1) IN [v |-> <<cs[i]>> \o r.v, next |-> r.next]
RECURSIVE Toks(_,_)
Toks(cs, i) ==
  IF i > Len(cs) THEN <<>>
  ELSE LET c == cs[i] IN
    IF c \in WsA THEN Toks(cs, i + 1)
    ELSE IF c = "%" THEN <<>>
    ELSE IF c \in {"{", "}"} THEN <<[q |-> FALSE, v |-> <<c>>]>> \o Toks(cs, i + 1)
    ELSE IF c \in Quotes THEN LET r == QuotedTok(cs, i + 1, c) IN <<[q |-> TRUE, v |-> r.v]>> \o Toks(cs, r.next)
    ELSE LET r == BareTok(cs, i) IN <<[q |-> FALSE, v |-> r.v]>> \o Toks(cs, r.next)

(* numbers are tenths; the lexemes the writers use *)
NumVals == {0, 10, 20, 25, -30}
NumLex(n, style) ==
  CASE n = 0   -> (IF style = "dec" THEN <<"0",".","0">> ELSE <<"0">>)
    [] n = 10  -> (IF style = "dec" THEN <<"1",".","0">> ELSE <<"1">>)
    [] n = 20  -> (IF style = "dec" THEN <<"2",".","0">> ELSE <<"2">>)
    [] n = 25  -> <<"2",".","5">>
    [] n = -30 -> (IF style = "dec" THEN <<"-","3",".","0">> ELSE <<"-","3">>)
ParseNum(v) == IF \E n \in NumVals, s \in {"min","dec"} : NumLex(n, s) = v
               THEN CHOOSE n \in NumVals : \E s \in {"min","dec"} : NumLex(n, s) = v ELSE 999999

(***************************************************************************)
(*                               A R F F                                   *)
(***************************************************************************)
(* cells: [t |-> "miss"], [t |-> "num", v |-> tenths], [t |-> "s", v |-> pieces] *)
Miss == [t |-> "miss", v |-> <<>>]
N(n) == [t |-> "num", v |-> n]
S(v) == [t |-> "s", v |-> v]
ArffShape(name) ==
  CASE name = "nsc"  -> <<"num","str","nom">>
    [] name = "sc"   -> <<"str","nom">>
    [] name = "cns"  -> <<"nom","num","str">>
    [] name = "dn"   -> <<"date","num">>
    [] name = "s"    -> <<"str">>
    [] name = "nnc"  -> <<"num","num","nom">>
    [] name = "ssn"  -> <<"str","str","num">>
DefaultName(c) == <<<<"x">>, <<"y">>, <<"z">>>>[c]
DefaultLevels == <<<<"p">>, <<"q">>, <<"r">>>>
DefaultCell(ty, r) ==
  CASE ty = "num"  -> N(<<10, 25, 20>>[r])
    [] ty = "nom"  -> S(DefaultLevels[r])       \* row r uses level r (a special level replaces level 2)
    [] ty = "str"  -> S(<<<<"s">>, <<"t">>, <<"u">>>>[r])
    [] ty = "date" -> S(<<<<"1","9","9","9">>, <<"2","0","0","1">>, <<"2","0","2","0">>>>[r])

StrSpecialsCore == { <<"s"," ","t">>, <<"s",",","t">>, <<"s","'","t">>, <<"s","\"","t">>, <<"s","\\","t">>,
                     <<"s","%","t">>, <<"?">>, <<"{","s","}">>, <<"s","~">>, <<" ","s">>, <<"s"," ">>, <<"s","\\">>, <<",","?",",">>,
                     <<"s","'">>, <<"s","\"">> }      \* a value that ENDS in a quote character (5' / 3"): written escaped inside quotes of its own kind
StrSpecialsRich == StrSpecialsCore \cup
                   { <<>>, <<" ">>, <<"%","s">>, <<"s","?">>, <<",","?",",">>, <<"'">>, <<"\"">>, <<"\\">>, <<"s","\\">>,
                     <<"'","\"">>, <<"s","'",",","\"","t">>, <<"?",",">>, <<"1">>, <<"{">>, <<"s","\\","'","t">> }
StrSpecials == IF Rich THEN StrSpecialsRich ELSE StrSpecialsCore
LvlSpecialsCore == { <<"p"," ","q">>, <<"p","'","q">>, <<"p","\"","q">>, <<"p",",","q">>, <<"p","\\","q">>,
                     <<"p","%","q">>, <<"?">>, <<"~">> }
LvlSpecialsRich == LvlSpecialsCore \cup { <<"{","p","}">>, <<"1">>, <<"p","'","\"","q">>, <<"\\">>, <<" ","p">>, <<"p","\\","'","q">>, <<"'","p","'">> }
LvlSpecials == IF Rich THEN LvlSpecialsRich ELSE LvlSpecialsCore
NameSpecials == { <<"x"," ","y">>, <<"x","'","y">>, <<"x","\"","y">>, <<"x","%","y">>, <<"x",",","y">>, <<"x","\\","y">>, <<"~">> }
                \cup (IF Rich THEN { <<"x","{","y">>, <<"'">>, <<"x","\\","'","y">>, <<"d","a","t","a">> } ELSE {})
DateSpecials == { <<"1","9","9","9"," ","1","2">> }

(* ---- fields: name |-> set of options; the default is DefaultOf ---- *)
Dflt == [t |-> "dflt", v |-> <<>>]
CellField(r, c) == "c" \o ToString(r) \o ToString(c)
CellOpts(ty) ==
  CASE ty = "num"  -> {Dflt, Miss, N(0), N(-30), N(20)}
    [] ty = "nom"  -> {Dflt, Miss}
    [] ty = "str"  -> {Dflt, Miss} \cup {S(v) : v \in StrSpecials}
    [] ty = "date" -> {Dflt, Miss} \cup {S(v) : v \in DateSpecials}
ArffLexFields ==
  [ kw      |-> {"lower", "upper", "mixed"},
    numkw   |-> {"numeric", "real", "integer", "NUMERIC", "Real"},
    strkw   |-> {"string", "STRING"},
    asep    |-> {" ", "\t", "  "},
    lead    |-> {"none", "header", "data"},
    trail   |-> {"none", "header", "data"},
    nomsep  |-> {",", ", ", " , ", " "},
    nompad  |-> {"none", "inner"},
    lq      |-> {"auto", "sq", "dq"},
    esc     |-> {"weka", "min"},
    cmt     |-> {"none", "top", "attrs", "predata", "postdata", "rows", "end"},
    cmttxt  |-> {"note", "bare", "data", "row"},
    blank   |-> {"none", "top", "predata", "postdata", "rows", "end"},
    rel     |-> {"bare", "quoted"},
    datefmt |-> {"none", "dq", "sq"},
    numsty  |-> {"min", "dec"},
    nrows   |-> {"2", "1", "3"} ]
DenseLexFields  == [ dsep |-> {",", ", ", ",  ", " ,", " , ", "\t", "\t ", " "} ]
SparseLexFields == [ dsep |-> {",", ", ", " , "}, isep |-> {" ", "  ", "\t"}, bpad |-> {"none", "inner"}, zeros |-> {"omit", "write"} ]
(* the choices the common dialect makes (Weka's ArffSaver; upper-case keywords as in Weka's own iris.arff;
   "{a, b}" and quoted-everything as in OpenML uploads; comments and blank lines in the header) *)
CommonOpts ==
  [ kw |-> {"lower", "upper"}, numkw |-> {"numeric", "real", "integer", "NUMERIC"}, strkw |-> {"string", "STRING"},
    asep |-> {" "}, lead |-> {"none"}, trail |-> {"none"}, nomsep |-> {",", ", "}, nompad |-> {"none"},
    lq |-> {"auto", "sq"}, esc |-> {"weka"}, cmt |-> {"none", "top"}, cmttxt |-> {"note", "bare", "data", "row"},
    blank |-> {"none", "top", "predata", "end"}, rel |-> {"bare", "quoted"}, datefmt |-> {"none", "dq", "sq"},
    numsty |-> {"min", "dec"}, nrows |-> {"2", "1", "3"}, dsep |-> {","}, isep |-> {" "}, bpad |-> {"none"},
    zeros |-> {"omit", "write"} ]
LexDefault ==
  [ kw |-> "lower", numkw |-> "numeric", strkw |-> "string", asep |-> " ", lead |-> "none", trail |-> "none",
    nomsep |-> ",", nompad |-> "none", lq |-> "auto", esc |-> "weka", cmt |-> "none", cmttxt |-> "note",
    blank |-> "none", rel |-> "bare", datefmt |-> "none", numsty |-> "min", nrows |-> "2", dsep |-> ",",
    isep |-> " ", bpad |-> "none", zeros |-> "omit" ]

(* every deviation [f, v] available for a shape and row format *)
ArffUniverse(shape, sparse) ==
  LET nc == Len(shape)
      lexf == IF sparse THEN SparseLexFields ELSE DenseLexFields
  IN UNION {{[k |-> "lex", f |-> f, v |-> v] : v \in ArffLexFields[f] \ {LexDefault[f]}} : f \in DOMAIN ArffLexFields}
     \cup UNION {{[k |-> "lex", f |-> f, v |-> v] : v \in lexf[f] \ {LexDefault[f]}} : f \in DOMAIN lexf}
     \cup UNION {{[k |-> "cell", f |-> CellField(r, c), v |-> v] : v \in CellOpts(shape[c]) \ {Dflt}} : r \in 1..2, c \in 1..nc}
     \cup UNION {{[k |-> "quote", f |-> "vq" \o ToString(r) \o ToString(c), v |-> v] : v \in {"sq", "dq"}} : r \in 1..2, c \in 1..nc}
     \cup UNION {{[k |-> "quote", f |-> "nq" \o ToString(c), v |-> v] : v \in {"sq", "dq"}} : c \in {1, nc}}
     \cup UNION {{[k |-> "cell", f |-> "name" \o ToString(c), v |-> S(v)] : v \in NameSpecials} : c \in {1, nc}}
     \cup UNION {{[k |-> "cell", f |-> "lvl" \o ToString(c), v |-> S(v)] : v \in LvlSpecials} : c \in {c \in 1..nc : shape[c] = "nom"}}
(* at most K departures: chosen one after the other in Init (the same set reached in another order is the
   same initial state), never materialised as one big set *)
Nil == [k |-> "nil", f |-> "", v |-> ""]
Pick(U, n) == IF K >= n THEN U \cup {Nil} ELSE {Nil}
NameFields == {"name1", "name2", "name3"}
OnePerField(ds) == \A d \in ds, e \in ds : d.f = e.f => d = e
Has(ds, f) == \E d \in ds : d.f = f
Opt(ds, f, dflt) == IF Has(ds, f) THEN (CHOOSE d \in ds : d.f = f).v ELSE dflt
LexOpt(ds, f) == Opt(ds, f, LexDefault[f])

(* ---- the table a case denotes ---- *)
ArffTable(shape, ds) ==
  LET nc == Len(shape)
      nr == CASE LexOpt(ds, "nrows") = "1" -> 1 [] LexOpt(ds, "nrows") = "2" -> 2 [] OTHER -> 3
      lv(c) == IF Has(ds, "lvl" \o ToString(c)) THEN [DefaultLevels EXCEPT ![2] = Opt(ds, "lvl" \o ToString(c), Dflt).v] ELSE DefaultLevels
      nm(c) == IF Has(ds, "name" \o ToString(c)) THEN Opt(ds, "name" \o ToString(c), Dflt).v ELSE DefaultName(c)
      cell(r, c) == LET o == IF r <= 2 THEN Opt(ds, CellField(r, c), Dflt) ELSE Dflt IN
                    IF o.t # "dflt" THEN o
                    ELSE IF shape[c] = "nom" THEN S(lv(c)[r]) ELSE DefaultCell(shape[c], r)
  IN [ attrs |-> [c \in 1..nc |-> [name |-> nm(c), type |-> shape[c], levels |-> IF shape[c] = "nom" THEN lv(c) ELSE <<>>]],
       rows  |-> [r \in 1..nr |-> [c \in 1..nc |-> cell(r, c)]] ]

(* ---- Write: the file (a sequence of lines, each a sequence of pieces) ---- *)
Kw(word, style) ==
  CASE word = "relation"  -> (CASE style = "lower" -> "@relation"  [] style = "upper" -> "@RELATION"  [] OTHER -> "@Relation")
    [] word = "attribute" -> (CASE style = "lower" -> "@attribute" [] style = "upper" -> "@ATTRIBUTE" [] OTHER -> "@Attribute")
    [] word = "data"      -> (CASE style = "lower" -> "@data"      [] style = "upper" -> "@DATA"      [] OTHER -> "@Data")
LowerPiece(p) ==
  CASE p \in {"@relation", "@RELATION", "@Relation"} -> "@relation"
    [] p \in {"@attribute", "@ATTRIBUTE", "@Attribute"} -> "@attribute"
    [] p \in {"@data", "@DATA", "@Data"} -> "@data"
    [] p \in {"numeric", "NUMERIC"} -> "numeric"
    [] p \in {"real", "Real"} -> "real"
    [] p \in {"string", "STRING"} -> "string"
    [] OTHER -> p
Pieces(sep) == CASE sep = " " -> <<" ">> [] sep = "  " -> <<" "," ">> [] sep = "\t" -> <<"\t">> [] sep = "," -> <<",">>
                 [] sep = ", " -> <<","," ">> [] sep = ",  " -> <<","," "," ">> [] sep = " ," -> <<" ",",">>
                 [] sep = " , " -> <<" ",","," ">> [] sep = "\t " -> <<"\t"," ">>
CommentLine(txt) == CASE txt = "note" -> <<"%"," ","n","o","t","e">> [] txt = "bare" -> <<"%">>
                      [] txt = "data" -> <<"%"," ","@data">> [] txt = "row" -> <<"%","1",",","?",",","'">>
CellLex(cell, ty, q, ds) ==
  IF cell.t = "miss" THEN <<"?">>
  ELSE IF cell.t = "num" THEN (LET l == NumLex(cell.v, LexOpt(ds, "numsty")) IN
                               CASE q = "auto" -> l [] q = "sq" -> <<"'">> \o l \o <<"'">> [] q = "dq" -> <<"\"">> \o l \o <<"\"">>)
  ELSE Lex(cell.v, q, LexOpt(ds, "esc"))
ArffWrite(shape, sparse, ds) ==
  LET t == ArffTable(shape, ds)
      nc == Len(shape)
      kw == LexOpt(ds, "kw")
      asep == Pieces(LexOpt(ds, "asep"))
      pad(l, where) == (IF LexOpt(ds, "lead") = where THEN <<" "," ">> ELSE <<>>) \o l \o (IF LexOpt(ds, "trail") = where THEN <<" ">> ELSE <<>>)
      typ(c) == CASE shape[c] = "num" -> <<LexOpt(ds, "numkw")>>
                  [] shape[c] = "str" -> <<LexOpt(ds, "strkw")>>
                  [] shape[c] = "date" -> (<<"date">> \o (CASE LexOpt(ds, "datefmt") = "none" -> <<>>
                                                            [] LexOpt(ds, "datefmt") = "dq" -> <<" ","\"","y","y","y","y"," ","H","H","\"">>
                                                            [] OTHER -> <<" ","'","y","y","y","y"," ","H","H","'">>))
                  [] shape[c] = "nom" -> (LET ip == IF LexOpt(ds, "nompad") = "inner" THEN <<" ">> ELSE <<>> IN
                                          <<"{">> \o ip \o Join([i \in 1..3 |-> Lex(t.attrs[c].levels[i], LexOpt(ds, "lq"), LexOpt(ds, "esc"))], Pieces(LexOpt(ds, "nomsep"))) \o ip \o <<"}">>)
      attr(c) == pad(<<Kw("attribute", kw)>> \o asep \o Lex(t.attrs[c].name, Opt(ds, "nq" \o ToString(c), "auto"), LexOpt(ds, "esc")) \o asep \o typ(c), "header")
      vq(r, c) == IF r <= 2 THEN Opt(ds, "vq" \o ToString(r) \o ToString(c), "auto") ELSE "auto"
      dense(r) == Join([c \in 1..nc |-> CellLex(t.rows[r][c], shape[c], vq(r, c), ds)], Pieces(LexOpt(ds, "dsep")))
      written(r) == {c \in 1..nc : ~(LexOpt(ds, "zeros") = "omit" /\ t.rows[r][c] = N(0))}
      RECURSIVE pairs(_,_)
      pairs(r, c) == IF c > nc THEN <<>>
                     ELSE IF c \in written(r) THEN <<<<ToString(c - 1)>> \o Pieces(LexOpt(ds, "isep")) \o CellLex(t.rows[r][c], shape[c], vq(r, c), ds)>> \o pairs(r, c + 1)
                     ELSE pairs(r, c + 1)
      sparseRow(r) == LET ip == IF LexOpt(ds, "bpad") = "inner" THEN <<" ">> ELSE <<>> IN
                      <<"{">> \o ip \o Join(pairs(r, 1), Pieces(LexOpt(ds, "dsep"))) \o ip \o <<"}">>
      row(r) == pad(IF sparse THEN sparseRow(r) ELSE dense(r), "data")
      cm(where) == IF LexOpt(ds, "cmt") = where THEN <<CommentLine(LexOpt(ds, "cmttxt"))>> ELSE <<>>
      bl(where) == IF LexOpt(ds, "blank") = where THEN <<<<>>>> ELSE <<>>
      rel == pad(<<Kw("relation", kw)>> \o asep \o (IF LexOpt(ds, "rel") = "bare" THEN <<"r">> ELSE <<"'","m","y"," ","r","'">>), "header")
      RECURSIVE rowsFrom(_)
      rowsFrom(r) == IF r > Len(t.rows) THEN <<>>
                     ELSE <<row(r)>> \o (IF r < Len(t.rows) THEN cm("rows") \o bl("rows") ELSE <<>>) \o rowsFrom(r + 1)
  IN cm("top") \o <<rel>> \o bl("top") \o <<attr(1)>> \o cm("attrs") \o [c \in 1..(nc-1) |-> attr(c + 1)]
     \o cm("predata") \o bl("predata") \o <<pad(<<Kw("data", kw)>>, "header")>> \o cm("postdata") \o bl("postdata")
     \o rowsFrom(1) \o cm("end") \o bl("end")

(* ---- Parse: the reference grammar ---- *)
UnqIs(tok, w) == ~tok.q /\ Len(tok.v) = 1 /\ LowerPiece(tok.v[1]) = w
ParseAttr(toks) ==      \* toks[1] = @attribute, toks[2] = name, then the type
  LET ty == toks[3] IN
  IF UnqIs(ty, "{") THEN [name |-> toks[2].v, type |-> "nom", levels |-> [i \in 1..(Len(toks) - 4) |-> toks[i + 3].v]]
  ELSE IF UnqIs(ty, "numeric") \/ UnqIs(ty, "real") \/ UnqIs(ty, "integer") THEN [name |-> toks[2].v, type |-> "num", levels |-> <<>>]
  ELSE IF UnqIs(ty, "string") THEN [name |-> toks[2].v, type |-> "str", levels |-> <<>>]
  ELSE IF UnqIs(ty, "date") THEN [name |-> toks[2].v, type |-> "date", levels |-> <<>>]
  ELSE [name |-> toks[2].v, type |-> "bad", levels |-> <<>>]
ParseCell(tok, a) ==
  IF ~tok.q /\ tok.v = <<"?">> THEN Miss
  ELSE IF a.type = "num" THEN N(ParseNum(tok.v))
  ELSE IF a.type = "nom" THEN (IF \E i \in DOMAIN a.levels : a.levels[i] = tok.v THEN S(tok.v) ELSE [t |-> "badlevel", v |-> tok.v])
  ELSE S(tok.v)
Digit(v) == CASE v = <<"0">> -> 0 [] v = <<"1">> -> 1 [] v = <<"2">> -> 2 [] OTHER -> 99
ParseRow(toks, attrs) ==
  IF UnqIs(toks[1], "{")
  THEN LET np == (Len(toks) - 2) \div 2        \* { i v i v ... }: cells not written are 0
           at(c) == {j \in 1..np : Digit(toks[2 * j].v) = c - 1}
       IN [c \in DOMAIN attrs |-> IF at(c) = {} THEN N(0) ELSE ParseCell(toks[2 * (CHOOSE j \in at(c) : TRUE) + 1], attrs[c])]
  ELSE IF Len(toks) # Len(attrs) THEN <<[t |-> "badcount", v |-> <<>>]>>
  ELSE [c \in DOMAIN attrs |-> ParseCell(toks[c], attrs[c])]
ArffParse(lines) ==
  LET tl == [i \in DOMAIN lines |-> Toks(lines[i], 1)]
      real == {i \in DOMAIN lines : tl[i] # <<>>}              \* blank and comment lines vanish
      datas == {i \in real : UnqIs(tl[i][1], "@data")}
      d == Min(datas)
      RECURSIVE pick(_,_)
      pick(i, hi) == IF i > hi THEN <<>> ELSE (IF i \in real THEN <<i>> ELSE <<>>) \o pick(i + 1, hi)
      hdr == pick(1, d - 1)
      body == pick(d + 1, Len(lines))
      isAttr(i) == UnqIs(tl[i][1], "@attribute")
      RECURSIVE attrsOf(_)
      attrsOf(h) == IF h = <<>> THEN <<>> ELSE (IF isAttr(h[1]) THEN <<ParseAttr(tl[h[1]])>> ELSE <<>>) \o attrsOf(Tail(h))
      attrs == attrsOf(hdr)
  IN [attrs |-> attrs, rows |-> [k \in DOMAIN body |-> ParseRow(tl[body[k]], attrs)]]

ArffCommon(sparse, ds) ==
  \A d \in ds : CASE d.k = "lex" -> d.v \in CommonOpts[d.f]
                     [] d.k = "quote" -> d.v = "sq"      \* OpenML uploads quote every value with '
                     [] OTHER -> TRUE                    \* contents: every table must be readable
DistinctNames(ds) == \A d \in ds, e \in ds : (d.f \in NameFields /\ e.f \in NameFields /\ d.f # e.f) => d.v # e.v
ArffInit == \E sh \in Shapes : \E sp \in SparseSet :
              LET U == ArffUniverse(ArffShape(sh), sp) IN
              \E d1 \in Pick(U, 1) : \E d2 \in Pick(U, 2) : \E d3 \in Pick(U, 3) :
                LET ds == {d1, d2, d3} \ {Nil} IN
                /\ OnePerField(ds) /\ DistinctNames(ds)
                /\ inp = [shape |-> sh, sparse |-> sp, devs |-> ds]
                /\ dl = <<>>
ArffOut(lines) == [i \in DOMAIN lines |-> Str(lines[i])]
CellOut(c) == IF c.t = "num" THEN [t |-> "num", s |-> "", n |-> c.v] ELSE [t |-> c.t, s |-> Str(c.v), n |-> 0]
DevOut(d) == [f |-> d.f, v |-> IF d.k # "cell" THEN d.v
                               ELSE IF d.v.t = "num" THEN ToString(d.v.v) ELSE IF d.v.t = "miss" THEN "?missing" ELSE Str(d.v.v)]
SetToSeq(Sx) == LET RECURSIVE P(_)
                    P(T) == IF T = {} THEN <<>> ELSE LET x == CHOOSE y \in T : TRUE IN <<x>> \o P(T \ {x})
                IN P(Sx)
ArffCase == LET sh == ArffShape(inp.shape)
                t == ArffTable(sh, inp.devs)
                file == ArffWrite(sh, inp.sparse, inp.devs)
            IN [t |-> t, file |-> file]
ArffSound == (Mode = "arff" /\ done) => (LET c == ArffCase IN ArffParse(c.file) = c.t)
(* the file with everything after its @data line written twice has every row twice *)
ArffRepeat == (Mode = "arff" /\ done) =>
                LET c == ArffCase
                    d == Min({i \in DOMAIN c.file : LET tk == Toks(c.file[i], 1) IN tk # <<>> /\ UnqIs(tk[1], "@data")})
                    twice == c.file \o SubSeq(c.file, d + 1, Len(c.file))
                IN ArffParse(twice) = [attrs |-> c.t.attrs, rows |-> c.t.rows \o c.t.rows]
(* one reader object applied to a history of files: the i-th result depends on the i-th file only *)
ReadHistory(P(_), files) == [i \in DOMAIN files |-> P(files[i])]
ArffReuse == (Mode = "arff" /\ done) =>
               LET sh == ArffShape(inp.shape)
                   f == ArffCase.file
                   g == ArffWrite(sh, inp.sparse, {})
               IN ReadHistory(ArffParse, <<f, g, f>>) = <<ArffTable(sh, inp.devs), ArffTable(sh, {}), ArffTable(sh, inp.devs)>>
ArffEmit == (Mode = "arff" /\ done) =>
   LET c == ArffCase IN
   PrintT(ToJson([mode |-> "arff", shape |-> inp.shape, sparse |-> inp.sparse, common |-> ArffCommon(inp.sparse, inp.devs),
                  devs |-> SeqMap(DevOut, SetToSeq(inp.devs)), lines |-> ArffOut(c.file),
                  attrs |-> [i \in DOMAIN c.t.attrs |-> [name |-> Str(c.t.attrs[i].name), type |-> c.t.attrs[i].type,
                                                          levels |-> [j \in DOMAIN c.t.attrs[i].levels |-> Str(c.t.attrs[i].levels[j])]]],
                  rows |-> [r \in DOMAIN c.t.rows |-> [k \in DOMAIN c.t.rows[r] |-> CellOut(c.t.rows[r][k])]]]))

(***************************************************************************)
(*                                C S V                                    *)
(***************************************************************************)
(* RFC 4180: fields separated by the delimiter; a field holding the delimiter, a quote (or, by choice, any
   field) is enclosed in double quotes with embedded quotes doubled; blanks belong to the field.
   CsvReader(has_header, **dialect) 17-38 is told the delimiter when it is a tab. *)
CsvShape(name) == CASE name = "c2" -> 2 [] name = "c1" -> 1 [] name = "c3" -> 3
CsvSpecials == StrSpecials \cup {<<>>, <<" ">>, <<"s","\"","\"","t">>, <<"\"">>, <<"1",".","5">>} \cup (IF Rich THEN {<<" ","s"," ">>, <<"\"","s","\"">>, <<"s",",">>, <<"\t","s">>} ELSE {})
CsvLexFields == [ hdr |-> {"yes", "no"}, quote |-> {"minimal", "all", "nonnumeric"}, delim |-> {",", "\t"}, nrows |-> {"2", "1", "3"} ]
CsvLexDefault == [ hdr |-> "yes", quote |-> "minimal", delim |-> ",", nrows |-> "2" ]
CsvUniverse(nc) ==
  UNION {{[k |-> "lex", f |-> f, v |-> v] : v \in CsvLexFields[f] \ {CsvLexDefault[f]}} : f \in DOMAIN CsvLexFields}
  \cup UNION {{[k |-> "cell", f |-> CellField(r, c), v |-> S(v)] : v \in CsvSpecials} : r \in 1..2, c \in 1..nc}
  \cup UNION {{[k |-> "cell", f |-> "name" \o ToString(c), v |-> S(v)] : v \in NameSpecials \cup {<<" ","x">>}} : c \in {1, nc}}
  \cup UNION {{[k |-> "quote", f |-> "vq" \o ToString(r) \o ToString(c), v |-> "dq"] : c \in 1..nc} : r \in 1..2}
CsvOpt(ds, f) == Opt(ds, f, CsvLexDefault[f])
CsvTable(nc, ds) ==
  LET nr == CASE CsvOpt(ds, "nrows") = "1" -> 1 [] CsvOpt(ds, "nrows") = "2" -> 2 [] OTHER -> 3 IN
  [ names |-> IF CsvOpt(ds, "hdr") = "yes" THEN [c \in 1..nc |-> IF Has(ds, "name" \o ToString(c)) THEN Opt(ds, "name" \o ToString(c), Dflt).v ELSE DefaultName(c)] ELSE <<>>,
    rows  |-> [r \in 1..nr |-> [c \in 1..nc |-> IF r <= 2 /\ Has(ds, CellField(r, c)) THEN Opt(ds, CellField(r, c), Dflt).v
                                                   ELSE <<<<"s">>, <<"t">>, <<"u">>>>[r] \o <<ToString(c)>>]] ]
CsvField(v, force, nc, ds) ==
  LET dl0 == CsvOpt(ds, "delim")
      need == \E i \in DOMAIN v : v[i] \in {dl0, "\""}
      numeric == v # <<>> /\ \A i \in DOMAIN v : v[i] \in {"0","1","2","3","4","5","6","7","8","9","."}
      q == force \/ need \/ (v = <<>> /\ nc = 1) \/ CsvOpt(ds, "quote") = "all" \/ (CsvOpt(ds, "quote") = "nonnumeric" /\ ~numeric)
  IN IF q THEN <<"\"">> \o Flat([i \in DOMAIN v |-> IF v[i] = "\"" THEN <<"\"","\"">> ELSE <<v[i]>>]) \o <<"\"">> ELSE v
CsvWrite(nc, ds) ==
  LET t == CsvTable(nc, ds)
      line(vs, r) == Join([c \in 1..nc |-> CsvField(vs[c], r \in 1..2 /\ Has(ds, "vq" \o ToString(r) \o ToString(c)), nc, ds)], <<CsvOpt(ds, "delim")>>)
  IN (IF t.names # <<>> THEN <<line(t.names, 0)>> ELSE <<>>) \o [r \in DOMAIN t.rows |-> line(t.rows[r], r)]
(* reference RFC-4180 field splitter *)
RECURSIVE CsvFields(_,_,_)
CsvFields(cs, i, d) ==      \* fields of cs from position i (i = Len+1: one last empty field)
  IF i > Len(cs) THEN <<<<>>>>
  ELSE IF cs[i] = "\"" THEN
    LET RECURSIVE inq(_)
        inq(j) == IF j > Len(cs) THEN [v |-> <<"<unterminated>">>, next |-> j]
                  ELSE IF cs[j] = "\"" /\ j < Len(cs) /\ cs[j+1] = "\"" THEN LET r == inq(j + 2) IN [v |-> <<"\"">> \o r.v, next |-> r.next]
                  ELSE IF cs[j] = "\"" THEN [v |-> <<>>, next |-> j + 1]
                  ELSE LET r == inq(j + 1) IN [v |-> <<cs[j]>> \o r.v, next |-> r.next]
        r == inq(i + 1)
    IN IF r.next > Len(cs) THEN <<r.v>> ELSE <<r.v>> \o CsvFields(cs, r.next + 1, d)
  ELSE LET ends == {j \in i..Len(cs) : cs[j] = d} IN
       IF ends = {} THEN <<SubSeq(cs, i, Len(cs))>> ELSE <<SubSeq(cs, i, Min(ends) - 1)>> \o CsvFields(cs, Min(ends) + 1, d)
CsvParse(lines, hdr, d) ==
  LET rows == [i \in DOMAIN lines |-> CsvFields(lines[i], 1, d)] IN
  IF hdr THEN [names |-> rows[1], rows |-> Tail(rows)] ELSE [names |-> <<>>, rows |-> rows]
CsvInit == \E sh \in Shapes : LET U == CsvUniverse(CsvShape(sh)) IN
           \E d1 \in Pick(U, 1) : \E d2 \in Pick(U, 2) : \E d3 \in Pick(U, 3) :
             LET ds == {d1, d2, d3} \ {Nil} IN
             /\ OnePerField(ds) /\ DistinctNames(ds)
             /\ (CsvOpt(ds, "hdr") = "no" => ~\E d \in ds : d.f \in {"name1", "name2", "name3"})
             /\ inp = [shape |-> sh, devs |-> ds]
             /\ dl = <<>>
CsvCase == LET nc == CsvShape(inp.shape) IN [t |-> CsvTable(nc, inp.devs), file |-> CsvWrite(nc, inp.devs)]
CsvSound == (Mode = "csv" /\ done) => (LET c == CsvCase IN CsvParse(c.file, CsvOpt(inp.devs, "hdr") = "yes", CsvOpt(inp.devs, "delim")) = c.t)
CsvReuse == (Mode = "csv" /\ done) =>
              LET nc == CsvShape(inp.shape)
                  ds0 == {d \in inp.devs : d.f \in {"hdr", "delim"}}      \* same constructor parameters
                  P(x) == CsvParse(x, CsvOpt(inp.devs, "hdr") = "yes", CsvOpt(inp.devs, "delim"))
              IN ReadHistory(P, <<CsvCase.file, CsvWrite(nc, ds0), CsvCase.file>>) = <<CsvCase.t, CsvTable(nc, ds0), CsvCase.t>>
CsvRepeat == (Mode = "csv" /\ done) =>
               LET c == CsvCase
                   h == IF CsvOpt(inp.devs, "hdr") = "yes" THEN 1 ELSE 0
               IN CsvParse(c.file \o SubSeq(c.file, h + 1, Len(c.file)), h = 1, CsvOpt(inp.devs, "delim")) = [names |-> c.t.names, rows |-> c.t.rows \o c.t.rows]
CsvDevOut(d) == [f |-> d.f, v |-> IF d.k # "cell" THEN d.v ELSE Str(d.v.v)]
CsvEmit == (Mode = "csv" /\ done) =>
   LET c == CsvCase IN
   PrintT(ToJson([mode |-> "csv", shape |-> inp.shape, common |-> TRUE, hdr |-> CsvOpt(inp.devs, "hdr") = "yes", delim |-> CsvOpt(inp.devs, "delim"),
                  devs |-> SeqMap(CsvDevOut, SetToSeq(inp.devs)), lines |-> ArffOut(c.file),
                  names |-> SeqMap(Str, c.t.names), rows |-> [r \in DOMAIN c.t.rows |-> SeqMap(Str, c.t.rows[r])]]))

(***************************************************************************)
(*                      L I B S V M   /   M A N I K                        *)
(***************************************************************************)
(* "<label>[,<label>]* <index>:<value> ..." (libsvm README; svm-train reads with strtok(" \t")); Manik adds a
   first line "<rows> <features> <labels>".  A row is [labels |-> seq of label pieces, feats |-> seq of
   <<index, tenths>>] with increasing indexes. *)
SvmLexFields == [ fmt |-> {"libsvm", "manik"}, sep |-> {" ", "  ", "\t"}, trail |-> {"none", " ", "\t"}, lead |-> {"none", " "},
                  numsty |-> {"min", "dec"}, nrows |-> {"2", "1", "3"}, blank |-> {"none", "rows", "end"} ]
SvmLexDefault == [ fmt |-> "libsvm", sep |-> " ", trail |-> "none", lead |-> "none", numsty |-> "min", nrows |-> "2", blank |-> "none" ]
SvmCommon == [ fmt |-> {"libsvm", "manik"}, sep |-> {" "}, trail |-> {"none", " "}, lead |-> {"none"}, numsty |-> {"min", "dec"},
               nrows |-> {"2", "1", "3"}, blank |-> {"none", "end"} ]
SvmLabelOpts == { <<<<"0">>>>, <<<<"-","1">>>>, <<<<"1">>, <<"2">>>>, <<<<"2">>, <<"0">>, <<"1">>>>, <<<<"1","0">>>> }
SvmFeatOpts == { <<>>, <<<<1, 10>>>>, <<<<0, 25>>>>, <<<<1, 10>>, <<2, 25>>>>, <<<<2, -30>>>>, <<<<0, 20>>, <<1, 0>>, <<2, 10>>>>, <<<<10, 10>>>> }
SvmUniverse ==
  UNION {{[k |-> "lex", f |-> f, v |-> v] : v \in SvmLexFields[f] \ {SvmLexDefault[f]}} : f \in DOMAIN SvmLexFields}
  \cup UNION {{[k |-> "cell", f |-> "lab" \o ToString(r), v |-> [t |-> "lab", v |-> v]] : v \in SvmLabelOpts} : r \in 1..2}
  \cup UNION {{[k |-> "cell", f |-> "fts" \o ToString(r), v |-> [t |-> "fts", v |-> v]] : v \in SvmFeatOpts} : r \in 1..2}
SvmOpt(ds, f) == Opt(ds, f, SvmLexDefault[f])
SvmTable(ds) ==
  LET nr == CASE SvmOpt(ds, "nrows") = "1" -> 1 [] SvmOpt(ds, "nrows") = "2" -> 2 [] OTHER -> 3 IN
  [r \in 1..nr |-> [labels |-> IF r <= 2 /\ Has(ds, "lab" \o ToString(r)) THEN Opt(ds, "lab" \o ToString(r), Dflt).v ELSE <<<<ToString(r)>>>>,
                    feats  |-> IF r <= 2 /\ Has(ds, "fts" \o ToString(r)) THEN Opt(ds, "fts" \o ToString(r), Dflt).v ELSE <<<<1, 10>>, <<3, 25>>>>]]
IdxLex(i) == IF i = 10 THEN <<"1","0">> ELSE <<ToString(i)>>
SvmWrite(ds) ==
  LET t == SvmTable(ds)
      sep == IF SvmOpt(ds, "sep") = "  " THEN <<" "," ">> ELSE <<SvmOpt(ds, "sep")>>
      row(r) == (IF SvmOpt(ds, "lead") = " " THEN <<" ">> ELSE <<>>)
                \o Join(<<Join(t[r].labels, <<",">>)>> \o [k \in DOMAIN t[r].feats |-> IdxLex(t[r].feats[k][1]) \o <<":">> \o NumLex(t[r].feats[k][2], SvmOpt(ds, "numsty"))], sep)
                \o (IF SvmOpt(ds, "trail") = "none" THEN <<>> ELSE <<SvmOpt(ds, "trail")>>)
      RECURSIVE rowsFrom(_)
      rowsFrom(r) == IF r > Len(t) THEN <<>> ELSE <<row(r)>> \o (IF r < Len(t) /\ SvmOpt(ds, "blank") = "rows" THEN <<<<>>>> ELSE <<>>) \o rowsFrom(r + 1)
  IN (IF SvmOpt(ds, "fmt") = "manik" THEN <<<<ToString(Len(t)), " ", "1", "1", " ", "3">>>> ELSE <<>>)
     \o rowsFrom(1) \o (IF SvmOpt(ds, "blank") = "end" THEN <<<<>>>> ELSE <<>>)
(* reference: strtok(" \t") words; word 1 = comma separated labels; the others index:value *)
RECURSIVE Words(_,_)
Words(cs, i) == IF i > Len(cs) THEN <<>>
                ELSE IF cs[i] \in Blank THEN Words(cs, i + 1)
                ELSE LET ends == {j \in i..Len(cs) : cs[j] \in Blank}
                         e == IF ends = {} THEN Len(cs) + 1 ELSE Min(ends)
                     IN <<SubSeq(cs, i, e - 1)>> \o Words(cs, e)
RECURSIVE SplitOn(_,_)
SplitOn(cs, d) == LET at == {j \in DOMAIN cs : cs[j] = d} IN
                  IF at = {} THEN <<cs>> ELSE <<SubSeq(cs, 1, Min(at) - 1)>> \o SplitOn(SubSeq(cs, Min(at) + 1, Len(cs)), d)
ParseIdx(v) == IF \E i \in {0, 1, 2, 3, 10} : IdxLex(i) = v THEN CHOOSE i \in {0, 1, 2, 3, 10} : IdxLex(i) = v ELSE 99
SvmParse(lines, manik) ==
  LET body == IF manik THEN Tail(lines) ELSE lines
      ws == [i \in DOMAIN body |-> Words(body[i], 1)]
      RECURSIVE rowsOf(_)
      rowsOf(i) == IF i > Len(body) THEN <<>>
                   ELSE (IF ws[i] = <<>> THEN <<>>
                         ELSE <<[labels |-> SplitOn(ws[i][1], ","),
                                 feats |-> [k \in 1..(Len(ws[i]) - 1) |-> LET p == SplitOn(ws[i][k + 1], ":") IN <<ParseIdx(p[1]), ParseNum(p[2])>>]]>>)
                        \o rowsOf(i + 1)
  IN rowsOf(1)
SvmInit == \E d1 \in Pick(SvmUniverse, 1) : \E d2 \in Pick(SvmUniverse, 2) : \E d3 \in Pick(SvmUniverse, 3) :
           LET ds == {d1, d2, d3} \ {Nil} IN /\ OnePerField(ds) /\ inp = [shape |-> "svm", devs |-> ds] /\ dl = <<>>
SvmSound == (Mode = "svm" /\ done) => SvmParse(SvmWrite(inp.devs), SvmOpt(inp.devs, "fmt") = "manik") = SvmTable(inp.devs)
SvmReuse == (Mode = "svm" /\ done) =>
              LET ds0 == {d \in inp.devs : d.f = "fmt"}
                  P(x) == SvmParse(x, SvmOpt(inp.devs, "fmt") = "manik")
              IN ReadHistory(P, <<SvmWrite(inp.devs), SvmWrite(ds0), SvmWrite(inp.devs)>>) = <<SvmTable(inp.devs), SvmTable(ds0), SvmTable(inp.devs)>>
SvmRepeat == (Mode = "svm" /\ done) =>
               LET f == SvmWrite(inp.devs)
                   h == IF SvmOpt(inp.devs, "fmt") = "manik" THEN 1 ELSE 0
               IN SvmParse(f \o SubSeq(f, h + 1, Len(f)), h = 1) = SvmTable(inp.devs) \o SvmTable(inp.devs)
SvmDevOut(d) == [f |-> d.f, v |-> IF d.k = "lex" THEN d.v
                                  ELSE IF d.v.t = "lab" THEN Str(Join(d.v.v, <<",">>))
                                  ELSE Str(Join([k \in DOMAIN d.v.v |-> <<ToString(d.v.v[k][1]), ":", ToString(d.v.v[k][2])>>], <<" ">>))]
SvmEmit == (Mode = "svm" /\ done) =>
   LET t == SvmTable(inp.devs) IN
   PrintT(ToJson([mode |-> "svm", manik |-> SvmOpt(inp.devs, "fmt") = "manik",
                  common |-> \A d \in inp.devs : d.k = "lex" => d.v \in SvmCommon[d.f],
                  devs |-> SeqMap(SvmDevOut, SetToSeq(inp.devs)), lines |-> ArffOut(SvmWrite(inp.devs)),
                  rows |-> [r \in DOMAIN t |-> [labels |-> SeqMap(Str, t[r].labels),
                                                feats |-> [k \in DOMAIN t[r].feats |-> [i |-> t[r].feats[k][1], n |-> t[r].feats[k][2]]]]]]))

(***************************************************************************)
Init == /\ done = FALSE
        /\ CASE Mode = "delim" -> DelimInit
             [] Mode = "arff" -> ArffInit
             [] Mode = "csv" -> CsvInit
             [] Mode = "svm" -> SvmInit
(* table modes: the single step in which the case is written, parsed back and printed *)
Eval == Mode # "delim" /\ ~done /\ done' = TRUE /\ UNCHANGED <<inp, dl>>
Next == Feed \/ End \/ Again \/ Eval
Spec == Init /\ [][Next]_vars
=============================================================================
