\* exhaustive check of OpenmlLoad.tla; harness/drivers/x01.py substitutes per run: the SPECIFICATION (SeqSpec* /
\* Con2Spec* / Con3Spec* : safety + deadlock; LiveSpec* : + PROPERTY Terminates), Loaders, Variant, Rec
SPECIFICATION Con2SpecQ
CONSTANTS
  Loaders <- mcLoaders2
  Datasets <- mcDatasets
  CfgSet <- None
  Obs = FALSE
  Rec = FALSE
  Variant = "intended"
INVARIANT NoBad
INVARIANT SemBound
INVARIANT NoSemNoAcq
INVARIANT LockSane
INVARIANT Released
INVARIANT DownloadBound
INVARIANT EmitHist
\* PROPERTY Terminates
CHECK_DEADLOCK TRUE
