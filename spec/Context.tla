------------------------------- MODULE Context -------------------------------
(***************************************************************************)
(* The global execution context of coba (X08): coba/context/core.py        *)
(* CobaContext_meta, its journey to worker processes                       *)
(* (coba/multiprocessing.py CobaMultiprocessor.ProcessFilter) and into     *)
(* experiments (coba/experiments/core.py Experiment.config / .run).        *)
(*                                                                         *)
(* STATE.  `files` : one `.coba` file (or none) per directory 1..NDirs;    *)
(* `paths` = CobaContext.search_paths (a sequence of directories);         *)
(* `loaded` / `backing` = the lazily built _config_backing; the three      *)
(* settable slots papi / pcacher / plogger (= _api_keys / _cacher /        *)
(* _logger when set by the program); the experiment slot is the            *)
(* ExperimentConfig OBJECT inside the configuration (there is no setter:   *)
(* a program overrides it field by field, `CobaContext.experiment.f = v`); *)
(* `store`, `info` (= learning_info); `ecfg` = the three settings kept by  *)
(* ONE Experiment object (config() / run() arguments).                     *)
(*                                                                         *)
(* A FILE is absent | blank (empty or white space only: ignored, 66) |     *)
(* unparsable | notobj (valid JSON, not an object) | obj with four         *)
(* optional sections: api_keys (key -> text), experiment (field -> text;   *)
(* `old` = the file spells maxchunksperchild with its old name             *)
(* maxtasksperchild, 110-112), cacher and logger (a recipe of              *)
(* coba/registry.py JsonMakerV1).  A path text inside a recipe starts with *)
(* "./" | "../" (relative to the directory of THAT file), "~/" (home) or   *)
(* anything else (left as written); it may sit directly under the class    *)
(* name, in a kwargs object, in a nested recipe or in an args LIST         *)
(* (form = "list" / "xargs" / "disklist").                                 *)
(*                                                                         *)
(* THE CONFIGURATION (what the first read of api_keys / cacher / logger /  *)
(* experiment builds, 97-141): every existing file of `paths`, in order;   *)
(* per KEY the value of the LAST search path that defines it wins over     *)
(* earlier paths, which win over the defaults (api_keys and experiment are *)
(* merged key-wise, cacher and logger are replaced whole and made from the *)
(* recipe of the last path that has one, relative paths resolved against   *)
(* that file's directory).  The first unparsable / notobj file, or - after *)
(* all files merged - a recipe that cannot be made, ends the program via   *)
(* coba_exit; nothing is kept, so the next read tries again (and reports   *)
(* again until the files are repaired).  Once built the configuration is   *)
(* never rebuilt: files and search_paths changed later are not looked at.  *)
(* A slot set by the program (to anything but None) is served as set, for  *)
(* good, whether set before or after the load, and without any load;       *)
(* None puts the configured value back (doc/source/notebooks/Experiments:  *)
(* "CobaContext.logger = None #this restores to default").                 *)
(*                                                                         *)
(* WORKERS.  CobaMultiprocessor.filter (processes > 1 or maxtasksperchild  *)
(* # 0) and Experiment.run (processes > 1 or maxchunksperchild # 0) run    *)
(* the user's code in spawned processes.  Every such process starts as a   *)
(* FRESH context (default search paths, nothing loaded, nothing set) into  *)
(* which ProcessFilter.filter installs what it was given (multiprocessing  *)
(* 22-31).  The code in the worker must see the parent's logger (same      *)
(* class and arguments, writing to the parent), the parent's cacher (made  *)
(* multi-process safe), the parent's store (+ experiment_seed during a     *)
(* run), the parent's api_keys and the parent's experiment settings - as   *)
(* they were when filter / run started, for the first and for every        *)
(* recycled worker - and the parent's own context is what it was, after.   *)
(*                                                                         *)
(* EXPERIMENT SETTINGS.  processes / maxchunksperchild / maxtasksperchunk  *)
(* of a run = the explicit run(..) argument if given (0 is a value, None   *)
(* is "not given"), else what config(..) set, else CobaContext.experiment. *)
(* run(..) arguments stay configured on the Experiment object (repository  *)
(* test test_run_config); config(..) sets all three (None = not set).      *)
(*                                                                         *)
(* All values are texts ("1", "0", "task", "None", "-" = absent) so that   *)
(* TLC never compares values of different kinds; the driver converts.      *)
(*                                                                         *)
(* Variant = "ok" is the specification.  The others are deliberately       *)
(* broken designs that TLC must reject (guards of the invariants below):   *)
(*  "file_whole"      a later file's api_keys / experiment section         *)
(*                    replaces the earlier file's section as a whole       *)
(*  "eager_undo"      the lazy load overwrites slots set by the program    *)
(*  "reload"          every read served by the configuration re-reads the  *)
(*                    files                                                *)
(*  "fail_once"       a failed load leaves the defaults loaded             *)
(*  "list_unresolved" path texts inside args lists are not resolved        *)
(*  "empty_falls_back" an empty api_keys dict set by the program counts as *)
(*                    not set                                              *)
(*  "marshal3"        workers get logger, cacher and store only and load   *)
(*                    api_keys / experiment themselves                     *)
(*  "run_resets"      run() overwrites what config() set with its own      *)
(*                    (absent) arguments                                   *)
(***************************************************************************)
EXTENDS Integers, Sequences, FiniteSets, TLC, Json
CONSTANTS NDirs, DefaultPaths, MaxSteps, Variant, Conf, Big,
          InitContents, InitPaths,       \* the file of each directory / search_paths at the start of a behaviour
          Alphabet,                      \* the actions that may be taken
          WriteContents, PathChoices,    \* arguments of Write / SetPaths
          ApiVals, CacherVals, LoggerVals, ExpSets, KeyPuts,     \* arguments of SetSlot / SetExp / PutKey
          CfgArgs, RunArgs, FilterArgs,  \* arguments of Config / Run / Filter
          InitFilter(_)                  \* restricts the initial files
VARIABLES files, paths, loaded, backing, papi, pcacher, plogger, store, info, ecfg,
          nload, snap, over, last,       \* ghosts: successful loads, files/paths at the load, in-place overrides, last SetSlot value
          ini, hist, n, done
fsvars   == <<files, paths>>
cfgvars  == <<loaded, backing, nload, snap>>
progvars == <<papi, pcacher, plogger>>
auxvars  == <<store, info>>
vars == <<files, paths, loaded, backing, papi, pcacher, plogger, store, info, ecfg, nload, snap, over, last, ini, hist, n, done>>

Dirs   == 1..NDirs
Keys   == {"k1", "k2"}
Fields == {"processes", "maxchunksperchild", "maxtasksperchunk", "chunk_by"}
XFields == {"processes", "maxchunksperchild", "maxtasksperchunk"}
SKeys  == {"s1", "s2"}
Slots  == {"api", "cacher", "logger", "exp"}

(* ------------------------------- values ------------------------------- *)
NoApi   == [k1 |-> "-", k2 |-> "-"]
NoExp   == [processes |-> "-", maxchunksperchild |-> "-", maxtasksperchunk |-> "-", chunk_by |-> "-"]
DefExp  == [processes |-> "1", maxchunksperchild |-> "0", maxtasksperchunk |-> "0", chunk_by |-> "source"]     \* 104
NoStore == [s1 |-> "-", s2 |-> "-"]
NoR     == [cls |-> "none", form |-> "-", pre |-> "-", tail |-> "-"]
NoPath  == [base |-> "none", pre |-> "-", d |-> 0, tail |-> "-"]
Raw(pre, tail)       == [base |-> "raw", pre |-> pre, d |-> 0, tail |-> tail]      \* the text as written
Res(base, d, tail)   == [base |-> base, pre |-> "-", d |-> d, tail |-> tail]       \* "dir": <directory d>/tail; "parent": <parent of d>/tail; "home": <home>/tail
NoObj   == [src |-> "none", cls |-> "-", sink |-> "-", path |-> NoPath]
DefCacher == [src |-> "made", cls |-> "DiskCacher", sink |-> "-", path |-> Raw("~/", ".cache/coba")]         \* 102 (DiskCacher keeps the text)
DefLogger == [src |-> "made", cls |-> "IndentLogger", sink |-> "ConsoleSink", path |-> NoPath]                \* 103
Prog(id)  == [src |-> "prog", cls |-> id, sink |-> "-", path |-> NoPath]            \* an object built by the program (the driver keeps one per id)
Unset(v)  == [set |-> FALSE, v |-> v]
SetTo(v)  == [set |-> TRUE, v |-> v]
NoArgs    == [processes |-> "None", maxchunksperchild |-> "None", maxtasksperchunk |-> "None"]

Resolvable(pre) == pre \in {"./", "../", "~/"}
InList(form)    == form \in {"list", "xargs", "disklist"}
Resolve(pre, tail, d, form) ==                                                     \* 81-91
   IF ~Resolvable(pre) \/ (Variant = "list_unresolved" /\ InList(form)) THEN Raw(pre, tail)
   ELSE IF pre = "./" THEN Res("dir", d, tail) ELSE IF pre = "../" THEN Res("parent", d, tail) ELSE Res("home", 0, tail)

(* JsonMakerV1 on the recipes of the domain (registry.py 61-170): [ok, obj] *)
MakeCacher(r, d) ==
   IF r.cls = "DiskCacher" /\ r.form \in {"str", "list", "kwargs", "xargs", "xkwargs"}
   THEN [ok |-> TRUE, obj |-> [src |-> "made", cls |-> "DiskCacher", sink |-> "-", path |-> Resolve(r.pre, r.tail, d, r.form)]]
   ELSE IF r.cls = "NullCacher" /\ r.form = "name" THEN [ok |-> TRUE, obj |-> [src |-> "made", cls |-> "NullCacher", sink |-> "-", path |-> NoPath]]
   ELSE [ok |-> FALSE, obj |-> NoObj]                                              \* unknown class / an argument the class refuses
MakeLogger(r, d) ==
   IF r.cls \in {"NullLogger", "BasicLogger", "IndentLogger"} /\ r.form = "name"
   THEN [ok |-> TRUE, obj |-> [src |-> "made", cls |-> r.cls, sink |-> IF r.cls = "NullLogger" THEN "NullSink" ELSE "ConsoleSink", path |-> NoPath]]
   ELSE IF r.cls \in {"BasicLogger", "IndentLogger"} /\ r.form = "console" THEN [ok |-> TRUE, obj |-> [src |-> "made", cls |-> r.cls, sink |-> "ConsoleSink", path |-> NoPath]]
   ELSE IF r.cls \in {"BasicLogger", "IndentLogger"} /\ r.form \in {"disk", "disklist"}
   THEN [ok |-> TRUE, obj |-> [src |-> "made", cls |-> r.cls, sink |-> "DiskSink", path |-> Resolve(r.pre, r.tail, d, r.form)]]
   ELSE [ok |-> FALSE, obj |-> NoObj]

(* ------------------- building the configuration (59-141) ------------------- *)
Acc0 == [ok |-> TRUE, why |-> "-", d |-> 0, api |-> NoApi, exp |-> DefExp,
         cr |-> NoR, cd |-> 0, lr |-> NoR, ld |-> 0]                                \* cr/cd: the cacher recipe and the directory of its file
HasApi(c) == \E k \in Keys : c.api[k] # "-"
HasExp(c) == \E f \in Fields : c.exp[f] # "-"
MergeFile(a, c, d) ==
   [a EXCEPT !.api = IF Variant = "file_whole" /\ HasApi(c) THEN c.api ELSE [k \in Keys |-> IF c.api[k] # "-" THEN c.api[k] ELSE a.api[k]],
             !.exp = IF Variant = "file_whole" /\ HasExp(c) THEN [f \in Fields |-> IF c.exp[f] # "-" THEN c.exp[f] ELSE DefExp[f]]
                     ELSE [f \in Fields |-> IF c.exp[f] # "-" THEN c.exp[f] ELSE a.exp[f]],
             !.cr = IF c.cacher.cls # "none" THEN c.cacher ELSE a.cr, !.cd = IF c.cacher.cls # "none" THEN d ELSE a.cd,
             !.lr = IF c.logger.cls # "none" THEN c.logger ELSE a.lr, !.ld = IF c.logger.cls # "none" THEN d ELSE a.ld]
RECURSIVE Fold(_, _, _, _)
Fold(fs, ps, i, a) ==                                                               \* 62-78, one search path at a time
   IF i > Len(ps) THEN a
   ELSE LET c == fs[ps[i]] IN
        IF c.kind \in {"absent", "blank"} THEN Fold(fs, ps, i + 1, a)
        ELSE IF c.kind \in {"unparsable", "notobj"} THEN [a EXCEPT !.ok = FALSE, !.why = c.kind, !.d = ps[i]]
        ELSE Fold(fs, ps, i + 1, MergeFile(a, c, ps[i]))
Cfg(ok, why, d, api, exp, cacher, logger) == [ok |-> ok, why |-> why, d |-> d, api |-> api, exp |-> exp, cacher |-> cacher, logger |-> logger]
Defaults == Cfg(TRUE, "-", 0, NoApi, DefExp, DefCacher, DefLogger)
LoadOf(fs, ps) ==
   LET a  == Fold(fs, ps, 1, Acc0)
       mc == IF a.cr.cls = "none" THEN [ok |-> TRUE, obj |-> DefCacher] ELSE MakeCacher(a.cr, a.cd)
       ml == IF a.lr.cls = "none" THEN [ok |-> TRUE, obj |-> DefLogger] ELSE MakeLogger(a.lr, a.ld)
   IN IF ~a.ok THEN Cfg(FALSE, a.why, a.d, NoApi, NoExp, NoObj, NoObj)
      ELSE IF ~mc.ok THEN Cfg(FALSE, "recipe", a.cd, NoApi, NoExp, NoObj, NoObj)     \* 120: the cacher is made first
      ELSE IF ~ml.ok THEN Cfg(FALSE, "recipe", a.ld, NoApi, NoExp, NoObj, NoObj)
      ELSE Cfg(TRUE, "-", 0, a.api, a.exp, mc.obj, ml.obj)
Load == LoadOf(files, paths)
(* the files a load looks into: every existing file of the search paths, up to the first one that stops it *)
FRead(res) == LET stop == IF res.ok \/ res.why = "recipe" THEN Len(paths)
                          ELSE CHOOSE j \in 1..Len(paths) : files[paths[j]].kind \in {"unparsable", "notobj"}
                                                            /\ \A q \in 1..(j - 1) : files[paths[q]].kind \notin {"unparsable", "notobj"}
              IN {paths[j] : j \in {q \in 1..stop : files[paths[q]].kind # "absent"}}

(* ------------------------ what a read would return now ------------------------ *)
Ok(v)     == [x |-> "ok", v |-> v]
Exit(res) == [x |-> "exit", v |-> [why |-> res.why, d |-> res.d]]
None      == Ok("none")
Now == IF loaded THEN backing ELSE Load           \* the configuration that serves (or would be built by) a read now
View == [api    |-> IF papi.set THEN Ok(papi.v) ELSE IF Now.ok THEN Ok(Now.api) ELSE Exit(Now),
         cacher |-> IF pcacher.set THEN Ok(pcacher.v) ELSE IF Now.ok THEN Ok(Now.cacher) ELSE Exit(Now),
         logger |-> IF plogger.set THEN Ok(plogger.v) ELSE IF Now.ok THEN Ok(Now.logger) ELSE Exit(Now),
         exp    |-> IF Now.ok THEN Ok(Now.exp) ELSE Exit(Now),
         store  |-> store, info |-> info,
         ecfg   |-> IF Now.ok THEN Ok([f \in XFields |-> IF ecfg[f] # "None" THEN ecfg[f] ELSE Now.exp[f]]) ELSE Exit(Now)]   \* Experiment.processes / .maxchunksperchild / .maxtasksperchunk
Log(a, arg, ret, fread) == /\ hist' = Append(hist, [a |-> a, arg |-> arg, ret |-> ret, fread |-> fread, view |-> View', loaded |-> loaded'])
                           /\ n' = n + 1
Can(a) == ~done /\ n < MaxSteps /\ a \in Alphabet

Init == \E fs \in [Dirs -> InitContents] : \E ps \in InitPaths :
          /\ InitFilter(fs)
          /\ files = fs /\ paths = ps /\ loaded = FALSE /\ backing = Defaults
          /\ papi = Unset(NoApi) /\ pcacher = Unset(NoObj) /\ plogger = Unset(NoObj)
          /\ store = NoStore /\ info = NoStore /\ ecfg = NoArgs
          /\ nload = 0 /\ snap = [files |-> fs, paths |-> ps] /\ over = [api |-> NoApi, exp |-> NoExp]
          /\ last = [api |-> Unset(NoApi), cacher |-> Unset(NoObj), logger |-> Unset(NoObj)]
          /\ hist = <<>> /\ n = 0 /\ done = FALSE
          /\ ini = [files |-> fs, paths |-> ps, view |-> View]

(* the lazy load (97-141): `fresh` = this step has to build the configuration *)
LoadStep(res, fresh) ==
   IF ~fresh THEN UNCHANGED <<cfgvars, progvars>>
   ELSE IF res.ok THEN /\ loaded' = TRUE /\ backing' = res /\ nload' = nload + 1 /\ snap' = [files |-> files, paths |-> paths]
                       /\ (IF Variant = "eager_undo" THEN papi' = Unset(NoApi) /\ pcacher' = Unset(NoObj) /\ plogger' = Unset(NoObj)
                           ELSE UNCHANGED progvars)
   ELSE IF Variant = "fail_once" THEN /\ loaded' = TRUE /\ backing' = Defaults /\ nload' = nload + 1 /\ snap' = [files |-> files, paths |-> paths]
                                      /\ UNCHANGED progvars
   ELSE UNCHANGED <<cfgvars, progvars>>                                          \* 124-139: coba_exit, nothing kept

P(s) == IF s = "api" THEN papi ELSE IF s = "cacher" THEN pcacher ELSE IF s = "logger" THEN plogger ELSE Unset(NoObj)
Part(res, s) == IF s = "api" THEN res.api ELSE IF s = "cacher" THEN res.cacher ELSE IF s = "logger" THEN res.logger ELSE res.exp

(* ---- x = CobaContext.api_keys | .cacher | .logger | .experiment   (143-199) ---- *)
ReadSlot(s) ==
   /\ Can("read_" \o s)
   /\ UNCHANGED <<fsvars, auxvars, ecfg, over, last, ini, done>>
   /\ (IF P(s).set
       THEN /\ UNCHANGED <<cfgvars, progvars>> /\ Log("read", s, Ok(P(s).v), {})                   \* served as set: no load
       ELSE LET fresh == ~loaded \/ Variant = "reload"
                res   == IF fresh THEN Load ELSE backing
            IN /\ LoadStep(res, fresh)
               /\ Log("read", s, IF res.ok THEN Ok(Part(res, s)) ELSE Exit(res), IF fresh THEN FRead(res) ELSE {}))
(* ---- CobaContext.api_keys = v | .cacher = v | .logger = v   (v = None: back to the configured value) ---- *)
SetSlot(s, val) ==
   /\ Can("set_" \o s)
   /\ LET w == IF Variant = "empty_falls_back" /\ s = "api" /\ val.set /\ val.v = NoApi THEN Unset(NoApi) ELSE val IN
      /\ papi'    = (IF s = "api" THEN w ELSE papi)
      /\ pcacher' = (IF s = "cacher" THEN w ELSE pcacher)
      /\ plogger' = (IF s = "logger" THEN w ELSE plogger)
   /\ last' = [last EXCEPT ![s] = val]
   /\ UNCHANGED <<fsvars, cfgvars, auxvars, ecfg, over, ini, done>>
   /\ Log("set", [s |-> s, set |-> val.set, v |-> val.v], None, {})
(* ---- CobaContext.experiment.<f> = v : the object comes from the configuration (tests: test_config_directly_set_experiment) ---- *)
SetExp(f, v) ==
   /\ Can("set_exp")
   /\ UNCHANGED <<fsvars, progvars, auxvars, ecfg, last, ini, done>>
   /\ LET res == IF loaded THEN backing ELSE Load IN
      IF res.ok THEN /\ loaded' = TRUE /\ backing' = [res EXCEPT !.exp[f] = v]
                     /\ nload' = (IF loaded THEN nload ELSE nload + 1) /\ snap' = (IF loaded THEN snap ELSE [files |-> files, paths |-> paths])
                     /\ over' = [over EXCEPT !.exp[f] = v]
                     /\ Log("set_exp", [f |-> f, v |-> v], None, IF loaded THEN {} ELSE FRead(res))
      ELSE /\ UNCHANGED <<cfgvars, over>> /\ Log("set_exp", [f |-> f, v |-> v], Exit(res), FRead(res))
(* ---- CobaContext.api_keys[k] = v : in place, on whatever dict the slot holds ---- *)
PutKey(k, v) ==
   /\ Can("put_key")
   /\ UNCHANGED <<fsvars, auxvars, ecfg, ini, done>>
   /\ (IF papi.set
       THEN /\ papi' = [papi EXCEPT !.v[k] = v] /\ last' = [last EXCEPT !.api.v[k] = v]
            /\ UNCHANGED <<cfgvars, pcacher, plogger, over>> /\ Log("put_key", [k |-> k, v |-> v], None, {})
       ELSE LET res == IF loaded THEN backing ELSE Load IN
            IF res.ok THEN /\ loaded' = TRUE /\ backing' = [res EXCEPT !.api[k] = v]
                           /\ nload' = (IF loaded THEN nload ELSE nload + 1) /\ snap' = (IF loaded THEN snap ELSE [files |-> files, paths |-> paths])
                           /\ over' = [over EXCEPT !.api[k] = v]
                           /\ UNCHANGED <<progvars, last>> /\ Log("put_key", [k |-> k, v |-> v], None, IF loaded THEN {} ELSE FRead(res))
            ELSE /\ UNCHANGED <<cfgvars, progvars, over, last>> /\ Log("put_key", [k |-> k, v |-> v], Exit(res), FRead(res)))
(* ---- the environment writes / changes / deletes <d>/.coba ---- *)
Write(d, c) ==
   /\ Can("write") /\ files[d] # c
   /\ files' = [files EXCEPT ![d] = c]
   /\ UNCHANGED <<paths, cfgvars, progvars, auxvars, ecfg, over, last, ini, done>>
   /\ Log("write", [d |-> d, c |-> c], None, {})
(* ---- CobaContext.search_paths = [..]   (208-214) ---- *)
SetPaths(ps) ==
   /\ Can("set_paths") /\ ps # paths
   /\ paths' = ps
   /\ UNCHANGED <<files, cfgvars, progvars, auxvars, ecfg, over, last, ini, done>>
   /\ Log("set_paths", ps, None, {})
(* ---- CobaContext.store[k] = v ;  CobaContext.store = {k: v}   (166-178) ---- *)
PutStore(k, v) ==
   /\ Can("store") /\ store' = [store EXCEPT ![k] = v] /\ info' = info
   /\ UNCHANGED <<fsvars, cfgvars, progvars, ecfg, over, last, ini, done>> /\ Log("put_store", [k |-> k, v |-> v], None, {})
SetStore(k, v) ==
   /\ Can("store") /\ store' = [NoStore EXCEPT ![k] = v] /\ info' = info
   /\ UNCHANGED <<fsvars, cfgvars, progvars, ecfg, over, last, ini, done>> /\ Log("set_store", [k |-> k, v |-> v], None, {})
(* ---- CobaContext.learning_info[k] = v ;  CobaContext.learning_info.clear()   (216-226) ---- *)
PutInfo(k, v) ==
   /\ Can("info") /\ info' = [info EXCEPT ![k] = v] /\ store' = store
   /\ UNCHANGED <<fsvars, cfgvars, progvars, ecfg, over, last, ini, done>> /\ Log("put_info", [k |-> k, v |-> v], None, {})
ClearInfo ==
   /\ Can("info") /\ info # NoStore /\ info' = NoStore /\ store' = store
   /\ UNCHANGED <<fsvars, cfgvars, progvars, ecfg, over, last, ini, done>> /\ Log("clear_info", "-", None, {})

(* ---------------- the Experiment object (experiments/core.py 94-133) and the workers ---------------- *)
Config(a) ==
   /\ Can("config") /\ ecfg' = a
   /\ UNCHANGED <<fsvars, cfgvars, progvars, auxvars, over, last, ini, done>> /\ Log("config", a, None, {})
(* what the code that runs the tasks sees.  multi: in freshly spawned processes, after ProcessFilter.filter installed what it was
   given; otherwise in the parent itself.  decor: Experiment.run decorates the logger (168-173). *)
Seen(res, multi, decor, seed) ==
   LET pv == [api    |-> IF papi.set THEN papi.v ELSE res.api,       cacher |-> IF pcacher.set THEN pcacher.v ELSE res.cacher,
              logger |-> IF plogger.set THEN plogger.v ELSE res.logger, exp |-> res.exp]
       own == LoadOf(files, DefaultPaths)                            \* what a fresh process would build for itself
   IN [multi |-> multi, decor |-> decor, seed |-> seed, logger |-> pv.logger, cacher |-> pv.cacher, store |-> store,
       api |-> IF multi /\ Variant = "marshal3" THEN own.api ELSE pv.api,
       exp |-> IF multi /\ Variant = "marshal3" THEN own.exp ELSE pv.exp]
(* ---- Experiment.run(processes=.., maxchunksperchild=.., maxtasksperchunk=.., seed=..)   (135-217) ---- *)
Run(a, seed) ==
   /\ Can("run")
   /\ UNCHANGED <<fsvars, auxvars, over, last, ini>>
   /\ LET res == IF loaded THEN backing ELSE Load
          e2  == IF Variant = "run_resets" THEN a ELSE [f \in XFields |-> IF a[f] # "None" THEN a[f] ELSE ecfg[f]]
      IN IF ~res.ok
         THEN /\ done' = TRUE /\ ecfg' = e2 /\ UNCHANGED <<cfgvars, progvars>>                 \* coba_exit: the program is over
              /\ Log("run", [a |-> a, seed |-> seed], Exit(res), FRead(res))
         ELSE LET eff   == [f \in XFields |-> IF e2[f] # "None" THEN e2[f] ELSE res.exp[f]]
                  multi == eff.processes # "1" \/ eff.maxchunksperchild # "0"                 \* 164
                  (* the parent needs the configuration for a setting not given, for the logger, for the cacher and the experiment
                     settings it hands to the workers - and the tasks themselves read every slot where they run.  `free`: when
                     logger and cacher are set by the program and every setting is given, whether the parent builds the
                     configuration in this step is left open (it must, to hand over the experiment settings; the as-coded
                     marshalling does not) *)
                  fresh == ~loaded
                  free  == fresh /\ multi /\ plogger.set /\ pcacher.set /\ (\A f \in XFields : e2[f] # "None")
              IN /\ done' = done /\ ecfg' = e2 /\ LoadStep(res, fresh)
                 /\ Log("run", [a |-> a, seed |-> seed],
                        Ok([eff |-> eff, free |-> free, seen |-> Seen(res, multi, IF multi THEN "ENS" ELSE "ES", seed)]), IF fresh THEN FRead(res) ELSE {})
(* ---- list(CobaMultiprocessor(filter, processes, maxtasksperchild).filter(items))   (multiprocessing 42-92) ---- *)
Filter(p, m) ==
   /\ Can("filter")
   /\ UNCHANGED <<fsvars, auxvars, ecfg, over, last, ini>>
   /\ LET res   == IF loaded THEN backing ELSE Load
          multi == p # "1" \/ m # "0"                                                        \* 48
          fresh == ~loaded
          free  == fresh /\ multi /\ plogger.set /\ pcacher.set
      IN IF ~res.ok
         THEN /\ done' = TRUE /\ UNCHANGED <<cfgvars, progvars>> /\ Log("filter", [p |-> p, m |-> m], Exit(res), FRead(res))
         ELSE /\ done' = done /\ LoadStep(res, fresh)
              /\ Log("filter", [p |-> p, m |-> m], Ok([eff |-> [processes |-> p, maxchunksperchild |-> m, maxtasksperchunk |-> "0"], free |-> free,
                                                       seen |-> Seen(res, multi, "none", "-")]), IF fresh THEN FRead(res) ELSE {})

Next == \/ \E s \in Slots : ReadSlot(s)
        \/ \E v \in ApiVals : SetSlot("api", v)
        \/ \E v \in CacherVals : SetSlot("cacher", v)
        \/ \E v \in LoggerVals : SetSlot("logger", v)
        \/ \E e \in ExpSets : SetExp(e[1], e[2])
        \/ \E e \in KeyPuts : PutKey(e[1], e[2])
        \/ \E d \in Dirs : \E c \in WriteContents : Write(d, c)
        \/ \E ps \in PathChoices : SetPaths(ps)
        \/ \E k \in {"s1"} : \E v \in {"x", "y"} : PutStore(k, v)
        \/ SetStore("s2", "z")
        \/ \E v \in {"x", "y"} : PutInfo("s1", v)
        \/ ClearInfo
        \/ \E a \in CfgArgs : Config(a)
        \/ \E r \in RunArgs : Run(r[1], r[2])
        \/ \E r \in FilterArgs : Filter(r[1], r[2])
Spec == Init /\ [][Next]_vars

(* ============================ design facts (checked by TLC) ============================ *)
PrevView(i)   == IF i = 1 THEN ini.view ELSE hist[i - 1].view
PrevLoaded(i) == IF i = 1 THEN FALSE ELSE hist[i - 1].loaded
SlotActs == {"read", "set_exp", "put_key", "run", "filter"}           \* the steps that may need the configuration
(* laziness: no file is looked at except by a step that needs the configuration while it is not built; one load, ever *)
Lazy    == \A i \in DOMAIN hist : hist[i].fread # {} => (hist[i].a \in SlotActs /\ ~PrevLoaded(i))
OneLoad == nload <= 1 /\ (loaded <=> nload = 1) /\ \A i \in DOMAIN hist : (PrevLoaded(i) => hist[i].loaded)
(* later reads are served from the cache: once loaded, nothing the environment does to files / search_paths changes any slot *)
CacheStable == [][(loaded /\ <<files, paths>>' # <<files, paths>>) => View' = View]_vars
(* precedence per key: in-place override > later path > earlier path > default - stated declaratively, against the files at load time *)
MaxOf(S) == CHOOSE x \in S : \A y \in S : y <= x
Definers(fs, ps, has(_)) == {i \in 1..Len(ps) : fs[ps[i]].kind = "obj" /\ has(fs[ps[i]])}
PrecApi(fs, ps, k) == LET I == Definers(fs, ps, LAMBDA c : c.api[k] # "-") IN IF I = {} THEN "-" ELSE fs[ps[MaxOf(I)]].api[k]
PrecExp(fs, ps, f) == LET I == Definers(fs, ps, LAMBDA c : c.exp[f] # "-") IN IF I = {} THEN DefExp[f] ELSE fs[ps[MaxOf(I)]].exp[f]
PrecCacher(fs, ps) == LET I == Definers(fs, ps, LAMBDA c : c.cacher.cls # "none") IN
                      IF I = {} THEN DefCacher ELSE MakeCacher(fs[ps[MaxOf(I)]].cacher, ps[MaxOf(I)]).obj
PrecLogger(fs, ps) == LET I == Definers(fs, ps, LAMBDA c : c.logger.cls # "none") IN
                      IF I = {} THEN DefLogger ELSE MakeLogger(fs[ps[MaxOf(I)]].logger, ps[MaxOf(I)]).obj
PrecedencePerKey == loaded =>
   /\ \A k \in Keys   : backing.api[k] = IF over.api[k] # "-" THEN over.api[k] ELSE PrecApi(snap.files, snap.paths, k)
   /\ \A f \in Fields : backing.exp[f] = IF over.exp[f] # "-" THEN over.exp[f] ELSE PrecExp(snap.files, snap.paths, f)
   /\ backing.cacher = PrecCacher(snap.files, snap.paths) /\ backing.logger = PrecLogger(snap.files, snap.paths)
(* a configuration is only ever built from files that are all good *)
GoodFiles(fs, ps) == /\ \A i \in 1..Len(ps) : fs[ps[i]].kind \in {"absent", "blank", "obj"}
                     /\ PrecCacher(fs, ps).src # "none" /\ PrecLogger(fs, ps).src # "none"
NoLoadFromBadFiles == loaded => GoodFiles(snap.files, snap.paths)
(* ... and a read that needs it while the files are bad says so - every time, until they are repaired: a read returns what View announced *)
ReadsMatchView == \A i \in DOMAIN hist : hist[i].a = "read" => hist[i].ret = PrevView(i)[hist[i].arg]
FailureReported == \A i \in DOMAIN hist : (hist[i].a = "read" /\ hist[i].ret.x = "exit") => ~hist[i].loaded
(* a slot set by the program is served as set, whatever is loaded before or after *)
ProgrammaticWins == \A s \in {"api", "cacher", "logger"} : last[s].set => View[s] = Ok(last[s].v)
(* one slot's override never affects another slot *)
LastStep == hist'[Len(hist')]
SlotIndependence == [][hist' # hist =>
                        /\ (LastStep.a = "set" => \A s \in Slots \ {LastStep.arg.s} : View'[s] = View[s])
                        /\ (LastStep.a = "set_exp" => \A s \in Slots \ {"exp"} : View'[s] = View[s])
                        /\ (LastStep.a = "put_key" => \A s \in Slots \ {"api"} : View'[s] = View[s])
                        /\ (LastStep.a \in {"put_store", "set_store", "put_info", "clear_info", "config"} => \A s \in Slots : View'[s] = View[s])]_vars
(* store / learning_info never need the configuration *)
AuxLazy == \A i \in DOMAIN hist : hist[i].a \in {"put_store", "set_store", "put_info", "clear_info", "set", "write", "set_paths", "config"} => hist[i].loaded = PrevLoaded(i)
(* every resolvable path text of a made object has been resolved, wherever it stood in the file *)
Resolved(o) == ~(o.path.base = "raw" /\ Resolvable(o.path.pre)) \/ o = DefCacher
PathsResolved == loaded => (Resolved(backing.cacher) /\ Resolved(backing.logger))
(* workers see the parent's context; the parent's context is what it was *)
IsRun(i) == hist[i].a \in {"run", "filter"} /\ hist[i].ret.x = "ok"
WorkersSeeParent == \A i \in DOMAIN hist : IsRun(i) =>
   LET s == hist[i].ret.v.seen  pv == PrevView(i) IN
   /\ s.api = pv.api.v /\ s.exp = pv.exp.v /\ s.cacher = pv.cacher.v /\ s.logger = pv.logger.v /\ s.store = pv.store
ParentUnchanged == \A i \in DOMAIN hist : IsRun(i) =>
   \A s \in Slots \cup {"store", "info"} : hist[i].view[s] = PrevView(i)[s]
(* explicit run argument > config() > context default; run arguments stay configured *)
RECURSIVE Want(_, _)
Want(i, f) == IF i = 0 THEN "None"
              ELSE IF hist[i].a = "run" /\ hist[i].arg.a[f] # "None" THEN hist[i].arg.a[f]
              ELSE IF hist[i].a = "config" THEN hist[i].arg[f]
              ELSE Want(i - 1, f)
RunPrecedence == /\ \A f \in XFields : ecfg[f] = Want(Len(hist), f)
                 /\ \A i \in DOMAIN hist : (hist[i].a = "run" /\ hist[i].ret.x = "ok") =>
                       \A f \in XFields : hist[i].ret.v.eff[f] = IF Want(i, f) # "None" THEN Want(i, f) ELSE PrevView(i).exp.v[f]

Wanted == Conf \notin {"exp", "marshal"} \/ \E i \in DOMAIN hist : hist[i].a \in {"run", "filter"}     \* those configurations are about the workers
Emit == ((done \/ n = MaxSteps) /\ Wanted) => PrintT(ToJson([conf |-> Conf, ini |-> ini, hist |-> hist]))
=============================================================================
