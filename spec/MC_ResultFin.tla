---------------------------- MODULE MC_ResultFin ----------------------------
(* Model constants for ResultFin.tla; harness/drivers/c18.py picks them per run by textual substitution in ResultFin.cfg *)
EXTENDS ResultFin
(* ---- parameter columns (sequences indexed by id; abstract values, the driver maps them to ints / strings / mixed hashables) *)
PDistinct == [ea |-> <<1,2,3>>, eb |-> <<0,0,0>>, la |-> <<1,2,3>>, lb |-> <<0,0,0>>, va |-> <<1,2>>]
PDup      == [ea |-> <<1,1,2>>, eb |-> <<0,0,1>>, la |-> <<1,1,2>>, lb |-> <<0,1,0>>, va |-> <<1,1>>]     \* environments 1,2 share (ea,eb); learners 1,2 share la
PDup2     == [ea |-> <<1,1,2>>, eb |-> <<0,1,0>>, la |-> <<1,1,1>>, lb |-> <<0,1,1>>, va |-> <<1,2>>]     \* ea duplicated, (ea,eb) distinct; learners 2,3 share (la,lb)
PDup3     == [ea |-> <<1,2,1>>, eb |-> <<1,1,1>>, la |-> <<2,1,2>>, lb |-> <<0,0,0>>, va |-> <<1,1>>]     \* environments 1,3 and learners 1,3 are duplicates
P1 == {PDistinct}
P2 == {PDistinct, PDup}
P4 == {PDistinct, PDup, PDup2, PDup3}
(* ---- length patterns <<a,b,c,d>>: len(e,l,v) = 1 + (a*e + b*l + c*v + d) % MaxLen *)
LP3 == {<<0,0,0,1>>, <<1,1,1,0>>, <<1,2,0,1>>}
LP6 == {<<0,0,0,1>>, <<1,0,0,0>>, <<0,1,0,0>>, <<1,1,1,0>>, <<1,2,0,1>>, <<2,1,1,0>>}
(* ---- grids *)
D221 == {<<2,2,1>>}
D222 == {<<2,2,2>>}
D321 == {<<3,2,1>>}
D322 == {<<3,2,2>>}
D331 == {<<3,3,1>>}
D332 == {<<3,3,2>>}
D232 == {<<2,3,2>>}
DSmall == {<<2,2,1>>, <<2,2,2>>, <<3,2,1>>}
DAll == {<<2,2,1>>, <<2,2,2>>, <<3,2,1>>, <<3,2,2>>, <<2,3,2>>, <<3,3,1>>}
(* ---- column choices *)
Lid == <<"learner_id">>
Lfn == <<"full_name">>
La  == <<"la">>
Lab == <<"la","lb">>
Lv  == <<"learner_id","evaluator_id">>
Pid == <<"environment_id">>
Pa  == <<"ea">>
Pab == <<"ea","eb">>
Pv  == <<"environment_id","evaluator_id">>
None2 == <<<<>>, <<>>>>
LPFew == {None2, <<Lid,Pid>>, <<La,Pa>>}
LPMid == {None2, <<Lid,Pid>>, <<Lfn,Pid>>, <<La,Pa>>, <<Lab,Pab>>, <<Lid,Pv>>}
LPAll == {None2} \cup ({Lid, Lfn, La, Lab, Lv} \X {Pid, Pa, Pab, Pv})
N2 == {0, -1, 1, 2}
N3 == {0, -1, 1, 2, 3}
N4 == {0, -1, 1, 2, 3, 4}
X == <<"index">>
RawFew == {<<X, Lfn, Pid, 0>>, <<X, Lid, <<>>, 2>>, <<Pa, La, Pid, 0>>, <<Pab, Lid, Pa, 1>>}
RawMid == ({X} \X {Lfn, La} \X {Pid, Pa, <<>>} \X {0, 1, 2}) \cup ({Pa, Pab} \X {Lid, Lab} \X {Pid, <<>>} \X {0, 1, 2})
RawAll == ({X} \X {Lid, Lfn, La, Lab, Lv} \X {Pid, Pa, Pab, Pv, <<>>} \X {0, 1, 2, 3})
          \cup ({Pa, Pab, Pid, <<"ea","va">>} \X {Lid, Lfn, La, Lab} \X {Pid, Pa, <<>>} \X {0, 1, 2, 3})
BestFew == {<<La, Pid, 0>>, <<La, Pa, 1>>, <<La, <<>>, 0>>}
BestAll == {La, Lab, Lid} \X {Pid, Pa, Pab, <<>>} \X {0, 1, 2}
WhereFew == {<<"environment_id", {1, 2}>>, <<"la", {1}>>, <<"index", 1>>}
WhereAll == {<<"environment_id", {1, 2}>>, <<"environment_id", {3}>>, <<"ea", {1}>>, <<"learner_id", {1, 2}>>, <<"learner_id", {2, 3}>>,
             <<"la", {1}>>, <<"evaluator_id", {1}>>, <<"va", {2}>>, <<"index", 1>>, <<"index", 2>>}
WhereIFew == {<<"reward", ">", 5>>, <<"index", ">=", 2>>}
WhereIAll == {<<"reward", ">", 5>>, <<"reward", "<=", 3>>, <<"reward", ">=", 9>>, <<"index", ">=", 2>>, <<"index", "=", 2>>, <<"index", "<", 2>>}
AllOps == {"fin", "where", "wherei", "best", "raw"}
FinRaw == {"fin", "raw"}
FinOnly == {"fin"}
(* ---- names of the parameter columns: plain, and names that contain or resemble the words of the API *)
Nm(a, b, c, d, e) == [ea |-> a, eb |-> b, la |-> c, lb |-> d, va |-> e]
NamesAll == {Nm("ea", "eb", "la", "lb", "va"),
             Nm("fold_index", "index2", "learner", "full_name2", "evaluator"),
             Nm("indexes", "environment_id2", "learner_id2", "family", "evaluator_id2"),
             Nm("data_index", "environment", "full_names", "learner_idx", "reward2"),
             Nm("x", "y", "l", "p", "n"),
             Nm("reindexed", "Index", "name", "full name", "eval index"),
             Nm("index_", "span", "learner_index", "id", "count")}
(* ---- moving_average *)
WNone == [k |-> "none", s |-> <<>>]
WExp  == [k |-> "exp", s |-> <<>>]
WSeq(s) == [k |-> "seq", s |-> s]
MAWFew == {WNone, WExp, WSeq(<<1,2,3,1,2,3>>), WSeq(<<3,1,1,2,1,5>>)}
MAWAll == MAWFew \cup {WSeq(<<1,1,1,1,1,1>>), WSeq(<<5,4,3,2,1,1>>), WSeq(<<2,7,1,8,2,8>>)}
MAV3 == {-2, 0, 3}
MAV4 == {-2, 0, 1, 3}
MAS5 == {0, 1, 2, 3, 5}
MAS7 == {0, 1, 2, 3, 4, 5, 7}
Bools == {TRUE, FALSE}
OnlyF == {FALSE}
=============================================================================
