------------------------------- MODULE Encoders -------------------------------
(***************************************************************************)
(* X12 - the value encoders of coba/encodings.py (all but the              *)
(* InteractionsEncoder, which is C20's Interactions.tla):                  *)
(*   IdentityEncoder (85-98), MissingEncoder (100-118), StringEncoder      *)
(*   (120-134), NumericEncoder (136-160), OneHotEncoder (162-217),         *)
(*   CategoricalEncoder (219-254) with coba.primitives.Categorical,        *)
(*   FactorEncoder (256-300), and Encoder.fit_encodes (71-83).             *)
(*                                                                         *)
(* Mode = "hist": every encoder OBJECT is a small state machine            *)
(*   unfit -> fit  (through the constructor's `values`, or `fit(values)`)  *)
(* and, by the remark of the Encoder interface (16-23: "all Encoder        *)
(* implementations are immutable ... `fit` should always return a new      *)
(* Encoder"), no call ever changes an object that exists: `fit` creates a  *)
(* NEW object.  The state is therefore a HEAP `objs` of abstract encoders; *)
(* one action per public call - IsFit, Fit, Encode, Encodes, FitEncodes -  *)
(* plus Pickle (a pickle round trip creates an object with the same        *)
(* abstract state).  TLC enumerates every history of MaxCalls calls over   *)
(* the alphabet of the run; `hist` holds for every call its receiver, its  *)
(* argument, the result the real call must give and, for a created object, *)
(* its observable state (is_fit and the result of encode for every value   *)
(* of the alphabet).  Since no object ever changes, the observable state   *)
(* of every object after EVERY step is the one printed at its creation.    *)
(*                                                                         *)
(* Mode = "float": decision table for NumericEncoder - every initial state *)
(* is one spelling (a text given as the sequence of its characters), its   *)
(* successor prints the float the documented grammar of float() assigns    *)
(* to it (or nan: NumericEncoder 146-150 turns every rejection into nan).  *)
(*                                                                         *)
(* VALUES (records [t, v] so that Python can tell the types apart; a TEXT  *)
(* is the sequence of its characters - TLC has no string operations)       *)
(*   [t |-> "s", v |-> <<"1", ".", "5">>]   the str "1.5"                  *)
(*   [t |-> "i", v |-> n]                   the int n                      *)
(*   [t |-> "b", v |-> 0 | 1]               False / True                   *)
(*   [t |-> "d", v |-> <<m, e>>]            the float m * 10^e  (e <= 0)   *)
(*   [t |-> "none", v |-> 0]                None                           *)
(*   [t |-> "fnan", v |-> 0]                the float nan                  *)
(*   [t |-> "l", v |-> 0]                   the list [1] (not hashable)    *)
(* RESULTS                                                                 *)
(*   a value (IdentityEncoder; StringEncoder gives an "s"; FactorEncoder   *)
(*            an "i"; a MissingEncoder its missing_rep)                    *)
(*   [t |-> "num", v |-> <<neg, m, e>>]  the float (-1)^neg * m * 10^e,    *)
(*            correctly rounded (neg matters for -0.0)                     *)
(*   [t |-> "inf", v |-> neg]   [t |-> "nan", v |-> 0]                     *)
(*   [t |-> "vec", v |-> <<0, 1, 0>>]    a tuple of ints (one hot)         *)
(*   [t |-> "cat", v |-> <<value, levels, as_int, ordered>>] a Categorical *)
(*            equal to the str `value`, with .levels (as a list when       *)
(*            `ordered` = 1, in any order otherwise), .as_int, .as_onehot  *)
(*   [t |-> "err", v |-> "unfit" | "unknown"]   the call raises            *)
(*            CobaException (the reason only names the clause)             *)
(*   [t |-> "err_or_empty", v |-> 0]  CobaException or an empty sequence   *)
(*   [t |-> "seq", v |-> <<r1, .., rn>>]  a sequence whose elements are    *)
(*            r1 .. rn in this order (list / tuple / iterator not fixed)   *)
(*                                                                         *)
(* Clauses marked IMPLEMENTATION CHOICE mirror what the code does where    *)
(* the documentation is silent; they keep the oracle exact there and are   *)
(* not requirements of their own.                                          *)
(*                                                                         *)
(* Variant = "ok" is the design; the others are deliberately broken        *)
(* designs that TLC must reject (guards of the invariants below):          *)
(*   "fit_in_place"     fit also fits the receiver                         *)
(*   "sorted_levels"    levels in sorted instead of first-seen order       *)
(*   "fit_accumulates"  a second fit keeps the levels of the first         *)
(*   "encodes_skips"    encodes drops unknown values instead of encoding   *)
(*                      them as zeros / raising                            *)
(*   "inner_blanks"     (float) blanks are removed everywhere, not only at *)
(*                      both ends                                          *)
(***************************************************************************)
EXTENDS Integers, Sequences, FiniteSets, TLC, Json
CONSTANTS KindAlphas,\* the <<kind, alphabet>> pairs of the run (MC_Encoders.tla names the sets).
                     \* kind: "identity" | "string" | "numeric" | "missing" | "missing_numeric" | "missing_custom" | "missing_onehot"
                     \*       | "onehot" | "factor" | "categorical"
                     \* alphabet: "abc" | "mixed" | "ints" (needs-fit kinds), "onehot_missing", "text" (the always-fit kinds)
          Size,      \* "s" | "m" | "l": how much of the alphabet (hist); "g": the alphabet of "s" with object 1 constructed from
                     \* given values instead of unfit; "q" | "t": how many spellings (float)
          MaxCalls,  \* calls per history
          MaxObjs,   \* encoder objects per history
          Mode,      \* "hist" | "float"
          First,     \* "any", or the call every history of this run starts with (splits a large enumeration into runs)
          Variant
VARIABLES objs,      \* the heap: abstract encoder objects, in creation order
          init0,     \* the encoder kind and alphabet of this history and how object 1 was constructed
          hist,      \* the calls so far with their expected results
          done,
          case       \* float mode: the spelling
vars == <<objs, init0, hist, done, case>>
Kind  == init0.kind
Alpha == init0.alpha

----------------------------------------------------------------------------
(* values and results *)
S(cs)  == [t |-> "s", v |-> cs]
I(n)   == [t |-> "i", v |-> n]
B(b)   == [t |-> "b", v |-> b]
D(m,e) == [t |-> "d", v |-> <<m, e>>]
None   == [t |-> "none", v |-> 0]
Lst    == [t |-> "l", v |-> 0]
FNaN   == [t |-> "fnan", v |-> 0]
Num(neg, m, e) == [t |-> "num", v |-> <<IF neg THEN 1 ELSE 0, m, e>>]
Inf(neg) == [t |-> "inf", v |-> IF neg THEN 1 ELSE 0]
NaN    == [t |-> "nan", v |-> 0]
Vec(xs) == [t |-> "vec", v |-> xs]
Cat(x, lv, i, ord) == [t |-> "cat", v |-> <<x, lv, i, IF ord THEN 1 ELSE 0>>]
Err(c) == [t |-> "err", v |-> c]
ErrOrEmpty == [t |-> "err_or_empty", v |-> 0]
SeqR(rs) == [t |-> "seq", v |-> rs]
BoolR(b) == B(IF b THEN 1 ELSE 0)
Nil == [t |-> "nil", v |-> 0]
IsErr(r) == r.t = "err"

----------------------------------------------------------------------------
(* texts *)
IsBlank(c) == c \in {" ", "\t", "\n"}
IsDigit(c) == c \in {"0", "1", "2", "3", "4", "5", "6", "7", "8", "9"}
DV(c) == CASE c = "0" -> 0 [] c = "1" -> 1 [] c = "2" -> 2 [] c = "3" -> 3 [] c = "4" -> 4
           [] c = "5" -> 5 [] c = "6" -> 6 [] c = "7" -> 7 [] c = "8" -> 8 [] c = "9" -> 9
DC(d) == CASE d = 0 -> "0" [] d = 1 -> "1" [] d = 2 -> "2" [] d = 3 -> "3" [] d = 4 -> "4"
           [] d = 5 -> "5" [] d = 6 -> "6" [] d = 7 -> "7" [] d = 8 -> "8" [] d = 9 -> "9"
RECURSIVE NatChars(_)
NatChars(n) == IF n < 10 THEN <<DC(n)>> ELSE NatChars(n \div 10) \o <<DC(n % 10)>>
IntChars(n) == IF n < 0 THEN <<"-">> \o NatChars(-n) ELSE NatChars(n)
RECURSIVE DigitsVal(_)
DigitsVal(s) == IF s = <<>> THEN 0 ELSE 10 * DigitsVal(SubSeq(s, 1, Len(s) - 1)) + DV(s[Len(s)])
AllDigits(s) == \A i \in DOMAIN s : IsDigit(s[i])
FirstIn(s, set) == IF \E i \in DOMAIN s : s[i] \in set
                   THEN CHOOSE i \in DOMAIN s : s[i] \in set /\ \A j \in 1..(i - 1) : s[j] \notin set
                   ELSE 0

(* ---- str(x): StringEncoder.encode (130-131) ----
   str of a text is the text; of an int its decimal digits; None -> "None"; True / False; the float m * 10^e of the alphabet
   (e = 0: "<m>.0"; e = -1 with m not a multiple of 10: "<m div 10>.<m mod 10>"); the list [1] -> "[1]" *)
StrOf(x) == CASE x.t = "s" -> x.v
              [] x.t = "i" -> IntChars(x.v)
              [] x.t = "b" -> (IF x.v = 1 THEN <<"T", "r", "u", "e">> ELSE <<"F", "a", "l", "s", "e">>)
              [] x.t = "none" -> <<"N", "o", "n", "e">>
              [] x.t = "l" -> <<"[", "1", "]">>
              [] x.t = "fnan" -> <<"n", "a", "n">>
              [] x.t = "d" -> LET m == x.v[1] e == x.v[2]
                                  a == IF m < 0 THEN -m ELSE m
                                  sg == IF m < 0 THEN <<"-">> ELSE <<>>
                              IN IF e = 0 THEN sg \o NatChars(a) \o <<".", "0">>
                                 ELSE sg \o NatChars(a \div 10) \o <<".">> \o <<DC(a % 10)>>

(* ---- float(x): NumericEncoder.encode (146-150).  The grammar is the one documented for float():
       floatvalue ::= [sign] (floatnumber | "inf" | "infinity" | "nan")      (letters in any case)
       floatnumber ::= (digitpart ["."] | [digitpart] "." digitpart) [("e" | "E") [sign] digitpart]
       digitpart ::= digit (["_"] digit)*
   after blanks at both ends are removed; everything else is rejected, and NumericEncoder turns a rejection into nan. *)
RECURSIVE LStrip(_)
LStrip(s) == IF s # <<>> /\ IsBlank(Head(s)) THEN LStrip(Tail(s)) ELSE s
RECURSIVE RStrip(_)
RStrip(s) == IF s # <<>> /\ IsBlank(s[Len(s)]) THEN RStrip(SubSeq(s, 1, Len(s) - 1)) ELSE s
Strip(s) == IF Variant = "inner_blanks" THEN SelectSeq(s, LAMBDA c : ~IsBlank(c)) ELSE RStrip(LStrip(s))
(* an underscore stands between two digits (digitpart) *)
UnderOK(s) == \A i \in DOMAIN s : s[i] = "_" => (i > 1 /\ i < Len(s) /\ IsDigit(s[i - 1]) /\ IsDigit(s[i + 1]))
NoUnder(s) == SelectSeq(s, LAMBDA c : c # "_")
Lower(c) == CASE c = "I" -> "i" [] c = "N" -> "n" [] c = "F" -> "f" [] c = "A" -> "a" [] c = "T" -> "t" [] c = "Y" -> "y" [] OTHER -> c
LowerSeq(s) == [i \in DOMAIN s |-> Lower(s[i])]
ParseAbs(r, neg) ==
  LET lo == LowerSeq(r) IN
  IF lo = <<"i", "n", "f">> \/ lo = <<"i", "n", "f", "i", "n", "i", "t", "y">> THEN Inf(neg)
  ELSE IF lo = <<"n", "a", "n">> THEN NaN
  ELSE LET ei   == FirstIn(r, {"e", "E"})
           man  == IF ei = 0 THEN r ELSE SubSeq(r, 1, ei - 1)
           ex   == IF ei = 0 THEN <<>> ELSE SubSeq(r, ei + 1, Len(r))
           exng == ex # <<>> /\ ex[1] = "-"
           exd  == IF ex # <<>> /\ ex[1] \in {"+", "-"} THEN Tail(ex) ELSE ex
           di   == FirstIn(man, {"."})
           ip   == IF di = 0 THEN man ELSE SubSeq(man, 1, di - 1)
           fp   == IF di = 0 THEN <<>> ELSE SubSeq(man, di + 1, Len(man))
           okm  == AllDigits(ip) /\ AllDigits(fp) /\ (ip \o fp) # <<>>
           oke  == ei = 0 \/ (exd # <<>> /\ AllDigits(exd))
       IN IF okm /\ oke THEN Num(neg, DigitsVal(ip \o fp), (IF exng THEN -1 ELSE 1) * DigitsVal(exd) - Len(fp)) ELSE NaN
ParseFloat(cs) ==
  LET s == Strip(cs) IN
  IF s = <<>> \/ ~UnderOK(s) THEN NaN
  ELSE LET t == NoUnder(s)
           r == IF t[1] \in {"+", "-"} THEN Tail(t) ELSE t
       IN IF r = <<>> THEN NaN ELSE ParseAbs(r, t[1] = "-")
FloatOf(x) == CASE x.t = "s" -> ParseFloat(x.v)
                [] x.t = "i" -> Num(x.v < 0, IF x.v < 0 THEN -x.v ELSE x.v, 0)
                [] x.t = "b" -> Num(FALSE, x.v, 0)
                [] x.t = "d" -> Num(x.v[1] < 0, IF x.v[1] < 0 THEN -x.v[1] ELSE x.v[1], x.v[2])
                [] OTHER -> NaN            \* None, a list: float() raises TypeError -> nan; the float nan stays nan

----------------------------------------------------------------------------
(* the encoder kinds *)
NeedFit == {"onehot", "factor", "categorical"}
WrappedOf(k) == k \in {"missing", "missing_numeric", "missing_custom", "missing_onehot"}
BaseOf(k) == CASE k = "missing" -> "identity"                 \* MissingEncoder()                      (102: the defaults)
               [] k = "missing_numeric" -> "numeric"          \* MissingEncoder(NumericEncoder())
               [] k = "missing_custom" -> "string"            \* MissingEncoder(StringEncoder(), missing_vals=[None, "x"], missing_rep=-1)
               [] k = "missing_onehot" -> "onehot"            \* MissingEncoder(OneHotEncoder(err_if_unknown=..))
               [] OTHER -> k
Wrapped == WrappedOf(Kind)
Base == BaseOf(Kind)
Q == S(<<"?">>)
E == S(<<>>)
MissVals == IF Kind = "missing_custom" THEN {None, S(<<"x">>)} ELSE {Q, E}          \* 102: missing_vals = ["?", ""]
Rep      == IF Kind = "missing_custom" THEN I(-1) ELSE None                          \* 102: missing_rep = None
IsMissing(x) == Wrapped /\ x \in MissVals                                             \* 115: `value in self._missing_vals`

(* an abstract encoder: is it fit, its levels in order, err_if_unknown, the values it was fit on *)
Obj(fit, lv, err, src) == [fit |-> fit, lv |-> lv, err |-> err, src |-> src]
Pos(s, x) == IF \E i \in DOMAIN s : s[i] = x THEN CHOOSE i \in DOMAIN s : s[i] = x /\ \A j \in 1..(i - 1) : s[j] # x ELSE 0
HasDup(s) == \E i, j \in DOMAIN s : i < j /\ s[i] = s[j]
(* the distinct elements in the order of their first occurrence (179, 271: sorted(set(values), key=values.index)) *)
RECURSIVE Distinct(_)
Distinct(s) == IF s = <<>> THEN <<>>
               ELSE LET d == Distinct(SubSeq(s, 1, Len(s) - 1)) x == s[Len(s)]
                    IN IF Pos(d, x) > 0 THEN d ELSE Append(d, x)
(* a total order on the values of one alphabet, only for the broken variant "sorted_levels" *)
Rank(x) == CASE x.t = "s" -> (IF x.v = <<>> THEN 0 ELSE IF x.v[1] = "a" THEN 1 ELSE IF x.v[1] = "b" THEN 2 ELSE IF x.v[1] = "c" THEN 3 ELSE 4)
             [] x.t = "i" -> 5 [] OTHER -> 6
RECURSIVE SortLv(_)
SortLv(s) == IF s = <<>> THEN <<>>
              ELSE LET m == CHOOSE i \in DOMAIN s : \A j \in DOMAIN s : Rank(s[i]) <= Rank(s[j])
                   IN <<s[m]>> \o SortLv(SubSeq(s, 1, m - 1) \o SubSeq(s, m + 1, Len(s)))

Unit(n, i) == [k \in 1..n |-> IF k = i THEN 1 ELSE 0]
(* encode for the un-wrapped kinds *)
Enc1(base, st, x) ==
  CASE base = "identity" -> x                                                          \* 94-95
    [] base = "string"   -> S(StrOf(x))                                                \* 130-131
    [] base = "numeric"  -> FloatOf(x)                                                 \* 146-150
    [] base \in NeedFit  ->
         IF ~st.fit THEN Err("unfit")                                                  \* 202-203, 245-246, 285-286
         ELSE LET p == Pos(st.lv, x) n == Len(st.lv) IN
              IF p > 0 THEN (CASE base = "onehot" -> Vec(Unit(n, p))                   \* 181-187
                               [] base = "factor" -> I(p)                              \* 272: levels are 1, 2, ..
                               [] OTHER -> Cat(x, st.lv, p - 1, ~HasDup(st.src)))      \* 231; primitives.Categorical 322-327
              ELSE IF base = "categorical" \/ st.err THEN Err("unknown")               \* 207-208, 243-244, 290-291
              ELSE IF base = "onehot" THEN Vec(Unit(n, 0))                             \* 170: "otherwise encode as all 0's"
              ELSE NaN                                                                 \* 275, test_encode_err_if_unkonwn_false
Enc(st, x) == IF IsMissing(x) THEN Rep ELSE Enc1(Base, st, x)                         \* 115
(* encodes = encode element by element; the first element that raises makes the call raise *)
Encs(st, xs) ==
  LET rs == [i \in DOMAIN xs |-> Enc(st, xs[i])]
      ks == IF Variant = "encodes_skips" /\ Base \in NeedFit /\ st.fit
            THEN SelectSeq(xs, LAMBDA x : IsMissing(x) \/ Pos(st.lv, x) > 0) ELSE xs
      qs == [i \in DOMAIN ks |-> Enc(st, ks[i])]
  IN IF ~Wrapped /\ Base \in NeedFit /\ ~st.fit /\ xs = <<>> THEN ErrOrEmpty      \* IMPLEMENTATION CHOICE (211-212 raises): nothing to encode, not fit
     ELSE IF \E i \in DOMAIN qs : IsErr(qs[i]) THEN qs[CHOOSE i \in DOMAIN qs : IsErr(qs[i]) /\ \A j \in 1..(i - 1) : ~IsErr(qs[j])]
     ELSE SeqR(qs)
(* fit(values): the always-fit kinds have nothing to learn (91-92, 111-112, 127-128, 143-144); the others learn the distinct
   values in first-seen order and keep err_if_unknown (198-199, 237-238, 281-282).  A MissingEncoder around an encoder that
   needs fitting fits it on the values that are not missing. *)
FitSt(st, xs) ==
  IF Base \notin NeedFit THEN st
  ELSE LET ys == SelectSeq(xs, LAMBDA x : ~IsMissing(x))
           d  == CASE Variant = "sorted_levels" -> SortLv(Distinct(ys))
                   [] Variant = "fit_accumulates" -> Distinct(st.lv \o ys)
                   [] OTHER -> Distinct(ys)
       IN Obj(TRUE, d, st.err, ys)
(* fit_encodes (80-83): a fit encoder encodes with the fit it has, an unfit one is fit on the values first *)
FitEncs(st, xs) == IF st.fit THEN Encs(st, xs) ELSE Encs(FitSt(st, xs), xs)

----------------------------------------------------------------------------
(* alphabets *)
Small == Size \in {"s", "g"}
A1 == S(<<"a">>)
B1 == S(<<"b">>)
C1 == S(<<"c">>)
S1 == S(<<"1">>)
VOf(k, al) == CASE al = "abc"   -> (IF Small THEN <<A1, C1>> ELSE <<A1, B1, C1>>)
                [] al = "mixed" -> (IF k = "categorical" THEN <<S1, E, Q>> ELSE <<S1, I(1), None>>)
                [] al = "onehot_missing" -> (IF Small THEN <<A1, C1, Q>> ELSE <<A1, C1, Q, E>>)
                [] al = "ints"  -> <<I(0), I(2), I(3)>>
                [] OTHER -> (CASE Small -> <<S(<<"1", ".", "5">>), Q, None>>
                               [] Size = "m" -> <<S(<<"1", ".", "5">>), Q, None, E, S(<<"x">>), I(2)>>
                               [] OTHER      -> <<S(<<"1", ".", "5">>), Q, None, E, S(<<"x">>), I(2), S(<<" ", "7", " ">>), S(<<" ", "?">>),
                                                  D(25, -1), D(-2, 0), B(1), Lst, I(-30), S(<<"1", "_", "0">>), S(<<"N", "a", "N">>), FNaN>>)
V == VOf(Kind, Alpha)
(* the lists given to fit / fit_encodes and to encodes *)
LFOf(k, al) == CASE al = "abc"   -> (IF Small THEN {<<B1, A1, B1>>, <<A1, C1>>} ELSE {<<>>, <<B1, A1, B1>>, <<A1, C1>>})
             [] al = "mixed" -> (IF k = "categorical" THEN {<<>>, <<S1, E, S1>>, <<Q, S1>>} ELSE {<<>>, <<I(1), S1, I(1)>>, <<None, S1>>})
             [] al = "onehot_missing" -> {<<C1, A1, C1>>, <<A1>>}               \* no missing marker among the fitting values (see FitSt)
             [] al = "ints"  -> {<<>>, <<I(0), I(1), I(2)>>, <<I(2), I(0)>>}      \* range(3) as synthetics.py fits its one hot actions
             [] OTHER -> (IF Small THEN {<<>>, <<VOf(k, al)[1], VOf(k, al)[2], VOf(k, al)[1]>>} ELSE {<<>>, <<VOf(k, al)[1], VOf(k, al)[2], VOf(k, al)[1]>>, <<VOf(k, al)[3], VOf(k, al)[2]>>})
LF == LFOf(Kind, Alpha)
LE == CASE Alpha = "abc"   -> (IF Small THEN {<<>>, <<C1, A1>>} ELSE {<<>>, <<A1, B1, A1>>, <<C1, A1>>})
        [] Alpha = "mixed" -> (IF Kind = "categorical" THEN {<<S1, S1>>, <<E, Q>>} ELSE {<<I(1), I(1)>>, <<S1, None>>})
        [] Alpha = "onehot_missing" -> (IF Small THEN {<<Q, A1, E>>, <<C1, Q>>} ELSE {<<>>, <<Q, A1, E>>, <<C1, Q>>})
        [] Alpha = "ints"  -> {<<I(0), I(1), I(2), I(3)>>, <<I(3), I(0)>>}
        [] OTHER -> (IF Size = "l" THEN {<<>>, V, <<V[2], V[1], V[2]>>} ELSE {<<>>, <<V[1], V[2], V[1]>>, <<V[3], V[2]>>})
(* how object 1 is constructed: err_if_unknown, and `values` given to the constructor or not *)
InitsOf(k, al) ==
  LET nf   == BaseOf(k) \in NeedFit
      errs == IF nf /\ BaseOf(k) # "categorical" THEN BOOLEAN ELSE {FALSE}
      gv   == IF ~nf \/ WrappedOf(k) \/ Size = "s" THEN {} ELSE IF Size = "g" THEN {<<B1, A1, B1>>} ELSE {xs \in LFOf(k, al) : xs # <<>>}
  IN {[kind |-> k, alpha |-> al, err |-> e, given |-> 0, vals |-> <<>>] : e \in (IF Size = "g" THEN {} ELSE errs)}
     \cup {[kind |-> k, alpha |-> al, err |-> e, given |-> 1, vals |-> xs] : e \in errs, xs \in gv}
Fresh(err) == Obj(Base \notin NeedFit, <<>>, err, <<>>)
Make(i) == IF i.given = 1 THEN FitSt(Fresh(i.err), i.vals) ELSE Fresh(i.err)          \* 177, 231, 270: "set is_fit==True"
(* what the driver can observe of an object: is_fit and encode of every value of the alphabet *)
Obs(st) == [fit |-> IF st.fit THEN 1 ELSE 0, probe |-> [i \in DOMAIN V |-> Enc(st, V[i])]]

(* float mode: the spellings *)
Chars == IF Size = "q" THEN {"1", "0", " ", "-", ".", "e", "_", "x"} ELSE {"1", "0", " ", "-", ".", "e", "_", "x", "+", "E"}
MaxLen == IF Size = "q" THEN 3 ELSE 4
Curated == {
  <<"1", "2">>, <<"1", ".", "2", "5">>, <<" ", "1", "2", " ">>, <<"\t", "1", "\n">>, <<"1", " ", "2">>, <<"5", " ", "1">>, <<"-", " ", "1">>,
  <<"1", "_", "0", "0", "0">>, <<"_", "1">>, <<"1", "_">>, <<"1", "_", "_", "0">>, <<"1", "_", ".", "5">>, <<"1", ".", "_", "5">>,
  <<"1", "e", "1", "_", "0">>, <<"1", "_", "e", "2">>, <<"1", "e", "_", "2">>, <<"1", "_", "0", ".", "0", "_", "1">>, <<" ", "1", "_", " ">>,
  <<"0", "x", "1", "0">>, <<"0", "X", "1", "A">>, <<"1", "e", "3">>, <<"1", "E", "2">>, <<"2", "5", "e", "-", "1">>, <<"1", "e", "+", "2">>,
  <<"1", "e">>, <<"1", "e", "+">>, <<"e", "5">>, <<".", "e", "1">>, <<"1", ".", "e", "1">>, <<".", "5", "e", "1">>, <<"1", "e", "1", ".", "0">>,
  <<"1", "e", "3", "0">>, <<"1", "e", "-", "3", "0">>, <<"9", "9", "9", "e", "9", "9">>, <<"1", "2", "3", "4", "5", "6", "7", "8", "9">>,
  <<"0", ".", "1">>, <<"0", ".", "3">>, <<"1", ".", "0", "0", "5">>, <<"0", "0", "7">>, <<"1", ".">>, <<".", "5">>, <<".">>, <<"1", ".", ".", "2">>,
  <<"1", ".", "2", ".", "3">>, <<"-", "0">>, <<"-", "0", ".", "0">>, <<"+", "5">>, <<"+", "-", "1">>, <<"-", "-", "1">>, <<"-">>, <<"+">>, <<"1", "-">>,
  <<"i", "n", "f">>, <<"-", "i", "n", "f">>, <<"+", "I", "n", "F">>, <<"I", "n", "f", "i", "n", "i", "t", "y">>, <<"-", "i", "n", "f", "i", "n", "i", "t", "y">>,
  <<"i", "n", "f", "i", "n", "i", "t">>, <<"i", "n">>, <<"i", "_", "n", "f">>, <<"n", "a", "n">>, <<"N", "A", "N">>, <<"-", "n", "a", "n">>, <<"+", "n", "a", "n">>,
  <<"n", "a", "n", "1">>, <<" ", "i", "n", "f", " ">>, <<"i", "n", "f", "e", "1">>, <<"1", "i", "n", "f">>, <<"?">>, <<>>, <<" ">>, <<"N", "o", "n", "e">>,
  <<"1", ",", "5">>, <<"1", "/", "2">>, <<"(", "1", ")">>, <<"1", "f">>, <<"1", "L">>, <<"1", "j">>, <<"$", "1">>, <<"1", "%">>, <<"T", "r", "u", "e">>,
  <<"1", "\t", "2">>, <<"\n">>, <<"1", "e", "0">>, <<"0", "e", "5">>, <<"-", "0", "e", "0">>, <<"0", "0", ".", "0", "0">>, <<"1", "_", "1", "_", "1">>,
  <<"-", "_", "1">>, <<"-", "1", "_", "1">>, <<"1", "e", "-", "_", "1">>, <<"1", "E", "-", "1", "_", "0">> }
Spellings == Curated \cup UNION {[1..n -> Chars] : n \in 1..MaxLen}

----------------------------------------------------------------------------
Init == /\ hist = <<>> /\ done = FALSE
        /\ (IF Mode = "hist"
            THEN /\ \E ka \in KindAlphas : \E i \in InitsOf(ka[1], ka[2]) : init0 = i /\ objs = <<Make(i)>>
                 /\ case = <<>>
            ELSE /\ init0 = [kind |-> "numeric", alpha |-> "text", err |-> FALSE, given |-> 0, vals |-> <<>>] /\ objs = <<>>
                 /\ \E s \in Spellings : case = s)

Live == Mode = "hist" /\ ~done /\ Len(hist) < MaxCalls
Step(a, o, xs, r, new) == [a |-> a, o |-> o, x |-> xs, r |-> r, new |-> new]
Same == UNCHANGED <<objs, init0, done, case>>

(* ---- encoder.is_fit ---- *)
Allowed(a) == First = "any" \/ hist # <<>> \/ First = a
IsFitOn(o) == /\ Live /\ Allowed("is_fit")
            /\ hist' = Append(hist, Step("is_fit", o, <<>>, BoolR(objs[o].fit), Nil))
            /\ Same
(* ---- encoder.encode(value) ---- *)
EncodeOn(o, i) == /\ Live /\ Allowed("encode")
                /\ hist' = Append(hist, Step("encode", o, <<V[i]>>, Enc(objs[o], V[i]), Nil))
                /\ Same
(* ---- encoder.encodes(values) ---- *)
EncodesOn(o, xs) == /\ Live /\ Allowed("encodes")
                  /\ hist' = Append(hist, Step("encodes", o, xs, Encs(objs[o], xs), Nil))
                  /\ Same
(* ---- encoder.fit_encodes(values): the fit it makes is not kept anywhere ---- *)
FitEncodesOn(o, xs) == /\ Live /\ Allowed("fit_encodes")
                     /\ hist' = Append(hist, Step("fit_encodes", o, xs, FitEncs(objs[o], xs), Nil))
                     /\ Same
(* ---- encoder.fit(values): a NEW object, the receiver stays as it was ---- *)
FitOn(o, xs) == /\ Live /\ Allowed("fit") /\ Len(objs) < MaxObjs
              /\ LET new == FitSt(objs[o], xs) IN
                 /\ objs' = (IF Variant = "fit_in_place" THEN Append([objs EXCEPT ![o] = new], new) ELSE Append(objs, new))
                 /\ hist' = Append(hist, Step("fit", o, xs, Nil, Obs(new)))
              /\ UNCHANGED <<init0, done, case>>
(* ---- pickle.loads(pickle.dumps(encoder)): a NEW object with the same state ---- *)
PickleOn(o) == /\ Live /\ Allowed("pickle") /\ Len(objs) < MaxObjs
             /\ objs' = Append(objs, objs[o])
             /\ hist' = Append(hist, Step("pickle", o, <<>>, Nil, Obs(objs[o])))
             /\ UNCHANGED <<init0, done, case>>
Finish == /\ Mode = "hist" /\ ~done /\ Len(hist) = MaxCalls
          /\ done' = TRUE /\ UNCHANGED <<objs, init0, hist, case>>
(* ---- float mode: the one step that evaluates the spelling ---- *)
Eval == /\ Mode = "float" /\ ~done
        /\ done' = TRUE /\ UNCHANGED <<objs, init0, hist, case>>

IsFit      == \E o \in DOMAIN objs : IsFitOn(o)
Encode     == \E o \in DOMAIN objs : \E i \in DOMAIN V : EncodeOn(o, i)
Encodes    == \E o \in DOMAIN objs : \E xs \in LE : EncodesOn(o, xs)
FitEncodes == \E o \in DOMAIN objs : \E xs \in LF : FitEncodesOn(o, xs)
Fit        == \E o \in DOMAIN objs : \E xs \in LF : FitOn(o, xs)
Pickle     == \E o \in DOMAIN objs : PickleOn(o)
Next == IsFit \/ Encode \/ Encodes \/ FitEncodes \/ Fit \/ Pickle \/ Finish \/ Eval
Spec == Init /\ [][Next]_vars

----------------------------------------------------------------------------
(* ======================= what the design guarantees (checked by TLC) ======================= *)
(* "all Encoder implementations are immutable": no call changes an object that exists *)
Immutable == [][\A i \in DOMAIN objs : objs'[i] = objs[i]]_vars
(* `fit` returns a fit encoder; the always-fit kinds are fit from the start *)
FitReturnsFit == /\ \A k \in DOMAIN hist : hist[k].a = "fit" => hist[k].new.fit = 1
                 /\ (Mode = "hist" /\ Base \notin NeedFit) => \A o \in DOMAIN objs : objs[o].fit
(* the state of an encoder is a function of (err_if_unknown, the values it was fit on): whatever was encoded before, whatever the
   receiver of `fit` had learned, a pickle round trip in between - it is what a fresh encoder fit on the same values is *)
LikeFresh == \A o \in DOMAIN objs : objs[o] = (IF objs[o].fit /\ Base \in NeedFit THEN FitSt(Fresh(objs[o].err), objs[o].src) ELSE Fresh(objs[o].err))
(* levels = the distinct fitting values in the order of their first occurrence *)
LevelOrder == \A o \in DOMAIN objs : LET lv == objs[o].lv src == objs[o].src IN
                /\ \A i, j \in DOMAIN lv : i < j => (lv[i] # lv[j] /\ Pos(src, lv[i]) < Pos(src, lv[j]))
                /\ \A i \in DOMAIN src : Pos(lv, src[i]) > 0
                /\ \A i \in DOMAIN lv : Pos(src, lv[i]) > 0
(* a known value: its own unit vector / its level number / its Categorical; an unknown value after fitting: all zeros (nan for a
   factor) or CobaException exactly as err_if_unknown says; before fitting: CobaException *)
AllVals == {V[i] : i \in DOMAIN V}
Policy == \A o \in DOMAIN objs : \A x \in AllVals : LET st == objs[o] r == Enc(st, x) IN
            Base \in NeedFit /\ ~IsMissing(x) =>
              /\ ~st.fit => r = Err("unfit")
              /\ (st.fit /\ Pos(st.lv, x) = 0) => r = (IF st.err \/ Base = "categorical" THEN Err("unknown") ELSE IF Base = "onehot" THEN Vec([k \in 1..Len(st.lv) |-> 0]) ELSE NaN)
              /\ (st.fit /\ Pos(st.lv, x) > 0) => ~IsErr(r)
              /\ (r.t = "vec") => (Len(r.v) = Len(st.lv) /\ Cardinality({k \in DOMAIN r.v : r.v[k] = 1}) = (IF Pos(st.lv, x) > 0 THEN 1 ELSE 0)
                                   /\ \A k \in DOMAIN r.v : r.v[k] \in {0, 1} /\ (r.v[k] = 1 <=> st.lv[k] = x))
              /\ (r.t = "i") => st.lv[r.v] = x
              /\ (r.t = "cat") => (r.v[1] = x /\ r.v[2] = st.lv /\ st.lv[r.v[3] + 1] = x)
(* two different known values never share a code *)
Injective == \A o \in DOMAIN objs : \A x, y \in AllVals :
               (Base \in NeedFit /\ objs[o].fit /\ x # y /\ Pos(objs[o].lv, x) > 0 /\ Pos(objs[o].lv, y) > 0 /\ ~IsMissing(x) /\ ~IsMissing(y))
               => Enc(objs[o], x) # Enc(objs[o], y)
(* encodes(xs) = [encode(x) for x in xs], element by element, and raises iff one of them does *)
Pointwise == \A o \in DOMAIN objs : \A xs \in LE \cup LF : LET r == Encs(objs[o], xs) IN
               /\ (r.t = "seq") => (Len(r.v) = Len(xs) /\ \A i \in DOMAIN xs : r.v[i] = Enc(objs[o], xs[i]))
               /\ (r.t = "err") => \E i \in DOMAIN xs : Enc(objs[o], xs[i]) = r
               /\ (\A i \in DOMAIN xs : ~IsErr(Enc(objs[o], xs[i]))) => r.t \in {"seq", "err_or_empty"}
               /\ (r.t = "err_or_empty") => (xs = <<>> /\ ~objs[o].fit)
(* fit_encodes(xs) = fit(xs).encodes(xs) for an unfit encoder: every fitting value is then known *)
FitThenEncodes == \A o \in DOMAIN objs : \A xs \in LF : LET r == FitEncs(objs[o], xs) IN
               /\ (~objs[o].fit) => (r = Encs(FitSt(objs[o], xs), xs) /\ r.t = "seq")
               /\ objs[o].fit => r = Encs(objs[o], xs)
(* the always-fit kinds never raise; a missing value is the missing_rep whatever the inner encoder is or knows *)
Total == /\ (Mode = "hist" /\ Base \notin NeedFit) => \A o \in DOMAIN objs : \A x \in AllVals : ~IsErr(Enc(objs[o], x))
         /\ \A o \in DOMAIN objs : \A x \in AllVals : IsMissing(x) => Enc(objs[o], x) = Rep
         /\ (Mode = "hist" /\ Base = "numeric") => \A o \in DOMAIN objs : \A x \in AllVals : (~IsMissing(x)) => Enc(objs[o], x).t \in {"num", "inf", "nan"}
         /\ (Mode = "hist" /\ Base = "string")  => \A o \in DOMAIN objs : \A x \in AllVals : (~IsMissing(x)) => Enc(objs[o], x).t = "s"
(* a pickle round trip keeps the fit *)
PickleKeeps == \A k \in DOMAIN hist : hist[k].a = "pickle" => \E o \in DOMAIN objs : hist[k].new = Obs(objs[o]) /\ hist[k].new = Obs(objs[hist[k].o])

(* float mode: facts of the documented grammar *)
HasInnerBlank(s) == \E i, j, k \in DOMAIN s : i < j /\ j < k /\ ~IsBlank(s[i]) /\ IsBlank(s[j]) /\ ~IsBlank(s[k])
FloatFacts == Mode = "float" =>
   LET r == ParseFloat(case) IN
   /\ r.t \in {"num", "inf", "nan"}
   /\ HasInnerBlank(case) => r = NaN                                                    \* test_encode_bad: "5 1" is nan
   /\ ParseFloat(<<" ">> \o case \o <<"\t">>) = r                                       \* blanks at both ends do not matter
   /\ (r.t = "num") => (r.v[2] >= 0 /\ \A i \in DOMAIN case : IsDigit(case[i]) \/ IsBlank(case[i]) \/ case[i] \in {"+", "-", ".", "e", "E", "_"})
   /\ (r.t = "num" /\ r.v[1] = 0 /\ Strip(case)[1] # "+") => ParseFloat(<<"-">> \o Strip(case)) = [r EXCEPT !.v[1] = 1]   \* a sign only changes the sign
   /\ (\E i \in DOMAIN case : case[i] \in {"x", "X", ",", "/", "%"}) => r = NaN           \* no hexadecimal, no thousands separator

Emit == done => PrintT(ToJson(IF Mode = "hist" THEN [vals |-> V, init |-> init0, obj1 |-> Obs(Make(init0)), steps |-> hist]
                                                ELSE [spelling |-> case, float |-> ParseFloat(case)]))
=============================================================================
