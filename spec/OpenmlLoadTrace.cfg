SPECIFICATION TraceSpec
CONSTANTS
  Loaders <- trLoaders
  Datasets <- trDatasets
  CfgSet <- trNone
  Obs = TRUE
  Rec = FALSE
  Variant = "intended"
INVARIANT NoBad
INVARIANT SemBound
INVARIANT NoSemNoAcq
INVARIANT LockSane
INVARIANT Released
INVARIANT DownloadBound
INVARIANT EndDone
INVARIANT Accept
CHECK_DEADLOCK FALSE
