\* C16 generation run (the driver derives every other run from this file by textual substitution:
\* Configs / ActSets / Rewards / PKs / MaxOps for the other enumerations, and
\* SPECIFICATION TraceSpec + INVARIANT Accept / CorralInv for trace validation)
SPECIFICATION GenSpec
CONSTANTS
  A = 116646453
  C = 9
  H = 15
  Inst <- mcInst
  MaxAct = 4
  Configs <- ExactQuick
  ActSets <- AS3
  LearnActs <- R3A
  Rewards <- R3
  PKs <- PKScore
  MaxOps = 3
INVARIANT Emit
INVARIANT PolicyInv
INVARIANT EpsFloor
INVARIANT UcbUnseenFirst
PROPERTY NoLearnEffect
CHECK_DEADLOCK FALSE
