\* CacheMap (X09).  Every run of harness/drivers/x09.py is this file with textual substitutions of
\* Kinds (KAll / KMems / KDisks / KConcs / ... of MC_CacheMap.tla), Keys (K1 / K2 / K3), Slot (SlotColl: k1, k2 share a
\* lock-table slot; SlotDist), Args (the get_set argument records), Ops (enabled calls), MaxOps (calls per history),
\* MaxHandles (context managers held at once) and Variant ("ok", or one of the six broken designs TLC must reject).
SPECIFICATION Spec
CONSTANTS
  Kinds <- KMem
  Keys <- K2
  Slot <- SlotColl
  Args <- ArgsFew
  Ops <- OpsMap
  MaxOps = 3
  MaxHandles = 2
  Variant = "ok"
INVARIANT TypeOK
INVARIANT NoPartial
INVARIANT NullEmpty
INVARIANT LocksBalanced
INVARIANT Consistent
INVARIANT FailLeavesNothing
INVARIANT Emit
PROPERTY KeepOnHit
PROPERTY IndependentKeys
PROPERTY OnlyWriters
PROPERTY OneStep
CHECK_DEADLOCK FALSE
