SPECIFICATION Spec
CONSTANTS
  Kinds <- KMem
  Keys <- K2
  Slot <- SlotColl
  Args <- ArgsFew
  Ops <- OpsMap
  MaxOps = 3
  MaxHandles = 2
  Variant = "ok"
INVARIANT TypeOK
INVARIANT NoPartial
INVARIANT NullEmpty
INVARIANT LocksBalanced
INVARIANT Consistent
INVARIANT FailLeavesNothing
INVARIANT Emit
PROPERTY KeepOnHit
PROPERTY IndependentKeys
PROPERTY OnlyWriters
PROPERTY OneStep
CHECK_DEADLOCK FALSE
