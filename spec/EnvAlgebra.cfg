\* X07 generator / oracle run of MC_EnvAlgebra.  harness/drivers/x07.py rewrites the CONSTANTS lines per run.
SPECIFICATION Spec
CONSTANTS
  Start <- S2
  Calls <- AllForms
  Later <- AllForms
  MaxOps = 1
  MaxLen = 12
  Variant = "ok"
INVARIANT OrderLaw
INVARIANT ConstructLaw
INVARIANT PrefixLaw
INVARIANT AddLaws
INVARIANT SliceLaws
INVARIANT FinalizeOnce
INVARIANT NoStrayFin
INVARIANT SourceFirst
INVARIANT ParamLaw
INVARIANT ObserveLaw
INVARIANT Emit
PROPERTY ReceiverUnchanged
CHECK_DEADLOCK FALSE
