\* scaled generator: modulus 2^8, a = 116646453 mod 256 = 53, c = 9
SPECIFICATION MSpec
CONSTANTS
  A = 53
  C = 9
  H = 4
  Inst <- mcInst
  Starts <- SomeStarts
INVARIANT Independent
INVARIANT Contracts
INVARIANT AsCodedZeroOnlyAtZero
INVARIANT AsCodedAgreesElsewhere
PROPERTY FullPeriod
CHECK_DEADLOCK FALSE
