----------------------------- MODULE MC_Learners -----------------------------
(***************************************************************************)
(* Model constants, behaviour generation and trace validation for          *)
(* Learners.tla (property C16).                                            *)
(*                                                                         *)
(* GenSpec   : every behaviour of MaxOps public calls of one learner of    *)
(*             Configs (bounded-exhaustive, or -simulate for long ones);   *)
(*             hist records each call with what the real learner must show *)
(*             (PredictObs); Emit prints the finished behaviour.  The       *)
(*             design facts PolicyInv / EpsFloor / NoLearnEffect are        *)
(*             checked in every state.  For Corral only the inputs of the  *)
(*             rounds are enumerated.                                      *)
(* TraceSpec : IOEnv.TRACE_FILE = JSON array of [cfg, ev]; ev = calls      *)
(*             recorded from the real learner:                             *)
(*   predict  acts, pmf (the scores, <<n,d>> each), ret (position of the   *)
(*            returned action, 0 = not offered), p, res                    *)
(*   learn    a, r2, res                                                   *)
(*   cpredict acts, bacts (positions chosen by the bases, from info), ret, *)
(*            p [sg,v], res       cscore  acts, a, val [sg,v], res         *)
(*   clearn   res, ps, pb  (Corral's _ps / _p_bars afterwards, [sg,v])     *)
(*   res = "ok", or what went wrong ("raised:<type>", "hang")              *)
(***************************************************************************)
EXTENDS Learners, Json, IOUtils, TLCExt

CONSTANTS Configs, ActSets, LearnActs, Rewards, PKs, MaxOps
VARIABLES hist, nops, tid, pos
mvars == <<lrn, stat, cw, inst, hist, nops, tid, pos>>
mcInst == 0..4

(* ---- seeds: the default, an arbitrary one, and seeds that put a critical generator state under the first draws ---- *)
SOne == 1
SAny == 123457
SZero == 482549499         \* first uniform = 0
SHalf == 1019420411        \* first uniform = 1/2
SQuarter == 750984955      \* first uniform = 1/4
S3Q == 214114043           \* first uniform = 3/4
SLast == 536166110         \* first uniform = 1 - 2^-30
SZero2 == 1022902634       \* second uniform = 0
ASSUME H = 15 => /\ Step(SZero) = 0 /\ Step(SHalf) = 536870912 /\ Step(SQuarter) = 268435456 /\ Step(S3Q) = 805306368
                 /\ Step(SLast) = 1073741823 /\ StepN(SZero2, 2) = 0

Base(k, seed) == [k |-> k, seed |-> seed, en |-> 0, ed |-> 1, w |-> <<>>, wd |-> 1, mis |-> FALSE, shn |-> 0, scn |-> 1, md |-> 1,
                  M |-> 0, bases |-> <<>>, T |-> 0, mode |-> "importance", etan |-> 0, etad |-> 1]
Rnd(seed) == Base("random", seed)
Fix(w, wd, seed) == [Base("fixed", seed) EXCEPT !.w = w, !.wd = wd]
Eps(en, ed, seed) == [Base("eps", seed) EXCEPT !.en = en, !.ed = ed]
Ucb(seed) == Base("ucb", seed)
Mis(c, shn, scn, md) == [c EXCEPT !.mis = TRUE, !.shn = shn, !.scn = scn, !.md = md]
OneHot(i, K) == [j \in 1..K |-> IF j = i THEN 1 ELSE 0]
(* Corral over M one-hot FixedLearners on M actions (base i always plays action i) *)
Cor(M, etan, etad, T, mode) == [Base("corral", 1) EXCEPT !.M = M, !.T = T, !.mode = mode, !.etan = etan, !.etad = etad,
                                 !.bases = [i \in 1..M |-> [k |-> "fixed", w |-> OneHot(i, M), wd |-> 1, seed |-> i]]]

CritSeeds == {SOne, SZero, SHalf, SQuarter, S3Q, SLast, SZero2}
FixedPmfs == {<<<<1, 0, 0>>, 1>>, <<<<0, 1, 0>>, 1>>, <<<<1, 2, 1>>, 4>>, <<<<0, 3, 5>>, 8>>, <<<<2, 3, 5>>, 10>>, <<<<1, 3>>, 4>>, <<<<0, 1>>, 1>>, <<<<1>>, 1>>}
EpsVals == {<<0, 1>>, <<1, 2>>, <<1, 1>>, <<1, 20>>}
(* quick: every kind, epsilon corner and pmf with the default seed; the critical seeds on the kinds whose draw is weighted *)
ExactQuick == {Rnd(SOne), Rnd(SLast), Ucb(SOne), Mis(Ucb(SZero), 1, -1, 1)}
              \cup {Fix(f[1], f[2], SOne) : f \in FixedPmfs}
              \cup {Fix(<<0, 3, 5>>, 8, s) : s \in {SZero, SLast}} \cup {Fix(<<1, 2, 1>>, 4, s) : s \in {SQuarter, S3Q}} \cup {Fix(<<1, 3>>, 4, SQuarter)}
              \cup {Eps(0, 1, SOne), Eps(1, 2, SOne), Eps(1, 20, SOne), Eps(0, 1, SZero), Eps(1, 2, SHalf), Eps(1, 1, SLast)}
              \cup {Mis(Eps(0, 1, SZero2), -1, 2, 2), Mis(Eps(1, 2, SAny), 1, -1, 1)}
ExactAll == {Rnd(s) : s \in CritSeeds} \cup {Ucb(s) : s \in CritSeeds} \cup {Mis(Ucb(SAny), 1, -1, 1)}
            \cup {Fix(f[1], f[2], s) : f \in FixedPmfs, s \in CritSeeds}
            \cup {Eps(e[1], e[2], s) : e \in EpsVals, s \in CritSeeds}
            \cup {Mis(Eps(0, 1, s), -1, 2, 2) : s \in {SOne, SZero}} \cup {Mis(Eps(1, 2, SAny), 1, -1, 1), Mis(Eps(1, 20, SOne), 1, 1, 4)}
EpsUcbOnly == {c \in ExactAll : c.k \in {"eps", "ucb"} /\ c.seed \in {SOne, SZero, SHalf}}
CorralQuick == {Cor(2, e[1], e[2], 0, m) : e \in {<<3, 40>>, <<3, 2>>, <<2, 1>>}, m \in {"importance", "off-policy"}} \cup {Cor(2, 1, 2, 10, "importance")}
CorralQuick3 == {Cor(3, e[1], e[2], 0, "importance") : e \in {<<3, 40>>, <<2, 1>>}} \cup {Cor(3, 3, 2, 10, "off-policy")}
CorralQuick23 == CorralQuick \cup CorralQuick3
CorralDeep4 == {Cor(4, 3, 2, 0, "importance")}
CorralEtas == {<<3, 40>>, <<1, 2>>, <<1, 1>>, <<3, 2>>, <<2, 1>>}
CorralAll2 == {Cor(2, e[1], e[2], T, m) : e \in CorralEtas, T \in {0, 10}, m \in {"importance", "off-policy"}}
CorralAll3 == {Cor(3, e[1], e[2], T, m) : e \in CorralEtas, T \in {0, 10}, m \in {"importance", "off-policy"}}
CorralDeep4All == {Cor(4, e[1], e[2], 0, "importance") : e \in {<<3, 40>>, <<3, 2>>, <<2, 1>>}}

AS3 == {<<1, 2, 3>>, <<1, 2>>, <<3, 2>>, <<2>>, <<3, 1, 2>>}
AS3s == {<<1, 2, 3>>, <<1, 2>>, <<3, 2>>}
AS4 == AS3 \cup {<<4, 1>>, <<2, 4, 3, 1>>}
R3 == {0, 1, 2}
R3A == {1, 2, 3}
R4A == {1, 2, 3, 4}
R2 == {0, 1}
PKScore == {[t |-> "score", pn |-> 0, pd |-> 1]}
PKSome == PKScore \cup {[t |-> "const", pn |-> 1, pd |-> 50]}
PKMore == PKSome \cup {[t |-> "const", pn |-> 1, pd |-> 2], [t |-> "const", pn |-> 1, pd |-> 1]}

(* ------------------------------ generation ------------------------------ *)
Seeded(c) == [i \in Inst |-> IF i = 0 THEN [s |-> c.seed % Mod, g |-> FALSE, live |-> TRUE]
                             ELSE IF i \in DOMAIN c.bases THEN [s |-> c.bases[i].seed % Mod, g |-> FALSE, live |-> TRUE]
                             ELSE [s |-> 0, g |-> FALSE, live |-> FALSE]]
Cw0(c) == LET u == [i \in 1..c.M |-> [sg |-> 1, v |-> SC \div c.M]] IN [ps |-> u, pb |-> u]         \* corral.py:55-56
Start(c) == lrn = c /\ stat = St0 /\ cw = Cw0(c) /\ inst = Seeded(c)
GenInit == /\ \E c \in Configs : Start(c)
           /\ hist = <<>> /\ nops = 0 /\ tid = 0 /\ pos = 0
RewardsFor(c) == IF c.k \in {"random", "fixed"} THEN {2} ELSE Rewards
GenNext == /\ nops < MaxOps /\ nops' = nops + 1 /\ UNCHANGED <<tid, pos>>
           /\ IF lrn.k = "corral"
              THEN \E a \in 1..lrn.M, r2 \in Rewards, pk \in PKs :
                      /\ hist' = Append(hist, [op |-> "round", acts |-> [i \in 1..lrn.M |-> i], a |-> a, r2 |-> r2, pk |-> pk])
                      /\ UNCHANGED lvars
              ELSE \/ \E acts \in {x \in ActSets : Defined(lrn, x)} :
                         /\ hist' = Append(hist, [op |-> "predict", acts |-> acts, out |-> PredictObs(acts)])
                         /\ Predict(acts)
                   \/ \E a \in LearnActs, r2 \in RewardsFor(lrn) :
                         /\ hist' = Append(hist, [op |-> "learn", a |-> a, r2 |-> r2])
                         /\ Learn(a, r2)
GenSpec == GenInit /\ [][GenNext]_mvars
Emit == (nops = MaxOps) => PrintT(ToJson([cfg |-> lrn, steps |-> hist]))

(* ---- design facts, in every state of every behaviour ---- *)
RECURSIVE SumNum(_, _)
SumNum(pmf, i) == IF i = 0 THEN 0 ELSE pmf[i][1] + SumNum(pmf, i - 1)
(* predict is enabled for every offered set the learner is defined for (learn never disables it); every policy the state
   allows is a distribution: non-negative, one common positive denominator, sums to exactly 1; the returned action is an
   offered one and has positive probability under that policy *)
PolicyInv == lrn.k # "corral" => \A acts \in ActSets : Defined(lrn, acts) =>
    LET O == PredictObs(acts) IN
    /\ O # {}
    /\ \A o \in O : /\ DOMAIN o.pmf = DOMAIN acts
                    /\ \A i \in DOMAIN o.pmf : o.pmf[i][1] >= 0 /\ o.pmf[i][2] = o.pmf[1][2] /\ o.pmf[i][2] > 0
                    /\ SumNum(o.pmf, Len(o.pmf)) = o.pmf[1][2]
                    /\ o.idx # {} /\ o.idx \subseteq DOMAIN acts /\ \A i \in o.idx : o.pmf[i][1] > 0
(* epsilon-greedy explores: every offered action keeps at least epsilon/n; the greedy positions are maximisers *)
EpsFloor == lrn.k = "eps" => \A acts \in ActSets : \A o \in PredictObs(acts) : \A i \in DOMAIN acts :
    /\ o.pmf[i][1] * lrn.ed * Len(acts) >= lrn.en * o.pmf[i][2]
    /\ (o.pmf[i][1] * lrn.ed * Len(acts) > lrn.en * o.pmf[i][2]) => i \in BestIdx(stat, acts)
(* UCB: while an offered action was never observed only such actions are played *)
UcbUnseenFirst == lrn.k = "ucb" => \A acts \in ActSets : \A o \in PredictObs(acts) : \A i \in DOMAIN acts :
    (o.pmf[i][1] > 0 /\ stat.n[acts[i]] > 0) => \A j \in DOMAIN acts : stat.n[acts[j]] > 0
(* Random / Fixed never learn anything; predict never changes what was learnt *)
NoLearnEffect == [][(lrn.k \in {"random", "fixed"} => stat' = stat) /\ (inst' # inst => stat' = stat)]_mvars

(* Corral's p_bar (corral.py:108) in exact rationals: mixing a strictly positive distribution k/10 with the uniform one
   with weight 1/T gives a strictly positive distribution again, so IsDist(ps) and MixOK together describe p_bar *)
RECURSIVE FSum(_, _)
FSum(f, i) == IF i = 0 THEN 0 ELSE f[i] + FSum(f, i - 1)
MixKeepsDist == \A M \in 2..4, T \in {2, 10, 100} : \A k \in [1..M -> 1..(11 - M)] : FSum(k, M) = 10 =>
                  LET num == [i \in 1..M |-> (T - 1) * M * k[i] + 10] IN             \* p_bar[i] = num[i] / (10 T M)
                  (\A i \in 1..M : num[i] > 0) /\ FSum(num, M) = 10 * T * M
ASSUME MixKeepsDist

(* --------------------------- trace validation --------------------------- *)
Traces == JsonDeserialize(IOEnv.TRACE_FILE)
Evs == Traces[tid].ev
Ev == Evs[pos]
REq(x, y) == y[2] > 0 /\ y[1] >= 0 /\ x[1] * y[2] = y[1] * x[2]
TraceInit == /\ tid \in 1..Len(Traces) /\ pos = 1
             /\ Start(Traces[tid].cfg)
             /\ hist = <<>> /\ nops = 0
TrEvent ==
  \/ /\ Ev.op = "predict" /\ Ev.res = "ok"
     /\ Len(Ev.pmf) = Len(Ev.acts) /\ Ev.ret \in DOMAIN Ev.acts
     /\ \E o \in PredictObs(Ev.acts) : /\ \A i \in DOMAIN o.pmf : REq(o.pmf[i], Ev.pmf[i])        \* score(a) = policy(a) for every a
                                       /\ Ev.ret \in o.idx                                        \* the action the generator state selects
                                       /\ REq(o.pmf[Ev.ret], Ev.p)                                \* returned probability = policy(returned action)
     /\ Predict(Ev.acts)
  \/ /\ Ev.op = "learn" /\ Ev.res = "ok" /\ Ev.a \in Acts
     /\ Learn(Ev.a, Ev.r2)
  \/ /\ Ev.op = "cpredict" /\ Ev.res = "ok" /\ CorralPredict(Ev.acts, Ev.bacts, Ev.ret, Ev.p)
  \/ /\ Ev.op = "cscore" /\ Ev.res = "ok" /\ CorralScore(Ev.acts, Ev.a, Ev.val)
  \/ /\ Ev.op = "clearn" /\ CorralLearn(Ev.res, Ev.ps, Ev.pb)
TraceNext == pos <= Len(Evs) /\ TrEvent /\ pos' = pos + 1 /\ UNCHANGED <<tid, hist, nops>>
TraceSpec == TraceInit /\ [][TraceNext]_mvars
AtEnd == pos = Len(Evs) + 1
Accept == AtEnd => PrintT(ToJson([acc |-> tid]))
Diag == PrintT(ToJson([tid |-> tid, l |-> pos]))
=============================================================================
