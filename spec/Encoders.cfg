\* X12.  The driver rewrites the CONSTANTS lines per run (harness/drivers/x12.py).
SPECIFICATION Spec
CONSTANTS
  KindAlphas <- OneHot
  Size = "s"
  MaxCalls = 3
  MaxObjs = 3
  Mode = "hist"
  First = "any"
  Variant = "ok"
INVARIANT FitReturnsFit
INVARIANT LikeFresh
INVARIANT LevelOrder
INVARIANT Policy
INVARIANT Injective
INVARIANT Pointwise
INVARIANT FitThenEncodes
INVARIANT Total
INVARIANT PickleKeeps
INVARIANT FloatFacts
INVARIANT Emit
PROPERTY Immutable
CHECK_DEADLOCK FALSE
