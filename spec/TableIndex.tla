----------------------------- MODULE TableIndex -----------------------------
(***************************************************************************)
(* coba.results.core.Table (182-496) as a state machine: insert (incl.     *)
(* ragged inserts that add a column and pad with Missing), index (stable   *)
(* multi-key sort, Missing last), where (a view; views can be filtered     *)
(* again), copy, groupby.  The meaning of `where` is the SCAN semantics    *)
(* `Sat`: what a plain row-by-row evaluation returns, in table order and   *)
(* with multiplicity - whatever the indexes are (C17).                     *)
(*                                                                         *)
(* Values: small integers; M = Missing (the padding of ragged inserts,     *)
(* ordered after every value, equal to no value); N = None (only in the    *)
(* never-indexed column "c": Python cannot order None against numbers).    *)
(* A behaviour is a history of operations; each step records what the real *)
(* Table must show afterwards.  The driver replays every history on a real *)
(* Table and compares rows / columns / indexes after every step, and each  *)
(* where both on the table as indexed and on an un-indexed copy.           *)
(***************************************************************************)
EXTENDS Integers, Sequences, FiniteSets, TLC, Json
CONSTANTS InitTables,   \* set of initial row lists (each row a record over a,b)
          MaxOps,       \* number of operations per history
          Ops,          \* subset of {"index","where","insert","copy","groupby","where2"}
          Lite          \* TRUE: few where arguments (deep mixed histories stay enumerable)
M == 9       \* Missing
N == -1      \* None
Cols3 == <<"a","b","c">>
VARIABLES rows,   \* base table: sequence of [a, b, c] (c = M until a ragged insert sets it)
          ncols,  \* 2 or 3 columns present
          idx,    \* index column list
          sel,    \* current view: sequence of positions into rows (the whole table when no where was applied)
          hist, n,
          fresh   \* no insert since the last index: the rows really are in index order
vars == <<rows, ncols, idx, sel, hist, n, fresh>>

(* ---------------- scan semantics ---------------- *)
Sat(op, arg, v) ==
  CASE op = "="  -> v = arg /\ v \notin {M, N}
    [] op = "!=" -> ~(v = arg /\ v \notin {M, N})
    [] op = "<"  -> v \notin {M, N} /\ v < arg
    [] op = "<=" -> v \notin {M, N} /\ v <= arg
    [] op = ">"  -> v # N /\ (v = M \/ v > arg)
    [] op = ">=" -> v # N /\ (v = M \/ v >= arg)
    [] op = "in" -> v \notin {M, N} /\ \E i \in DOMAIN arg : arg[i] = v
    [] op = "!in" -> ~(v \notin {M, N} /\ \E i \in DOMAIN arg : arg[i] = v)
    [] op = "match" -> v \notin {M, N} /\ v = arg    \* a number matches the cells equal to it, a string the cells it is found in: decided cell by cell
    [] op = "pred" -> v \in arg                \* a callable: true exactly on the set arg (may contain M / N)
CurRows == [i \in DOMAIN sel |-> rows[sel[i]]]
Whole == [i \in 1..Len(rows) |-> i]

(* ---------------- index: stable multi-key sort ---------------- *)
KeyLess(r1, i1, r2, i2, ks) ==
  LET RECURSIVE L(_) 
      L(j) == IF j > Len(ks) THEN i1 < i2
              ELSE IF r1[ks[j]] < r2[ks[j]] THEN TRUE ELSE IF r1[ks[j]] > r2[ks[j]] THEN FALSE ELSE L(j+1)
  IN L(1)
RECURSIVE SortBy(_,_,_)
SortBy(s, I, ks) == IF I = {} THEN <<>> ELSE
   LET m == CHOOSE i \in I : \A j \in I \ {i} : KeyLess(s[i], i, s[j], j, ks) IN <<s[m]>> \o SortBy(s, I \ {m}, ks)
Sorted(s, ks) == SortBy(s, DOMAIN s, ks)

Row(r) == IF ncols = 2 THEN <<r.a, r.b>> ELSE <<r.a, r.b, r.c>>
RowsOut(rs, nc) == [i \in DOMAIN rs |-> IF nc = 2 THEN <<rs[i].a, rs[i].b>> ELSE <<rs[i].a, rs[i].b, rs[i].c>>]
Step(op, args, out, nc, ix) == [op |-> op, args |-> args, rows |-> out, ncols |-> nc, idx |-> ix]

Init == /\ \E t \in InitTables :
              /\ rows = [i \in DOMAIN t |-> [a |-> t[i][1], b |-> t[i][2], c |-> IF Len(t[i]) = 3 THEN t[i][3] ELSE M]]
              /\ ncols = IF \E i \in DOMAIN t : Len(t[i]) = 3 THEN 3 ELSE 2       \* a table may start with three columns
        /\ idx = <<>> /\ sel = [i \in 1..Len(rows) |-> i] /\ n = 0 /\ fresh = TRUE
        /\ hist = <<Step("new", <<>>, RowsOut(rows, ncols), ncols, <<>>)>>

(* column c (brought by a ragged insert) can be indexed too unless it holds None, which Python cannot order *)
COrderable == ncols = 3 /\ \A i \in DOMAIN rows : rows[i].c # N
IndexChoices == {<<"a">>, <<"b">>, <<"a","b">>, <<"b","a">>}
                \cup (IF COrderable THEN {<<"c">>, <<"c","b">>, <<"a","c">>, <<"c","a","b">>} ELSE {})
(* index() is an operation of the base table: views taken before it are abandoned (the driver goes back to the base table), so it
   may follow a where - index X, query, index Y, query is an ordinary way to use a table *)
DoIndex == /\ "index" \in Ops
           /\ \E ks \in IndexChoices :
                LET s == Sorted(rows, ks) IN
                /\ rows' = s /\ idx' = ks /\ sel' = [i \in 1..Len(rows) |-> i]
                /\ hist' = Append(hist, Step("index", ks, RowsOut(s, ncols), ncols, ks))
           /\ fresh' = TRUE /\ UNCHANGED ncols
WhereArgs == IF Lite THEN {1} ELSE {0, 1, 2, 3, -5}
CmpOps   == IF Lite THEN {"=", "<", ">="} ELSE {"=","!=","<","<=",">",">=","match"}
InLists  == IF Lite THEN {<<1,0>>} ELSE {<<>>, <<1>>, <<0,2>>, <<2,2>>, <<3>>, <<1,0>>, <<2,0,1>>}
PredSets == IF Lite THEN {{1,M}} ELSE {{0,2}, {M}, {1,M}, {}}
WCols == IF ncols = 2 THEN {"a","b"} ELSE {"a","b","c"}
DoWhere == /\ "where" \in Ops
           /\ \E col \in WCols :
              \/ \E op \in CmpOps : \E x \in WhereArgs :
                    LET keep == SelectSeq(sel, LAMBDA p : Sat(op, x, rows[p][col])) IN
                    /\ sel' = keep
                    /\ hist' = Append(hist, Step("where", <<col, op, x>>, RowsOut([i \in DOMAIN keep |-> rows[keep[i]]], ncols), ncols, idx))
              \/ \E op \in {"in","!in"} : \E x \in InLists :
                    LET keep == SelectSeq(sel, LAMBDA p : Sat(op, x, rows[p][col])) IN
                    /\ sel' = keep
                    /\ hist' = Append(hist, Step("where", <<col, op, x>>, RowsOut([i \in DOMAIN keep |-> rows[keep[i]]], ncols), ncols, idx))
              \/ \E x \in PredSets :
                    LET keep == SelectSeq(sel, LAMBDA p : Sat("pred", x, rows[p][col])) IN
                    /\ sel' = keep
                    /\ hist' = Append(hist, Step("where", <<col, "pred", x>>, RowsOut([i \in DOMAIN keep |-> rows[keep[i]]], ncols), ncols, idx))
           /\ UNCHANGED <<rows, ncols, idx, fresh>>
(* two keyword conditions in one call: the union, in table order, each row once *)
DoWhere2 == /\ "where2" \in Ops /\ ncols >= 2
            /\ \E o1 \in (IF Lite THEN {"<"} ELSE {"=","<",">=","!="}) : \E x1 \in (IF Lite THEN {1} ELSE {0,1,2}) :
               \E o2 \in (IF Lite THEN {">","plain"} ELSE {"=",">","<=","plain"}) : \E x2 \in (IF Lite THEN {1} ELSE {0,1,2}) :
                 \* "plain": the second condition is a bare value (equality), whatever operator the first one named
                 LET keep == SelectSeq(sel, LAMBDA p : Sat(o1, x1, rows[p]["a"]) \/ Sat(IF o2 = "plain" THEN "=" ELSE o2, x2, rows[p]["b"])) IN
                 /\ sel' = keep
                 /\ hist' = Append(hist, Step("where2", <<o1, x1, o2, x2>>, RowsOut([i \in DOMAIN keep |-> rows[keep[i]]], ncols), ncols, idx))
            /\ UNCHANGED <<rows, ncols, idx, fresh>>
(* three keyword conditions in one call: still the union, whatever the conditions before it already selected *)
DoWhere3 == /\ "where3" \in Ops /\ ncols = 3
            /\ \E x1 \in {0,1} : \E x2 \in {0,1} : \E o3 \in {"=","<"} : \E x3 \in {1,2} :
                 LET keep == SelectSeq(sel, LAMBDA p : Sat("=", x1, rows[p]["a"]) \/ Sat("=", x2, rows[p]["b"]) \/ Sat(o3, x3, rows[p]["c"])) IN
                 /\ sel' = keep
                 /\ hist' = Append(hist, Step("where3", <<x1, x2, o3, x3>>, RowsOut([i \in DOMAIN keep |-> rows[keep[i]]], ncols), ncols, idx))
            /\ UNCHANGED <<rows, ncols, idx, fresh>>
(* inserts go to the base table (a view cannot be modified); a ragged insert brings column c and pads *)
NewRows == {<<[a |-> 1, b |-> 0, c |-> M]>>, <<[a |-> 0, b |-> 2, c |-> M], [a |-> 2, b |-> 2, c |-> M]>>}
RaggedRows == {<<[a |-> 1, b |-> M, c |-> 5]>>, <<[a |-> M, b |-> 1, c |-> N], [a |-> 0, b |-> 0, c |-> 7]>>}
(* rows are appended; the table keeps *claiming* its indexes (as the code does: TransactionResult relies on
   inserting pre-sorted data into an indexed table).  `fresh` records whether the rows really are in index
   order; where must equal the scan either way. *)
DoInsert == /\ "insert" \in Ops /\ sel = Whole
            /\ \/ \E nr \in NewRows : /\ rows' = rows \o nr /\ UNCHANGED ncols
                    /\ hist' = Append(hist, Step("insert", [i \in DOMAIN nr |-> <<nr[i].a, nr[i].b>>], RowsOut(rows \o nr, ncols), ncols, idx))
               \/ \E nr \in RaggedRows : /\ rows' = rows \o nr /\ ncols' = 3
                    /\ ((\A k \in DOMAIN idx : idx[k] # "c") \/ (\A i \in DOMAIN nr : nr[i].c # N))   \* None cannot enter an indexed column
                    /\ hist' = Append(hist, Step("insertc", [i \in DOMAIN nr |-> <<nr[i].a, nr[i].b, nr[i].c>>], RowsOut(rows \o nr, 3), 3, idx))
            /\ sel' = [i \in 1..Len(rows') |-> i] /\ UNCHANGED idx
            /\ fresh' = (idx = <<>> \/ (fresh /\ \A i \in 1..(Len(rows') - 1) : ~KeyLess(rows'[i+1], 0, rows'[i], 0, idx) \/ rows'[i] = rows'[i+1]))
DoCopy == /\ "copy" \in Ops /\ hist' = Append(hist, Step("copy", <<>>, RowsOut(CurRows, ncols), ncols, idx))
          /\ UNCHANGED <<rows, ncols, idx, sel, fresh>>
(* groupby(level,'count'): partition of the rows by the first `level` index columns, in order *)
Prefix(r, k) == [j \in 1..k |-> r[idx[j]]]
RECURSIVE Groups(_,_)
Groups(rs, k) == IF rs = <<>> THEN <<>> ELSE
    LET key == Prefix(rs[1], k)
        cnt == Cardinality({i \in DOMAIN rs : \A j \in 1..i : Prefix(rs[j], k) = key})
    IN <<<<key, cnt>>>> \o Groups(SubSeq(rs, cnt + 1, Len(rs)), k)
DoGroupBy == /\ "groupby" \in Ops /\ idx # <<>> /\ fresh /\ sel = Whole /\ rows # <<>>
             /\ \E k \in 0..(Len(idx) - 1) :
                  hist' = Append(hist, Step("groupby", <<k>>, Groups(rows, k), ncols, idx))
             /\ UNCHANGED <<rows, ncols, idx, sel, fresh>>

Next == /\ n < MaxOps /\ n' = n + 1
        /\ (DoIndex \/ DoWhere \/ DoWhere2 \/ DoWhere3 \/ DoInsert \/ DoCopy \/ DoGroupBy)
Spec == Init /\ [][Next]_vars

(* ---------------- what the design guarantees (checked by TLC on the spec itself) ---------------- *)
RowBag(rs) == [r \in {rs[i] : i \in DOMAIN rs} |-> Cardinality({i \in DOMAIN rs : rs[i] = r})]
SelAscending == \A i \in 1..(Len(sel) - 1) : sel[i] < sel[i+1]          \* views keep table order, each row once
SelValid     == \A i \in DOMAIN sel : sel[i] \in DOMAIN rows
IndexSorted  == (idx # <<>> /\ fresh) => \A i \in 1..(Len(rows) - 1) : ~KeyLess(rows[i+1], 0, rows[i], 0, idx) \/ rows[i] = rows[i+1]
Emit == (n = MaxOps) => PrintT(ToJson(hist))
=============================================================================
