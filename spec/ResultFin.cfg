\* generator / model-checking configuration of ResultFin.tla; harness/drivers/c18.py substitutes the constants per run
SPECIFICATION Spec
CONSTANTS
  Mode = "res"
  Dims <- D221
  Pars <- P2
  Salts = {0}
  MaxLen = 2
  LenMode = "all"
  LenPats <- LP6
  MaxMissing = 9
  TabFull <- Bools
  MaxOps = 1
  Ops <- AllOps
  FinNs <- N2
  FinLPs <- LPMid
  RawArgs <- RawFew
  BestArgs <- BestFew
  WhereArgs <- WhereFew
  WhereIArgs <- WhereIFew
  Namings <- NamesAll
  MAVals <- MAV3
  MAMaxLen = 3
  MASpans <- MAS5
  MAWeights <- MAWFew
INVARIANT TabSane
INVARIANT FinDesign
INVARIANT RawDesign
INVARIANT MADesign
INVARIANT Emit
CHECK_DEADLOCK FALSE
