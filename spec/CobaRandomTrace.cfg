SPECIFICATION TraceSpec
CONSTANTS
  A = 116646453
  C = 9
  H = 15
  Inst <- trInst
INVARIANT Accept
CHECK_DEADLOCK FALSE
