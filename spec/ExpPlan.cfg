SPECIFICATION PSpec
CONSTANTS
  PlanShapes <- PlanQuick
  Shapes <- QuickShapes
  Cfgs <- QuickCfgs
  K = 2
  MaxCrash = 0
  AsCoded = FALSE
  NoCopy = FALSE
INVARIANT Emit1
CHECK_DEADLOCK FALSE
