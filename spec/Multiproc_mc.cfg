\* exhaustive check of Multiproc.tla over a grid of configurations (Configs substituted per tier)
SPECIFICATION Spec
CONSTANTS
  Configs <- QuickConfigs
  MaxWorkers <- mcMaxWorkers
INVARIANT NoDupEver
INVARIANT ExactlyOnce
INVARIANT Conserved
INVARIANT MaxTasks
INVARIANT OnePoison
INVARIANT RaiseIffFault
INVARIANT EnoughWorkers
INVARIANT NProcsSane
PROPERTY Terminates
CHECK_DEADLOCK FALSE
