---------------------------- MODULE MC_Loggers ----------------------------
EXTENDS Loggers
NoDec   == <<>>
PreEP   == <<"ExceptLog", "tagP">>      \* ExceptLog first (exception objects become text), then a deterministic prefixer
PreP    == <<"tagP", "tagQ">>
PostNS  == <<"name", "stamp">>          \* NameLog, then StampLog (fixed _now)
PostT   == <<"tagX", "tagY">>
AlphaAll  == {"log", "enter_log", "enter_time", "exit", "raiseE", "raiseK"}
AlphaX    == AlphaAll \cup {"logxC", "logxO"}
AlphaDeep == {"log", "enter_log", "enter_time", "exit", "raiseK"}
=============================================================================
