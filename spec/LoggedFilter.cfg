\* X02 part B trace validation: executions of the real Logged filter in IOEnv.TRACE_FILE
SPECIFICATION Spec
INVARIANT Accept
INVARIANT DrawnIsOffered
CHECK_DEADLOCK FALSE
