------------------------------ MODULE PredFormat ------------------------------
(***************************************************************************)
(* What a learner's answer MEANS, whatever documented format it is written *)
(* in (coba/safety.py SafeLearner 29-395) - property C15.                  *)
(*                                                                         *)
(* A case fixes the format (bare action AX, (action,prob) AP, PMF PM, and  *)
(* the dict-hinted forms written AX+, AP+, PM+ here: "AX*" etc. in the   *)
(* strings below), whether kwargs follow, the batch layout                 *)
(* (none / row-major / column-major / a learner that cannot take batches), *)
(* the batch size, the number of offered actions and the SafeLearner seed. *)
(* The learner's intention for the row with context id c is a fixed        *)
(* function of c (so an extra probing call cannot disturb it):             *)
(*    action index  c mod nA,   probability  Probs[c mod 3],               *)
(*    pmf           Base(nA) rotated by c mod nA,   kwargs  k = c          *)
(* MEANING (independent of layout and of kwargs - that is the property):   *)
(*    AX, AX+ : (intended action, no probability, kwargs)                  *)
(*    AP, AP+ : (intended action, intended probability, kwargs)            *)
(*    PM, PM+ : the action drawn by CobaRandom.choicew from the            *)
(*              SafeLearner's own generator (one uniform per row, rows in  *)
(*              order, calls in order) with exactly its pmf entry, kwargs  *)
(* kwargs is the abstract value k: which names it carries and the KIND of   *)
(* mapping the learner hands it over in (coba.primitives.Kwargs is         *)
(* Mapping[str,Any]: dict, dict subclass, read-only proxy, UserDict, any   *)
(* collections.abc.Mapping) are renderings chosen by the driver; the       *)
(* meaning below does not depend on them.                                  *)
(* Three consecutive calls are specified (format and layout are latched on *)
(* the first).  The generator is CobaRandom.tla with the real constants.   *)
(***************************************************************************)
EXTENDS CobaRandom, Json
NoVal == -1
Probs == <<250, 500, 1000>>                 \* scaled by 1000
Base(nA) == IF nA = 1 THEN <<4>> ELSE IF nA = 2 THEN <<1, 3>> ELSE <<1, 2, 1>>     \* weights, total 4
Rot(w, r) == [j \in 1..Len(w) |-> w[((j - 1 + r) % Len(w)) + 1]]
Ctx(call, row) == 10 * call + row
IntA(c, nA) == c % nA
IntP(c) == Probs[(c % 3) + 1]
IntW(c, nA) == Rot(Base(nA), c % nA)
(* a learner may also write a PMF that puts all mass on one action, with integer entries 1 and 0 *)
OneHot(c, nA) == [j \in 1..nA |-> IF j - 1 = c % nA THEN 4 ELSE 0]

Formats == {"AX", "AP", "PM", "AX*", "AP*", "PM*"}
Layouts == {"none", "row", "col", "notbatch"}
VARIABLES case, go
pvars == <<case, go, inst>>
(* rows of a call: 1 for unbatched, bsize otherwise *)
Rows(c) == IF c.layout = "none" THEN 1 ELSE c.bsize
IsPM(c) == c.fmt \in {"PM", "PM*"}
(* generator state before the k-th PMF draw overall (k from 0): seed advanced k times *)
RECURSIVE Expected(_,_,_,_)
Expected(c, call, row, s) ==      \* sequence of [call,row,a,p,k] from (call,row) on, s = generator state
  IF call > 3 THEN <<>> ELSE
  LET x == Ctx(call, row)
      nxt(s2) == IF row < Rows(c) THEN Expected(c, call, row + 1, s2) ELSE Expected(c, call + 1, 1, s2)
  IN IF IsPM(c)
     THEN LET w == IF c.oh THEN OneHot(x, c.nA) ELSE IntW(x, c.nA)  idx == ChoiceW(s, w)
          IN <<[call |-> call, row |-> row, a |-> idx, p |-> w[idx + 1] * 250, k |-> IF c.kw THEN x ELSE NoVal]>> \o nxt(Step(s))
     ELSE <<[call |-> call, row |-> row, a |-> IntA(x, c.nA), p |-> IF c.fmt \in {"AP","AP*"} THEN IntP(x) ELSE NoVal,
             k |-> IF c.kw THEN x ELSE NoVal]>> \o nxt(s)
CONSTANTS NAs, BSizes, Seeds
pfInst == {1}
pfNAs == 1..3
pfBSizes == 1..3
pfSeeds == {0, 1, 7, 482549499}   \* 0: a seed that is falsy in Python;  482549499: the first uniform is exactly 0
PInit == /\ go = FALSE /\ inst = [i \in Inst |-> [s |-> 0, g |-> FALSE, live |-> FALSE]]
         /\ \E f \in Formats : \E kw \in BOOLEAN : \E lay \in Layouts : \E nA \in NAs : \E b \in BSizes : \E sd \in Seeds : \E oh \in BOOLEAN :
              /\ (lay = "none" => b = 1)
              /\ (oh => f \in {"PM", "PM*"})
              /\ case = [fmt |-> f, kw |-> kw, layout |-> lay, nA |-> nA, bsize |-> b, seed |-> sd, oh |-> oh]
PNext == ~go /\ go' = TRUE /\ UNCHANGED <<case, inst>>
PSpec == PInit /\ [][PNext]_pvars
Emit == go => PrintT(ToJson([case |-> case, expected |-> Expected(case, 1, 1, case.seed % Mod)]))
(* the table is total and unambiguous: one meaning per (format, intention), the same for every layout and kwargs choice;
   a PMF draw always lands on an action with non-zero weight and reports exactly that weight *)
Meaningful == go => \A i \in DOMAIN Expected(case, 1, 1, case.seed % Mod) :
                LET e == Expected(case, 1, 1, case.seed % Mod)[i] IN e.a \in 0..(case.nA - 1) /\ (IsPM(case) => e.p > 0)
=============================================================================
