\* X11 trace validation: executions of the real SequentialIGL in IOEnv.TRACE_FILE (the driver substitutes Variant)
SPECIFICATION Spec
CONSTANTS
  Variant = "spec"
INVARIANT Accept
INVARIANT TwoOutcomes
INVARIANT OneDrawPerInteraction
INVARIANT NoDrawOtherwise
CHECK_DEADLOCK FALSE
