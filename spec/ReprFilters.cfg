\* C10 generator / oracle run.  The driver rewrites the CONSTANTS lines per chunk (harness/drivers/c10.py).
SPECIFICATION Spec
CONSTANTS
  MaxLen = 1
  Level1 = "full"
  Level2 = "off"
  Level3 = "off"
  Shapes = {"scalar", "string", "cat", "dense", "densecat", "nested", "sparse", "sparsecat", "sparsecatk", "sparsenest", "sparsepart", "sparsezero", "nestedcat", "nestedmix", "sparsenestcat", "sparsenull"}
  Flavours = {"sim", "igl", "iglmix", "logged"}
  Envs = {"one", "same", "diff"}
  Mixes = "none"
INVARIANT Emit
INVARIANT Conserved
INVARIANT LoggedMember
INVARIANT Injective
INVARIANT KindTable
INVARIANT GroupsOk
INVARIANT Idempotent
CHECK_DEADLOCK FALSE
