SPECIFICATION TraceSpec
CONSTANTS
  Configs <- trNone
  MaxWorkers <- trMaxWorkers
INVARIANT NoDupEver
INVARIANT ExactlyOnce
INVARIANT Conserved
INVARIANT MaxTasks
INVARIANT OnePoison
INVARIANT RaiseIffFault
INVARIANT EnoughWorkers
INVARIANT NProcsSane
INVARIANT EndDone
INVARIANT Accept
CHECK_DEADLOCK FALSE
