--------------------------------- MODULE IGL ---------------------------------
(***************************************************************************)
(* SequentialIGL.evaluate (coba/evaluators/sequential.py 272-341): the     *)
(* protocol between an environment of GROUNDED interactions, a learner and *)
(* the recorded rows (extra specification X11), in the style of            *)
(* Sequential.tla (C06).                                                   *)
(*                                                                         *)
(* A grounded interaction has a context (or none), actions, a reward and a *)
(* FEEDBACK for every action, a userid and any further keys ("Additional   *)
(* information that should be recorded in the interactions table",         *)
(* primitives.py GroundedInteraction).  For every interaction, in          *)
(* environment order:                                                      *)
(*   Predict(i)  learner.predict(context_i + userid_i, actions_i)   once   *)
(*   Learn(i)    learner.learn(that context, the chosen action, the        *)
(*               FEEDBACK of the chosen action - never its reward -, the   *)
(*               learner's own probability, **the kwargs of its predict)   *)
(*   Row(i)      one row: 'reward' = reward of the chosen action,          *)
(*               'feedback' = feedback of the chosen action, 'action',     *)
(*               'probability' / 'prob' (if the learner stated one),       *)
(*               'actions', 'rewards' / 'feedbacks' (per offered action),  *)
(*               'time' - each exactly when asked for in `record` -, every *)
(*               further key of the interaction (userid among them), what  *)
(*               the learner put into CobaContext.learning_info, and       *)
(*               NOTHING else (a row is data for the result tables).       *)
(* The learner sees the userid as part of the context (tested forms:       *)
(* no context -> userid; None / scalar -> (userid, context); dense ->      *)
(* (userid,) + context; sparse -> {userid: .., **context}); the driver     *)
(* decodes that into (u, c).                                               *)
(* The chosen action: what the learner named, or - when it answers with a  *)
(* PMF - CobaRandom.choicew of the SafeLearner's own generator, seeded     *)
(* with the evaluator's seed (0 is a seed) or else the experiment's seed,  *)
(* one uniform per interaction, every evaluation starting afresh.          *)
(* An environment whose first interaction lacks actions / rewards /        *)
(* feedbacks / userid is rejected with CobaException before any call; an   *)
(* empty environment gives no call and no row.  No third outcome.          *)
(*                                                                         *)
(* Values are abstract: contexts, actions, userids are ids; rewards,       *)
(* feedbacks integers; probabilities and weights scaled (x1000 / quarters).*)
(* IOEnv.TRACE_FILE holds recorded executions of the real evaluator.       *)
(*                                                                         *)
(* Variant = "spec" is the specification; the broken ones must REJECT      *)
(* recorded executions of a correct implementation (binding not vacuous):  *)
(*  "learn_reward"  learn is fed the reward instead of the feedback        *)
(*  "seed0_falsy"   an evaluator seed of 0 counts as "no seed"             *)
(***************************************************************************)
EXTENDS Integers, Sequences, FiniteSets, TLC, Json, IOUtils, TLCExt
CONSTANT Variant
NoVal == -1
R == INSTANCE CobaRandom WITH A <- 116646453, C <- 9, H <- 15, Inst <- {}, inst <- <<>>
Traces == JsonDeserialize(IOEnv.TRACE_FILE)
VARIABLES tid, l, i, pc, ans, g, outcome
vars == <<tid, l, i, pc, ans, g, outcome>>
T    == Traces[tid]
Env  == T.env        \* sequence of [uid, ctx, acts, rwds, fbks, ex]
Mode == T.mode       \* [rec, fmt, sev, sex, kind, info]
Evs  == T.ev
Ev   == Evs[l]
It   == Env[i]
Rec(x) == \E k \in DOMAIN Mode.rec : Mode.rec[k] = x
IndexOf(s, x) == CHOOSE k \in DOMAIN s : s[k] = x
Rw(a) == It.rwds[IndexOf(It.acts, a)]
Fb(a) == It.fbks[IndexOf(It.acts, a)]
(* 283-285, 323-325 and SequentialCB.evaluate 259: the seed of the draw *)
EffSeed == IF Mode.sev # NoVal /\ ~(Variant = "seed0_falsy" /\ Mode.sev = 0) THEN Mode.sev ELSE Mode.sex
NoAns == [a |-> NoVal, p |-> NoVal, k |-> NoVal, info |-> NoVal]
Rejected == Mode.kind \in {"no_actions", "no_rewards", "no_feedbacks", "no_userid"}

Init == /\ tid \in 1..Len(Traces) /\ l = 1 /\ i = 1 /\ ans = NoAns /\ outcome = "running" /\ pc = "begin"
        /\ g = (IF EffSeed = NoVal THEN 0 ELSE EffSeed % R!Mod)
Adv == l' = l + 1 /\ UNCHANGED tid
Live == l <= Len(Evs)                    \* there is an event left to explain
(* the first interaction is validated before the learner is touched *)
Reject == /\ Live /\ pc = "begin" /\ Rejected /\ Ev.e = "reject" /\ outcome' = "rejected" /\ pc' = "end" /\ Adv /\ UNCHANGED <<i, ans, g>>
Begin  == /\ Live /\ pc = "begin" /\ ~Rejected /\ pc' = "interaction" /\ UNCHANGED <<tid, l, i, ans, g, outcome>>
Start  == /\ Live /\ pc = "interaction" /\ i <= Len(Env) /\ pc' = "predict" /\ ans' = NoAns /\ UNCHANGED <<tid, l, i, g, outcome>>
(* exactly this interaction's context (with its userid) and actions *)
Predict == /\ Live /\ pc = "predict" /\ Ev.e = "predict"
           /\ Ev.u = It.uid /\ Ev.c = It.ctx /\ Ev.acts = It.acts
           /\ IF Mode.fmt = "pmf"
              THEN LET idx == R!ChoiceW(g, Ev.w) IN
                   /\ ans' = [a |-> It.acts[idx + 1], p |-> Ev.w[idx + 1] * 250, k |-> Ev.rk, info |-> Ev.ri]
                   /\ g' = R!Step(g)
              ELSE /\ \E k \in DOMAIN It.acts : It.acts[k] = Ev.ra
                   /\ ans' = [a |-> Ev.ra, p |-> Ev.rp, k |-> Ev.rk, info |-> Ev.ri]
                   /\ g' = g
           /\ pc' = "learn" /\ Adv /\ UNCHANGED <<i, outcome>>
(* the chosen action, ITS FEEDBACK, the learner's own probability and kwargs *)
LearnSignal(a) == IF Variant = "learn_reward" THEN Rw(a) ELSE Fb(a)
LearnStep == /\ Live /\ pc = "learn" /\ Ev.e = "learn"
             /\ Ev.u = It.uid /\ Ev.c = It.ctx
             /\ Ev.a = ans.a /\ Ev.r = LearnSignal(ans.a) /\ Ev.p = ans.p /\ Ev.k = ans.k
             /\ pc' = "row" /\ Adv /\ UNCHANGED <<i, ans, g, outcome>>
(* the row this interaction must produce *)
WantRow == [e |-> "row", n |-> i,
            reward      |-> IF Rec("reward") THEN Rw(ans.a) ELSE NoVal,
            feedback    |-> IF Rec("feedback") THEN Fb(ans.a) ELSE NoVal,
            action      |-> IF Rec("action") THEN ans.a ELSE NoVal,
            probability |-> IF (Rec("probability") \/ Rec("prob")) THEN ans.p ELSE NoVal,
            actions     |-> IF Rec("actions") THEN It.acts ELSE <<>>,
            rewards     |-> IF Rec("rewards") THEN It.rwds ELSE <<>>,
            feedbacks   |-> IF Rec("feedbacks") THEN It.fbks ELSE <<>>,
            time        |-> Rec("time"),
            uid |-> It.uid, ex |-> It.ex, info |-> ans.info, other |-> <<>>]
Row == /\ Live /\ pc = "row" /\ Ev = WantRow /\ Adv
       /\ i' = i + 1 /\ pc' = "interaction" /\ UNCHANGED <<ans, g, outcome>>
Finish == /\ Live /\ pc = "interaction" /\ i = Len(Env) + 1 /\ Ev.e = "end" /\ outcome' = "done" /\ pc' = "end" /\ Adv /\ UNCHANGED <<i, ans, g>>
Next == Reject \/ Begin \/ Start \/ Predict \/ LearnStep \/ Row \/ Finish
Spec == Init /\ [][Next]_vars

AtEnd  == l = Len(Evs) + 1 /\ pc = "end"
Accept == AtEnd => PrintT(ToJson([acc |-> tid]))
(* no third outcome: rejected before any call, or every interaction predicted, learned and recorded once *)
TwoOutcomes == AtEnd => (outcome = "rejected" /\ i = 1 /\ l = 2) \/ (outcome = "done" /\ i = Len(Env) + 1 /\ l = 3 * Len(Env) + 2)
(* one uniform per interaction and none otherwise *)
OneDrawPerInteraction == (pc \in {"interaction", "end"} /\ Mode.fmt = "pmf" /\ EffSeed # NoVal /\ outcome # "rejected") => g = R!StepN(EffSeed % R!Mod, i - 1)
NoDrawOtherwise == Mode.fmt # "pmf" => g = (IF EffSeed = NoVal THEN 0 ELSE EffSeed % R!Mod)
(* what the spec waits for where a trace stops being explained (the driver names the differing field) *)
Want == CASE pc = "row" -> WantRow
          [] pc = "learn" -> [e |-> "learn", u |-> It.uid, c |-> It.ctx, a |-> ans.a, r |-> LearnSignal(ans.a), p |-> ans.p, k |-> ans.k]
          [] pc = "predict" -> [e |-> "predict", u |-> It.uid, c |-> It.ctx, acts |-> It.acts]
          [] pc = "begin" /\ Rejected -> [e |-> "reject"]
          [] pc = "interaction" /\ i = Len(Env) + 1 -> [e |-> "end"]
          [] OTHER -> [e |-> "-"]
Diag == PrintT(ToJson([tid |-> tid, l |-> l, want |-> Want]))
=============================================================================
