\* X06 liveness: every save() comes to an end (weak fairness of the steps of save itself and of a planned kill; no history kept)
SPECIFICATION FairSpec
CONSTANTS
  NI <- NI3
  SelfSet <- SelfLive
  ProcSet <- P12
  OwSet <- OwBoth
  FaultSet <- FAll
  ExtSet <- EAll
  MaxCalls = 3
  BatchMax = 1000
  Record = FALSE
  Variant = "ok"
INVARIANT TypeOK
INVARIANT Consistent
INVARIANT NumsIncreasing
INVARIANT Partition
INVARIANT ArchIsStoredPlusDone
INVARIANT NoRematerialize
INVARIANT ReturnedIsSelf
INVARIANT AcceptedReadable
INVARIANT LoggerRestored
PROPERTY Terminates
PROPERTY AppendOnly
CHECK_DEADLOCK FALSE
