---------------------------- MODULE MC_CobaRandom ----------------------------
(* Exhaustive checks on a scaled generator (same structure: a = A mod 2^8 = 1 mod 4, c odd, modulus 2^8), and the
   Hull-Dobell side conditions + limb arithmetic sanity for the real constants. *)
EXTENDS CobaRandom
RealA == 116646453
ASSUME RealA % 4 = 1 /\ 9 % 2 = 1                       \* Hull-Dobell for a power-of-two modulus: full period 2^30
VARIABLES seen, start, n2
mvars == <<inst, seen, start, n2>>
mcInst == {1, 2}
CONSTANT Starts
AllStarts == 0..(Mod - 1)
SomeStarts == {0, 1, 77, 128, 255}
MInit == /\ start \in Starts /\ seen = {start} /\ n2 = 0
         /\ inst = [i \in Inst |-> [s |-> start, g |-> FALSE, live |-> TRUE]]
(* walk the orbit of instance 1, interleaved with arbitrary calls on instance 2 *)
Walk == Adv(1, 1) /\ seen' = seen \cup {Step(inst[1].s)} /\ UNCHANGED <<start, n2>>
MNext == \/ Walk
         \/ /\ n2 < 5 /\ Adv(2, 1) /\ n2' = n2 + 1 /\ UNCHANGED <<seen, start>>
         \/ /\ n2 < 5 /\ Gauss(2) /\ n2' = n2 + (IF inst[2].g THEN 0 ELSE 2) /\ UNCHANGED <<seen, start>>
MSpec == MInit /\ [][MNext]_mvars /\ WF_mvars(Walk)
(* every state is reached from every seed: the states with u = 0 and u = 1 - 1/m occur in every stream *)
FullPeriod == <>(seen = 0..(Mod - 1))
Independent == inst[2].s = StepN(start, n2)        \* instance 2 is exactly where its own calls put it, whatever instance 1 did
(* contracts in EVERY state *)
Ws == {<<1>>, <<0,1>>, <<1,0>>, <<0,0,3>>, <<2,0,1>>, <<1,1>>, <<0,2,0>>}
Contracts == LET s == inst[1].s IN
   /\ \A a \in {-2, 0, 3}, b \in {3, 5} : RandInt(s, a, b) \in a..b
   /\ \A n \in 0..4 : LET p == Shuffle(s, n) IN {p[k] : k \in 1..n} = 0..(n - 1)
   /\ \A n \in 1..4 : ChoiceU(s, n) \in 0..(n - 1)
   /\ \A w \in Ws : w[ChoiceW(s, w) + 1] > 0
   /\ \A lo \in {-9, -4, -2, 0, 1, 4, 36}, wd \in {1, 2, 4, 7, 16} : UniformInBounds(Step(s), lo, lo + wd)    \* [min,max) on the grid, every state
(* the code's comparison selects a zero-weight member only in the state whose uniform is 0 *)
AsCodedZeroOnlyAtZero == LET s == inst[1].s IN \A w \in Ws : (w[ChoiceWAsCoded(s, w) + 1] = 0) => Step(s) = 0
AsCodedAgreesElsewhere == LET s == inst[1].s IN \A w \in Ws : Step(s) # 0 => ChoiceWAsCoded(s, w) = ChoiceW(s, w)
=============================================================================
