SPECIFICATION Spec
CONSTANTS
  MaxRows = 3
  MaxRowsM = 2
  NL = 3
  Srcs <- AllSrcs
  Takes <- TakesQuick
  Shapes <- ShapesQuick
  XKs <- XKsQuick
  FeatVals <- FeatValsAll
  MaxRowsL = 2
  Plan <- PlanAll
  SpellRule = "alt"
INVARIANT CountOK
INVARIANT SampleOK
INVARIANT BestIsLabel
INVARIANT BestIsLabelM
INVARIANT BestIsLabelR
INVARIANT SameActions
INVARIANT ContextIsRowWithoutLabel
INVARIANT OracleTotal
INVARIANT FeatureEqualsLabel
INVARIANT EveryReadAlike
INVARIANT SpellingIrrelevant
INVARIANT LevelOrderIsPresentation
INVARIANT Emit
CHECK_DEADLOCK FALSE
