---------------------------- MODULE MC_EnvSave ----------------------------
EXTENDS EnvSave
\* kinds 1..3: tiny environments (2, 0, 3 interactions); 4 and 5: one interaction more than a batch, exactly two batches
NI3 == <<2, 0, 3>>
NI5 == <<2, 0, 3, 1001, 2000>>
P1  == {1}
P2  == {2}
P12 == {1, 2}
OwBoth == {FALSE, TRUE}
OwNo   == {FALSE}
FNone == {}
FAll  == {"kill", "torn", "readfail"}
FCrash == {"kill", "torn"}
FRead == {"readfail"}
ENone == {}
EAll  == {"from_save", "sink_write", "corrupt", "delete"}
ESome == {"from_save", "corrupt"}
ESink == {"sink_write", "from_save"}
\* self sequences: empty, single, permutations, a superset, repeated kinds
SelfA == {<<>>, <<1>>, <<1, 2>>, <<2, 1>>, <<1, 2, 3>>, <<3, 1, 2>>, <<1, 1>>, <<1, 1, 2>>, <<2, 3>>}
SelfB == {<<1, 2>>, <<2, 1, 3>>, <<1, 1, 2>>, <<3>>}
SelfC == {<<1, 2, 3>>, <<3, 1>>, <<2, 2, 1>>}
SelfD == {<<>>, <<2>>, <<1, 2>>, <<2, 1>>, <<1, 2, 3>>, <<3, 3>>, <<1, 3, 1>>, <<3, 2>>}
SelfBatch == {<<4>>, <<5, 4>>, <<1, 5>>}
SelfSink == {<<1>>, <<2, 1>>, <<1, 2, 3>>}
SelfQ == {<<1, 2>>, <<2, 1, 3>>, <<1, 1>>}
SelfQ2 == {<<1, 2>>, <<2, 1, 3>>}
SelfAq == {<<>>, <<1>>, <<2, 1>>, <<1, 2, 3>>, <<1, 1>>}
\* more than ten members: member names of two digits
SelfMany == {<<1, 2, 1, 1, 2, 1, 1, 1, 2, 1, 1>>, <<1, 2, 1, 1, 2, 1, 1, 1, 2, 1, 1, 2, 3>>}
FKill == {"kill"}
SelfLive == {<<>>, <<1, 2>>, <<2, 1, 3>>, <<1, 1>>}
=============================================================================
