------------------------------ MODULE Cacher ------------------------------
(***************************************************************************)
(* ConcurrentCacher.get_set / rmv  (coba/context/cachers.py:147-271) over  *)
(* an inner cache that is memory-like (MemoryCacher: put is one atomic     *)
(* store) or disk-like (DiskCacher: the file exists while being written).  *)
(*                                                                         *)
(* One action per critical section (`with self._lock:` block), per inner   *)
(* cache operation and per body boundary of the code.  Property C19:       *)
(*   MutexRW, NoPartial, SingleFlight, NoReadDuringRmv : never read while  *)
(*     written / removed, never two writers, getter at most once per key   *)
(*     while cached, every served value complete;                          *)
(*   Released   : after all callers left, no lock is held;                 *)
(*   Terminates : no caller waits forever (weak fairness per caller).      *)
(*                                                                         *)
(* Action <-> code map                                                     *)
(*   TryRead        _acquire_read_lock 216-228 (successful attempt)        *)
(*   Check1/Check2  `key in self._cache` 191 / `key in self` 196           *)
(*   InnerGet       self._cache.get_set(key,None) 192 / 198                *)
(*   RelReadMid     _release_read_lock 193                                 *)
(*   TryWrite       _acquire_write_lock 236-248 (successful attempt)       *)
(*   PutBegin/End   self._cache.get_set(key,getter) 200                    *)
(*   Switch         _switch_write_to_read_lock 256-262                     *)
(*   BodyEnter/Exit _release_read_on_exit 208-214 (`with item as out`)     *)
(*   RelReadFinal   the `finally` of _release_read_on_exit 214             *)
(*   ErrRelease     the `except` of get_set 203-206                        *)
(*   RmvProbe       `key in self` 177 (un-locked; a named, allowed step)   *)
(*   InnerRmv       self._cache.rmv(key) 180                               *)
(*   RelWrite       _release_write_lock 250-254                            *)
(* A failed lock attempt (`time.sleep(1)` and retry) is a stuttering step. *)
(***************************************************************************)
EXTENDS Integers, Sequences, FiniteSets, TLC

CONSTANTS Callers,   \* caller (thread) names
          Keys,      \* cache keys
          Idx,       \* Keys -> lock-table index (equal index = colliding 16-bit hashes).  A function of the key ALONE:
                     \* every caller, thread or spawned process, must compute the same index (c19.slot_agreement
                     \* binds this by starting caller processes with different string-hash salts)
          DiskLike,  \* TRUE: an entry is visible to `in` while it is being written
          ProgSet    \* set of program assignments [Callers -> Seq(op)] TLC may choose from

(* op = [t |-> "gs", k, g |-> "ok"|"raise", b |-> "ok"|"raise", n |-> "none"|"gs"|"rmv"]  |  [t |-> "rmv", k, ..] *)

VARIABLES prog,      \* the program assignment of this behaviour (chosen in Init, never changes)
          pc, ip,    \* per caller: control point, index of the current operation
          arr,       \* shared lock table: -1 write-locked, n>=0 readers
          held,      \* per caller and key: the caller's own view (_locks): -1, 0, n
          entry,     \* inner cache: "absent" | "writing" | "present"
          rd, wr,    \* monitors: callers currently reading / writing entry k
          gcalls,    \* getter runs for k since the entry was last absent-and-stable
          bad        \* set of violated monitor names (never shrinks)
vars == <<prog, pc, ip, arr, held, entry, rd, wr, gcalls, bad>>

Indices == {Idx[k] : k \in Keys}
Op(c)   == prog[c][ip[c]]
K(c)    == Op(c).k
I(c)    == Idx[K(c)]
Nest(c) == Op(c).n
Contains(k) == entry[k] = "present" \/ (DiskLike /\ entry[k] = "writing")

TypeOK == /\ pc \in [Callers -> {"next","done","gsR","gsC1","gsGet","gsRelR","gsW","gsC2","gsSwGet","gsPutB",
                                 "gsPutE","gsSw","gsEnter","body","gsRelF","gsErr","rmP","rmW","rmB","rmRel",
                                 "nR","nC","nGet","nBody","nRel","nRmP","nRmRaise","bodyN"}]
          /\ \A i \in Indices : arr[i] \in Int
          /\ \A k \in Keys : entry[k] \in {"absent","writing","present"}

InitRest ==
        /\ pc = [c \in Callers |-> "next"] /\ ip = [c \in Callers |-> 1]
        /\ arr = [i \in Indices |-> 0] /\ held = [c \in Callers |-> [k \in Keys |-> 0]]
        /\ entry = [k \in Keys |-> "absent"] /\ rd = [k \in Keys |-> 0] /\ wr = [k \in Keys |-> 0]
        /\ gcalls = [k \in Keys |-> 0] /\ bad = {}
Init == prog \in ProgSet /\ InitRest

Goto(c,l) == pc' = [pc EXCEPT ![c] = l]
Finish(c) == ip' = [ip EXCEPT ![c] = @ + 1]

Dispatch(c) == /\ pc[c] = "next"
               /\ IF ip[c] > Len(prog[c]) THEN Goto(c,"done")
                  ELSE IF Op(c).t = "gs" THEN Goto(c,"gsR") ELSE Goto(c,"rmP")
               /\ UNCHANGED <<prog,ip,arr,held,entry,rd,wr,gcalls,bad>>

(* ---------------- get_set ---------------- *)
TryRead(c) == /\ pc[c] = "gsR" /\ arr[I(c)] >= 0
              /\ arr' = [arr EXCEPT ![I(c)] = @ + 1] /\ held' = [held EXCEPT ![c][K(c)] = @ + 1]
              /\ Goto(c,"gsC1") /\ UNCHANGED <<prog,ip,entry,rd,wr,gcalls,bad>>
Check1(c) == /\ pc[c] = "gsC1"
             /\ IF Contains(K(c)) THEN Goto(c,"gsGet") ELSE Goto(c,"gsRelR")
             /\ UNCHANGED <<prog,ip,arr,held,entry,rd,wr,gcalls,bad>>
(* the value is handed out: it must be complete, now and for as long as it is being read *)
InnerGet(c) == /\ pc[c] = "gsGet"
               /\ rd' = [rd EXCEPT ![K(c)] = @ + 1]
               /\ bad' = IF entry[K(c)] # "present" THEN bad \cup {"partial"} ELSE bad
               /\ Goto(c,"body") /\ UNCHANGED <<prog,ip,arr,held,entry,wr,gcalls>>
RelReadMid(c) == /\ pc[c] = "gsRelR"
                 /\ arr' = [arr EXCEPT ![I(c)] = @ - 1] /\ held' = [held EXCEPT ![c][K(c)] = @ - 1]
                 /\ Goto(c,"gsW") /\ UNCHANGED <<prog,ip,entry,rd,wr,gcalls,bad>>
TryWrite(c,from,to) == /\ pc[c] = from /\ arr[I(c)] = 0
                       /\ arr' = [arr EXCEPT ![I(c)] = -1] /\ held' = [held EXCEPT ![c][K(c)] = -1]
                       /\ Goto(c,to) /\ UNCHANGED <<prog,ip,entry,rd,wr,gcalls,bad>>
Check2(c) == /\ pc[c] = "gsC2"
             /\ IF Contains(K(c)) THEN Goto(c,"gsSwGet") ELSE Goto(c,"gsPutB")
             /\ UNCHANGED <<prog,ip,arr,held,entry,rd,wr,gcalls,bad>>
PutBegin(c) == /\ pc[c] = "gsPutB"
               /\ entry' = [entry EXCEPT ![K(c)] = "writing"] /\ wr' = [wr EXCEPT ![K(c)] = @ + 1]
               /\ gcalls' = [gcalls EXCEPT ![K(c)] = @ + 1]
               /\ bad' = bad \cup (IF rd[K(c)] > 0 THEN {"write-while-read"} ELSE {})
                             \cup (IF wr[K(c)] > 0 THEN {"two-writers"} ELSE {})
                             \cup (IF gcalls[K(c)] > 0 THEN {"getter-twice"} ELSE {})
               /\ Goto(c,"gsPutE") /\ UNCHANGED <<prog,ip,arr,held,rd>>
PutEnd(c) == /\ pc[c] = "gsPutE"
             /\ wr' = [wr EXCEPT ![K(c)] = @ - 1]
             /\ IF Op(c).g = "ok"
                THEN entry' = [entry EXCEPT ![K(c)] = "present"] /\ Goto(c,"gsSw") /\ UNCHANGED gcalls
                ELSE entry' = [entry EXCEPT ![K(c)] = "absent"] /\ Goto(c,"gsErr") /\ gcalls' = [gcalls EXCEPT ![K(c)] = 0]
             /\ UNCHANGED <<prog,ip,arr,held,rd,bad>>
Switch(c,from,to) == /\ pc[c] = from
                     /\ arr' = [arr EXCEPT ![I(c)] = 1] /\ held' = [held EXCEPT ![c][K(c)] = 1]
                     /\ Goto(c,to) /\ UNCHANGED <<prog,ip,entry,rd,wr,gcalls,bad>>
EnterAfterPut(c) == /\ pc[c] = "gsEnter" /\ rd' = [rd EXCEPT ![K(c)] = @ + 1]
                    /\ bad' = IF entry[K(c)] # "present" THEN bad \cup {"partial"} ELSE bad
                    /\ Goto(c,"body") /\ UNCHANGED <<prog,ip,arr,held,entry,wr,gcalls>>
(* the body finishes (normally or by raising: Op(c).b) - either way the `finally` releases *)
BodyExit(c) == /\ (pc[c] = "bodyN" \/ (pc[c] = "body" /\ Nest(c) = "none")) /\ rd' = [rd EXCEPT ![K(c)] = @ - 1]
               /\ bad' = IF entry[K(c)] # "present" THEN bad \cup {"changed-under-reader"} ELSE bad
               /\ Goto(c,"gsRelF") /\ UNCHANGED <<prog,ip,arr,held,entry,wr,gcalls>>
RelReadFinal(c) == /\ pc[c] = "gsRelF"
                   /\ arr' = [arr EXCEPT ![I(c)] = @ - 1] /\ held' = [held EXCEPT ![c][K(c)] = @ - 1]
                   /\ Goto(c,"next") /\ Finish(c) /\ UNCHANGED <<prog,entry,rd,wr,gcalls,bad>>
ErrRelease(c) == /\ pc[c] = "gsErr"
                 /\ IF held[c][K(c)] > 0
                    THEN arr' = [arr EXCEPT ![I(c)] = @ - 1] /\ held' = [held EXCEPT ![c][K(c)] = @ - 1]
                    ELSE IF held[c][K(c)] = -1
                         THEN arr' = [arr EXCEPT ![I(c)] = 0] /\ held' = [held EXCEPT ![c][K(c)] = 0]
                         ELSE UNCHANGED <<arr,held>>
                 /\ Goto(c,"next") /\ Finish(c) /\ UNCHANGED <<prog,entry,rd,wr,gcalls,bad>>
(* ---------------- rmv ---------------- *)
RmvProbe(c) == /\ pc[c] = "rmP"
               /\ IF Contains(K(c)) THEN Goto(c,"rmW") /\ UNCHANGED ip ELSE Goto(c,"next") /\ Finish(c)
               /\ UNCHANGED <<prog,arr,held,entry,rd,wr,gcalls,bad>>
InnerRmv(c) == /\ pc[c] = "rmB"
               /\ entry' = [entry EXCEPT ![K(c)] = "absent"] /\ gcalls' = [gcalls EXCEPT ![K(c)] = 0]
               /\ bad' = bad \cup (IF rd[K(c)] > 0 THEN {"rmv-while-read"} ELSE {})
                             \cup (IF wr[K(c)] > 0 THEN {"rmv-while-write"} ELSE {})
               /\ Goto(c,"rmRel") /\ UNCHANGED <<prog,ip,arr,held,rd,wr>>
RelWrite(c) == /\ pc[c] = "rmRel"
               /\ arr' = [arr EXCEPT ![I(c)] = 0] /\ held' = [held EXCEPT ![c][K(c)] = 0]
               /\ Goto(c,"next") /\ Finish(c) /\ UNCHANGED <<prog,entry,rd,wr,gcalls,bad>>

(* ---------------- nesting inside a body (Op(c).n): "gs" = get_set on the SAME key again (a re-entrant read: the
   caller already holds a read lock, so the table value is >= 1 and the attempt always succeeds), "rmv" = rmv of the same
   key, which must refuse with an exception (the caller holds a read lock: _acquire_write_lock 237-238) and change
   nothing.  Nesting on a different key that collides is excluded by the property. ---------------- *)
NestStart(c) == /\ pc[c] = "body" /\ Nest(c) # "none" /\ held[c][K(c)] = 1
                /\ Goto(c, IF Nest(c) = "gs" THEN "nR" ELSE "nRmP")
                /\ UNCHANGED <<prog,ip,arr,held,entry,rd,wr,gcalls,bad>>
NTryRead(c) == /\ pc[c] = "nR" /\ arr[I(c)] >= 0
               /\ arr' = [arr EXCEPT ![I(c)] = @ + 1] /\ held' = [held EXCEPT ![c][K(c)] = @ + 1]
               /\ Goto(c,"nC") /\ UNCHANGED <<prog,ip,entry,rd,wr,gcalls,bad>>
NCheck(c) == /\ pc[c] = "nC" /\ Goto(c,"nGet")
             /\ bad' = IF Contains(K(c)) THEN bad ELSE bad \cup {"vanished-under-reader"}
             /\ UNCHANGED <<prog,ip,arr,held,entry,rd,wr,gcalls>>
NInnerGet(c) == /\ pc[c] = "nGet" /\ rd' = [rd EXCEPT ![K(c)] = @ + 1]
                /\ bad' = IF entry[K(c)] # "present" THEN bad \cup {"partial"} ELSE bad
                /\ Goto(c,"nBody") /\ UNCHANGED <<prog,ip,arr,held,entry,wr,gcalls>>
NBodyExit(c) == /\ pc[c] = "nBody" /\ rd' = [rd EXCEPT ![K(c)] = @ - 1]
                /\ Goto(c,"nRel") /\ UNCHANGED <<prog,ip,arr,held,entry,wr,gcalls,bad>>
NRelRead(c) == /\ pc[c] = "nRel"
               /\ arr' = [arr EXCEPT ![I(c)] = @ - 1] /\ held' = [held EXCEPT ![c][K(c)] = @ - 1]
               /\ Goto(c,"bodyN") /\ UNCHANGED <<prog,ip,entry,rd,wr,gcalls,bad>>
NRmvProbe(c) == /\ pc[c] = "nRmP" /\ Goto(c,"nRmRaise")       \* `key in self` is true: the caller is reading the entry
                /\ bad' = IF Contains(K(c)) THEN bad ELSE bad \cup {"vanished-under-reader"}
                /\ UNCHANGED <<prog,ip,arr,held,entry,rd,wr,gcalls>>
NRmvRaise(c) == /\ pc[c] = "nRmRaise" /\ Goto(c,"bodyN")       \* CobaException: nothing changes, the outer body goes on to its exit
                /\ UNCHANGED <<prog,ip,arr,held,entry,rd,wr,gcalls,bad>>
TryWriteGs(c)  == TryWrite(c,"gsW","gsC2")
TryWriteRmv(c) == TryWrite(c,"rmW","rmB")
SwitchPut(c)   == Switch(c,"gsSw","gsEnter")
SwitchGet(c)   == Switch(c,"gsSwGet","gsGet")

Step(c) == \/ Dispatch(c) \/ TryRead(c) \/ Check1(c) \/ InnerGet(c) \/ RelReadMid(c)
           \/ TryWriteGs(c) \/ Check2(c) \/ PutBegin(c) \/ PutEnd(c)
           \/ SwitchPut(c) \/ SwitchGet(c) \/ EnterAfterPut(c)
           \/ BodyExit(c) \/ RelReadFinal(c) \/ ErrRelease(c)
           \/ RmvProbe(c) \/ TryWriteRmv(c) \/ InnerRmv(c) \/ RelWrite(c)
           \/ NestStart(c) \/ NTryRead(c) \/ NCheck(c) \/ NInnerGet(c) \/ NBodyExit(c) \/ NRelRead(c) \/ NRmvProbe(c) \/ NRmvRaise(c)
Next == \E c \in Callers : Step(c)
Spec == Init /\ [][Next]_vars /\ \A c \in Callers : WF_vars(Step(c))

(* ---------------- properties ---------------- *)
AllDone      == \A c \in Callers : pc[c] = "done"
MutexRW      == \A k \in Keys : wr[k] <= 1 /\ (wr[k] > 0 => rd[k] = 0)
NoBad        == bad = {}                      \* NoPartial, SingleFlight, NoReadDuringRmv ... as monitors
SingleFlight == \A k \in Keys : gcalls[k] <= 1
Released     == AllDone => (\A i \in Indices : arr[i] = 0) /\ (\A c \in Callers, k \in Keys : held[c][k] = 0)
ArrSane      == \A i \in Indices : arr[i] >= -1
(* the lock table agrees with the callers' own views: index value = sum of the holders' views *)
RECURSIVE SumHeld(_,_)
SumHeld(S,i) == IF S = {} THEN 0 ELSE LET x == CHOOSE y \in S : TRUE IN
                   (IF Idx[x[2]] = i /\ held[x[1]][x[2]] > 0 THEN held[x[1]][x[2]] ELSE 0) + SumHeld(S \ {x}, i)
Writers(i)   == {x \in Callers \X Keys : Idx[x[2]] = i /\ held[x[1]][x[2]] = -1}
TableAgrees  == \A i \in Indices : IF Writers(i) # {} THEN arr[i] = -1 /\ Cardinality(Writers(i)) = 1
                                   ELSE arr[i] = SumHeld(Callers \X Keys, i)
Terminates   == <>[]AllDone
=============================================================================
