---------------------------- MODULE OpenmlLoad ----------------------------
(***************************************************************************)
(* X01 - the OpenML loading protocol: OpenmlSource.read                    *)
(* (coba/environments/openml.py) over CobaContext.cacher (a                *)
(* ConcurrentCacher, coba/context/cachers.py; its inside is Cacher.tla,    *)
(* here "get_set is atomic per key unless the getter is running"), the     *)
(* semaphore CobaContext.store["openml_semaphore"] (CobaMultiprocessor,    *)
(* coba/multiprocessing.py:67) and HTTP requests with injected failures.   *)
(*                                                                         *)
(* Loaders are processes; one action per step of the code.  The spec is    *)
(* the INTENDED protocol (what the comments of openml.py and the property  *)
(* statement say); `Variant` switches single clauses to deliberately       *)
(* broken designs that TLC must reject.                                    *)
(*                                                                         *)
(* Action <-> code map (openml.py unless noted)                            *)
(*   StartRead     first next() of read(): 55-60                           *)
(*   SCProbeT      _source_already_cached 215 `task key in cacher`         *)
(*   SCProbe       222 `all(key in cacher for data, feat, arff)` - one     *)
(*                 probe per action (separate processes: not atomic)       *)
(*   SemAcquire    63 openml_semaphore.acquire()                           *)
(*   SemRelC       65 release: everything got cached while waiting         *)
(*   Hit / Miss    136 cacher.get_set(key, getter): entry present -> read  *)
(*                 lock + value; absent -> write lock, the getter runs     *)
(*   Req           155 one try of HttpSource(url).read() inside the getter *)
(*                 (157-159 TimeoutError: retry up to 3 tries; 161-179     *)
(*                 HTTPError -> CobaException; anything else propagates)   *)
(*   Put           cachers.py 200-202 value stored, write -> read lock     *)
(*   GFail         cachers.py 203-206 getter raised: write lock released;  *)
(*                 then 138-140 `_get_data` clears the cache (any class:   *)
(*                 coba/tests test_cache_cleared_on_cache_coba_exception)  *)
(*   RelRead       end of `with cacher.get_set(..) as out` 136-137 for a   *)
(*                 description; the JSON is parsed afterwards 183/188/193, *)
(*                 then the domain checks 78-92                            *)
(*   Row / End     112 rows yielded while the ARFF entry is read-locked    *)
(*   ParseFail     112 an unexpected error inside the reader pipeline      *)
(*   Close         the consumer abandons the generator (close())           *)
(*   ClrProbe/Rmv  207-209 _clear_cache -> cachers.py rmv 174-185          *)
(*   RelArff/RelSem/Done   127-129 `finally`, the ARFF entry's read lock   *)
(*                 is released when its generator is finalised             *)
(***************************************************************************)
EXTENDS Integers, Sequences, FiniteSets, TLC, Json

CONSTANTS Loaders,    \* loader (process) names
          Datasets,   \* dataset names; a key is dataset \o kind, kind in t(ask) d(ata) f(eat) a(rff)
          CfgSet,     \* configurations Init may choose from (MC modules choose structurally instead)
          Obs,        \* TRUE: `obs` holds the event of the last step (trace validation, history generation)
          Rec,        \* TRUE: `hist` accumulates the events (history generation for the sequential replay)
          Variant     \* "intended" | deliberately broken: "semok" "flag" "noclear" "clearheld" "reqcached"

(* cfg = [cap    |-> semaphore capacity, 0 = no semaphore (not under CobaMultiprocessor),
          form   |-> [Loaders -> "data"|"task"],  ds |-> [Loaders -> Datasets],
          reads  |-> [Loaders -> 0..3]  reads of the SAME OpenmlSource object (0 = the loader does not exist),
          ab     |-> [Loaders -> Seq(-1..n)]  per read: rows after which the consumer closes the generator, -1 = never,
          n      |-> [Loaders -> Nat]  rows of the file this loader must yield (depends on its drop_missing),
          dom    |-> [Datasets -> "ok"|"deact"|"notarget"|"badtype"|"nosrc"],
          script |-> Seq(<<key, Seq(outcome)>>)  outcome of the 1st, 2nd, ... request of that document, then "ok";
                     outcome in "ok" "corrupt"(a complete but unparsable document is served) "to"(TimeoutError)
                     "tomid"(TimeoutError after part of the body was delivered) "herr"(HTTP 404/412/other) "boom"(any other error),
          pre    |-> name of the initial cache (information only) ]
   The cache at the beginning ([Keys -> "absent"|"good"|"bad"]) is chosen next to cfg in the initial predicate. *)

VARIABLES cfg, cache, rd, wr, sem, nreq, L, bad, obs, hist
vars == <<cfg, cache, rd, wr, sem, nreq, L, bad, obs, hist>>

Kinds == {"t","d","f","a"}
Key(ds,kd) == ds \o kd
Keys == {Key(ds,kd) : ds \in Datasets, kd \in Kinds}
NoEv == [e |-> "", l |-> "", k |-> "", v |-> "", n |-> 0]
E(e,l,k,v,n) == [e |-> e, l |-> l, k |-> k, v |-> v, n |-> n]
Emit(ev) == /\ obs'  = (IF Obs THEN ev ELSE NoEv)
            /\ hist' = (IF Rec THEN Append(hist, ev) ELSE hist)
TF(b) == IF b THEN "T" ELSE "F"

Form(l) == cfg.form[l]
Dom(l)  == cfg.dom[cfg.ds[l]]
K(l,kd) == Key(cfg.ds[l], kd)
Cur(l)  == K(l, L[l].cur)
Ab(l)   == LET s == cfg.ab[l] IN IF L[l].nread <= Len(s) THEN s[L[l].nread] ELSE -1
Present(k) == cache[k] # "absent"

Rec0(l) == [pc |-> IF cfg.reads[l] = 0 THEN "done" ELSE "idle", nread |-> 0, known |-> (cfg.form[l] = "data"), kst |-> FALSE,
            acq |-> FALSE, flag |-> FALSE, everAcq |-> FALSE, ph |-> "first", sck |-> FALSE,
            stage |-> 0, cur |-> "d", ret |-> "plan", tries |-> 0, buf |-> "good",
            exc |-> "none", org |-> "none", ci |-> 0, cret |-> "read", rows |-> 0, hr |-> FALSE,
            reqs |-> 0, dirty |-> FALSE, rmvd |-> 0, allc |-> FALSE, ux |-> FALSE, tmiss |-> FALSE]

InitRest == /\ rd = [k \in Keys |-> 0] /\ wr = [k \in Keys |-> "none"]
            /\ sem = cfg.cap /\ nreq = [k \in Keys |-> 0]
            /\ L = [l \in Loaders |-> Rec0(l)]
            /\ bad = {} /\ obs = NoEv /\ hist = <<>>
Init == cfg \in CfgSet /\ cache = [k \in Keys |-> "absent"] /\ InitRest

Set(l,r)      == L' = [L EXCEPT ![l] = r]
SetDirty(l,r) == L' = [x \in Loaders |-> IF x = l THEN [r EXCEPT !.dirty = TRUE] ELSE [L[x] EXCEPT !.dirty = TRUE]]

(* ---------------- where the code goes next (pure functions of the loader's record) ---------------- *)
Plan(r,l) == IF Form(l) = "data" THEN <<"d","f","a">>
             ELSE IF r.kst THEN <<"d","t","d","f","a">>     \* 69-72 then 74-86: a re-read object already knows its data id
             ELSE <<"t","d","f","a">>
ToStage(r,l,i) == [r EXCEPT !.stage = i, !.cur = Plan(r,l)[i], !.ret = "plan", !.pc = "gLook"]
ToPlan(r,l)    == ToStage(r,l,1)
ClearKeys(r,l) == (IF Form(l) = "task" THEN <<"t">> ELSE <<>>) \o (IF r.known THEN <<"d","f","a">> ELSE <<>>)
FinExc(r)      == [r EXCEPT !.pc = "fin"]
StartClear(r,l,cret) == IF Variant = "noclear" THEN FinExc(r) ELSE [r EXCEPT !.pc = "cProbe", !.ci = 1, !.cret = cret]
(* after _get_data's handler (138-140) the exception reaches read()'s handlers (114-125): CobaException is
   re-raised as it is, anything else clears once more *)
AfterClear(r,l) == IF r.cret = "getter" /\ r.exc # "coba" THEN [r EXCEPT !.pc = "cProbe", !.ci = 1, !.cret = "read"] ELSE FinExc(r)
Advance(r,l)    == IF r.ci < Len(ClearKeys(r,l)) THEN [r EXCEPT !.ci = @ + 1, !.pc = "cProbe"] ELSE AfterClear(r,l)
Coba(r)         == FinExc([r EXCEPT !.exc = "coba", !.org = "domain"])
Unexp(r,l)      == StartClear([r EXCEPT !.exc = "unexp", !.org = "parse", !.ux = TRUE], l, "read")
(* result of _source_already_cached: 62-67 *)
SCRes(r,l,res) == IF r.ph = "first" THEN (IF res THEN ToPlan(r,l) ELSE [r EXCEPT !.pc = "semAcq"])
                  ELSE (IF res THEN [r EXCEPT !.pc = "semRelC"] ELSE ToPlan([r EXCEPT !.flag = TRUE], l))
SCData(r,l)    == IF r.sck THEN [r EXCEPT !.pc = "scD"] ELSE SCRes(r,l,FALSE)          \* 222 `self._data_id and ...`
SCStart(r,l)   == IF Form(l) = "task" THEN [r EXCEPT !.pc = "scT"] ELSE SCData([r EXCEPT !.sck = r.known, !.tmiss = FALSE], l)
(* a description was read completely and its read lock released; c = its content *)
Cont(r,l,c) ==
  IF c = "bad" THEN Unexp(r,l)                                                        \* json.loads raises
  ELSE IF r.ret = "sc" THEN (IF Dom(l) = "nosrc" THEN SCRes(r,l,TRUE) ELSE SCData([r EXCEPT !.sck = TRUE], l))   \* 216-220
  ELSE IF r.cur = "t" THEN (IF Dom(l) \in {"badtype","nosrc"} THEN Coba(r) ELSE ToStage([r EXCEPT !.known = TRUE], l, r.stage + 1))   \* 78-85
  ELSE IF r.cur = "d" THEN (IF Plan(r,l)[r.stage + 1] = "f" /\ ((Dom(l) = "notarget" /\ Form(l) = "data") \/ Dom(l) = "deact")
                            THEN Coba(r) ELSE ToStage(r,l,r.stage + 1))                \* 88-92
  ELSE ToStage(r,l,r.stage + 1)
AllCached(l) == /\ (Form(l) = "task" => Present(K(l,"t")))
                /\ ((Form(l) = "task" /\ Dom(l) = "nosrc") \/ (Present(K(l,"d")) /\ Present(K(l,"f")) /\ Present(K(l,"a"))))

(* ---------------- read() begins ---------------- *)
StartRead(l) ==
  /\ L[l].pc = "idle"
  /\ LET r == [L[l] EXCEPT !.nread = @ + 1, !.rows = 0, !.exc = "none", !.org = "none", !.flag = FALSE, !.everAcq = FALSE,
                           !.ph = "first", !.reqs = 0, !.dirty = FALSE, !.rmvd = 0, !.hr = FALSE, !.kst = L[l].known, !.ux = FALSE,
                           !.allc = AllCached(l)]
     IN Set(l, IF cfg.cap = 0 THEN ToPlan(r,l) ELSE SCStart(r,l))
  /\ Emit(E("start", l, "", "", L[l].nread + 1))
  /\ UNCHANGED <<cfg, cache, rd, wr, sem, nreq, bad>>

SCProbeTG(l,g) ==
  /\ L[l].pc = "scT"
  /\ LET k == K(l,"t") r == L[l] IN
       /\ (g => (~Present(k) /\ r.known))
       \* task key absent: the task description still has to be downloaded (`tmiss`).  The code goes on to probe the data
       \* keys with the data id the object knows from an earlier read (215-222); concluding "not cached" at once (g) is
       \* equally fine - what matters is the result, see SCProbe
       /\ Set(l, IF Present(k) THEN [r EXCEPT !.pc = "gLook", !.cur = "t", !.ret = "sc", !.tmiss = FALSE]
                 ELSE IF g THEN SCRes([r EXCEPT !.tmiss = TRUE], l, FALSE)
                 ELSE SCData([r EXCEPT !.sck = r.known, !.tmiss = TRUE], l))
       /\ Emit(E("probe", l, k, TF(Present(k)), 0))
  /\ UNCHANGED <<cfg, cache, rd, wr, sem, nreq, bad>>
SCProbeT(l) == \E g \in BOOLEAN : SCProbeTG(l,g)
SCProbe(l,pc,kd,nxt) ==
  /\ L[l].pc = pc
  /\ LET k == K(l,kd) r == L[l] IN
       \* "already cached" only if nothing has to be downloaded: the three data keys AND (task form) the task description
       /\ Set(l, IF ~Present(k) THEN SCRes(r,l,FALSE) ELSE IF nxt = "" THEN SCRes(r,l,~r.tmiss) ELSE [r EXCEPT !.pc = nxt])
       /\ Emit(E("probe", l, k, TF(Present(k)), 0))
  /\ UNCHANGED <<cfg, cache, rd, wr, sem, nreq, bad>>
SCProbeD(l) == SCProbe(l,"scD","d","scF")
SCProbeF(l) == SCProbe(l,"scF","f","scA")
SCProbeA(l) == SCProbe(l,"scA","a","")

SemAcquire(l) ==
  /\ L[l].pc = "semAcq" /\ sem > 0
  /\ sem' = sem - 1
  /\ Set(l, SCStart([L[l] EXCEPT !.acq = TRUE, !.everAcq = TRUE, !.ph = "second"], l))
  /\ Emit(E("semAcq", l, "", "", 0))
  /\ UNCHANGED <<cfg, cache, rd, wr, nreq, bad>>
SemRelC(l) ==
  /\ L[l].pc = "semRelC"
  /\ sem' = sem + 1
  /\ Set(l, ToPlan([L[l] EXCEPT !.acq = FALSE], l))
  /\ Emit(E("semRel", l, "", "", 0))
  /\ UNCHANGED <<cfg, cache, rd, wr, nreq, bad>>

(* ---------------- _get_data: cacher.get_set(key, lambda: _http_request(url)) ---------------- *)
Holding(r) == IF r.cur = "a" THEN [r EXCEPT !.pc = "rows", !.hr = TRUE] ELSE [r EXCEPT !.pc = "gHave"]
Hit(l) ==
  /\ L[l].pc = "gLook" /\ Present(Cur(l)) /\ wr[Cur(l)] = "none"
  /\ rd' = [rd EXCEPT ![Cur(l)] = @ + 1]
  /\ Set(l, Holding(L[l]))
  /\ Emit(E("get", l, Cur(l), "", 0))
  /\ UNCHANGED <<cfg, cache, wr, sem, nreq, bad>>
Miss(l) ==
  /\ L[l].pc = "gLook" /\ ~Present(Cur(l)) /\ wr[Cur(l)] = "none" /\ rd[Cur(l)] = 0
  /\ wr' = [wr EXCEPT ![Cur(l)] = l]
  /\ Set(l, [L[l] EXCEPT !.pc = "gReq", !.tries = 1])
  /\ Emit(E("miss", l, Cur(l), "", 0))
  /\ UNCHANGED <<cfg, cache, rd, sem, nreq, bad>>
ScriptOf(k) == LET S == {i \in 1..Len(cfg.script) : cfg.script[i][1] = k}
               IN IF S = {} THEN <<>> ELSE cfg.script[CHOOSE i \in S : TRUE][2]
Outcome(k) == IF nreq[k] < Len(ScriptOf(k)) THEN ScriptOf(k)[nreq[k] + 1] ELSE "ok"
(* one try.  A TimeoutError before anything was delivered is retried (157-159, up to 3 tries).  After a timeout in the
   middle of the body ("tomid") the part already delivered must not reach the cache: the try is either repeated from
   scratch or the read fails with the TimeoutError (g = give up) - both are accepted, a mixture of both bodies is not *)
ReqG(l,g) ==
  /\ (L[l].pc = "gReq" \/ (Variant = "reqcached" /\ L[l].pc = "gLook" /\ L[l].reqs = 0 /\ Present(Cur(l)) /\ wr[Cur(l)] = "none"))
  /\ (g => (Outcome(Cur(l)) = "tomid" /\ L[l].pc = "gReq" /\ L[l].tries < 3))
  /\ LET k == Cur(l) o == Outcome(k) r == [L[l] EXCEPT !.reqs = @ + 1] IN
       /\ nreq' = [nreq EXCEPT ![k] = @ + 1]
       /\ bad' = bad \cup (IF Present(k) THEN {"request-while-cached"} ELSE {})
                     \cup (IF wr[k] # l THEN {"request-outside-getter"} ELSE {})
                     \cup (IF cfg.cap > 0 /\ ~r.acq /\ ~r.dirty THEN {"request-without-semaphore"} ELSE {})
       /\ Set(l, IF L[l].pc = "gLook" THEN r
                 ELSE IF o = "ok" THEN [r EXCEPT !.pc = "gPut", !.buf = "good"]
                 ELSE IF o = "corrupt" THEN [r EXCEPT !.pc = "gPut", !.buf = "bad"]
                 ELSE IF o \in {"to","tomid"} THEN (IF r.tries = 3 \/ g THEN [r EXCEPT !.pc = "gFail", !.exc = "timeout", !.org = "getter", !.ux = TRUE]
                                                    ELSE [r EXCEPT !.tries = @ + 1])
                 ELSE IF o = "herr" THEN [r EXCEPT !.pc = "gFail", !.exc = "coba", !.org = "getter"]
                 ELSE [r EXCEPT !.pc = "gFail", !.exc = "unexp", !.org = "getter", !.ux = TRUE])
       /\ Emit(E("req", l, k, o, L[l].tries))
  /\ UNCHANGED <<cfg, cache, rd, wr, sem>>
Req(l) == \E g \in BOOLEAN : ReqG(l,g)
Put(l) ==
  /\ L[l].pc = "gPut"
  /\ cache' = [cache EXCEPT ![Cur(l)] = L[l].buf]
  /\ wr' = [wr EXCEPT ![Cur(l)] = "none"] /\ rd' = [rd EXCEPT ![Cur(l)] = @ + 1]
  /\ Set(l, Holding(L[l]))
  /\ Emit(E("put", l, Cur(l), L[l].buf, 0))
  /\ UNCHANGED <<cfg, sem, nreq, bad>>
GFail(l) ==
  /\ L[l].pc = "gFail"
  /\ wr' = [wr EXCEPT ![Cur(l)] = "none"]
  /\ Set(l, StartClear(L[l], l, "getter"))
  /\ Emit(E("getfail", l, Cur(l), L[l].exc, 0))
  /\ UNCHANGED <<cfg, cache, rd, sem, nreq, bad>>
RelRead(l) ==
  /\ L[l].pc = "gHave"
  /\ rd' = [rd EXCEPT ![Cur(l)] = @ - 1]
  /\ Set(l, Cont(L[l], l, cache[Cur(l)]))
  /\ Emit(E("relR", l, Cur(l), "", 0))
  /\ UNCHANGED <<cfg, cache, wr, sem, nreq, bad>>

(* ---------------- rows: the ARFF entry stays read-locked while its lines are parsed and yielded ---------------- *)
Row(l) ==
  /\ L[l].pc = "rows" /\ cache[K(l,"a")] = "good" /\ L[l].rows < cfg.n[l] /\ (Ab(l) = -1 \/ L[l].rows < Ab(l))
  /\ Set(l, [L[l] EXCEPT !.rows = @ + 1])
  /\ Emit(E("row", l, "", "", L[l].rows + 1))
  /\ UNCHANGED <<cfg, cache, rd, wr, sem, nreq, bad>>
End(l) ==      \* the file is exhausted: the entry's `with` block ends first, then read()'s `finally`
  /\ L[l].pc = "rows" /\ cache[K(l,"a")] = "good" /\ L[l].rows = cfg.n[l] /\ (Ab(l) = -1 \/ Ab(l) > cfg.n[l])
  /\ rd' = [rd EXCEPT ![K(l,"a")] = @ - 1]
  /\ Set(l, FinExc([L[l] EXCEPT !.hr = FALSE]))
  /\ Emit(E("relR", l, K(l,"a"), "", 0))
  /\ UNCHANGED <<cfg, cache, wr, sem, nreq, bad>>
Close(l) ==    \* the consumer calls close(): GeneratorExit, only the `finally` runs
  /\ L[l].pc = "rows" /\ cache[K(l,"a")] = "good" /\ Ab(l) >= 0 /\ L[l].rows = Ab(l)
  /\ Set(l, FinExc([L[l] EXCEPT !.exc = "closed"]))
  /\ Emit(E("close", l, "", "", L[l].rows))
  /\ UNCHANGED <<cfg, cache, rd, wr, sem, nreq, bad>>
(* an unexpected error while parsing: "clear the cache just in case it was corrupted somehow" (122-125).  The entry
   being read is one of the keys to clear, so the loader must let go of it first. *)
ParseFail(l) ==
  /\ L[l].pc = "rows" /\ cache[K(l,"a")] = "bad"
  /\ IF Variant = "clearheld"
     THEN /\ Set(l, Unexp(L[l], l)) /\ UNCHANGED rd /\ Emit(E("parsefail", l, K(l,"a"), "", 0))
     ELSE /\ rd' = [rd EXCEPT ![K(l,"a")] = @ - 1]
          /\ Set(l, Unexp([L[l] EXCEPT !.hr = FALSE], l))
          /\ Emit(E("relR", l, K(l,"a"), "", 0))
  /\ UNCHANGED <<cfg, cache, wr, sem, nreq, bad>>

(* ---------------- _clear_cache: rmv(key) for every key of the dataset ---------------- *)
CKey(l) == K(l, ClearKeys(L[l],l)[L[l].ci])
ClrProbe(l) ==       \* cachers.py 177 `if key in self` (un-locked)
  /\ L[l].pc = "cProbe"
  /\ Set(l, IF Present(CKey(l)) THEN [L[l] EXCEPT !.pc = "cRmv"] ELSE Advance(L[l], l))
  /\ Emit(E("rmvProbe", l, CKey(l), TF(Present(CKey(l))), 0))
  /\ UNCHANGED <<cfg, cache, rd, wr, sem, nreq, bad>>
ClrRmv(l) ==         \* cachers.py 178-182 write lock (nobody reads or writes the entry), remove, release
  /\ L[l].pc = "cRmv"
  /\ IF Variant = "clearheld" /\ L[l].hr /\ CKey(l) = K(l,"a")
     THEN \* as coded: the loader still holds the entry's read lock; rmv refuses with a CobaException (cachers.py 237-238)
          /\ Set(l, FinExc([L[l] EXCEPT !.exc = "coba", !.org = "cacher"]))
          /\ Emit(E("rmvRefused", l, CKey(l), "", 0))
          /\ UNCHANGED cache
     ELSE /\ wr[CKey(l)] = "none" /\ rd[CKey(l)] = 0
          /\ cache' = [cache EXCEPT ![CKey(l)] = "absent"]
          /\ SetDirty(l, Advance([L[l] EXCEPT !.rmvd = @ + 1], l))
          /\ Emit(E("rmv", l, CKey(l), "", 0))
  /\ UNCHANGED <<cfg, rd, wr, sem, nreq, bad>>

(* ---------------- leaving read(): `finally` 127-129, generator finalisation, the result ---------------- *)
MustRelSem(r) == IF Variant = "flag" THEN r.acq /\ r.flag
                 ELSE IF Variant = "semok" THEN r.acq /\ r.exc = "none"
                 ELSE r.acq
RelSem(l) ==
  /\ L[l].pc = "fin" /\ MustRelSem(L[l])
  /\ sem' = sem + 1
  /\ Set(l, [L[l] EXCEPT !.acq = FALSE])
  /\ Emit(E("semRel", l, "", "", 0))
  /\ UNCHANGED <<cfg, cache, rd, wr, nreq, bad>>
RelArff(l) ==
  /\ L[l].pc = "fin" /\ L[l].hr
  /\ rd' = [rd EXCEPT ![K(l,"a")] = @ - 1]
  /\ Set(l, [L[l] EXCEPT !.hr = FALSE])
  /\ Emit(E("relR", l, K(l,"a"), "", 0))
  /\ UNCHANGED <<cfg, cache, wr, sem, nreq, bad>>
Alone(l) == \A x \in Loaders \ {l} : cfg.reads[x] = 0
Outc(r)  == IF r.exc = "none" THEN "ok" ELSE r.exc
Done(l) ==
  /\ L[l].pc = "fin" /\ ~L[l].hr /\ ~MustRelSem(L[l])
  /\ LET r == L[l] IN
       /\ bad' = bad \cup (IF r.acq THEN {"semaphore-not-released"} ELSE {})
                     \cup (IF Alone(l) /\ r.ux /\ (\E i \in 1..Len(ClearKeys(r,l)) : Present(K(l, ClearKeys(r,l)[i])))
                           THEN {"not-cleared-after-unexpected-error"} ELSE {})
                     \cup (IF r.ux /\ r.exc \notin {"unexp","timeout"} THEN {"unexpected-error-replaced"} ELSE {})
                     \cup (IF r.exc = "coba" /\ r.org = "domain" /\ r.rmvd > 0 THEN {"cleared-on-coba-exception"} ELSE {})
                     \cup (IF r.allc /\ ~r.dirty /\ (r.reqs > 0 \/ r.everAcq) THEN {"request-or-semaphore-although-cached"} ELSE {})
                     \cup (IF r.exc = "none" /\ r.rows # cfg.n[l] THEN {"rows-differ"} ELSE {})
                     \cup (IF r.exc = "none" /\ Alone(l) /\ ~AllCached(l) THEN {"not-all-cached-after-success"} ELSE {})
       /\ Set(l, [r EXCEPT !.pc = IF r.nread < cfg.reads[l] THEN "idle" ELSE "done", !.acq = FALSE])
       /\ Emit(E("done", l, "", Outc(r), r.rows))
  /\ UNCHANGED <<cfg, cache, rd, wr, sem, nreq>>

Step(l) == \/ StartRead(l) \/ SCProbeT(l) \/ SCProbeD(l) \/ SCProbeF(l) \/ SCProbeA(l) \/ SemAcquire(l) \/ SemRelC(l)
           \/ Hit(l) \/ Miss(l) \/ Req(l) \/ Put(l) \/ GFail(l) \/ RelRead(l)
           \/ Row(l) \/ End(l) \/ Close(l) \/ ParseFail(l) \/ ClrProbe(l) \/ ClrRmv(l)
           \/ RelSem(l) \/ RelArff(l) \/ Done(l)
Next == \E l \in Loaders : Step(l)
Fair == \A l \in Loaders : WF_vars(Step(l))
Spec == Init /\ [][Next]_vars /\ Fair

(* ---------------- properties ---------------- *)
AllDone   == \A l \in Loaders : L[l].pc = "done"
NoBad     == bad = {}
Holders   == {l \in Loaders : L[l].acq}
SemBound  == cfg.cap > 0 => (sem >= 0 /\ sem <= cfg.cap /\ sem + Cardinality(Holders) = cfg.cap)
NoSemNoAcq == cfg.cap = 0 => (sem = 0 /\ Holders = {})
LockSane  == \A k \in Keys : rd[k] >= 0 /\ (wr[k] # "none" => (rd[k] = 0 /\ cache[k] = "absent"))
Released  == AllDone => (\A k \in Keys : rd[k] = 0 /\ wr[k] = "none") /\ sem = cfg.cap
(* a loader is downloading only inside a getter, and (no clearing in between) only with the semaphore: <= cap at once *)
Downloading == {l \in Loaders : L[l].pc \in {"gReq","gPut"}}
DownloadBound == (cfg.cap > 0 /\ \A l \in Loaders : ~L[l].dirty) => Cardinality(Downloading) <= cfg.cap
Terminates == <>[]AllDone
EmitHist  == (Rec /\ AllDone) => PrintT(ToJson([cfg |-> cfg, hist |-> hist]))
=============================================================================
