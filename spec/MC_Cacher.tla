---------------------------- MODULE MC_Cacher ----------------------------
(* Model constants for Cacher.tla: program alphabets and the program sets of the two tiers. *)
EXTENDS Cacher
GS(k,g,b) == [t |-> "gs", k |-> k, g |-> g, b |-> b, n |-> "none"]
GSN(k,n)  == [t |-> "gs", k |-> k, g |-> "ok", b |-> "ok", n |-> n]
RM(k)     == [t |-> "rmv", k |-> k, g |-> "ok", b |-> "ok", n |-> "none"]
mcCallers == {"a","b","c"}
mcKeys    == {"k1","k2","k3"}
mcIdx     == [k \in mcKeys |-> IF k = "k3" THEN 2 ELSE 1]     \* k1 and k2 collide
Alphabet(KS) == {GS(k,g,b) : k \in KS, g \in {"ok","raise"}, b \in {"ok","raise"}} \cup {RM(k) : k \in KS}
                \cup {GSN(k,n) : k \in KS, n \in {"gs","rmv"}}
SeqsUpTo(A,n) == UNION {[1..m -> A] : m \in 0..n}
\* quick: (i) every pair of one-operation programs for two callers over the colliding keys k1,k2,
\*        (ii) three curated three-caller assignments with two operations each
Curated == {
  [c \in mcCallers |-> IF c = "a" THEN <<GS("k1","ok","ok"), RM("k1")>>
                       ELSE IF c = "b" THEN <<GS("k1","raise","ok"), GS("k2","ok","ok")>>
                       ELSE <<RM("k2"), GS("k1","ok","raise")>>],
  [c \in mcCallers |-> IF c = "a" THEN <<GS("k1","ok","raise"), GS("k1","ok","ok")>>
                       ELSE IF c = "b" THEN <<RM("k1"), GS("k1","raise","ok")>>
                       ELSE <<GS("k3","ok","ok"), RM("k1")>>],
  [c \in mcCallers |-> IF c = "a" THEN <<GSN("k1","gs"), RM("k1")>>
                       ELSE IF c = "b" THEN <<GSN("k1","rmv"), GS("k2","ok","ok")>>
                       ELSE <<RM("k1"), GSN("k2","gs")>>],
  [c \in mcCallers |-> IF c = "a" THEN <<GS("k2","ok","ok"), GS("k1","ok","ok")>>
                       ELSE IF c = "b" THEN <<GS("k1","ok","ok"), RM("k2")>>
                       ELSE <<GS("k2","raise","raise"), RM("k1")>>] }
Pairs(n,KS) == {[c \in mcCallers |-> IF c = "a" THEN p[1] ELSE IF c = "b" THEN p[2] ELSE <<>>] :
                   p \in SeqsUpTo(Alphabet(KS),n) \X SeqsUpTo(Alphabet(KS),n)}
QuickProgs    == Curated \cup Pairs(1,{"k1","k2"})
ThoroughProgs == Curated \cup Pairs(2,{"k1","k2"})
=============================================================================
