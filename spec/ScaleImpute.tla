---------------------------- MODULE ScaleImpute ----------------------------
(***************************************************************************)
(* C11 - Scale and Impute apply exactly the statistics of their fitting    *)
(* window (coba/environments/filters.py Scale 81-246, Impute 248-409,      *)
(* coba/environments/core.py Environments.scale 826-849 / impute 851-871,  *)
(* coba/statistics.py iqr / percentile 9-68).                              *)
(*                                                                         *)
(* A data set is a list of FEATURE COLUMNS of equal length (one entry per  *)
(* interaction).  A cell is                                                *)
(*   None  (missing), NaN (missing for Scale), Abs (sparse contexts only:  *)
(*   the key is absent from the row, i.e. the value 0), Num(n), Str(k).    *)
(* The window of a column is its first `using` cells (all when using = 0,  *)
(* the model value of Python's None).                                      *)
(*                                                                         *)
(* Scale  (property sentence 1): every numeric cell x of a scalable        *)
(*   feature becomes (x + shift) * scale, shift / scale being the statistic*)
(*   of the feature's non-missing window values (min / mean / median;      *)
(*   1/(max-min), 1/stdev, 1/iqr, 1/max|x+shift|; a statistic that is 0    *)
(*   gives scale 1 - filters.py 246, test_scale_med_and_iqr_0) or the given*)
(*   numbers.  A feature is numeric when its non-missing window values are *)
(*   all numbers; every other cell (None, NaN, strings, absent keys, all   *)
(*   cells of a non-numeric feature) is left untouched.                    *)
(* Impute (sentence 2): every None of an imputable feature becomes the     *)
(*   mean / median / mode of the non-missing window values, nothing else   *)
(*   changes; with the indicator one 0/1 feature is added per imputable    *)
(*   feature that has a None inside the window.  Imputable: at least one   *)
(*   non-missing window value and (mode, or all of them numbers).  A mode  *)
(*   tie may be broken either way (cell "oneof").                          *)
(* Both (sentence 3): the same cell function is used for dense, sparse and *)
(*   scalar contexts; only the layout of a context differs (Layout).       *)
(* Lists of statistics (Environments.impute) compose in order.             *)
(*                                                                         *)
(* Exact arithmetic: rationals <<n, d>> (d > 0, lowest terms).  1/stdev is *)
(* irrational: a scaled cell is [t |-> "q", n, d, rn, rd] = (n/d)/sqrt(rn/ *)
(* rd); rn/rd = 1 except for scale = "std" where it is the sample variance.*)
(*                                                                         *)
(* When a statistic cannot be computed from the window (no non-missing     *)
(* value in it; "std" of fewer than two values; "median" of strings only)  *)
(* the property does not say what the affected cells become: they are      *)
(* [t |-> "free"] (any value is accepted) while everything else in the     *)
(* case is still determined.  GIVEN NUMBERS need no statistic: with a      *)
(* numeric shift AND a numeric scale every numeric cell of a feature whose *)
(* window holds no non-numeric value is transformed, also when the window  *)
(* holds no value at all.  A feature that is not imputable but has a None  *)
(* in the window may or may not get an indicator (the property's wording   *)
(* asks for one, its "imputable" does not; dense and scalar code differ):  *)
(* Alts lists the admissible alternatives.                                 *)
(* Outside the domain (InDomain): a non-zero shift for sparse contexts     *)
(* (documented CobaException); NaN in Impute data.                         *)
(*                                                                         *)
(*                                                                         *)
(* Generator / oracle use: every initial state is one case, its successor  *)
(* prints the input contexts and the expected contexts (Emit).  The other  *)
(* invariants are design-level facts about the oracle itself.              *)
(***************************************************************************)
EXTENDS Integers, Sequences, FiniteSets, TLC, Json

None   == [t |-> "none", v |-> 0]
NaN    == [t |-> "nan",  v |-> 0]
Abs    == [t |-> "abs",  v |-> 0]
Num(n) == [t |-> "num",  v |-> n]
Str(k) == [t |-> "str",  v |-> k]

-----------------------------------------------------------------------------
(* rationals *)
RECURSIVE Gcd(_,_)
Gcd(a, b) == IF b = 0 THEN a ELSE Gcd(b, a % b)
AbsI(a)   == IF a < 0 THEN -a ELSE a
Q(n, d)   == LET s == IF d < 0 THEN -1 ELSE 1
                 g == Gcd(AbsI(n), AbsI(d))
             IN  <<(s * n) \div g, (s * d) \div g>>
QI(n)     == <<n, 1>>
QAdd(a,b) == Q(a[1] * b[2] + b[1] * a[2], a[2] * b[2])
QSub(a,b) == Q(a[1] * b[2] - b[1] * a[2], a[2] * b[2])
QMul(a,b) == Q(a[1] * b[1], a[2] * b[2])
QDiv(a,b) == Q(a[1] * b[2], a[2] * b[1])
QNeg(a)   == <<-a[1], a[2]>>
QAbs(a)   == <<AbsI(a[1]), a[2]>>
QLe(a,b)  == a[1] * b[2] <= b[1] * a[2]
QZero(a)  == a[1] = 0

-----------------------------------------------------------------------------
(* sequences of integers *)
Range(s) == {s[i] : i \in DOMAIN s}
RECURSIVE SumSeq(_)
SumSeq(s) == IF s = <<>> THEN 0 ELSE Head(s) + SumSeq(Tail(s))
MinSeq(s) == CHOOSE x \in Range(s) : \A y \in Range(s) : x <= y
MaxSeq(s) == CHOOSE x \in Range(s) : \A y \in Range(s) : y <= x
RECURSIVE Insert(_,_), Sort(_)
Insert(x, s) == IF s = <<>> THEN <<x>>
                ELSE IF x <= Head(s) THEN <<x>> \o s ELSE <<Head(s)>> \o Insert(x, Tail(s))
Sort(s) == IF s = <<>> THEN <<>> ELSE Insert(Head(s), Sort(Tail(s)))

(* the documented statistics, over a non-empty sequence W of integers *)
Mean(W)   == Q(SumSeq(W), Len(W))
Median(W) == LET s == Sort(W)  n == Len(W)                          \* statistics.median
             IN  IF n % 2 = 1 THEN QI(s[(n + 1) \div 2]) ELSE Q(s[n \div 2] + s[n \div 2 + 1], 2)
(* coba/statistics.py percentile 44-51: i = p*(n-1), linear interpolation between s[floor i], s[floor i + 1] *)
Quartile(W, k) == LET s == Sort(W)  n == Len(W)  i4 == k * (n - 1)   \* p = k/4
                      I == i4 \div 4   w == Q(i4 % 4, 4)
                  IN  IF n = 1 THEN QI(s[1])
                      ELSE IF i4 % 4 = 0 THEN QI(s[I + 1])
                      ELSE QAdd(QMul(QSub(QI(1), w), QI(s[I + 1])), QMul(w, QI(s[I + 2])))
Iqr(W)    == IF Len(W) <= 1 THEN QI(0) ELSE QSub(Quartile(W, 3), Quartile(W, 1))   \* statistics.py 9-17
(* sample variance (statistics.stdev, n-1): (n*sum x^2 - (sum x)^2) / (n*(n-1)) *)
Var(W)    == LET n == Len(W)  s1 == SumSeq(W)  s2 == SumSeq([i \in DOMAIN W |-> W[i] * W[i]])
             IN  Q(n * s2 - s1 * s1, n * (n - 1))
QMaxAbs(W, sh) == LET S == {QAbs(QAdd(QI(W[i]), sh)) : i \in DOMAIN W}
                  IN  CHOOSE x \in S : \A y \in S : QLe(y, x)

-----------------------------------------------------------------------------
(* columns and windows *)
Min2(a, b)     == IF a < b THEN a ELSE b
Win(col, using) == IF using = 0 THEN col ELSE SubSeq(col, 1, Min2(using, Len(col)))
Zero(c)        == IF c.t = "abs" THEN Num(0) ELSE c            \* an absent sparse key is the value 0
Missing(c)     == c.t \in {"none", "nan", "free"}       \* "free": left undetermined by an earlier pass (possibly still missing)
(* non-missing window values *)
Present(col, using) == LET w == Win(col, using)
                       IN  SelectSeq([i \in DOMAIN w |-> Zero(w[i])], LAMBDA c : ~Missing(c))
AllNum(P)      == \A i \in DOMAIN P : P[i].t = "num"
AllStr(P)      == \A i \in DOMAIN P : P[i].t = "str"
Ints(P)        == [i \in DOMAIN P |-> P[i].v]

-----------------------------------------------------------------------------
(* Scale.  sh / sc: [k |-> "const", n, d] (a given number n/d) or [k |-> statistic name] *)
Free == [t |-> "free", v |-> 0]                                 \* a cell the property does not determine
(* how many non-missing window values the chosen shift / scale need: given numbers none, std two, the others one *)
Needs(sh, sc) == IF sc.k = "std" THEN 2 ELSE IF sh.k = "const" /\ sc.k = "const" THEN 0 ELSE 1
NumericFeature(col, using) == AllNum(Present(col, using))      \* no non-numeric value in the window (possibly no value at all)
Fitted(col, sh, sc, using) == NumericFeature(col, using) /\ Len(Present(col, using)) >= Needs(sh, sc)
Scalable(col, sh, sc, using) == Fitted(col, sh, sc, using) /\ Present(col, using) # <<>>

ShiftOf(sh, W) == CASE sh.k = "const"  -> Q(sh.n, sh.d)                       \* filters.py 218-226
                    [] sh.k = "min"    -> QI(-MinSeq(W))
                    [] sh.k = "mean"   -> QNeg(Mean(W))
                    [] sh.k = "median" -> QNeg(Median(W))
(* the factor is q / sqrt(r) *)
ScaleOf(sc, W, shift) ==                                                      \* filters.py 228-246
  LET inv(den) == IF QZero(den) THEN QI(1) ELSE QDiv(QI(1), den)
  IN CASE sc.k = "const"  -> [q |-> Q(sc.n, sc.d), r |-> QI(1)]
       [] sc.k = "minmax" -> [q |-> inv(QI(MaxSeq(W) - MinSeq(W))), r |-> QI(1)]
       [] sc.k = "iqr"    -> [q |-> inv(Iqr(W)), r |-> QI(1)]
       [] sc.k = "maxabs" -> [q |-> inv(QMaxAbs(W, shift)), r |-> QI(1)]
       [] sc.k = "std"    -> [q |-> QI(1), r |-> IF QZero(Var(W)) THEN QI(1) ELSE Var(W)]

QCell(q, r) == [t |-> "q", n |-> q[1], d |-> q[2], rn |-> r[1], rd |-> r[2]]

ScaleCol(col, sh, sc, using) ==
  IF ~NumericFeature(col, using) THEN col
  ELSE IF ~Fitted(col, sh, sc, using) THEN [i \in DOMAIN col |-> IF col[i].t = "num" THEN Free ELSE col[i]]
  ELSE LET W     == Ints(Present(col, using))
           shift == ShiftOf(sh, W)
           scale == ScaleOf(sc, W, shift)
       IN  [i \in DOMAIN col |-> IF col[i].t = "num"
                                 THEN QCell(QMul(QAdd(QI(col[i].v), shift), scale.q), scale.r)
                                 ELSE col[i]]

-----------------------------------------------------------------------------
(* Impute *)
Imputable(col, stat, using) == LET P == Present(col, using)
                               IN  P # <<>> /\ (stat = "mode" \/ AllNum(P))
Count(P, v) == Cardinality({i \in DOMAIN P : P[i] = v})
Modes(P)    == {v \in Range(P) : \A u \in Range(P) : Count(P, u) <= Count(P, v)}
Imputation(col, stat, using) ==                                               \* filters.py 399-409
  LET P == Present(col, using)
  IN CASE stat = "mean"   -> QCell(Mean(Ints(P)), QI(1))
       [] stat = "median" -> QCell(Median(Ints(P)), QI(1))
       [] stat = "mode"   -> [t |-> "oneof", vs |-> Modes(P)]
HasNone(col) == \E i \in DOMAIN col : col[i].t = "none"
(* the statistic cannot be computed and the property does not say what then happens to the missing values *)
Undetermined(col, stat, using) == LET P == Present(col, using) IN P = <<>> \/ (stat = "median" /\ AllStr(P))
ImputeCol(col, stat, using) ==
  IF ~HasNone(col) THEN col
  ELSE IF Imputable(col, stat, using) THEN [i \in DOMAIN col |-> IF col[i].t = "none" THEN Imputation(col, stat, using) ELSE col[i]]
  ELSE IF Undetermined(col, stat, using) THEN [i \in DOMAIN col |-> IF col[i].t = "none" THEN Free ELSE col[i]]
  ELSE col                                                  \* a non-numeric feature under mean / median is left untouched
(* the feature gets a missingness indicator *)
Flagged(col, stat, using) == Imputable(col, stat, using) /\ HasNone(Win(col, using))
HasOpen(col) == \E i \in DOMAIN col : col[i].t \in {"none", "free"}
HasFree(col) == \E i \in DOMAIN col : col[i].t = "free"
MayBeFlagged(col, stat, using) == (~Imputable(col, stat, using) /\ HasOpen(Win(col, using))) \/ HasFree(Win(col, using))
FlagCol(col) == [i \in DOMAIN col |-> IF col[i].t = "none" THEN Num(1) ELSE IF col[i].t = "free" THEN Free ELSE Num(0)]
(* a list of statistics: one pass per statistic, in order (core.py 867-871) *)
RECURSIVE ImputeSeq(_,_,_)
ImputeSeq(col, stats, using) == IF stats = <<>> THEN col
                                ELSE ImputeSeq(ImputeCol(col, Head(stats), using), Tail(stats), using)

-----------------------------------------------------------------------------
(* layout of one context (filters.py 175-198, 363-396).  Sparse keys are "a", "b". *)
KeyOf(j) == IF j = 1 THEN "a" ELSE "b"
FlagKey(j) == IF j = 1 THEN "a_is_missing" ELSE "b_is_missing"        \* f"{k}_is_missing" (filters.py 354)
RECURSIVE SeqOfSet(_)
SeqOfSet(S) == IF S = {} THEN <<>> ELSE LET x == CHOOSE y \in S : \A z \in S : y <= z IN <<x>> \o SeqOfSet(S \ {x})
(* cols: the feature columns, flags: the indicator columns <<feature, column>> in feature order *)
Layout(shape, cols, flags, i) ==
  CASE shape = "dense"  -> [k |-> "dense",  v |-> [j \in DOMAIN cols |-> cols[j][i]] \o [f \in DOMAIN flags |-> flags[f][2][i]]]
    [] shape = "sparse" -> [k |-> "sparse",
                            v |-> LET js == SeqOfSet({j \in DOMAIN cols : cols[j][i].t # "abs"})
                                  IN  [x \in DOMAIN js |-> <<KeyOf(js[x]), cols[js[x]][i]>>]
                                      \o LET fs == SeqOfSet({f \in DOMAIN flags : \A g \in DOMAIN flags : flags[g][1] = flags[f][1] => g <= f})
                                         IN  [x \in DOMAIN fs |-> <<FlagKey(flags[fs[x]][1]), flags[fs[x]][2][i]>>]]   \* a later pass overwrites the key
    [] shape = "scalar" -> IF flags = <<>> THEN [k |-> "scalar", v |-> <<cols[1][i]>>]         \* [value, flag, ..] (filters.py 387-391)
                           ELSE [k |-> "dense", v |-> <<cols[1][i]>> \o [f \in DOMAIN flags |-> flags[f][2][i]]]
Contexts(shape, cols, flags) == [i \in DOMAIN cols[1] |-> Layout(shape, cols, flags, i)]

-----------------------------------------------------------------------------
(* cases.  c.f = "scale": shape, cols, sh, sc, using;  c.f = "impute": shape, cols, stats, ind, using *)
CONSTANTS Family,      \* which family of cases this run enumerates (a string, see Init)
          MinRows, MaxRows, \* rows of the data sets of this run
          NumsS, NumsI,\* the numbers in Scale / Impute data
          Usings,      \* the windows of the one-feature data sets (0 = None = all)
          Lite         \* TRUE: fewer given numbers and fewer lists of statistics (quick tier)
VARIABLES c, go
vars == <<c, go>>

Nums(S)  == {Num(n) : n \in S}
NumsWithNegative == {-2, 0, 1, 3}                         \* cfg: NumsS <- NumsWithNegative (a cfg file cannot write -2)
AlphaS   == {None, NaN, Str(1)} \cup Nums(NumsS)           \* Scale data
AlphaI   == {None, Str(1), Str(2)} \cup Nums(NumsI)        \* Impute data (two strings so that a mode exists)
ColsOf(A, n) == [1..n -> A]
(* second features for two-feature data sets (truncated to n rows) *)
Companions == { <<Num(1), Num(0), Num(3), Num(1)>>,        \* complete numeric
                <<Str(1), Str(2), Str(1), Str(1)>>,        \* strings
                <<None,   Num(1), Num(3), None>>,          \* missing first
                <<Num(3), None,   Num(1), Num(1)>> }       \* missing later
Comp(n) == {SubSeq(k, 1, n) : k \in Companions}

Const(n, d) == [k |-> "const", n |-> n, d |-> d]
Stat(s)     == [k |-> s, n |-> 0, d |-> 1]
Shifts      == {Const(0, 1), Const(2, 1), Stat("min"), Stat("mean"), Stat("median")}
Scales      == {Const(2, 1), Stat("minmax"), Stat("std"), Stat("iqr"), Stat("maxabs")} \cup (IF Lite THEN {} ELSE {Const(1, 2)})
Usings2     == {0, 2, 5}                                   \* windows of the two-feature data sets
Stats       == {"mean", "median", "mode"}
StatLists   == {<<a>> : a \in Stats} \cup
               (IF Lite THEN {<<"mean", "mode">>, <<"mode", "mean">>, <<"median", "mode">>, <<"mean", "median">>, <<"mean", "mean">>}
                ELSE {<<a, b>> : a \in Stats, b \in Stats})

ScaleCase(shape, cols, sh, sc, u)    == [f |-> "scale",  shape |-> shape, cols |-> cols, sh |-> sh, sc |-> sc, using |-> u]
ImputeCase(shape, cols, st, ind, u)  == [f |-> "impute", shape |-> shape, cols |-> cols, stats |-> st, ind |-> ind, using |-> u]

InDomain(x) ==
  /\ (x.f = "scale") => ((x.shape = "sparse") => (x.sh = Const(0, 1)))

TwoCols(A, n) == UNION {{<<a, b>>, <<b, a>>} : a \in ColsOf(A, n), b \in Comp(n)}

Init ==
  /\ go = FALSE
  /\ \E n \in MinRows..MaxRows :
       \/ /\ Family \in {"scale1d", "scale1v"}     \* one feature: dense or scalar (value) contexts
          /\ \E shape \in {IF Family = "scale1d" THEN "dense" ELSE "scalar"} : \E a \in ColsOf(AlphaS, n) : \E sh \in Shifts : \E sc \in Scales : \E u \in Usings :
               c = ScaleCase(shape, <<a>>, sh, sc, u)
       \/ /\ Family = "scale1s"    \* one feature, sparse (keys may be absent)
          /\ \E a \in ColsOf(AlphaS \cup {Abs}, n) : \E sc \in Scales : \E u \in Usings :
               c = ScaleCase("sparse", <<a>>, Const(0, 1), sc, u)
       \/ /\ Family = "scale2"     \* two features
          /\ n >= 2
          /\ \E shape \in {"dense", "sparse"} : \E cols \in TwoCols(AlphaS \ {NaN}, n) : \E sh \in Shifts : \E sc \in Scales : \E u \in Usings2 :
               c = ScaleCase(shape, cols, sh, sc, u)
       \/ /\ Family \in {"impute1d", "impute1v"}
          /\ \E shape \in {IF Family = "impute1d" THEN "dense" ELSE "scalar"} : \E a \in ColsOf(AlphaI, n) : \E st \in StatLists : \E ind \in BOOLEAN : \E u \in Usings :
               c = ImputeCase(shape, <<a>>, st, ind, u)
       \/ /\ Family = "impute1s"
          /\ \E a \in ColsOf(AlphaI \cup {Abs}, n) : \E st \in StatLists : \E ind \in BOOLEAN : \E u \in Usings :
               c = ImputeCase("sparse", <<a>>, st, ind, u)
       \/ /\ Family = "impute2"
          /\ n >= 2
          /\ \E shape \in {"dense", "sparse"} : \E cols \in TwoCols(AlphaI \ {Str(2)}, n) : \E st \in StatLists : \E ind \in BOOLEAN : \E u \in Usings2 :
               c = ImputeCase(shape, cols, st, ind, u)
  /\ InDomain(c)
Next == ~go /\ go' = TRUE /\ UNCHANGED c
Spec == Init /\ [][Next]_vars

-----------------------------------------------------------------------------
(* the oracle *)
OutCols(x) == IF x.f = "scale" THEN [j \in DOMAIN x.cols |-> ScaleCol(x.cols[j], x.sh, x.sc, x.using)]
              ELSE [j \in DOMAIN x.cols |-> ImputeSeq(x.cols[j], x.stats, x.using)]
(* Impute pass by pass (core.py 867-871: one Impute(stat, indicator, using) per statistic, each reading the contexts the   *)
(* previous one produced).  A pass state is [cols, flags]: the feature columns and the indicator features added so far,    *)
(* <<feature, column>> in the order they were added.  Indicator features are complete 0/1 columns: later passes never      *)
(* change or flag them.  Within a pass the new indicators follow in feature order (filters.py 343, 354); a feature that has *)
(* a None (or a cell an earlier pass left undetermined) in the window but is not imputable by this pass may or may not get  *)
(* one (S): so a pass has a SET of admissible outcomes.                                                                    *)
FlagsFor(cols, J) == LET js == SeqOfSet(J) IN [f \in DOMAIN js |-> <<js[f], FlagCol(cols[js[f]])>>]
Pass(st, stat, ind, using) ==
  LET out  == [j \in DOMAIN st.cols |-> ImputeCol(st.cols[j], stat, using)]
      must == {j \in DOMAIN st.cols : Flagged(st.cols[j], stat, using)}
      may  == {j \in DOMAIN st.cols : MayBeFlagged(st.cols[j], stat, using)}
  IN  IF ~ind THEN {[cols |-> out, flags |-> st.flags, plain |-> st.plain]}
      ELSE {[cols |-> out, flags |-> st.flags \o FlagsFor(st.cols, must \cup S), plain |-> st.plain /\ S = {}] : S \in SUBSET may}
RECURSIVE Passes(_,_,_,_)
Passes(S, stats, ind, using) == IF stats = <<>> THEN S
                                ELSE Passes(UNION {Pass(st, Head(stats), ind, using) : st \in S}, Tail(stats), ind, using)
Outcomes(x) == Passes({[cols |-> x.cols, flags |-> <<>>, plain |-> TRUE]}, x.stats, x.ind, x.using)
(* the outcome without any optional indicator *)
Plain(x)    == CHOOSE st \in Outcomes(x) : st.plain
OutFlags(x) == IF x.f = "impute" THEN Plain(x).flags ELSE <<>>
Expected(x) == Contexts(x.shape, OutCols(x), OutFlags(x))
(* equally admissible: the outcomes with optional indicators; and, for several indicators, their order by feature instead   *)
(* of by pass (the property fixes neither; a single pass documents feature order)                                          *)
ByFeature(flags) == LET n == Len(flags)
                        rank(f) == Cardinality({g \in 1..n : flags[g][1] < flags[f][1] \/ (flags[g][1] = flags[f][1] /\ g <= f)})
                    IN  [r \in 1..n |-> flags[CHOOSE f \in 1..n : rank(f) = r]]
Alts(x)     == IF x.f # "impute" THEN {}
               ELSE ({Contexts(x.shape, st.cols, st.flags) : st \in Outcomes(x)}
                     \cup {Contexts(x.shape, st.cols, ByFeature(st.flags)) : st \in Outcomes(x)}) \ {Expected(x)}
(* History independence.  A filter OBJECT is applied to many sequences: Environments.filter (core.py) hands one Scale /     *)
(* Impute object to every environment, and every environment is read once per learner.  The property quantifies over "all  *)
(* interaction sequences": what an object returns for the k-th sequence it is given is the expectation for that sequence    *)
(* alone, whatever it filtered before.  xs: the cases (same filter and parameters) whose data sets the object sees in order *)
AppliedInTurn(xs) == [k \in DOMAIN xs |-> Expected(xs[k])]
Given(x)    == Contexts(x.shape, x.cols, <<>>)

Emit == go => PrintT(ToJson([f |-> c.f, shape |-> c.shape, using |-> c.using,
                             par |-> IF c.f = "scale" THEN [sh |-> c.sh, sc |-> c.sc] ELSE [stats |-> c.stats, ind |-> c.ind],
                             cols |-> c.cols, given |-> Given(c), expected |-> Expected(c), alts |-> Alts(c)]))

-----------------------------------------------------------------------------
(* design-level facts about the oracle, checked by TLC on every case *)
Cells == UNION {Range(c.cols[j]) : j \in DOMAIN c.cols}
(* totality / conservation: same number of interactions, same features, only the stated cells change *)
Conservation ==
  go => /\ Len(Expected(c)) = Len(c.cols[1])
        /\ \A j \in DOMAIN c.cols : \A i \in DOMAIN c.cols[j] :
             LET a == c.cols[j][i]  b == OutCols(c)[j][i]
             IN  IF c.f = "scale" THEN (a.t # "num" => b = a) /\ (a.t = "num" => b.t \in {"q", "num", "free"})
                 ELSE (a.t # "none" => b = a)
(* given numbers need no window: every numeric cell of a feature without non-numeric window values is transformed *)
GivenNumbers ==
  (go /\ c.f = "scale" /\ c.sh.k = "const" /\ c.sc.k = "const") =>
    \A j \in DOMAIN c.cols : NumericFeature(c.cols[j], c.using) =>
      \A i \in DOMAIN c.cols[j] : c.cols[j][i].t = "num" =>
         OutCols(c)[j][i] = QCell(QMul(QAdd(QI(c.cols[j][i].v), Q(c.sh.n, c.sh.d)), Q(c.sc.n, c.sc.d)), QI(1))
(* Impute leaves no missing value in an imputable feature, and is idempotent *)
ImputeComplete ==
  (go /\ c.f = "impute") =>
    \A j \in DOMAIN c.cols :
      /\ Imputable(c.cols[j], c.stats[1], c.using) => ~HasNone(OutCols(c)[j])
      /\ ImputeSeq(OutCols(c)[j], c.stats, c.using) = OutCols(c)[j]
      /\ \A st \in Outcomes(c) : st.cols[j] = OutCols(c)[j]          \* indicators never change what is imputed
      /\ (Len(c.stats) = 2 /\ c.stats[1] = c.stats[2]) => OutCols(c)[j] = ImputeCol(c.cols[j], c.stats[1], c.using)
(* a window longer than the data is the whole data *)
LongWindow ==
  (go /\ c.using >= Len(c.cols[1])) => OutCols(c) = OutCols([c EXCEPT !.using = 0])
(* what the statistics mean: the scaled WINDOW has the advertised location / spread *)
QOf(cell)   == <<cell.n, cell.d>>
RECURSIVE QSum(_)
QSum(s)     == IF s = <<>> THEN QI(0) ELSE QAdd(Head(s), QSum(Tail(s)))
ScaledWin(j) == LET o == Win(OutCols(c)[j], c.using)
                IN  SelectSeq(o, LAMBDA x : x.t = "q")
ScalePost ==
  (go /\ c.f = "scale") =>
    \A j \in DOMAIN c.cols : Scalable(c.cols[j], c.sh, c.sc, c.using) =>
      LET S  == ScaledWin(j)                     \* cells q/sqrt(r), r common to the column
          qs == [i \in DOMAIN S |-> QOf(S[i])]
          r  == <<S[1].rn, S[1].rd>>
          W  == Ints(Present(c.cols[j], c.using))
          const == MaxSeq(W) = MinSeq(W)
      IN (S # <<>>) =>
         /\ (c.sh.k = "min")  => (\A i \in DOMAIN qs : QLe(QI(0), qs[i])) /\ (\E i \in DOMAIN qs : QZero(qs[i]))
         /\ (c.sh.k = "mean") => QZero(QSum(qs))
         /\ (c.sh.k = "median") => /\ 2 * Cardinality({i \in DOMAIN qs : QLe(qs[i], QI(0))}) >= Len(qs)
                                   /\ 2 * Cardinality({i \in DOMAIN qs : QLe(QI(0), qs[i])}) >= Len(qs)
         /\ (c.sh.k = "min" /\ c.sc.k = "minmax" /\ ~const) => (\A i \in DOMAIN qs : QLe(qs[i], QI(1))) /\ (\E i \in DOMAIN qs : qs[i] = QI(1))
         /\ (c.sc.k = "maxabs" /\ \E i \in DOMAIN qs : ~QZero(qs[i])) =>
               (\A i \in DOMAIN qs : QLe(QAbs(qs[i]), QI(1))) /\ (\E i \in DOMAIN qs : QAbs(qs[i]) = QI(1))
         /\ (c.sc.k = "std" /\ c.sh.k = "mean" /\ ~const) =>        \* sum of squares of the standardised window = n-1
               QDiv(QSum([i \in DOMAIN qs |-> QMul(qs[i], qs[i])]), r) = QI(Len(qs) - 1)
         /\ (c.sc.k # "std") => r = QI(1)
         /\ (const /\ c.sc.k \in {"minmax", "std", "iqr"}) =>       \* a constant feature is only shifted (spread 0 gives scale 1)
               \A i \in DOMAIN S : QOf(S[i]) = QAdd(QI(W[1]), ShiftOf(c.sh, W))
=============================================================================
