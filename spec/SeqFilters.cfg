\* C09 generator / oracle run of MC_SeqFilters (quick bounds).  harness/drivers/c09.py rewrites the CONSTANTS per chunk
\* and, for the judge of recorded executions, replaces GenSpec / Emit by JudgeSpec / Accept (or Explain).
SPECIFICATION GenSpec
CONSTANTS
  Fams = {"take", "slice", "shuffle", "riffle", "reservoir", "ident", "where", "where3", "sort"}
  MaxN = 6
  MaxP = 6
  MaxSeed = 15
  MaxSpacing = 3
  WhereK = 6
  WhereL = 3
  SortL = 3
  MaxReads = 2
INVARIANT Emit
INVARIANT OwnInputOnly
INVARIANT SubBag
INVARIANT Permutation
INVARIANT TakeLaws
INVARIANT SliceLaws
INVARIANT WhereLaws
INVARIANT SortLaws
INVARIANT ShuffleLaws
CHECK_DEADLOCK FALSE
