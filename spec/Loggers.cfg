SPECIFICATION Spec
CONSTANTS
  Kind = "indent"
  Pre <- NoDec
  Post <- NoDec
  MaxSteps = 5
  MaxDepth = 3
  MinPrefix = 0
  Alphabet <- AlphaAll
  Variant = "ok"
INVARIANT ExactlyOnce
INVARIANT NoPlaceholderWritten
INVARIANT Balanced
INVARIANT NothingHeld
INVARIANT CleanAtEnd
INVARIANT EscapeIsRaised
INVARIANT OrderIndent
INVARIANT OrderBasic
INVARIANT Outcomes
INVARIANT AllReported
INVARIANT Silent
INVARIANT Emit
CHECK_DEADLOCK FALSE
