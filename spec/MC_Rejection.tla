----------------------------- MODULE MC_Rejection -----------------------------
(***************************************************************************)
(* Bounded generator model for Rejection.tla (check X02).                  *)
(* Every case = a small logged environment (1..MaxN interactions, each one *)
(* of Shapes: number of actions, logged probability, the learner's score   *)
(* for the logged action, all in eighths) x cpct x (cmax, cinit) x seed.   *)
(* One initial state per case; the protocol of Rejection.tla is run on it  *)
(* to the end (tid = 0: no event list, the scores are part of the case),   *)
(* the design invariants are checked in every state and the finished case  *)
(* is printed (Emit) for the driver, which runs the real RejectionCB on it *)
(* and has the recorded execution validated by TraceSpec.                  *)
(* Seeds: 0 (falsy in Python), 1, and seeds whose FIRST uniform is exactly *)
(* 0, 1/4, 1/2 (ties with c*on/log on the grid) or 1 - 2^-30.              *)
(***************************************************************************)
EXTENDS Rejection
CONSTANTS MaxN
SZero == 482549499
SQuarter == 750984955
SHalf == 1019420411
SLast == 536166110
ASSUME /\ R!Step(SZero) = 0 /\ R!Step(SHalf) = 536870912 /\ R!Step(SQuarter) = 268435456 /\ R!Step(SLast) = 1073741823
Seeds == {0, 1, SZero, SQuarter, SHalf, SLast}
Shapes == { [k |-> 2, lp |-> 4, sc |-> 4], [k |-> 2, lp |-> 4, sc |-> 8], [k |-> 2, lp |-> 8, sc |-> 4], [k |-> 3, lp |-> 2, sc |-> 4],
            [k |-> 3, lp |-> 2, sc |-> 0], [k |-> 3, lp |-> 6, sc |-> 2], [k |-> 4, lp |-> 1, sc |-> 8], [k |-> 2, lp |-> 2, sc |-> 1] }
CPs == { <<0, 1>>, <<1, 4>>, <<1, 2>>, <<1, 1>> }                 \* cpct
CMI == { <<8, NoVal>>, <<8, 2>>, <<8, 8>>, <<4, NoVal>>, <<4, 2>>, <<16, NoVal>> }   \* (cmax, cinit) in eighths, cinit <= cmax
MkIt(t, j) == [ctx |-> j, acts |-> [x \in 1..t.k |-> 10 * j + x], la |-> 10 * j + (j % t.k) + 1, lr |-> (3 * j) % 5, lp |-> t.lp, sc |-> t.sc]
GenInit == /\ Init0 /\ tid = 0
           /\ \E n \in 1..MaxN : \E ts \in [1..n -> Shapes] : \E cp \in CPs : \E cm \in CMI : \E sd \in Seeds :
                gin = [env |-> [j \in 1..n |-> MkIt(ts[j], j)],
                       mode |-> [G |-> 8, D |-> 3360, rec |-> <<"reward">>, ope |-> "ips", cpn |-> cp[1], cpd |-> cp[2], cmn |-> cm[1], cin |-> cm[2],
                                 sev |-> sd, sex |-> NoVal, kind |-> "ok", info |-> FALSE]]
GenSpec == GenInit /\ [][Next]_vars
Emit == (~Tr /\ pc = "end") => PrintT(ToJson([env |-> Env, mode |-> Mode, hist |-> hist]))
=============================================================================
