SPECIFICATION Spec
CONSTANTS
  MaxRows = 2
  ValSet <- SmallVals
INVARIANT Emit
CHECK_DEADLOCK FALSE
