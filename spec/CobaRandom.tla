----------------------------- MODULE CobaRandom -----------------------------
(***************************************************************************)
(* coba/random.py: CobaRandom = a linear congruential generator            *)
(*   s' = (A*s + C) mod 2^(2H),  u = s'/2^(2H)                              *)
(* (A = 116646453, C = 9, 2H = 30 in the code, lines 48-50, 247-256) and    *)
(* the methods derived from its uniforms.  Everything integer-valued is     *)
(* specified exactly, in limbs of H bits so that every intermediate fits    *)
(* TLC's 32-bit integers:                                                   *)
(*   randint(a,b)  = a + floor((b-a+1)*u)                     154-167       *)
(*   randints      = the same, n times                        169-187       *)
(*   shuffle       : Durstenfeld, j = i + floor((n-i)*u_i), n-1 draws 127-152*)
(*   choice(n)     = floor(n*u)                               204           *)
(*   choice(w)     = first i with u*tot <= cum_i ...          206-208       *)
(*   gauss         : Box-Muller, two uniforms per PAIR of values 236-270    *)
(* Contracts of property C05 are the invariants / enabling conditions       *)
(* below.  An instance is [s |-> state, g |-> a second gaussian is pending].*)
(* Each action changes only its own instance (independence).               *)
(***************************************************************************)
EXTENDS Integers, Sequences, FiniteSets, TLC
CONSTANTS A, C, H,        \* multiplier, increment, limb width: modulus = 2^(2H)
          Inst            \* instance names
Pow2(n) == 2^n
B == Pow2(H)
Mod == B * B
A1 == A \div B
A0 == A % B
(* (A*s + C) mod B^2 without exceeding 32 bits: s = s1*B + s0 *)
Step(s) == LET s1 == s \div B   s0 == s % B
               lo == A0 * s0 + C
               mid == (A1 * s0 + A0 * s1 + (lo \div B)) % B
           IN mid * B + (lo % B)
(* floor(n * s / B^2) for 0 <= n <= B *)
ScaleFloor(n, s) == LET s1 == s \div B  s0 == s % B IN (n * s1 + ((n * s0) \div B)) \div B

RECURSIVE StepN(_,_)
StepN(s, k) == IF k = 0 THEN s ELSE StepN(Step(s), k - 1)
(* the k-th state after s, k >= 1, and the list of the next k states *)
States(s, k) == [i \in 1..k |-> StepN(s, i)]

RandInt(s, a, b)   == a + ScaleFloor(b - a + 1, Step(s))
RandInts(s, n, a, b) == [i \in 1..n |-> a + ScaleFloor(b - a + 1, StepN(s, i))]
(* uniforms with bounds, random(min,max) / randoms(n,min,max) = min + (max-min)*u (lines 48-82), on the grid of
   bounds that are multiples of 1/Q (the driver fixes Q; min = lo/Q, max = hi/Q, 0 < hi-lo <= B): the value is
   x = (lo + (hi-lo)*s'/2^(2H))/Q, so the grid cell it falls in is floor(Q*x) = lo + floor((hi-lo)*s'/2^(2H)),
   and the contract min <= x < max is exactly lo <= floor(Q*x) < hi.  The scale (hi-lo) and the shift (lo) are
   independent: neither may be dropped because the other is the identity (width 1 with min # 0, min 0 with width # 1) *)
UniformCell(s2, lo, hi) == lo + ScaleFloor(hi - lo, s2)
UniformInBounds(s2, lo, hi) == UniformCell(s2, lo, hi) >= lo /\ UniformCell(s2, lo, hi) < hi
(* Durstenfeld on <<0..n-1>> : returns the permutation *)
RECURSIVE Shuf(_,_,_,_)
Shuf(l, i, n, s) == IF i >= n - 1 THEN l ELSE
    LET s2 == Step(s)  j == i + ScaleFloor(n - i, s2)
        sw == [l EXCEPT ![i+1] = l[j+1], ![j+1] = l[i+1]]
    IN Shuf(sw, i + 1, n, s2)
Shuffle(s, n) == Shuf([i \in 1..n |-> i - 1], 0, n, s)
ShuffleDraws(n) == IF n < 2 THEN 0 ELSE n - 1
ChoiceU(s, n) == ScaleFloor(n, Step(s))                       \* unweighted index in 0..n-1
(* weighted, integer weights w (sequence), tot = sum: index of the chosen member (0-based).
   u*tot <= cum_i  <=>  s'*tot <= cum_i * 2^(2H); in limbs: compare floor and remainder via ScaleFloor on both sides
   is not exact, so compare s'*tot with cum_i*Mod using s' = s1*B+s0:  s'*tot <= cum*B*B
   <=>  s1*tot*B + s0*tot <= cum*B*B ; with tot <= 64 and H <= 15 all terms stay below 2^31 after dividing by B:
   let q = s1*tot + (s0*tot) \div B, r = (s0*tot) % B : s'*tot = q*B + r  ;  <= cum*B*B  <=>  q < cum*B \/ (q = cum*B /\ r = 0) *)
RECURSIVE Cum(_,_)
Cum(w, i) == IF i = 0 THEN 0 ELSE w[i] + Cum(w, i - 1)
LeCum(s2, tot, cum) == LET s1 == s2 \div B  s0 == s2 % B  q == s1 * tot + (s0 * tot) \div B  r == (s0 * tot) % B
                       IN q < cum * B \/ (q = cum * B /\ r = 0)
FirstLe(s2, w)  == CHOOSE i \in 1..Len(w) : LeCum(s2, Cum(w, Len(w)), Cum(w, i)) /\ \A j \in 1..(i-1) : ~LeCum(s2, Cum(w, Len(w)), Cum(w, j))
(* the contract: the chosen member has non-zero weight.  At u = 0 the comparison above holds for a zero-weight first
   member; the member promised by the contract is the first one with non-zero weight *)
ChoiceW(s, w) == LET s2 == Step(s) IN
                 IF s2 = 0 THEN (CHOOSE i \in 1..Len(w) : w[i] > 0 /\ \A j \in 1..(i-1) : w[j] = 0) - 1
                 ELSE FirstLe(s2, w) - 1
ChoiceWAsCoded(s, w) == FirstLe(Step(s), w) - 1              \* what lines 206-208 compute (guard / documentation)

(* seed normalisation (48-51): ints and integral floats as they are (mod 2^(2H) by the first step);
   anything else: the UTF-8 bytes of str(seed) as a big-endian number mod 2^20 *)
RECURSIVE BytesMod(_,_,_)
BytesMod(bs, i, acc) == IF i > Len(bs) THEN acc ELSE BytesMod(bs, i + 1, (acc * 256 + bs[i]) % 1048576)
SeedOfBytes(bs) == BytesMod(bs, 1, 0)
(* the first step reduces mod 2^(2H): an int seed of any size acts as seed mod 2^(2H) *)

VARIABLES inst
vars == <<inst>>
Init == inst = [i \in Inst |-> [s |-> 0, g |-> FALSE, live |-> FALSE]]
New(i, seed) == inst' = [inst EXCEPT ![i] = [s |-> seed % Mod, g |-> FALSE, live |-> TRUE]]
Adv(i, k) == inst' = [inst EXCEPT ![i].s = StepN(@, k)]
(* gauss: a pending second value costs nothing; otherwise two uniforms.  The contract says it returns a finite
   float in every state.  GaussDefinedAsPinned documents the pinned tree (log of the first uniform: undefined when
   that uniform is 0; repaired by a fix: commit, see known_findings.json) *)
GaussDefinedAsPinned(i) == inst[i].g \/ Step(inst[i].s) # 0
Gauss(i) == IF inst[i].g THEN inst' = [inst EXCEPT ![i].g = FALSE]
            ELSE inst' = [inst EXCEPT ![i].s = StepN(@, 2), ![i].g = TRUE]
=============================================================================
