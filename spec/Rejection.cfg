\* X02 trace validation: executions of the real RejectionCB in IOEnv.TRACE_FILE
SPECIFICATION TraceSpec
INVARIANT Accept
INVARIANT RowsLeInteractions
INVARIANT LearnEqRows
INVARIANT OneUniformPerInteraction
INVARIANT CRange
INVARIANT Hindsight
INVARIANT TwoOutcomes
INVARIANT WellFormed
CHECK_DEADLOCK FALSE
