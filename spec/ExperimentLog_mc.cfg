\* exhaustive check of ExperimentLog.tla (Shapes / Cfgs / AsCoded / NoCopy substituted per run by harness/drivers/explog.py)
SPECIFICATION Spec
CONSTANTS
  Shapes <- QuickShapes
  Cfgs <- QuickCfgs
  K = 2
  MaxCrash = 2
  AsCoded = FALSE
  NoCopy = FALSE
INVARIANT P1_NoDuplicate
INVARIANT P2_NoReEval
INVARIANT P3_Usable
INVARIANT P4_Complete
INVARIANT C03_Isolated
INVARIANT PreambleFirst
PROPERTY Completes
CHECK_DEADLOCK FALSE
