------------------------------ MODULE Sequential ------------------------------
(***************************************************************************)
(* SequentialCB (coba/evaluators/sequential.py 25-280): the protocol        *)
(* between an environment, a learner and the recorded rows (C06).           *)
(* For every interaction, in environment order:                             *)
(*   Predict(i)  learner.predict(context_i, actions_i)       if ShouldPredict*)
(*   Score(i)    learner.score(context_i, actions_i, logged action)         *)
(*               only for eval='ips' with a scoring learner and nothing     *)
(*               else needing a prediction                                  *)
(*   Learn(i)    on : (context, chosen action, rewards(chosen), own prob,   *)
(*                     own kwargs)                                          *)
(*               ips: the same with the IPS reward                          *)
(*                     reward/probability * [chosen = logged]               *)
(*               off: (context, logged action, logged reward, logged prob)  *)
(*   Row(i)      one row: reward / action / probability as recorded, extra  *)
(*               interaction fields copied                                  *)
(* An environment lacking the fields a mode needs is rejected before any    *)
(* call (Required).  Values are abstract: contexts and actions are ids,     *)
(* rewards and probabilities integers scaled by 1000 (NoVal = absent).      *)
(*                                                                         *)
(* The module is used (a) for a TLC check that every (learn, eval, record,  *)
(* has-score, environment kind) combination either rejects or runs the      *)
(* protocol to the end, (b) as a trace specification: IOEnv.TRACE_FILE      *)
(* holds executions of the real SequentialCB with a recording learner.      *)
(***************************************************************************)
EXTENDS Integers, Sequences, FiniteSets, TLC, Json, IOUtils, TLCExt
NoVal == -1
Traces == JsonDeserialize(IOEnv.TRACE_FILE)
VARIABLES tid, l, i, pc, ans, outcome
vars == <<tid, l, i, pc, ans, outcome>>
T   == Traces[tid]
Env == T.env             \* sequence of [ctx, acts, rwds, la, lr, lp, ex]; rwds parallel to acts; lp = logged probability * 1000
Mode == T.mode           \* [learn, eval, rec (sequence of names), hs, hasActions, hasRewards, hasLogged]
Evs == T.ev
Ev  == Evs[l]
Rec(x) == \E k \in DOMAIN Mode.rec : Mode.rec[k] = x
Learn == Mode.learn      \* "on" | "off" | "ips" | "none"
Eval  == Mode.eval       \* "on" | "ips" | "none"

(* ---- the mode table (sequential.py 71-83, 131-146) ---- *)
NeedsPred == (Learn \in {"on","ips"}) \/ (Eval = "on") \/ (Eval = "ips" /\ ~Mode.hs)
NeedsOff  == (Learn \in {"off","ips"}) \/ (Eval = "ips")
NeedsRwds == (Learn = "on") \/ (Eval = "on")
Rejected  == (NeedsPred /\ ~Mode.hasActions) \/ (NeedsOff /\ ~Mode.hasLogged) \/ (NeedsRwds /\ ~Mode.hasRewards)
OutAction == Rec("action") /\ Eval # "none"
OutProb   == Rec("probability") /\ Eval # "none"
OutReward == Rec("reward") /\ Eval # "none"
ShouldPredict == (Learn \in {"on","ips"}) \/ Eval = "on" \/ (Eval = "ips" /\ ~Mode.hs) \/ OutAction \/ OutProb
UsesScore == Eval = "ips" /\ Mode.hs /\ ~ShouldPredict

(* ---- rewards ---- *)
It == Env[i]
IndexOf(s, x) == CHOOSE k \in DOMAIN s : s[k] = x
TrueReward(a) == It.rwds[IndexOf(It.acts, a)]
IpsReward(a)  == IF a = It.la THEN (It.lr * 1000) \div It.lp ELSE 0          \* reward / probability * [a = logged]
LearnReward(a) == IF Learn = "on" THEN TrueReward(a) ELSE IpsReward(a)
EvalReward(a)  == IF Eval = "on" THEN TrueReward(a) ELSE IpsReward(a)

Init == /\ tid \in 1..Len(Traces) /\ l = 1 /\ i = 1 /\ ans = [a |-> NoVal, p |-> NoVal, k |-> NoVal, s |-> NoVal]
        /\ outcome = "running" /\ pc = "begin"
Adv == l' = l + 1 /\ UNCHANGED tid
(* rejected before any call *)
Reject == /\ pc = "begin" /\ Rejected /\ Ev.e = "reject" /\ outcome' = "rejected" /\ pc' = "end" /\ Adv /\ UNCHANGED <<i, ans>>
Begin  == /\ pc = "begin" /\ ~Rejected /\ pc' = "interaction" /\ UNCHANGED <<tid, l, i, ans, outcome>>
(* one interaction *)
Start == /\ pc = "interaction" /\ i <= Len(Env)
         /\ pc' = (IF ShouldPredict THEN "predict" ELSE IF UsesScore THEN "score" ELSE IF Learn # "none" THEN "learn" ELSE "row")
         /\ ans' = [a |-> NoVal, p |-> NoVal, k |-> NoVal, s |-> NoVal] /\ UNCHANGED <<tid, l, i, outcome>>
Predict == /\ pc = "predict" /\ Ev.e = "predict"
           /\ Ev.ctx = It.ctx /\ Ev.acts = It.acts                      \* exactly this interaction's context and actions
           /\ \E k \in DOMAIN It.acts : It.acts[k] = Ev.ra              \* the learner answered with one of the offered actions
           /\ ans' = [a |-> Ev.ra, p |-> Ev.rp, k |-> Ev.rk, s |-> NoVal]
           /\ pc' = (IF Learn # "none" THEN "learn" ELSE "row") /\ Adv /\ UNCHANGED <<i, outcome>>
Score == /\ pc = "score" /\ Ev.e = "score"
         /\ Ev.ctx = It.ctx /\ Ev.acts = It.acts /\ Ev.a = It.la
         /\ ans' = [ans EXCEPT !.s = Ev.rs]
         /\ pc' = (IF Learn # "none" THEN "learn" ELSE "row") /\ Adv /\ UNCHANGED <<i, outcome>>
LearnStep == /\ pc = "learn" /\ Ev.e = "learn" /\ Ev.ctx = It.ctx
             /\ IF Learn = "off"
                THEN Ev.a = It.la /\ Ev.r = It.lr /\ Ev.p = It.lp /\ Ev.k = NoVal
                ELSE Ev.a = ans.a /\ Ev.r = LearnReward(ans.a) /\ Ev.p = ans.p /\ Ev.k = ans.k
             /\ pc' = "row" /\ Adv /\ UNCHANGED <<i, ans, outcome>>
(* the recorded row; a row with no field at all is not emitted *)
RowReward == IF UsesScore THEN (ans.s * IpsReward(It.la)) \div 1000 ELSE EvalReward(ans.a)
RowEmpty  == ~OutReward /\ ~OutAction /\ ~(OutProb /\ ShouldPredict /\ ans.p # NoVal) /\ It.ex = NoVal
             /\ ~Rec("context") /\ ~(Rec("actions") /\ Mode.hasActions) /\ ~(Rec("rewards") /\ Mode.hasRewards) /\ ~Rec("time")
Row == /\ pc = "row"
       /\ IF RowEmpty THEN UNCHANGED <<tid, l>>
          ELSE /\ Ev.e = "row"
               /\ Ev.reward = (IF OutReward THEN RowReward ELSE NoVal)
               /\ Ev.action = (IF OutAction THEN ans.a ELSE NoVal)
               /\ Ev.probability = (IF OutProb /\ ShouldPredict /\ ans.p # NoVal THEN ans.p ELSE NoVal)
               /\ Ev.ex = It.ex                                           \* extra fields are carried into the row
               /\ Ev.n = i                                                \* rows come out in environment order, one per interaction
               /\ Adv
       /\ i' = i + 1 /\ pc' = "interaction" /\ UNCHANGED <<ans, outcome>>
Finish == /\ pc = "interaction" /\ i = Len(Env) + 1 /\ Ev.e = "end" /\ outcome' = "done" /\ pc' = "end" /\ Adv /\ UNCHANGED <<i, ans>>
Next == l <= Len(Evs) /\ (Reject \/ Begin \/ Start \/ Predict \/ Score \/ LearnStep \/ Row \/ Finish)
Spec == Init /\ [][Next]_vars

AtEnd  == l = Len(Evs) + 1 /\ pc = "end"
Accept == AtEnd => PrintT(ToJson([acc |-> tid]))
(* no third outcome: a trace ends rejected-before-any-call or with every interaction processed *)
TwoOutcomes == AtEnd => (outcome = "rejected" /\ i = 1) \/ (outcome = "done" /\ i = Len(Env) + 1)
Diag == PrintT(ToJson([tid |-> tid, l |-> l]))
=============================================================================
