SPECIFICATION Spec
CONSTANTS
  N = 4
  Slice = 2
  MaxOps = 3
  HasCache = TRUE
  HasShuffle = TRUE
  ShuffleMode = "local"
  DropKillsIter = FALSE
  BatchSet = {}
  AliasBatches = FALSE
  Others = FALSE
  SharedDefault = FALSE
INVARIANT PrefixAlways
INVARIANT FullWhenDone
INVARIANT FinishedAll
INVARIANT ParamsStable
INVARIANT CacheSound
INVARIANT SavedSound
INVARIANT Emit
CHECK_DEADLOCK FALSE
