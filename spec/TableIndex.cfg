SPECIFICATION Spec
CONSTANTS
  InitTables <- T2
  MaxOps = 2
  Ops <- IW
  Lite = FALSE
INVARIANT SelAscending
INVARIANT SelValid
INVARIANT IndexSorted
INVARIANT Emit
CHECK_DEADLOCK FALSE
