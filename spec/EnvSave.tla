------------------------------- MODULE EnvSave -------------------------------
(***************************************************************************)
(* X06 - the resumable save archive of environments.                       *)
(*                                                                         *)
(* Code: coba/environments/core.py  Environments.save (1060-1111),         *)
(*       Environments.from_save (390-403);                                 *)
(*       coba/environments/serialized.py  ObjectsToZipMember (11-32),      *)
(*       ZipMemberToObjects (34-46), EnvironmentsToObjects (48-62),        *)
(*       EnvironmentFromObjects (64-83).                                   *)
(*                                                                         *)
(* THE FILE.  A zip archive with one member per environment.  A member is  *)
(* named by a NUMBER and holds, pickled one after the other: a header      *)
(* {"version":2,..}, the environment's params, then its interactions in    *)
(* batches of at most BatchMax (= 1000) - BatchSizes(n) below.  Abstractly:*)
(*   exists  - there is a file at the path                                 *)
(*   damaged - the file is not a readable zip archive (a kill inside a     *)
(*             member write, an empty file, foreign bytes)                 *)
(*   arch    - the members in directory order: [num, kind]                 *)
(* An environment is identified by its KIND: two environments of one kind  *)
(* have equal params AND equal interactions (freshly constructed equal     *)
(* environments, or one object used twice); NI[k] = number of interactions *)
(* of kind k.  `self` of a save is a SEQUENCE of kinds (repeats allowed).  *)
(*                                                                         *)
(* ACTIONS - one per public call and per step of the code at which another *)
(* step can interleave or a fault can strike:                              *)
(*   SaveBegin        self_envs = list(self)                       (1072)  *)
(*   CompareWithFile  file params vs self params as MULTISETS  (1073-1102) *)
(*        absent   -> everything is to be written                          *)
(*        equal    -> the file's environments are returned, nothing written*)
(*        subset   -> (file is a sub-multiset of self) the file's members  *)
(*                    stand for the FIRST occurrences of their kinds in    *)
(*                    self; only the rest is to be written - this is how   *)
(*                    an interrupted save is resumed                       *)
(*        mismatch -> (file holds params self lacks) overwrite: the file   *)
(*                    is deleted and ALL of self is to be written;         *)
(*                    otherwise CobaException                              *)
(*        damaged  -> the same two outcomes                                *)
(*   Materialize(i)   EnvironmentsToObjects.filter: reads environment i    *)
(*                    (processes = 1: lazily, just before its write;       *)
(*                    processes = 2: by the workers, in any order); the    *)
(*                    environment chosen by the fault raises instead       *)
(*   WriteBegin / WriteEnd   ObjectsToZipMember.write, one member: "dump,  *)
(*                    open, write, close" - the member gets the number     *)
(*                    1 + the largest number in the file (0 for a new file)*)
(*   CrashKill        the process is killed when it is about to open the   *)
(*                    file for the next member: the file is as it was      *)
(*   CrashTorn        the process is killed inside a member write and the  *)
(*                    file's bytes are neither those before nor those after*)
(*                    the write: the file is damaged (zipfile finds no     *)
(*                    directory), everything in it is lost                 *)
(*   RaiseEnv         the exception of a failing environment leaves save() *)
(*                    (processes = 1: at once; processes = 2: after the    *)
(*                    other environments were or were not written)         *)
(*   Return           Environments.from_save(path) is returned             *)
(*   FromSave, SinkWrite (ObjectsToZipMember.write used directly), Corrupt *)
(*   (foreign bytes at the path), Delete - calls / events between saves.   *)
(* A resume is simply the next SaveBegin - with the same or another self,  *)
(* processes, overwrite.                                                   *)
(*                                                                         *)
(* The process-global CobaContext.logger: `logger` is "user" outside       *)
(* save(), "decorated" while the environments are written (1104-1109);     *)
(* it must be the user's logger again when save() returns OR raises.       *)
(*                                                                         *)
(* Variant = "ok" is the protocol.  The others are deliberately broken     *)
(* designs TLC must reject (two of them are what the code does today):     *)
(*  "pop_before_unlink" on mismatch + overwrite only the environments that *)
(*                      were not matched before the mismatch was noticed   *)
(*                      are written (AS CODED: self_envs is consumed by    *)
(*                      the comparison, 1080-1084)                         *)
(*  "no_finally"        the logger is not restored when a failing          *)
(*                      environment's exception leaves save() (AS CODED)   *)
(*  "rewrite_all"       on subset everything is written again              *)
(*  "num_from_zero"     member numbers start at 0 in every save (the sink  *)
(*                      does not look at the file)                         *)
(***************************************************************************)
EXTENDS Integers, Sequences, FiniteSets, TLC, Json
CONSTANTS NI,         \* NI[k] = number of interactions of an environment of kind k (Kinds = DOMAIN NI)
          SelfSet,    \* the sequences of kinds save() / SinkWrite may be called with
          ProcSet,    \* subset of {1, 2}: `processes`
          OwSet,      \* subset of BOOLEAN: `overwrite`
          FaultSet,   \* subset of {"kill", "torn", "readfail"}
          ExtSet,     \* subset of {"from_save", "sink_write", "corrupt", "delete"}
          MaxCalls,   \* public calls / events per behaviour
          BatchMax,   \* 1000 (serialized.py 57-61)
          Record,     \* TRUE: keep the history (behaviour generation); FALSE: design check only (liveness)
          Variant
VARIABLES exists, damaged, arch,                                   \* the file
          pc, cur, stored, todo, mat, done, wr, reads, failed,     \* the save in progress
          cmp, unl, writes,                                        \* what it did so far (for the history)
          logger, hist, ncalls, last
fvars == <<exists, damaged, arch>>
cvars == <<pc, cur, stored, todo, mat, done, wr, reads, failed, cmp, unl, writes>>
vars  == <<exists, damaged, arch, pc, cur, stored, todo, mat, done, wr, reads, failed, cmp, unl, writes, logger, hist, ncalls, last>>

Kinds == DOMAIN NI
Range(s) == {s[i] : i \in DOMAIN s}
Count(k, s) == Cardinality({i \in DOMAIN s : s[i] = k})                  \* occurrences of kind k in a sequence of kinds
KindsOf(a) == [i \in DOMAIN a |-> a[i].kind]
SubBag(a, b) == \A k \in Kinds : Count(k, a) <= Count(k, b)
SameBag(a, b) == \A k \in Kinds : Count(k, a) = Count(k, b)
Occ(s, i) == Cardinality({j \in 1..i : s[j] = s[i]})                     \* position i is the Occ-th occurrence of its kind
StoredPos(s, a) == {i \in DOMAIN s : Occ(s, i) <= Count(s[i], KindsOf(a))}   \* the first occurrences stand for the file's members
Min(S) == CHOOSE m \in S : \A x \in S : m <= x
MaxNum(a) == IF a = <<>> THEN -1 ELSE CHOOSE m \in {a[i].num : i \in DOMAIN a} : \A i \in DOMAIN a : a[i].num <= m
BatchSizes(n) == [b \in 1..((n + BatchMax - 1) \div BatchMax) |-> IF b * BatchMax <= n THEN BatchMax ELSE n - (b - 1) * BatchMax]

(* the comparison AS CODED (1080-1084): the file's params are popped from the END, each removes the first equal params still
   in self; the first one that is not found stops the loop - what was removed stays removed.  -> positions of self left over *)
RECURSIVE PopMatch(_, _, _)
PopMatch(fk, rem, s) ==
  IF fk = <<>> THEN rem
  ELSE LET cand == {i \in rem : s[i] = fk[Len(fk)]}
       IN IF cand = {} THEN rem ELSE PopMatch(SubSeq(fk, 1, Len(fk) - 1), rem \ {Min(cand)}, s)

NoFault == [t |-> "none", at |-> 0]
NoCall  == [active |-> FALSE, self |-> <<>>, procs |-> 1, ow |-> FALSE, fault |-> NoFault]
NoLast  == [op |-> "none", out |-> "none", ret |-> <<>>, self |-> <<>>, reads |-> <<>>, stored |-> {}]

Init == /\ exists = FALSE /\ damaged = FALSE /\ arch = <<>>
        /\ pc = "idle" /\ cur = NoCall /\ stored = {} /\ todo = {} /\ mat = <<>> /\ done = <<>> /\ wr = 0 /\ reads = <<>> /\ failed = FALSE
        /\ cmp = "none" /\ unl = FALSE /\ writes = <<>>
        /\ logger = "user" /\ hist = <<>> /\ ncalls = 0 /\ last = NoLast

ResetCall == /\ pc' = "idle" /\ cur' = NoCall /\ stored' = {} /\ todo' = {} /\ mat' = <<>> /\ done' = <<>> /\ wr' = 0 /\ reads' = <<>>
             /\ failed' = FALSE /\ cmp' = "none" /\ unl' = FALSE /\ writes' = <<>>

(* the save() in progress ends: out = "ret" | "raise:mismatch" | "raise:corrupt" | "raise:env" | "killed";  c, u = how the
   comparison went; ex, dm, ar = the file afterwards *)
Finish(out, ret, fault, c, u, ex, dm, ar) ==
  /\ hist' = (IF Record THEN Append(hist, [op |-> "save", self |-> cur.self, procs |-> cur.procs, ow |-> cur.ow, fault |-> fault,
                                           cmp |-> c, unl |-> u, stored |-> stored, writes |-> writes', reads |-> reads',
                                           out |-> out, ret |-> ret, exists |-> ex, damaged |-> dm, arch |-> ar])
              ELSE hist)
  /\ last' = [op |-> "save", out |-> out, ret |-> ret, self |-> cur.self, reads |-> reads', stored |-> stored]
  /\ logger' = (IF Variant = "no_finally" /\ out = "raise:env" THEN logger ELSE "user")     \* a killed process has no logger any more
  /\ pc' = "idle"

(* ---------------------------------------------------------------- save(): self_envs = list(self) *)
(* the fault of a call is chosen with the call: environment `at` raises in read() / the process is killed when it is about to open
   the file for its at-th member write of this call / inside that write.  A kill planned for a write that never happens does not strike. *)
Faults(s) == {NoFault} \cup {[t |-> f, at |-> q] : f \in FaultSet, q \in DOMAIN s}
SaveBegin(s, p, ow, f) ==
  /\ pc = "idle" /\ ncalls < MaxCalls
  /\ cur' = [active |-> TRUE, self |-> s, procs |-> p, ow |-> ow, fault |-> f]
  /\ pc' = "begin" /\ reads' = [i \in DOMAIN s |-> 0]
  /\ ncalls' = ncalls + 1
  /\ UNCHANGED <<exists, damaged, arch, stored, todo, mat, done, wr, failed, cmp, unl, writes, logger, hist, last>>

(* ---------------------------------------------------------------- the comparison with an existing file (1073-1102) *)
Enter(c, u, st, td) ==          \* the environments td are going to be written: the logger is decorated (1104-1108)
  /\ cmp' = c /\ unl' = u /\ stored' = st /\ todo' = td /\ pc' = "run" /\ logger' = "decorated"
  /\ (IF u THEN exists' = FALSE /\ damaged' = FALSE /\ arch' = <<>> ELSE UNCHANGED fvars)           \* Path(path).unlink()
  /\ UNCHANGED <<cur, mat, done, wr, reads, failed, writes, hist, ncalls, last>>
Refuse(c, out) ==               \* CobaException, nothing touched
  /\ cmp' = c /\ writes' = writes /\ reads' = reads
  /\ Finish(out, <<>>, cur.fault, c, FALSE, exists, damaged, arch)
  /\ UNCHANGED <<exists, damaged, arch, cur, stored, todo, mat, done, wr, failed, unl, ncalls>>
CompareWithFile ==
  /\ pc = "begin"
  /\ LET s == cur.self  all == DOMAIN cur.self  fk == KindsOf(arch) IN
     CASE ~exists -> Enter("absent", FALSE, {}, all)
       [] exists /\ damaged -> (IF cur.ow THEN Enter("damaged", TRUE, {}, all) ELSE Refuse("damaged", "raise:corrupt"))
       [] exists /\ ~damaged /\ SubBag(fk, s) ->
            LET st == StoredPos(s, arch) IN
            IF st = all
            THEN /\ cmp' = "equal" /\ writes' = writes /\ reads' = reads /\ stored' = st       \* return path_envs (1091)
                 /\ hist' = (IF Record THEN Append(hist, [op |-> "save", self |-> s, procs |-> cur.procs, ow |-> cur.ow, fault |-> cur.fault,
                                 cmp |-> "equal", unl |-> FALSE, stored |-> st, writes |-> <<>>, reads |-> reads, out |-> "ret", ret |-> fk,
                                 exists |-> exists, damaged |-> damaged, arch |-> arch]) ELSE hist)
                 /\ last' = [op |-> "save", out |-> "ret", ret |-> fk, self |-> s, reads |-> reads, stored |-> st]
                 /\ logger' = logger /\ pc' = "idle"
                 /\ UNCHANGED <<exists, damaged, arch, cur, todo, mat, done, wr, failed, unl, ncalls>>
            ELSE (IF Variant = "rewrite_all" THEN Enter("subset", FALSE, {}, all) ELSE Enter("subset", FALSE, st, all \ st))
       [] OTHER ->
            IF cur.ow THEN Enter("mismatch", TRUE, {}, IF Variant = "pop_before_unlink" THEN PopMatch(fk, all, s) ELSE all)
            ELSE Refuse("mismatch", "raise:mismatch")

(* ---------------------------------------------------------------- materializing and writing *)
Materialize(i) ==
  /\ pc = "run" /\ i \in todo
  /\ (cur.procs = 1 => (mat = <<>> /\ ~failed /\ i = Min(todo)))         \* one process: lazily and in order (Foreach)
  /\ reads' = [reads EXCEPT ![i] = @ + 1]
  /\ todo' = todo \ {i}
  /\ (IF cur.fault.t = "readfail" /\ cur.fault.at = i THEN failed' = TRUE /\ mat' = mat
      ELSE mat' = Append(mat, i) /\ failed' = failed)
  /\ UNCHANGED <<exists, damaged, arch, pc, cur, stored, done, wr, cmp, unl, writes, logger, hist, ncalls, last>>
CanWrite == pc = "run" /\ mat # <<>> /\ (cur.procs = 1 => ~failed)
Planned(f) == cur.fault.t = f /\ cur.fault.at = Len(done) + 1
WriteBegin ==                   \* dumps = list(map(pickle.dumps, env)); ZipFile(path, 'a'); zip.open(str(i), 'w')   (27-31)
  /\ CanWrite /\ ~Planned("kill")
  /\ pc' = "wr" /\ wr' = Head(mat) /\ mat' = Tail(mat)
  /\ UNCHANGED <<exists, damaged, arch, cur, stored, todo, done, reads, failed, cmp, unl, writes, logger, hist, ncalls, last>>
NumFor == IF Variant = "num_from_zero" THEN Len(done) ELSE MaxNum(arch) + 1
WriteEnd ==                     \* f.writelines(dumps); both `with` blocks left: the directory is written, the file closed
  /\ pc = "wr" /\ ~Planned("torn")
  /\ LET m == [num |-> NumFor, kind |-> cur.self[wr]] IN arch' = Append(arch, m) /\ writes' = Append(writes, m)
  /\ exists' = TRUE /\ damaged' = FALSE
  /\ done' = Append(done, wr) /\ wr' = 0 /\ pc' = "run"
  /\ UNCHANGED <<cur, stored, todo, mat, reads, failed, cmp, unl, logger, hist, ncalls, last>>

CrashKill ==                    \* killed when about to open the file for the next member: the file is as it was
  /\ CanWrite /\ Planned("kill")
  /\ reads' = reads /\ writes' = writes
  /\ Finish("killed", <<>>, cur.fault, cmp, unl, exists, damaged, arch)
  /\ UNCHANGED <<exists, damaged, arch, cur, stored, todo, mat, done, wr, failed, cmp, unl, ncalls>>
CrashTorn ==                    \* killed inside a member write, the bytes being neither those before nor those after it
  /\ pc = "wr" /\ Planned("torn")
  /\ reads' = reads /\ writes' = writes
  /\ exists' = TRUE /\ damaged' = TRUE /\ arch' = <<>>
  /\ Finish("killed", <<>>, cur.fault, cmp, unl, TRUE, TRUE, <<>>)
  /\ UNCHANGED <<cur, stored, todo, mat, done, wr, failed, cmp, unl, ncalls>>
RaiseEnv ==
  /\ pc = "run" /\ failed
  /\ reads' = reads /\ writes' = writes
  /\ Finish("raise:env", <<>>, cur.fault, cmp, unl, exists, damaged, arch)
  /\ UNCHANGED <<exists, damaged, arch, cur, stored, todo, mat, done, wr, failed, cmp, unl, ncalls>>
Return ==                       \* return Environments.from_save(path)   (1111); an empty self leaves an empty archive
  /\ pc = "run" /\ todo = {} /\ mat = <<>> /\ ~failed
  /\ reads' = reads /\ writes' = writes
  /\ exists' = TRUE /\ damaged' = FALSE /\ arch' = arch
  /\ Finish("ret", KindsOf(arch), cur.fault, cmp, unl, TRUE, FALSE, arch)
  /\ UNCHANGED <<cur, stored, todo, mat, done, wr, failed, cmp, unl, ncalls>>
(* the call-local variables are forgotten once the call is over (`last` keeps what the invariants need) *)
Forget == /\ pc = "idle" /\ cur.active /\ ResetCall
          /\ UNCHANGED <<exists, damaged, arch, logger, hist, ncalls, last>>

(* ---------------------------------------------------------------- between saves *)
Ext(op, out, ret, ex, dm, ar, s) ==
  /\ pc = "idle" /\ ~cur.active /\ ncalls < MaxCalls /\ op \in ExtSet
  /\ exists' = ex /\ damaged' = dm /\ arch' = ar
  /\ hist' = (IF Record THEN Append(hist, [op |-> op, self |-> s, out |-> out, ret |-> ret, exists |-> ex, damaged |-> dm, arch |-> ar]) ELSE hist)
  /\ last' = [op |-> op, out |-> out, ret |-> ret, self |-> s, reads |-> <<>>, stored |-> {}]
  /\ ncalls' = ncalls + 1
  /\ UNCHANGED <<pc, cur, stored, todo, mat, done, wr, reads, failed, cmp, unl, writes, logger>>
FromSave == IF exists /\ ~damaged THEN Ext("from_save", "ret", KindsOf(arch), exists, damaged, arch, <<>>)      \* 398-401
            ELSE Ext("from_save", "raise", <<>>, exists, damaged, arch, <<>>)
(* ObjectsToZipMember(path).write(objects of the environments s), the sink object being as old as the behaviour: every member gets
   a number that is not in the file *)
RECURSIVE Appended(_, _)
Appended(a, s) == IF s = <<>> THEN a ELSE Appended(Append(a, [num |-> MaxNum(a) + 1, kind |-> Head(s)]), Tail(s))
SinkWrite(s) == /\ ~damaged /\ s # <<>>
                /\ Ext("sink_write", "ret", <<>>, TRUE, FALSE, Appended(arch, s), s)
Corrupt == pc = "idle" /\ Ext("corrupt", "ret", <<>>, TRUE, TRUE, <<>>, <<>>)
Delete  == exists /\ Ext("delete", "ret", <<>>, FALSE, FALSE, <<>>, <<>>)

DoSave        == ~cur.active /\ \E s \in SelfSet : \E p \in ProcSet : \E ow \in OwSet : \E f \in Faults(s) : SaveBegin(s, p, ow, f)
DoMaterialize == \E i \in 1..Len(cur.self) : Materialize(i)
DoSinkWrite   == \E s \in SelfSet : SinkWrite(s)
Internal == CompareWithFile \/ DoMaterialize \/ WriteBegin \/ WriteEnd \/ RaiseEnv \/ Return \/ Forget
Next == \/ DoSave
        \/ CompareWithFile \/ DoMaterialize \/ WriteBegin \/ WriteEnd \/ RaiseEnv \/ Return \/ Forget
        \/ CrashKill \/ CrashTorn
        \/ FromSave \/ DoSinkWrite \/ Corrupt \/ Delete
Spec == Init /\ [][Next]_vars
FairSpec == Spec /\ WF_vars(Internal) /\ WF_vars(CrashKill \/ CrashTorn)      \* a planned kill strikes

(* ======================= what the protocol guarantees (checked by TLC) ======================= *)
InCall == pc \in {"run", "wr"}
KindsAt(S) == [k \in Kinds |-> Cardinality({i \in S : cur.self[i] = k})]
Consistent == (damaged => exists) /\ (~exists => arch = <<>>) /\ (damaged => arch = <<>>)
(* member numbers are never reused: they grow along the directory *)
NumsIncreasing == \A i, j \in DOMAIN arch : i < j => arch[i].num < arch[j].num
(* every position of self is in exactly one place: already in the file / still to be read / read and waiting / being written /
   written / failed *)
Partition == InCall =>
  LET all == DOMAIN cur.self
      w   == IF wr = 0 THEN {} ELSE {wr}
      f   == IF failed THEN {cur.fault.at} ELSE {}
  IN /\ stored \cup todo \cup Range(mat) \cup Range(done) \cup w \cup f = all
     /\ Cardinality(stored) + Cardinality(todo) + Len(mat) + Len(done) + Cardinality(w) + Cardinality(f) = Len(cur.self)
(* the file holds exactly the environments found in it at the start plus those written since - none twice, none lost *)
ArchIsStoredPlusDone == InCall => \A k \in Kinds : Count(k, KindsOf(arch)) = KindsAt(stored \cup Range(done))[k]
(* nothing that is already stored is materialized again; nothing is materialized twice *)
NoRematerialize == /\ (pc # "idle" => \A i \in DOMAIN reads : reads[i] <= 1 /\ (i \in stored => reads[i] = 0))
                   /\ (last.op = "save" /\ last.out = "ret" => \A i \in DOMAIN last.reads : last.reads[i] = (IF i \in last.stored THEN 0 ELSE 1))
(* the declarative reading of the comparison (multisets, first occurrences) is what the coded loop computes *)
CompareIsMultiset == (pc = "run" /\ cmp = "subset" /\ done = <<>> /\ wr = 0 /\ Variant = "ok") =>
                        (DOMAIN cur.self) \ stored = PopMatch(KindsOf(arch), DOMAIN cur.self, cur.self)
(* what save() returns is exactly self, each environment once; what it accepted is readable *)
ReturnedIsSelf == (last.op = "save" /\ last.out = "ret") => SameBag(last.ret, last.self)
AcceptedReadable == (last.op = "save" /\ last.out = "ret" /\ pc = "idle") => (exists /\ ~damaged /\ KindsOf(arch) = last.ret)
(* the process-global logger is the user's again whenever no save is running *)
LoggerRestored == pc = "idle" => logger = "user"
TypeOK == /\ pc \in {"idle", "begin", "run", "wr"} /\ logger \in {"user", "decorated"} /\ ncalls \in 0..MaxCalls
          /\ \A i \in DOMAIN arch : arch[i].kind \in Kinds /\ arch[i].num >= 0
(* the directory only ever grows by one member at its end, or the whole file goes (unlink, delete, foreign bytes, a torn write) *)
AppendOnly == [][\/ arch' = arch \/ arch' = <<>>
                 \/ (Len(arch') > Len(arch) /\ SubSeq(arch', 1, Len(arch)) = arch /\ (pc = "wr" => Len(arch') = Len(arch) + 1))]_vars
(* a refused or killed-before-open save leaves the file as it was *)
RefusalTouchesNothing == [][(pc = "begin" /\ pc' = "idle" /\ last'.out # "ret") => (arch' = arch /\ exists' = exists /\ damaged' = damaged)]_vars
(* every save comes to an end: it returns, raises or is killed where the kill was planned *)
Terminates == (pc # "idle") ~> (pc = "idle")

Emit == (pc = "idle" /\ ~cur.active /\ ncalls = MaxCalls /\ Record) =>
           PrintT(ToJson([calls |-> hist, ni |-> NI, batches |-> [k \in Kinds |-> BatchSizes(NI[k])]]))
=============================================================================
