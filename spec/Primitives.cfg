\* X14 generator / oracle run.  The driver rewrites the CONSTANTS lines (harness/drivers/x14.py): all sections in one run, one section per broken variant.
SPECIFICATION Spec
CONSTANTS
  Sections = {"rewards", "rhist", "pairs", "values", "rows", "inter", "base", "batch"}
  Size = "quick"
  MaxOps = 0
  Variant = "ok"
INVARIANT Total
INVARIANT CallRespectsEq
INVARIANT TableAgrees
INVARIANT FirstOfDuplicates
INVARIANT BinaryIsDiscrete
INVARIANT HammingOnSets
INVARIANT CallsPreserved
INVARIANT EqPreserved
INVARIANT PickleTotal
INVARIANT EqSymmetric
INVARIANT EqReflexive
INVARIANT EqTransitive
INVARIANT Extensional
INVARIANT CanonIsEq
INVARIANT HashFollowsEq
INVARIANT LookupFindsEqual
INVARIANT OneTransport
INVARIANT InterKeys
INVARIANT Emit
CHECK_DEADLOCK FALSE
