------------------------------ MODULE Primitives ------------------------------
(***************************************************************************)
(* The primitive value types of coba/primitives.py (X14).                  *)
(*                                                                         *)
(* One object machine: a constructor action creates ONE object of the      *)
(* subject, then up to Budget(sec) public calls are made on it; `hist`     *)
(* holds every step with the observation the implementation must give.     *)
(* Actions                                                                 *)
(* that copy the object (pickle, coba.json, deepcopy, pickle into ANOTHER  *)
(* process) replace `obj` by what the copy must be.  The driver replays    *)
(* every enumerated behaviour on the real classes and compares the         *)
(* observation of every step AND the projection of the object (for a       *)
(* reward function: its complete call table over the action alphabet)      *)
(* after every step.                                                       *)
(*                                                                         *)
(* sec (chosen in Init from the constant Sections) = which part of the     *)
(* subject a behaviour explores:                                           *)
(*  "rewards" / "rewards2" / "rhist"  L1Reward, BinaryReward,              *)
(*        HammingReward, DiscreteReward (542-717) over a big universe      *)
(*        with one call / the quick universe with two calls / a small      *)
(*        universe with single calls in the history.  The abstract value   *)
(*        of a reward                                                      *)
(*        function is a function action -> number over the alphabet Acts   *)
(*        (ints, floats equal to ints, strings, Categoricals with two      *)
(*        level orders, tuples, one-hot tuples, sparse actions made        *)
(*        hashable, a plain dict); Call defines it.                        *)
(*  "pairs"   r1 == r2 for every ordered pair of a universe of reward      *)
(*        functions.                                                       *)
(*  "values" / "values4"  Categorical (316-333), HashableDense (383-394),  *)
(*        HashableSparse (456-490): ==, hash, dict look-up, attributes,    *)
(*        copies, and pickling into a process whose str hashes are salted  *)
(*        differently (every spawned worker).                              *)
(*  "rows"    the Dense / Dense_ / Sparse / Sparse_ defaults (335-381,     *)
(*        401-454) on minimal subclasses: == with list / tuple / dict /    *)
(*        other rows / non-collections, hash, copy, attribute delegation,  *)
(*        pickling, isinstance registrations, is_materialized.  (Lazy rows *)
(*        of coba/pipes/rows.py are C13's, spec/LazyRows.tla.)             *)
(*  "inter"   SimulatedInteraction / GroundedInteraction /                 *)
(*        LoggedInteraction (103-190): keys, their order, values, per      *)
(*        constructor form.                                                *)
(*  "base"    Pipe / Source / Filter / Sink / Line / EnvironmentFilter /   *)
(*        Environment / Learner / Evaluator defaults (43-101, 192-311).    *)
(*  "batch"   is_batch (313) and the batch call of reward functions        *)
(*        (Batch.Callable, environments/filters.py 1253-1269).             *)
(*                                                                         *)
(* VALUES are tagged records:  I(n) int;  H(n) the float n/2;  S(s) str;   *)
(* Ct(s, levels) Categorical;  T(xs) tuple;  L(xs) list;  M(pairs) a       *)
(* sparse value made hashable (HashableSparse over the dict of the pairs,  *)
(* insertion order = pair order);  D(pairs) a plain dict;  Inf;  None.     *)
(* Eq is Python's == on them, Canon a canonical text with                  *)
(* Eq(x,y) <=> Canon(x) = Canon(y) (what hash must respect).               *)
(* Results of reward calls are values or Q(n, d) = the float n / d.        *)
(*                                                                         *)
(* Variant = "ok" is the specification; the others are deliberately broken *)
(* designs TLC must reject (guards of the invariants):                     *)
(*  "dup_last"      DiscreteReward(actions, rewards) answers with the LAST *)
(*                  of several equal actions        -> FirstOfDuplicates   *)
(*  "eq_by_rewards" two DiscreteRewards are equal as soon as their reward  *)
(*                  lists are, two BinaryRewards as soon as their argmax   *)
(*                  is (what `o == self.rewards or ..` does) -> Extensional*)
(*  "literal_all"   every reward pickles itself as the repr of its         *)
(*                  arguments (before 982a0f5)      -> PickleTotal         *)
(*  "stale_hash"    the hash cached by HashableDense / HashableSparse      *)
(*                  travels with the pickle         -> HashFollowsEq,      *)
(*                                                     LookupFindsEqual    *)
(*  "hamming_sum"   Hamming's union is |argmax| + |labels| -> HammingOnSets*)
(***************************************************************************)
EXTENDS Integers, Sequences, FiniteSets, TLC, Json
CONSTANTS Sections,  \* the parts of the subject to enumerate
          Size,      \* "quick" / "thorough": the universes and the number of calls per behaviour
          MaxOps,    \* calls per behaviour beyond the budget of the size (0)
          Variant
VARIABLES sec,     \* the part of the subject this behaviour explores
          obj,     \* the abstract object under test (NoObj before the constructor ran)
          env,     \* values: [proc = the process the object lives in, cached = the process its hash was cached in or -1]
          hist,    \* steps so far: [op, arg, obs]; a copying step's obs is [res, now = the abstract object the copy must be]
          dead     \* a step raised: the behaviour is over
vars == <<sec, obj, env, hist, dead>>

(* ============================== values ================================ *)
I(n)      == [t |-> "int", v |-> n]
H(n)      == [t |-> "flt", v |-> n]
S(s)      == [t |-> "str", v |-> s]
Ct(s, lv) == [t |-> "cat", v |-> s, lv |-> lv]
T(xs)     == [t |-> "tup", v |-> xs]
L(xs)     == [t |-> "lst", v |-> xs]
M(ps)     == [t |-> "map", v |-> ps]
D(ps)     == [t |-> "dct", v |-> ps]
Inf       == [t |-> "inf", v |-> 0]
None      == [t |-> "none", v |-> 0]
Q(n, d)   == [t |-> "q", n |-> n, d |-> d]
Abs(n)    == IF n < 0 THEN -n ELSE n

IsNum(x)  == x.t \in {"int", "flt"}
Num(x)    == IF x.t = "int" THEN 2 * x.v ELSE x.v          \* in halves
IsText(x) == x.t \in {"str", "cat"}
IsSeq(x)  == x.t \in {"tup", "lst"}
IsMap(x)  == x.t \in {"map", "dct"}
Keys(ps)  == {ps[i][1] : i \in DOMAIN ps}
ValOf(ps, k) == ps[CHOOSE i \in DOMAIN ps : ps[i][1] = k][2]

(* Python's == *)
RECURSIVE Eq(_, _)
Eq(x, y) ==
  CASE IsNum(x) /\ IsNum(y)   -> Num(x) = Num(y)                               \* 1 == 1.0
    [] IsText(x) /\ IsText(y) -> x.v = y.v                                     \* a Categorical is its text; the levels do not count
    [] IsSeq(x) /\ IsSeq(y)   -> x.t = y.t /\ Len(x.v) = Len(y.v) /\ \A i \in DOMAIN x.v : Eq(x.v[i], y.v[i])   \* (1,0) != [1,0]
    [] IsMap(x) /\ IsMap(y)   -> Keys(x.v) = Keys(y.v) /\ \A k \in Keys(x.v) : Eq(ValOf(x.v, k), ValOf(y.v, k))   \* order-free
    [] x.t = "inf" /\ y.t = "inf"   -> TRUE
    [] x.t = "none" /\ y.t = "none" -> TRUE
    [] OTHER -> FALSE
SeqEq(xs, ys) == Len(xs) = Len(ys) /\ \A i \in DOMAIN xs : Eq(xs[i], ys[i])

RECURSIVE JoinFrom(_, _, _)
JoinFrom(ss, sep, i) == IF i > Len(ss) THEN "" ELSE ss[i] \o (IF i < Len(ss) THEN sep ELSE "") \o JoinFrom(ss, sep, i + 1)
Join(ss, sep) == JoinFrom(ss, sep, 1)
KeyOrder == <<"x", "y", "z">>
(* canonical text: equal values have the same one, unequal values different ones (CanonIsEq) *)
RECURSIVE Canon(_)
Canon(x) ==
  CASE IsNum(x)  -> "n" \o ToString(Num(x))
    [] IsText(x) -> "s'" \o x.v \o "'"
    [] IsSeq(x)  -> (IF x.t = "tup" THEN "T(" ELSE "L(") \o Join([i \in DOMAIN x.v |-> Canon(x.v[i])], ",") \o ")"
    [] IsMap(x)  -> "M{" \o Join([i \in DOMAIN KeyOrder |-> IF KeyOrder[i] \in Keys(x.v)
                                                             THEN KeyOrder[i] \o "=" \o Canon(ValOf(x.v, KeyOrder[i])) \o ";" ELSE ""], "") \o "}"
    [] OTHER     -> x.t

AB == <<"a", "b">>
BA == <<"b", "a">>
CatA  == Ct("a", AB)
CatA2 == Ct("a", BA)
CatB  == Ct("b", AB)
OH10  == T(<<I(1), I(0)>>)
OH01  == T(<<I(0), I(1)>>)
T12   == T(<<I(1), I(2)>>)
TA1   == T(<<S("a"), I(1)>>)
MX    == M(<<<<"x", I(1)>>>>)
MXf   == M(<<<<"x", H(2)>>>>)                         \* {'x': 1.0} == {'x': 1}
MY    == M(<<<<"y", I(1)>>>>)
MXY   == M(<<<<"x", I(1)>>, <<"y", I(2)>>>>)
MYX   == M(<<<<"y", I(2)>>, <<"x", I(1)>>>>)          \* the same mapping built in the other order
DX    == D(<<<<"x", I(1)>>>>)                         \* a sparse action NOT made hashable
ActSeq == <<I(0), I(1), I(2), H(2), H(3), S("a"), S("b"), CatA, CatA2, CatB, OH10, OH01, T12, TA1, MX, MXf, MY, MXY, MYX, DX>>
Acts   == {ActSeq[i] : i \in DOMAIN ActSeq}
Hashable(x) == x.t # "dct" /\ x.t # "lst"

(* =========================== reward functions ========================= *)
(* L1Reward(argmax) 542-570;  BinaryReward(argmax[, value]) 572-611 (vg: the value was passed);                      *)
(* HammingReward(argmax) 613-649 (ct: the label collection is a list / a tuple);                                      *)
(* DiscreteReward 651-717: f = "seq" (actions, rewards[, default]) with ct = list / tuple of both, f = "map" ({action: reward}[, default]) *)
L1(am)          == [c |-> "L1", am |-> am]
BR(am, val, vg) == [c |-> "BR", am |-> am, val |-> val, vg |-> vg]
HR(am, ct)      == [c |-> "HR", am |-> am, ct |-> ct]
DR(f, acts, rews, def, dg, ct) == [c |-> "DR", f |-> f, acts |-> acts, rews |-> rews, def |-> def, dg |-> dg, ct |-> ct]
NoObj == [c |-> "none"]

Matches(acts, a) == {i \in DOMAIN acts : Eq(acts[i], a)}
FirstIdx(acts, a) == LET Sx == Matches(acts, a) IN IF Sx = {} THEN 0 ELSE CHOOSE i \in Sx : \A j \in Sx : i <= j
LastIdx(acts, a)  == LET Sx == Matches(acts, a) IN IF Sx = {} THEN 0 ELSE CHOOSE i \in Sx : \A j \in Sx : i >= j
Labels(a) == IF IsSeq(a) THEN a.v ELSE <<a>>          \* 629-630: a single label is the label set {label}
(* what r(a) returns *)
Call(r, a) ==
  CASE r.c = "L1" -> H(-Abs(Num(a) - Num(r.am)))                                                      \* 557
    [] r.c = "BR" -> IF Eq(r.am, a) THEN r.val ELSE I(0)                                              \* 590
    [] r.c = "HR" -> LET ls == Labels(a)                                                              \* 632-637: |A & B| / |A | B|
                         n  == Cardinality({i \in DOMAIN ls : \E j \in DOMAIN r.am : Eq(ls[i], r.am[j])})
                     IN  Q(n, Len(r.am) + Len(ls) - (IF Variant = "hamming_sum" THEN 0 ELSE n))
    [] r.c = "DR" -> LET i == IF Variant = "dup_last" THEN LastIdx(r.acts, a) ELSE FirstIdx(r.acts, a)   \* 692, 697: the FIRST of equal actions
                     IN  IF i = 0 THEN r.def ELSE r.rews[i]                                            \* "default: the value to return for actions without mappings"
(* the actions a reward function is asked about *)
NoDups(xs) == \A i, j \in DOMAIN xs : i # j => ~Eq(xs[i], xs[j])
InDomain(r, a) ==
  CASE r.c = "L1" -> IsNum(a)
    [] r.c = "BR" -> TRUE
    [] r.c = "HR" -> (a.t \in {"int", "str", "cat"}) \/ (IsSeq(a) /\ NoDups(a.v) /\ \A i \in DOMAIN a.v : a.v[i].t \in {"int", "str", "cat"})
    [] r.c = "DR" -> r.f = "seq" \/ Hashable(a)                                                        \* a dict look-up needs a hashable action
LabelSets == <<L(<<I(1), I(2)>>), T(<<I(2), I(1)>>), L(<<I(3)>>), L(<<I(1), I(2), I(3)>>), L(<<>>), T(<<S("a"), CatB>>), L(<<CatA>>), L(<<S("b"), S("c")>>), I(3)>>
CallSeq(r) == SelectSeq(IF r.c = "HR" THEN ActSeq \o LabelSets ELSE ActSeq, LAMBDA a : InDomain(r, a))
SameRes(x, y) == IF x.t = "q" /\ y.t = "q" THEN x.n * y.d = y.n * x.d ELSE IF x.t = "q" \/ y.t = "q" THEN FALSE ELSE Eq(x, y)
Table(r) == LET cs == CallSeq(r) IN [i \in DOMAIN cs |-> <<cs[i], Call(r, cs[i])>>]

(* ---- equality of two reward functions: "T" / "F" / "U" (HammingReward defines no __eq__: only r == r is fixed) ---- *)
B(b) == IF b THEN "T" ELSE "F"
EqR(r1, r2) ==
  IF r1.c # r2.c THEN "F"
  ELSE CASE r1.c = "L1" -> B(Eq(r1.am, r2.am))                                                         \* 560
         [] r1.c = "BR" -> B(Eq(r1.am, r2.am) /\ (Variant = "eq_by_rewards" \/ Eq(r1.val, r2.val)))     \* 595-597
         [] r1.c = "HR" -> IF r1.ct = r2.ct /\ SeqEq(r1.am, r2.am) THEN "U" ELSE "F"
         [] r1.c = "DR" -> B(r1.ct = r2.ct /\ SeqEq(r1.rews, r2.rews)                                   \* 707-710
                             /\ (Variant = "eq_by_rewards" \/ (SeqEq(r1.acts, r2.acts) /\ Eq(r1.def, r2.def))))
(* a reward function also equals the plain value it stands for (594: BinaryReward == its argmax; 706: DiscreteReward == its list of rewards) *)
EqPlainR(r, x) ==
  CASE r.c = "BR" -> B(Eq(x, r.am))
    [] r.c = "DR" -> B(x.t = r.ct /\ SeqEq(x.v, r.rews))
    [] OTHER      -> "F"

(* ---- pickling: __getstate__ gives the repr of the arguments when literal_eval gives them back, else the arguments (982a0f5) ---- *)
RECURSIVE IsLit(_)
IsLit(x) == CASE x.t \in {"int", "flt", "str", "none"} -> TRUE
              [] IsSeq(x)    -> \A i \in DOMAIN x.v : IsLit(x.v[i])
              [] x.t = "dct" -> \A i \in DOMAIN x.v : IsLit(x.v[i][2])
              [] OTHER       -> FALSE            \* a Categorical, a HashableSparse, inf
ArgVals(r) == CASE r.c = "L1" -> <<r.am>> [] r.c = "BR" -> <<r.am, r.val>> [] r.c = "HR" -> r.am [] r.c = "DR" -> r.acts \o r.rews \o <<r.def>>
AllLit(r) == \A i \in DOMAIN ArgVals(r) : IsLit(ArgVals(r)[i])
Form(r) == IF r.c # "L1" /\ AllLit(r) THEN "text" ELSE "raw"
(* what comes back: the same function; a BinaryReward whose value is 1 (also 1.0) is written without it (600) *)
PickleNorm(r) == IF r.c = "BR" /\ IsNum(r.val) /\ Num(r.val) = 2 THEN BR(r.am, I(1), FALSE) ELSE r
(* coba.json: the text form survives unchanged; in the raw form a Categorical arrives as its text and a tuple collection as a list.
   Stated only where json can carry the arguments: no inf, no sparse value, no tuple-valued action, mapping keys that are text *)
RECURSIVE HasNo(_, _)
HasNo(x, tags) == x.t \notin tags /\ (IsSeq(x) => \A i \in DOMAIN x.v : HasNo(x.v[i], tags))
JsonOK(r) == \/ Form(r) = "text" /\ r.c # "L1"
             \/ r.c = "L1"
             \/ /\ \A i \in DOMAIN ArgVals(r) : HasNo(ArgVals(r)[i], {"tup", "inf", "map", "dct"})
                /\ (r.c = "DR" /\ r.f = "map") => \A i \in DOMAIN r.acts : IsText(r.acts[i])
Strip(x) == IF x.t = "cat" THEN S(x.v) ELSE x
StripAll(xs) == [i \in DOMAIN xs |-> Strip(xs[i])]
JsonNorm(r) == LET p == PickleNorm(r) IN
  IF Form(r) = "text" \/ r.c = "L1" THEN p
  ELSE CASE p.c = "BR" -> BR(Strip(p.am), p.val, p.vg)
         [] p.c = "HR" -> HR(StripAll(p.am), "lst")
         [] p.c = "DR" -> DR(p.f, StripAll(p.acts), p.rews, p.def, p.dg, "lst")

(* ---- repr (tests: L1Reward(1), L1Reward(1.12346), BinaryReward([1, 2], 2), HammingReward([1, 2]), DiscreteReward([[1, 2], [4, 5]]),
        DiscreteReward({1: 4})): numbers minimized (an integral float prints as an int), collections as lists.  Defined for arguments
        made of ints, floats, strings and collections of them; "U" otherwise (must not raise, starts with the class name) ---- *)
HalfTxt(n)  == IF n % 2 = 0 THEN ToString(n \div 2) ELSE (IF n < 0 THEN "-" ELSE "") \o ToString(Abs(n) \div 2) \o ".5"
FloatTxt(n) == IF n % 2 = 0 THEN ToString(n \div 2) \o ".0" ELSE HalfTxt(n)
RECURSIVE Simple(_)
Simple(x) == x.t \in {"int", "flt", "str"} \/ (IsSeq(x) /\ \A i \in DOMAIN x.v : Simple(x.v[i]))
RECURSIVE RpIn(_)
RpIn(x) == CASE x.t = "int" -> ToString(x.v)
             [] x.t = "flt" -> HalfTxt(x.v)
             [] x.t = "str" -> "'" \o x.v \o "'"
             [] IsSeq(x)    -> "[" \o Join([i \in DOMAIN x.v |-> RpIn(x.v[i])], ", ") \o "]"
RpTop(x)  == IF x.t = "str" THEN x.v ELSE RpIn(x)
RpKey(x)  == IF x.t = "int" THEN ToString(x.v) ELSE "'" \o x.v \o "'"
StrNum(x) == CASE x.t = "int" -> ToString(x.v) [] x.t = "flt" -> FloatTxt(x.v) [] OTHER -> "inf"
ReprDefined(r) ==
  CASE r.c = "L1" -> TRUE
    [] r.c = "BR" -> Simple(r.am)
    [] r.c = "HR" -> \A i \in DOMAIN r.am : Simple(r.am[i])
    [] r.c = "DR" -> /\ \A i \in DOMAIN r.acts : IF r.f = "map" THEN r.acts[i].t \in {"int", "str"} ELSE Simple(r.acts[i])
                     /\ \A i \in DOMAIN r.rews : Simple(r.rews[i])
Repr(r) ==
  IF ~ReprDefined(r) THEN "U" ELSE
  CASE r.c = "L1" -> "L1Reward(" \o HalfTxt(Num(r.am)) \o ")"
    [] r.c = "BR" -> "BinaryReward(" \o RpTop(r.am) \o (IF IsNum(r.val) /\ Num(r.val) = 2 THEN "" ELSE ", " \o StrNum(r.val)) \o ")"
    [] r.c = "HR" -> "HammingReward(" \o RpIn(L(r.am)) \o ")"
    [] r.c = "DR" -> IF r.f = "seq" THEN "DiscreteReward([" \o RpIn(L(r.acts)) \o ", " \o RpIn(L(r.rews)) \o "])"
                     ELSE "DiscreteReward({" \o Join([i \in DOMAIN r.acts |-> RpKey(r.acts[i]) \o ": " \o RpIn(r.rews[i])], ", ") \o "})"

(* ---- the universes ---- *)
Quick == Size = "quick"
Seqs(Sx, n) == UNION {[1..k -> Sx] : k \in 0..n}
BuildActs(q) == IF q THEN {I(1), H(2), I(2), S("a"), CatA, CatB, OH10, OH01, MX, MXY, DX} ELSE Acts
RewBase(n) == [i \in 1..n |-> I(3 + i)]                                         \* 4, 5, 6: the position is recognisable
RewAlt(n)  == [i \in 1..n |-> CASE i = 1 -> H(1) [] i = 2 -> Inf [] OTHER -> H(-3)]   \* 0.5, inf, -1.5
DRShapes(f, acts) == LET n == Len(acts) IN
   {DR(f, acts, RewBase(n), I(0), FALSE, "lst"), DR(f, acts, RewAlt(n), I(0), FALSE, "lst"), DR(f, acts, RewBase(n), I(9), TRUE, "lst")}
   \cup (IF f = "seq" THEN {DR(f, acts, RewBase(n), I(0), TRUE, "tup")} ELSE {})
L1U == {L1(I(0)), L1(I(1)), L1(H(3)), L1(H(2))}
BRU == UNION {{BR(a, I(1), FALSE), BR(a, I(2), TRUE), BR(a, H(1), TRUE), BR(a, Inf, TRUE), BR(a, H(2), TRUE)} : a \in Acts}
HRU == {HR(<<I(1)>>, "lst"), HR(<<I(1), I(2)>>, "lst"), HR(<<I(2), I(1)>>, "tup"), HR(<<I(1), I(2), I(3)>>, "lst"),
        HR(<<S("a"), S("b")>>, "lst"), HR(<<CatA, S("b")>>, "lst"), HR(<<CatB, CatA>>, "tup"), HR(<<S("a")>>, "tup"), HR(<<H(2), I(2)>>, "lst")}
DSU(q) == UNION {DRShapes("seq", acts) : acts \in Seqs(BuildActs(q), 2)}
          \cup (IF q THEN {} ELSE UNION {DRShapes("seq", acts) : acts \in [1..3 -> {I(1), H(2), S("a"), CatA, OH10, MX, I(2)}]})
DMU(q) == UNION {DRShapes("map", acts) : acts \in {s \in Seqs(BuildActs(q), 2) : NoDups(s) /\ \A i \in DOMAIN s : Hashable(s[i])}}
(* constructions that must be refused: "The given actions and rewards did not line up." (675-676, test_bad_actions) *)
BadU == {DR("seq", <<I(1), I(2)>>, <<I(4), I(5), I(6)>>, I(0), FALSE, "lst"), DR("seq", <<I(1)>>, <<>>, I(0), FALSE, "lst"),
         DR("seq", <<>>, <<I(4)>>, I(9), TRUE, "tup")}
RewardUQ == L1U \cup BRU \cup HRU \cup DSU(TRUE) \cup DMU(TRUE) \cup BadU
RewardU  == IF Quick THEN RewardUQ ELSE L1U \cup BRU \cup HRU \cup DSU(FALSE) \cup DMU(FALSE) \cup BadU
(* the small universe for histories with single calls *)
HistU == {L1(I(1)), L1(H(3)), BR(I(1), I(1), FALSE), BR(CatA, I(2), TRUE), BR(OH10, H(1), TRUE), BR(MXY, Inf, TRUE), BR(S("a"), H(2), TRUE),
          HR(<<I(1), I(2)>>, "lst"), HR(<<CatA, S("b")>>, "tup"),
          DR("seq", <<I(1), H(2), I(2)>>, RewBase(3), I(0), FALSE, "lst"), DR("seq", <<CatA, S("a"), CatB>>, RewAlt(3), I(9), TRUE, "lst"),
          DR("seq", <<OH10, OH01>>, RewBase(2), I(0), FALSE, "tup"), DR("seq", <<DX, MXY>>, RewBase(2), I(0), FALSE, "lst"),
          DR("seq", <<>>, <<>>, I(9), TRUE, "lst"), DR("map", <<>>, <<>>, I(0), FALSE, "lst"),
          DR("map", <<I(1), S("a")>>, RewBase(2), I(0), FALSE, "lst"), DR("map", <<CatA, OH10>>, RewAlt(2), I(9), TRUE, "lst"),
          DR("map", <<MXY, MY>>, RewBase(2), I(0), FALSE, "lst")}
HistCalls(r) == CASE r.c = "L1" -> {I(0), H(3)}
                  [] r.c = "HR" -> {I(1), L(<<I(1), I(2)>>), T(<<S("a"), CatB>>)}
                  [] OTHER      -> {a \in {I(1), H(2), S("a"), CatA2, OH10, MYX, I(0)} : InDomain(r, a)}
(* the universe of the pair comparisons (collections are lists: what (1,2) == [1,2] makes of mixed ones is not stated) *)
PairActs == IF Quick THEN {I(1), H(2), CatA} ELSE {I(1), H(2), I(2), S("a"), CatA, OH10}
PairRews(n) == {RewBase(n), [i \in 1..n |-> IF i = 1 THEN H(8) ELSE I(3 + i)], [i \in 1..n |-> I(5 - i)]}      \* 4,5 / 4.0,5 / 4,3
PairDR(f, acts) == UNION {{DR(f, acts, rw, I(0), FALSE, "lst"), DR(f, acts, rw, I(9), TRUE, "lst")} : rw \in PairRews(Len(acts))}
PairU == {L1(I(1)), L1(H(2)), L1(H(3))}
         \cup UNION {{BR(a, I(1), FALSE), BR(a, I(2), TRUE), BR(a, H(4), TRUE), BR(a, H(2), TRUE)} : a \in PairActs \cup {S("a"), OH10, MX, MXf}}
         \cup {HR(<<I(1), I(2)>>, "lst"), HR(<<I(2), I(1)>>, "lst"), HR(<<H(2), I(2)>>, "lst")}
         \cup UNION {PairDR("seq", acts) : acts \in Seqs(PairActs, 2)}
         \cup UNION {PairDR("map", acts) : acts \in {s \in Seqs(PairActs, 2) : NoDups(s)}}

(* ============================== the machine =========================== *)
Step(op, arg, obs) == [op |-> op, arg |-> arg, obs |-> obs]
(* calls per behaviour: "rewards" = the big universe of reward functions, "rewards2" = the quick universe with one call more,
   "rhist" = the small universe with single calls in the history *)
Budget(s) == MaxOps + (IF Size = "quick"
                       THEN CASE s \in {"rewards", "inter", "batch"} -> 1 [] s = "values" -> 3 [] OTHER -> 2
                       ELSE CASE s = "rewards" -> 1 [] s \in {"rewards2", "inter", "batch"} -> 2 [] s = "values4" -> 4 [] OTHER -> 3)
Terminal == dead \/ Len(hist) = Budget(sec) + 1
(* one initial state per section; the first reward function of a pair is chosen here so that the workers share the pairs *)
Init == /\ sec \in Sections /\ env = [proc |-> 0, cached |-> -1] /\ hist = <<>> /\ dead = FALSE
        /\ (IF sec = "pairs" THEN obj \in PairU ELSE obj = NoObj)
Fresh == ~dead /\ hist = <<>>
Room  == hist # <<>> /\ ~dead /\ Len(hist) < Budget(sec) + 1
Query(op, arg, obs) == hist' = Append(hist, Step(op, arg, obs)) /\ UNCHANGED <<sec, obj, env, dead>>
IsReward == obj.c \in {"L1", "BR", "HR", "DR"}
RSec == sec \in {"rewards", "rewards2", "rhist"}

(* ---- reward functions ---- *)
NewReward(r) ==                                              \* the constructor; DiscreteReward refuses sequences that do not line up
  /\ Fresh /\ RSec
  /\ (IF r.c = "DR" /\ Len(r.acts) # Len(r.rews)
      THEN hist' = <<Step("new", r, "CobaException")>> /\ dead' = TRUE /\ obj' = obj
      ELSE hist' = <<Step("new", r, "ok")>> /\ dead' = FALSE /\ obj' = r)
  /\ UNCHANGED <<sec, env>>
CallOne(a) == Room /\ sec = "rhist" /\ IsReward /\ Query("call", a, Call(obj, a))          \* r(a)
ReprOf     == Room /\ RSec /\ IsReward /\ Query("repr", 0, Repr(obj))                           \* repr(r)
HashOf     == Room /\ RSec /\ IsReward /\ Query("hash", 0, IF obj.c = "HR" THEN "id" ELSE "unhashable")   \* __eq__ without __hash__
EqSelf     == Room /\ RSec /\ IsReward /\ Query("eqself", 0, [self |-> "T", twin |-> EqR(obj, obj)])    \* r == r; r == a reward made from the same arguments
EqPlain(x) == Room /\ RSec /\ IsReward /\ Query("eqplain", x, EqPlainR(obj, x))                 \* r == x for a plain value x
PropsOf    == Room /\ RSec /\ IsReward /\ obj.c = "DR"                                          \* .actions / .rewards 681-687
              /\ Query("props", 0, [actions |-> [t |-> IF obj.f = "map" THEN "lst" ELSE obj.ct, v |-> obj.acts],
                                    rewards |-> [t |-> IF obj.f = "map" THEN "lst" ELSE obj.ct, v |-> obj.rews]])
Pickle ==                                                    \* pickle.loads(pickle.dumps(r))
  /\ Room /\ RSec /\ IsReward
  /\ LET ok == Variant # "literal_all" \/ obj.c = "L1" \/ AllLit(obj) IN
       /\ hist' = Append(hist, Step("pickle", Form(obj), [res |-> IF ok THEN "ok" ELSE "raise", now |-> IF ok THEN PickleNorm(obj) ELSE obj]))
       /\ obj' = (IF ok THEN PickleNorm(obj) ELSE obj) /\ dead' = ~ok
  /\ UNCHANGED <<sec, env>>
Json ==                                                      \* coba.json.loads(coba.json.dumps(r))
  /\ Room /\ RSec /\ IsReward /\ JsonOK(obj)
  /\ hist' = Append(hist, Step("json", Form(obj), [res |-> "ok", now |-> JsonNorm(obj)])) /\ obj' = JsonNorm(obj) /\ UNCHANGED <<sec, env, dead>>
DeepCopy == Room /\ RSec /\ IsReward /\ hist' = Append(hist, Step("deepcopy", 0, [res |-> "ok", now |-> PickleNorm(obj)])) /\ obj' = PickleNorm(obj) /\ UNCHANGED <<sec, env, dead>>
PlainPeers(r) == CASE r.c = "BR" -> {r.am, I(7)}
                   [] r.c = "DR" -> {[t |-> r.ct, v |-> r.rews], L(<<I(7)>>), I(4)}
                   [] OTHER      -> {I(1)}

(* ---- pairs ---- *)
Compare(r2) == /\ Fresh /\ sec = "pairs"
               /\ hist' = <<Step("compare", <<obj, r2>>, EqR(obj, r2))>> /\ dead' = TRUE /\ UNCHANGED <<sec, obj, env>>

(* ---- hashable values: Categorical, HashableDense (T), HashableSparse (M), explicit-hash HashableDense ---- *)
HD(xs, h) == [t |-> "hd", v |-> xs, h |-> h]                      \* HashableDense(items, hash_)
AsVal(x) == IF x.t = "hd" THEN T(x.v) ELSE x
ValU == {S("a"), CatA, CatA2, CatB, OH10, T(<<S("a"), S("b")>>), T(<<CatA, I(1)>>), T(<<>>), T(<<H(2), I(0)>>),
         MX, MXf, MXY, MYX, M(<<<<"x", S("a")>>>>), M(<<>>)}
        \cup (IF Quick THEN {} ELSE {Ct("b", BA), T12, M(<<<<"z", CatA>>>>)})
        \cup {HD(<<I(1), I(2)>>, 5), HD(<<I(1), I(2)>>, 0), HD(<<S("a")>>, -7)}
(* "values4": one call more on the values whose hash is cached and depends on the process *)
ValU4 == {CatA, T(<<S("a"), S("b")>>), T(<<CatA, I(1)>>), OH10, MXY, M(<<<<"x", S("a")>>>>)}
BadCatU == {Ct("c", AB), Ct("a", <<>>), Ct("A", AB)}               \* 324: a value that is not one of the levels
Caches(x) == x.t \in {"tup", "map"}                               \* 391-394, 470-475
ValPeers(x) == IF x.t = "hd" THEN {T(x.v)} ELSE
               {w \in ValU : w.t # "hd" /\ Eq(x, w)} \cup (CASE IsText(x) -> {CatB, I(1)} [] x.t = "tup" -> {OH01, MX} [] OTHER -> {MY, I(1)})
Index(xs, x) == CHOOSE i \in DOMAIN xs : xs[i] = x /\ \A j \in DOMAIN xs : xs[j] = x => i <= j
OneHot(n, k) == [i \in 1..n |-> I(IF i = k THEN 1 ELSE 0)]
LvTxt(lv) == "[" \o Join([i \in DOMAIN lv |-> "'" \o lv[i] \o "'"], ", ") \o "]"
RECURSIVE PyRepr(_)
PyRepr(x) == CASE x.t = "int" -> ToString(x.v) [] x.t = "flt" -> FloatTxt(x.v) [] x.t = "str" -> "'" \o x.v \o "'"
               [] x.t = "cat" -> "Categorical('" \o x.v \o "'," \o LvTxt(x.lv) \o ")"
               [] x.t = "tup" -> "(" \o Join([i \in DOMAIN x.v |-> PyRepr(x.v[i])], ", ") \o (IF Len(x.v) = 1 THEN "," ELSE "") \o ")"
               [] IsMap(x)    -> "{" \o Join([i \in DOMAIN x.v |-> "'" \o x.v[i][1] \o "': " \o PyRepr(x.v[i][2])], ", ") \o "}"
Attrs(x) ==
  CASE x.t = "cat" -> [str |-> x.v, levels |-> x.lv, as_int |-> Index(x.lv, x.v) - 1, as_onehot |-> T(OneHot(Len(x.lv), Index(x.lv, x.v))), repr |-> PyRepr(x)]
    [] x.t = "str" -> [str |-> x.v, repr |-> PyRepr(x)]
    [] x.t \in {"tup", "hd"} -> [len |-> Len(x.v), items |-> x.v, repr |-> PyRepr(T(x.v))]          \* a tuple: test_repr "(1, 2, 3)"
    [] x.t = "map" -> [len |-> Len(x.v), keys |-> [i \in DOMAIN x.v |-> x.v[i][1]], items |-> x.v, repr |-> PyRepr(x)]   \* 461-487
(* hash(x) = the hash of the value in the process it is asked in: [c = canonical text, p = process]; an explicit hash_ is THE hash *)
HashTok(x, e) == IF x.t = "hd" THEN [c |-> "explicit", p |-> x.h]
                 ELSE [c |-> Canon(x), p |-> IF Variant = "stale_hash" /\ Caches(x) /\ e.cached # -1 THEN e.cached ELSE e.proc]
Cache(x, e) == IF Caches(x) /\ e.cached = -1 THEN [e EXCEPT !.cached = e.proc] ELSE e
VSec == sec \in {"values", "values4"}
NewValue(x) == /\ Fresh /\ VSec
               /\ (IF x.t = "cat" /\ \A i \in DOMAIN x.lv : x.lv[i] # x.v
                   THEN hist' = <<Step("new", x, "ValueError")>> /\ dead' = TRUE /\ obj' = obj
                   ELSE hist' = <<Step("new", x, "ok")>> /\ dead' = FALSE /\ obj' = x)
               /\ UNCHANGED <<sec, env>>
AttrsOf    == Room /\ VSec /\ Query("attrs", env.proc, Attrs(obj))
TakeHash   == Room /\ VSec /\ hist' = Append(hist, Step("hash", env.proc, HashTok(obj, env))) /\ env' = Cache(obj, env) /\ UNCHANGED <<sec, obj, dead>>
EqWith(w)  == Room /\ VSec /\ Query("eq", w, Eq(AsVal(obj), w))                                  \* x == w and w == x, w plain and wrapped
Lookup(w)  == Room /\ VSec /\ obj.t # "hd" /\ Hashable(w)                                        \* {x: 1}.get(w) / {w: 1}.get(x), w made freshly in this process
              /\ hist' = Append(hist, Step("lookup", w, Eq(obj, w) /\ HashTok(obj, env) = HashTok(w, [proc |-> env.proc, cached |-> -1])))
              /\ env' = Cache(obj, env) /\ UNCHANGED <<sec, obj, dead>>
PickleHere == Room /\ VSec /\ hist' = Append(hist, Step("pickle", env.proc, "ok")) /\ UNCHANGED <<sec, obj, env, dead>>
CopyValue  == Room /\ VSec /\ hist' = Append(hist, Step("copy", env.proc, "ok")) /\ UNCHANGED <<sec, obj, env, dead>>
(* the pickle is loaded in another process (a spawned worker): str hashes are salted differently there *)
PickleOther == Room /\ VSec /\ env.proc = 0
               /\ hist' = Append(hist, Step("transport", 1, "ok"))
               /\ env' = [proc |-> 1, cached |-> IF Variant = "stale_hash" THEN env.cached ELSE -1] /\ UNCHANGED <<sec, obj, dead>>

(* ---- rows: minimal subclasses of Dense (335), Dense_ (364), Sparse (401), Sparse_ (437) over a list / dict `_row` ---- *)
Row(k, c) == [c |-> "row", k |-> k, v |-> c]
DenseKinds  == {"Dense", "Dense_"}
SparseKinds == {"Sparse", "Sparse_"}
DenseRows  == {L(<<I(1), I(2)>>), L(<<S("a"), CatB>>), L(<<>>), L(<<I(1)>>), T(<<I(1), I(2)>>)}
SparseRows == {D(<<<<"x", I(1)>>>>), D(<<<<"x", I(1)>>, <<"y", I(2)>>>>), D(<<>>), D(<<<<"y", S("a")>>>>)}
RowU == {Row(k, c) : k \in DenseKinds, c \in DenseRows} \cup {Row(k, c) : k \in SparseKinds, c \in SparseRows}
IsDenseRow(r) == r.k \in DenseKinds
RowObj(k, c) == [t |-> "row", k |-> k, v |-> c]                   \* another row object as a comparand
(* == : a dense row equals any SEQUENCE (list, tuple, dense row) of the same length with equal items (355-359); a sparse row
   equals any MAPPING (dict, HashableSparse, sparse row) with equal items (428-432); nothing else.  Iterables that are not
   sequences (str, dict, set) are not stated for dense rows: the code compares them in iteration order. *)
RowEqObs(r, o) ==
  IF IsDenseRow(r) THEN (IF IsSeq(o) THEN SeqEq(r.v.v, o.v) ELSE IF o.t = "row" /\ o.k \in DenseKinds THEN SeqEq(r.v.v, o.v.v) ELSE FALSE)
  ELSE (IF IsMap(o) THEN Eq(r.v, o) ELSE IF o.t = "row" /\ o.k \in SparseKinds THEN Eq(r.v, o.v) ELSE FALSE)
Others(r) ==
  IF IsDenseRow(r) THEN
     {L(r.v.v), T(r.v.v), L(r.v.v \o <<I(9)>>), L(<<I(9)>> \o r.v.v), I(1), None, RowObj("Dense", r.v), RowObj("Dense_", r.v), RowObj("Dense", L(r.v.v \o <<I(1)>>)),
      L([i \in DOMAIN r.v.v |-> IF r.v.v[i].t = "int" THEN H(2 * r.v.v[i].v) ELSE r.v.v[i]])}
     \cup (IF r.v.v = <<>> THEN {} ELSE {L(SubSeq(r.v.v, 1, Len(r.v.v) - 1)), L([r.v.v EXCEPT ![1] = I(7)]), L([r.v.v EXCEPT ![Len(r.v.v)] = S("q")])})
  ELSE
     {D(r.v.v), M(r.v.v), D(r.v.v \o <<<<"z", I(3)>>>>), I(1), None, L(<<>>), RowObj("Sparse", r.v), RowObj("Sparse_", r.v), RowObj("Sparse_", D(r.v.v \o <<<<"z", I(3)>>>>))}
     \cup (IF r.v.v = <<>> THEN {} ELSE {D(SubSeq(r.v.v, 2, Len(r.v.v))), D([r.v.v EXCEPT ![1] = <<r.v.v[1][1], I(7)>>]), D([i \in DOMAIN r.v.v |-> r.v.v[Len(r.v.v) + 1 - i]])})
RSecW == sec = "rows"
NewRow(r)   == Fresh /\ RSecW /\ hist' = <<Step("new", r, "ok")>> /\ obj' = r /\ UNCHANGED <<sec, env, dead>>
RowEq(o)    == Room /\ RSecW /\ Query("eq", o, RowEqObs(obj, o))
RowHash     == Room /\ RSecW /\ Query("hash", 0, "unhashable")              \* __eq__ without __hash__ (a hashable row would have to hash like the tuple it equals)
RowCopy     == Room /\ RSecW /\ Query("copy", 0, IF IsDenseRow(obj) THEN L(obj.v.v) ELSE obj.v)     \* 361, 434: a NEW list / dict of the items
RowAttr(a)  == Room /\ RSecW /\ Query("getattr", a, IF a = "nothing" THEN "AttributeError" ELSE "delegated")   \* 350-353: anything else is asked of `_row`
RowClass    == Room /\ RSecW /\ Query("classify", 0, [dense |-> IsDenseRow(obj), sparse |-> ~IsDenseRow(obj), materialized |-> FALSE])   \* 396-399, 492-497
RowPickle   == Room /\ RSecW /\ hist' = Append(hist, Step("pickle", 0, "ok")) /\ UNCHANGED <<sec, obj, env, dead>>

(* ---- interactions: a dict whose keys, in this order, are the named arguments, then the keyword items as given ---- *)
Pair(k, v) == <<k, v>>
FnDR == [t |-> "fn", r |-> DR("seq", <<I(1), I(2)>>, RewBase(2), I(0), FALSE, "lst")]
FnBR == [t |-> "fn", r |-> BR(CatA, I(1), FALSE)]
FnL1 == [t |-> "fn", r |-> L1(H(3))]
Contexts  == {None, I(7), T(<<I(1), S("a")>>), D(<<<<"x", I(1)>>>>)}
ActionSets == {L(<<I(1), I(2)>>), T(<<S("a"), S("b")>>), L(<<OH10, OH01>>), None}
RewardArgs == {L(<<I(4), I(5)>>), T(<<H(1), I(0)>>), FnDR, FnBR, FnL1}
KwSets == {<<>>, <<Pair("extra", I(5))>>, <<Pair("z", L(<<I(1)>>)), Pair("actions2", None), Pair("a", S("s"))>>}
LoggedKw == {<<>>, <<Pair("actions", L(<<I(1), I(2)>>))>>, <<Pair("rewards", FnDR), Pair("extra", I(5)), Pair("actions", T(<<S("a"), S("b")>>))>>}
Probs == {[t |-> "omitted", v |-> 0], None, I(0), H(1), I(1)}
Sim(c, a, r, kw)    == [c |-> "sim", args |-> <<Pair("context", c), Pair("actions", a), Pair("rewards", r)>>, kw |-> kw]
Gnd(c, a, r, f, kw) == [c |-> "gnd", args |-> <<Pair("context", c), Pair("actions", a), Pair("rewards", r), Pair("feedbacks", f)>>, kw |-> kw]
Log(c, a, r, p, kw) == [c |-> "log", args |-> <<Pair("context", c), Pair("action", a), Pair("reward", r), Pair("probability", p)>>, kw |-> kw]
InterU == {Sim(c, a, r, kw) : c \in Contexts, a \in ActionSets, r \in RewardArgs, kw \in KwSets}
          \cup {Gnd(c, L(<<I(1), I(2)>>), r, f, kw) : c \in Contexts, r \in {L(<<I(4), I(5)>>), FnDR}, f \in RewardArgs, kw \in KwSets}
          \cup {Log(c, a, r, p, kw) : c \in Contexts, a \in {I(1), S("a"), OH10}, r \in {I(1), H(1)}, p \in Probs, kw \in LoggedKw}
(* required arguments: leaving one out is a TypeError (probability is the only optional one) *)
Required(i) == IF i.c = "gnd" THEN 4 ELSE 3
MissingU == {[i EXCEPT !.args = SubSeq(i.args, 1, n)] : i \in {Sim(None, L(<<I(1)>>), L(<<I(4)>>), <<>>), Gnd(None, L(<<I(1)>>), L(<<I(4)>>), L(<<I(5)>>), <<Pair("extra", I(5))>>),
                                                                Log(None, I(1), I(1), H(1), <<>>)}, n \in 0..3}
Given(i) == SelectSeq(i.args, LAMBDA p : ~(p[1] = "probability" /\ p[2].t \in {"omitted", "none"}))     \* 187-188: probability None is left out, 0 is kept
Mapping(i) == Given(i) \o i.kw
ISec == sec = "inter"
NewInter(i) == /\ Fresh /\ ISec
               /\ (IF Len(i.args) < Required(i)
                   THEN hist' = <<Step("new", i, "TypeError")>> /\ dead' = TRUE /\ obj' = obj
                   ELSE hist' = <<Step("new", i, Mapping(i))>> /\ dead' = FALSE /\ obj' = i)
               /\ UNCHANGED <<sec, env>>
ItemsOf     == Room /\ ISec /\ Query("items", 0, Mapping(obj))                         \* list(i.items()): keys in order, values as given
InterPickle == Room /\ ISec /\ hist' = Append(hist, Step("pickle", 0, "ok")) /\ UNCHANGED <<sec, obj, env, dead>>    \* same class, same mapping
InterCopy   == Room /\ ISec /\ hist' = Append(hist, Step("deepcopy", 0, "ok")) /\ UNCHANGED <<sec, obj, env, dead>>
InterClass  == Room /\ ISec /\ Query("classify", 0, [dict |-> TRUE, interaction |-> TRUE, batch |-> FALSE,
                                                     class |-> CASE obj.c = "sim" -> "SimulatedInteraction" [] obj.c = "gnd" -> "GroundedInteraction" [] OTHER -> "LoggedInteraction"])
FnKeys(i) == {p[1] : p \in {Mapping(i)[j] : j \in DOMAIN Mapping(i)}} \cap {"rewards", "feedbacks"}
CallEntry(k, a) == /\ Room /\ ISec /\ k \in FnKeys(obj)                                  \* i[k](a) when the entry is a function
                   /\ LET e == ValOf(Mapping(obj), k) IN e.t = "fn" /\ InDomain(e.r, a) /\ Query("callentry", <<k, a>>, Call(e.r, a))

(* ---- base classes ---- *)
BaseKinds == {"Learner", "Environment", "Evaluator", "EnvironmentFilter", "Source", "Filter", "Sink", "Line"}
ParamForms == {<<>>, <<Pair("a", I(1))>>, <<Pair("a", I(1)), Pair("b", S("x"))>>}
Base(k, ps, given) == [c |-> "base", k |-> k, ps |-> ps, given |-> given]       \* given: the subclass overrides params
BaseU == {Base(k, <<>>, FALSE) : k \in BaseKinds} \cup {Base(k, ps, TRUE) : k \in BaseKinds, ps \in ParamForms}
DictTxt(ps) == "{" \o Join([i \in DOMAIN ps |-> "'" \o ps[i][1] \o "': " \o PyRepr(ps[i][2])], ", ") \o "}"
InnerTxt(ps) == Join([i \in DOMAIN ps |-> "'" \o ps[i][1] \o "': " \o PyRepr(ps[i][2])], ", ")
StrOf(b) == CASE b.k = "Environment" -> IF b.ps = <<>> THEN "<classname>" ELSE DictTxt(b.ps)                    \* 226-227
              [] b.k \in {"Source", "Filter", "Sink", "Line", "EnvironmentFilter"} -> "<classname>(" \o InnerTxt(b.ps) \o ")"   \* 50-52
              [] OTHER -> "U"                                                                                     \* Learner, Evaluator: object's default
AbstractMethod(k) == CASE k = "Environment" -> "read" [] k = "Evaluator" -> "evaluate" [] k = "EnvironmentFilter" -> "filter" [] k = "Source" -> "read"
                       [] k = "Filter" -> "filter" [] k = "Sink" -> "write" [] k = "Line" -> "run" [] OTHER -> "none"
BSec == sec = "base"
NewBase(b)   == Fresh /\ BSec /\ hist' = <<Step("new", b, "ok")>> /\ obj' = b /\ UNCHANGED <<sec, env, dead>>
ParamsOf     == Room /\ BSec /\ Query("params", 0, obj.ps)                               \* the default is {}
StrOfBase    == Room /\ BSec /\ Query("str", 0, StrOf(obj))
Unimpl(m)    == Room /\ BSec /\ obj.k = "Learner" /\ Query("unimplemented", m, "NotImplementedError")   \* 252, 270, 284: the message names `m`
Abstract     == Room /\ BSec /\ Query("abstract", AbstractMethod(obj.k), IF obj.k = "Learner" THEN "instantiated" ELSE "TypeError")   \* a subclass without the abstract method

(* ---- batch: Batch.Callable([r1, r2])(Batch.List([a1, a2])) = Batch.List([r1(a1), r2(a2)]); is_batch(x) = x carries `is_batch` ---- *)
BatchRs == {BR(I(1), I(1), FALSE), BR(CatA, H(1), TRUE), L1(I(1)), DR("seq", <<I(1), S("a")>>, RewBase(2), I(9), TRUE, "lst"), DR("map", <<OH10, I(2)>>, RewAlt(2), I(0), FALSE, "lst"),
            HR(<<I(1), I(2)>>, "lst")}
BatchU == {[c |-> "batch", rs |-> rs] : rs \in [1..2 -> BatchRs] \cup [1..1 -> BatchRs] \cup {<<>>}}
BatchActs == {I(1), I(2), H(2), H(3)}                                                   \* in every reward function's domain
KindsOfThing == {"Batch.List", "Batch.Callable", "list", "tuple", "None", "int", "dict", "interaction", "reward"}
TSec == sec = "batch"
NewBatch(b)  == Fresh /\ TSec /\ hist' = <<Step("new", b, "ok")>> /\ obj' = b /\ UNCHANGED <<sec, env, dead>>
CallBatch(xs) == Room /\ TSec /\ Len(xs) = Len(obj.rs) /\ Query("callbatch", xs, [i \in DOMAIN xs |-> Call(obj.rs[i], xs[i])])
IsBatchOf(k) == Room /\ TSec /\ Query("is_batch", k, k \in {"Batch.List", "Batch.Callable"})

(* the comparands / arguments of the current object (empty outside their section, so that Next is total) *)
RObj == RSec /\ hist # <<>>
HistCallsNow  == IF sec = "rhist" /\ hist # <<>> THEN HistCalls(obj) ELSE {}
PlainPeersNow == IF RObj THEN PlainPeers(obj) ELSE {}
ValPeersNow   == IF VSec /\ hist # <<>> /\ ~dead THEN ValPeers(obj) ELSE {}
OthersNow     == IF RSecW /\ hist # <<>> THEN Others(obj) ELSE {}
BatchArgs     == IF TSec /\ hist # <<>> THEN [1..2 -> BatchActs] \cup [1..1 -> BatchActs] \cup {<<>>} ELSE {}
(* the constructor arguments (empty once an object exists and outside their section: TLC does not enumerate them in vain) *)
NewRewards == IF Fresh /\ RSec THEN (CASE sec = "rhist" -> HistU [] sec = "rewards2" -> RewardUQ [] OTHER -> RewardU) ELSE {}
NewPairs   == IF Fresh /\ sec = "pairs" THEN PairU ELSE {}
NewValues  == IF Fresh /\ VSec THEN (IF sec = "values4" THEN ValU4 ELSE ValU \cup BadCatU) ELSE {}
NewRows    == IF Fresh /\ RSecW THEN RowU ELSE {}
NewInters  == IF Fresh /\ ISec THEN InterU \cup MissingU ELSE {}
NewBases   == IF Fresh /\ BSec THEN BaseU ELSE {}
NewBatches == IF Fresh /\ TSec THEN BatchU ELSE {}
Next == \/ \E r \in NewRewards : NewReward(r)
        \/ \E a \in HistCallsNow : CallOne(a)
        \/ ReprOf \/ HashOf \/ EqSelf \/ PropsOf \/ Pickle \/ Json \/ DeepCopy
        \/ \E x \in PlainPeersNow : EqPlain(x)
        \/ \E r2 \in NewPairs : Compare(r2)
        \/ \E x \in NewValues : NewValue(x)
        \/ AttrsOf \/ TakeHash \/ PickleHere \/ CopyValue \/ PickleOther
        \/ \E w \in ValPeersNow : EqWith(w)
        \/ \E w \in ValPeersNow : Lookup(w)
        \/ \E r \in NewRows : NewRow(r)
        \/ \E o \in OthersNow : RowEq(o)
        \/ RowHash \/ RowCopy \/ RowClass \/ RowPickle
        \/ \E a \in {"count", "nothing"} : RowAttr(a)
        \/ \E i \in NewInters : NewInter(i)
        \/ ItemsOf \/ InterPickle \/ InterCopy \/ InterClass
        \/ \E k \in {"rewards", "feedbacks"} : \E a \in {I(1), H(3), CatA2} : CallEntry(k, a)
        \/ \E b \in NewBases : NewBase(b)
        \/ ParamsOf \/ StrOfBase \/ Abstract
        \/ \E m \in {"score", "predict", "learn"} : Unimpl(m)
        \/ \E b \in NewBatches : NewBatch(b)
        \/ \E xs \in BatchArgs : CallBatch(xs)
        \/ \E k \in KindsOfThing : IsBatchOf(k)
Spec == Init /\ [][Next]_vars

(* ===================== what the design guarantees (checked by TLC) ===================== *)
Init0 == hist[1].arg                                              \* the object as it was constructed
HasObj == obj # NoObj /\ hist # <<>>
(* the laws below are functions of `obj` alone: they are evaluated where `obj` is new (after the constructor, after a copying step) *)
LastOp == hist[Len(hist)].op
RewardState == RSec /\ HasObj /\ IsReward /\ (Len(hist) = 1 \/ LastOp \in {"pickle", "json", "deepcopy"})
(* totality: every action of the domain gets a number - a stored reward, the default, 0 or a ratio with a positive denominator *)
Total == RewardState => LET cs == CallSeq(obj) IN \A i \in DOMAIN cs :
            LET y == Call(obj, cs[i]) IN IF y.t = "q" THEN y.d > 0 /\ y.n >= 0 /\ y.n <= y.d ELSE y.t \in {"int", "flt", "inf"}
(* equal actions earn equal rewards - so the table DiscreteReward(actions, map(r, actions)) made from r is r on those actions *)
CallRespectsEq == RewardState => LET cs == CallSeq(obj)
                                     ys == [i \in DOMAIN cs |-> Call(obj, cs[i])]
                                 IN  \A i, j \in DOMAIN cs : Eq(cs[i], cs[j]) => SameRes(ys[i], ys[j])
TableAgrees == (RewardState /\ obj.c # "HR") =>
                  LET cs == CallSeq(obj)
                      ys == [i \in DOMAIN cs |-> Call(obj, cs[i])]
                      tb == DR("seq", cs, ys, I(0), FALSE, "lst")
                  IN  \A i \in DOMAIN cs : SameRes(Call(tb, cs[i]), ys[i])
(* DiscreteReward(actions, rewards): actions[i] earns rewards[i] - of several equal actions the first *)
FirstOfDuplicates == (RewardState /\ obj.c = "DR") => \A i \in DOMAIN obj.acts :
                        Call(obj, obj.acts[i]) = obj.rews[CHOOSE j \in 1..i : Eq(obj.acts[j], obj.acts[i]) /\ \A q \in 1..(j - 1) : ~Eq(obj.acts[q], obj.acts[i])]
(* BinaryReward(a, v) is the table {a: v} with default 0; HammingReward on single labels is the table {label: 1/n} *)
BinaryIsDiscrete == (RewardState /\ obj.c = "BR") => LET tb == DR("seq", <<obj.am>>, <<obj.val>>, I(0), FALSE, "lst") IN
                       \A i \in DOMAIN ActSeq : SameRes(Call(obj, ActSeq[i]), Call(tb, ActSeq[i]))
HammingOnSets == (RewardState /\ obj.c = "HR" /\ NoDups(obj.am)) =>
                    /\ \A i \in DOMAIN obj.am : SameRes(Call(obj, obj.am[i]), Q(1, Len(obj.am)))
                    /\ SameRes(Call(obj, L(obj.am)), Q(1, 1)) /\ SameRes(Call(obj, T(obj.am)), Q(1, 1))
                    /\ SameRes(Call(obj, I(77)), Q(0, 1))
(* copies are the same function: the call table never changes, whatever was done to the object before *)
CallsPreserved == (RewardState /\ ~dead) => LET r0 == Init0  cs == CallSeq(r0) IN \A i \in DOMAIN cs : SameRes(Call(r0, cs[i]), Call(obj, cs[i]))
EqPreserved == (RewardState /\ ~dead /\ \A i \in DOMAIN hist : hist[i].op # "json") => EqR(Init0, obj) # "F"
PickleTotal == RSec => \A i \in DOMAIN hist : hist[i].op = "pickle" => hist[i].obs.res = "ok"
(* == between reward functions is an equivalence and equal functions are the same function *)
PairState == sec = "pairs" /\ hist # <<>>
P1 == hist[1].arg[1]
P2 == hist[1].arg[2]
EqSymmetric  == PairState => EqR(P1, P2) = EqR(P2, P1)
EqReflexive  == PairState => EqR(P1, P1) # "F"
EqTransitive == (PairState /\ EqR(P1, P2) = "T") => LET r1 == P1  r2 == P2 IN \A r3 \in PairU : EqR(r2, r3) = "T" => EqR(r1, r3) = "T"
Extensional  == (PairState /\ EqR(P1, P2) = "T") => LET r1 == P1  r2 == P2  cs == CallSeq(r1) IN \A i \in DOMAIN cs : SameRes(Call(r1, cs[i]), Call(r2, cs[i]))
(* values: == is an equivalence that Canon decides, so a hash that is a function of Canon and of the process is consistent with it *)
ValState == VSec /\ HasObj
CanonIsEq == (ValState /\ Len(hist) = 1) => \A w \in ValU \cup Acts : (w.t # "hd" /\ obj.t # "hd") => (Eq(obj, w) <=> Canon(obj) = Canon(w))
HashFollowsEq == (ValState /\ LastOp = "hash" /\ obj.t # "hd") => hist[Len(hist)].obs = [c |-> Canon(obj), p |-> hist[Len(hist)].arg]
LookupFindsEqual == (ValState /\ LastOp = "lookup") => hist[Len(hist)].obs = Eq(obj, hist[Len(hist)].arg)
OneTransport == VSec => Cardinality({i \in DOMAIN hist : hist[i].op = "transport"}) <= 1 /\ (env.proc = 1 <=> \E i \in DOMAIN hist : hist[i].op = "transport")
(* interactions: the named arguments first, in their order; nothing but probability is ever left out; keyword items verbatim and last *)
InterState == ISec /\ HasObj
InterKeys == InterState => LET m == Mapping(obj) IN
               /\ \A i, j \in DOMAIN m : i # j => m[i][1] # m[j][1]
               /\ SubSeq(m, Len(m) - Len(obj.kw) + 1, Len(m)) = obj.kw
               /\ Len(m) - Len(obj.kw) \in {Len(obj.args), Len(obj.args) - 1}
               /\ (Len(m) - Len(obj.kw) = Len(obj.args) - 1) => (obj.c = "log" /\ obj.args[4][2].t \in {"omitted", "none"})

(* a behaviour is printed when it is complete; the call table of a reward function once, where it is constructed *)
Emit == /\ Terminal => PrintT(ToJson([sec |-> sec, steps |-> hist]))
        /\ (RSec /\ Len(hist) = 1 /\ ~dead) => PrintT(ToJson([sec |-> sec, reward |-> hist[1].arg, table |-> Table(hist[1].arg)]))
=============================================================================
