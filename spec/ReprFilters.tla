----------------------------- MODULE ReprFilters -----------------------------
(***************************************************************************)
(* C10 - changing representation never changes which action earns which    *)
(* reward.                                                                 *)
(*                                                                         *)
(* The module is a state machine over ONE environment (1-3 interactions):  *)
(* a state is the current representation of every interaction's actions,   *)
(* of the logged action, the current binding of the reward / feedback      *)
(* objects and the batching; there is one action per representation        *)
(* filter (= one public `filter` call of the class named in its comment).  *)
(* Every reachable state with a non-empty history is one CASE: TLC prints  *)
(* the environment, the chain of filters applied so far and what the       *)
(* property demands of the result (Emit).  The demanded values are fixed   *)
(* in Init from the ORIGINAL interaction - that they are the same after    *)
(* every step is exactly the property - and TLC checks on the model that   *)
(* the intended design (every step that changes an action re-binds the     *)
(* functional rewards / feedbacks and carries the logged action along)     *)
(* does conserve them: Conserved, LoggedMember (the logged reward and      *)
(* probability are data no representation filter has any business with:    *)
(* they are constants of the case).                                        *)
(*                                                                         *)
(* ABSTRACT VALUES (uniform records so that TLC can compare any two)       *)
(*   Num(n) number           Str(s) string          Cat(j) categorical     *)
(*   Sq(<<v..>>) dense vector (tuple / list / LazyDense ..), may be nested *)
(*   Map({Ent(k,v)..}) sparse mapping with string keys                     *)
(*   Sd({Ent(k,v)..})  the dense vector produced by Densify: the entries   *)
(*        that are not 0, named by the key they came from (the position    *)
(*        is an injective function of the key - see DensifyVal)            *)
(* Equality of abstract values is the equality the reward functions of     *)
(* coba/primitives.py use (`argmax == action`, `action in actions`).       *)
(*                                                                         *)
(* REWARD OBJECTS  [k, a, r, d]  (all reward values are pairs <<p, q>>,    *)
(* the rational p/q; floats never enter the module)                        *)
(*   "list"      r[i] is the reward of the i-th action (a sequence)        *)
(*   "binary"    BinaryReward(a[1], r[1])          primitives.py 563-582   *)
(*   "discrete"  DiscreteReward(a, r, default=d)   primitives.py 638-685   *)
(*   "mapping"   DiscreteReward({a[j]: r[j]}, default=d)  (same meaning)   *)
(*   "hamming"   HammingReward(a)                  primitives.py 603-626   *)
(*   "l1"        L1Reward(d)                       primitives.py 533-548   *)
(*   "fn"        an arbitrary callable: a lookup table a -> r that answers *)
(*               d (= -99) for anything that is not one of its arguments   *)
(*   "none"      the interaction has no such field                         *)
(***************************************************************************)
EXTENDS Integers, Sequences, FiniteSets, TLC, Json, SequencesExt

CONSTANTS MaxLen,     \* longest chain of filters explored
          Level1, Level2, Level3,   \* which parameter settings are explored for the 1st / 2nd / 3rd filter of a chain:
                                    \* "full" | "lite" | "tiny" | "off"
          Shapes,     \* action shapes explored in this run (subset of AllShapes)
          Flavours,   \* subset of {"sim","igl","iglmix","logged"}
          Mixes,      \* reward forms that change between the interactions of one environment: "none" | "few" | "all" | "only"
          Envs        \* subset of {"one","same","diff","samediff","rev"}

VARIABLES case,     \* the environment as generated (never changes)
          acts,     \* acts[n][i]: current representation of the i-th action of interaction n
          lact,     \* lact[n]: current representation of the logged action (Num(0) when not logged)
          rw, fb,   \* rw[n], fb[n]: current reward / feedback object of interaction n
          groups,   \* current batching: sequence of sequences of interaction numbers, in order
          batched,  \* are the interactions currently batched (values are Batch.List / Batch.Callable)
          hist      \* the filters applied so far: <<[st, groups, batched, kind]..>>
vars == <<case, acts, lact, rw, fb, groups, batched, hist>>

----------------------------------------------------------------------------
(* abstract values *)
Num(n)    == [t |-> "num", n |-> n, s |-> "",  v |-> <<>>, m |-> {}]
Str(s)    == [t |-> "str", n |-> 0, s |-> s,   v |-> <<>>, m |-> {}]
Lev       == <<"a", "b", "c">>                  \* the levels of every categorical
NLev      == 3
Cat(j)    == [t |-> "cat", n |-> j, s |-> Lev[j], v |-> <<>>, m |-> {}]     \* Categorical(Lev[j], Lev)
Sq(v)     == [t |-> "seq", n |-> 0, s |-> "",  v |-> v,    m |-> {}]
Ent(k, x) == [t |-> "ent", n |-> 0, s |-> k,   v |-> <<x>>, m |-> {}]
Map(es)   == [t |-> "map", n |-> 0, s |-> "",  v |-> <<>>, m |-> es]
Sd(es)    == [t |-> "sd",  n |-> 0, s |-> "",  v |-> <<>>, m |-> es]
Zero      == Num(0)
NSq(ns)   == Sq([i \in DOMAIN ns |-> Num(ns[i])])

RECURSIVE Concat(_)
Concat(ss) == IF ss = <<>> THEN <<>> ELSE Head(ss) \o Concat(Tail(ss))
Rev(s)     == [i \in DOMAIN s |-> s[Len(s) + 1 - i]]
Distinct(s) == \A i, j \in DOMAIN s : i < j => s[i] # s[j]
(* position of the first member equal to x, 0 when there is none: list.index / `in` *)
IndexOf(x, s) == IF \E i \in DOMAIN s : s[i] = x THEN CHOOSE i \in DOMAIN s : s[i] = x /\ \A j \in 1..(i - 1) : s[j] # x ELSE 0
Abs(x) == IF x < 0 THEN -x ELSE x

----------------------------------------------------------------------------
(* WHAT EACH FILTER DOES TO ONE ACTION.                                    *)
(* Only the equality structure of these images matters to the property (a  *)
(* step must be an injective relabelling of the interaction's actions, the *)
(* guard in Do); the concrete objects are not compared with them.          *)

Onehot(j) == [i \in 1..NLev |-> Num(IF i = j THEN 1 ELSE 0)]               \* Categorical.as_onehot, primitives.py 313-318

(* pipes/rows.py EncodeCatRows 533-623, mode m = cat_actions *)
RECURSIVE ReprVal(_, _)
ReprElem(m, e) ==          \* an element of a dense row: 587-606 (onehot splices in place, onehot_tuple nests)
  IF e.t \in {"seq", "map"} THEN <<ReprVal(m, e)>>      \* a NESTED part is searched the same way (catkey / catset recursion 559-590)
  ELSE IF e.t # "cat" THEN <<e>>
  ELSE CASE m = "string"       -> <<Str(e.s)>>
         [] m = "onehot_tuple" -> <<Sq(Onehot(e.n))>>
         [] m = "onehot"       -> Onehot(e.n)
ReprEnt(m, e) ==           \* an entry of a sparse row
  IF e.v[1].t \in {"seq", "map"} THEN {Ent(e.s, ReprVal(m, e.v[1]))}     \* nested part of a sparse row
  ELSE IF e.v[1].t # "cat" THEN {e}
  ELSE LET c == e.v[1]  j0 == c.n - 1 IN
       CASE m = "string"       -> {Ent(e.s, Str(c.s))}
         [] m = "onehot_tuple" -> {Ent(e.s, Sq(Onehot(c.n)))}
         [] m = "onehot"       ->  \* 601-603 as coded: o[f'{k}_{h[i]}'] = i for i >= 1 (not a one-hot, but injective in the level)
              (IF j0 >= 1 THEN {Ent(e.s \o "_1", Num(j0))} ELSE {}) \cup
              (LET S == {i \in 1..(NLev - 1) : i # j0} IN IF S = {} THEN {} ELSE {Ent(e.s \o "_0", Num(Max(S)))})
ReprVal(m, a) ==
  IF m = "None" THEN a                                                      \* 538
  ELSE CASE a.t = "cat" -> (IF m = "string" THEN Str(a.s) ELSE Sq(Onehot(a.n)))   \* _encode_values 549-555
         [] a.t = "seq" -> Sq(Concat([i \in DOMAIN a.v |-> ReprElem(m, a.v[i])]))  \* _encode_collection 557-623
         [] a.t = "map" -> Map(UNION {ReprEnt(m, e) : e \in a.m})
         [] OTHER       -> a          \* numbers, strings; Dense_ objects such as SparseDense are not searched (catkey 561-567)

(* pipes/filters.py Flatten 203-246: one level *)
FlatEnts(e) == IF e.v[1].t = "seq"
               THEN {Ent(e.s \o "_" \o ToString(i - 1), e.v[1].v[i]) : i \in DOMAIN e.v[1].v}   \* 226
               ELSE {e}
FlattenVal(a) ==
  CASE a.t = "seq" -> Sq(Concat([i \in DOMAIN a.v |-> IF a.v[i].t = "seq" THEN a.v[i].v ELSE <<a.v[i]>>]))   \* 232-242
    [] a.t = "map" -> IF \E e \in a.m : e.v[1].t = "seq"
                      THEN Map({x \in UNION {FlatEnts(e) : e \in a.m} : x.v[1] # Zero})          \* 246 (`if v != 0`)
                      ELSE a                                                                      \* 237
    [] a.t = "sd"  -> Sd({x \in UNION {FlatEnts(e) : e \in a.m} : x.v[1] # Zero})                 \* a Dense: 241; 0 stays the background
    [] OTHER       -> a                                                                           \* 216-217, 237

(* environments/filters.py Sparsify._make_sparse 451-465 *)
SparsifyVal(a) ==
  CASE a.t = "seq" -> Map({Ent(ToString(i - 1), a.v[i]) : i \in {p \in DOMAIN a.v : a.v[p] # Zero}})    \* 460
    [] a.t = "sd"  -> Map({Ent("#" \o e.s, e.v[1]) : e \in a.m})              \* 460: str(position), position = index of the key
    [] a.t = "map" -> a                                                      \* 462-463
    [] OTHER       -> Map({Ent("action", a)})                                \* 465

(* environments/filters.py Densify._make_dense 547-590: SparseDense({index(k): v}, n_feats).  index is injective on the *)
(* keys (lookup: always while there are at most n_feats keys; hashing: an assumption on the keys, see the driver), so    *)
(* the vector is determined by the entries that are not 0.                                                               *)
DensifyVal(a) == IF a.t = "map" THEN Sd({e \in a.m : e.v[1] # Zero}) ELSE a  \* 581-582

(* environments/filters.py Noise._noises / _noise 962-973 with an injective noiser (x + 10 stands for it) *)
NoiseNum(x) == IF x.t = "num" THEN Num(x.n + 10) ELSE x                      \* 973
NoiseVal(a) ==
  CASE a.t = "seq" -> Sq([i \in DOMAIN a.v |-> NoiseNum(a.v[i])])            \* 968-969
    [] a.t \in {"map", "sd"} -> [a EXCEPT !.m = {Ent(e.s, NoiseNum(e.v[1])) : e \in a.m}]   \* 965-967 (968-969 for sd)
    [] OTHER -> NoiseNum(a)                                                  \* 970

----------------------------------------------------------------------------
(* filter steps: [f, x, y, n] *)
St(f, x, y, n) == [f |-> f, x |-> x, y |-> y, n |-> n]
CatModes == {"None", "onehot", "onehot_tuple", "string"}
Flag     == {"T", "F"}

ReprSteps(lv) ==          \* Repr(categorical_context = x, categorical_actions = y)
  CASE lv = "full" -> {St("repr", c, a, 0) : c \in CatModes, a \in CatModes}
    [] lv = "lite" -> {St("repr", "onehot", "onehot", 0), St("repr", "None", "onehot_tuple", 0),
                       St("repr", "string", "string", 0), St("repr", "onehot_tuple", "None", 0)}
    [] lv = "tiny" -> {St("repr", "onehot_tuple", "onehot_tuple", 0), St("repr", "string", "onehot", 0)}
    [] OTHER -> {}
FlattenSteps(lv) == IF lv = "off" THEN {} ELSE {St("flatten", "", "", 0)}
SparsifySteps(lv) ==      \* Sparsify(context = x, action = y)
  CASE lv = "full" -> {St("sparsify", c, a, 0) : c \in Flag, a \in Flag}
    [] lv = "lite" -> {St("sparsify", "T", "F", 0), St("sparsify", "F", "T", 0)}
    [] lv = "tiny" -> {St("sparsify", "T", "T", 0)}
    [] OTHER -> {}
DensifySteps(lv) ==       \* Densify(method = lookup (n = 0) / hashing (n = 1), context = x, action = y)
  CASE lv = "full" -> {St("densify", c, a, k) : c \in Flag, a \in Flag, k \in {0, 1}}
    [] lv = "lite" -> {St("densify", "T", "T", 0), St("densify", "F", "T", 1), St("densify", "T", "F", 1)}
    [] lv = "tiny" -> {St("densify", "T", "T", 0)}
    [] OTHER -> {}
NoiseSteps(lv) ==         \* Noise(action = a callable / ('g',0,1) / (0,1)), nothing else noised
  CASE lv = "full" -> {St("noise", "fn", "", 0), St("noise", "g3", "", 0), St("noise", "g2", "", 0)}
    [] lv \in {"lite", "tiny"} -> {St("noise", "fn", "", 0)}
    [] OTHER -> {}
BatchSteps(lv) ==         \* Batch(batch_size = n), n = 0 stands for None
  CASE lv = "full" -> {St("batch", "", "", b) : b \in 0..3}
    [] lv = "lite" -> {St("batch", "", "", 2)}
    [] lv = "tiny" -> {St("batch", "", "", 2)}
    [] OTHER -> {}
UnbatchSteps(lv)  == IF lv = "off" THEN {} ELSE {St("unbatch", "", "", 0)}
FinalizeSteps(lv) == IF lv = "off" THEN {} ELSE {St("finalize", "", "", 0)}

LevelAt(d) == IF d = 1 THEN Level1 ELSE IF d = 2 THEN Level2 ELSE Level3

(* the image of one action under a step *)
ActT(st, a) ==
  CASE st.f = "repr"     -> ReprVal(st.y, a)
    [] st.f = "flatten"  -> FlattenVal(a)
    [] st.f = "sparsify" -> (IF st.y = "T" THEN SparsifyVal(a) ELSE a)       \* 443-447
    [] st.f = "densify"  -> (IF st.y = "T" THEN DensifyVal(a) ELSE a)        \* 539-543
    [] st.f = "noise"    -> NoiseVal(a)
    [] st.f = "finalize" -> ReprVal("onehot", a)                             \* Finalize 1664: Harden (same values) then Repr("onehot","onehot")
    [] OTHER             -> a                                                \* batch, unbatch

(* the kind of value a step produces from a kind: total on every kind *)
KindAfter(st, k) ==
  CASE st.f \in {"repr", "finalize"} ->
         (IF k # "cat" THEN k
          ELSE LET m == IF st.f = "finalize" THEN "onehot" ELSE st.y IN
               IF m = "None" THEN "cat" ELSE IF m = "string" THEN "str" ELSE "seq")
    [] st.f = "sparsify" -> (IF st.y = "T" THEN "map" ELSE k)
    [] st.f = "densify"  -> (IF st.y = "T" /\ k = "map" THEN "sd" ELSE k)
    [] OTHER -> k

----------------------------------------------------------------------------
(* reward objects *)
P(x)   == <<x, 1>>
NoneR  == [k |-> "none", a |-> <<>>, r |-> <<>>, d |-> P(0)]
Disc(as, rs, d) == [k |-> "discrete", a |-> as, r |-> rs, d |-> d]
Bin(am, val)    == [k |-> "binary", a |-> <<am>>, r |-> <<val>>, d |-> P(0)]

(* the reward the object R gives to the action x, when asked *)
EvalV(R, x) ==
  CASE R.k = "binary" -> (IF x = R.a[1] THEN R.r[1] ELSE P(0))                                  \* 578-582
    [] R.k \in {"discrete", "mapping", "fn"} -> (LET j == IndexOf(x, R.a) IN IF j = 0 THEN R.d ELSE R.r[j]) \* 676-685
    [] R.k = "hamming" -> (LET el == x.v                                                        \* 615-626
                               ni == Cardinality({p \in DOMAIN el : \E q \in DOMAIN R.a : R.a[q] = el[p]})
                           IN  <<ni, Len(R.a) + Len(el) - ni>>)
    [] R.k = "l1" -> P(-Abs(x.n - R.d[1]))                                                      \* 545-548
(* "the reward the i-th action receives": a sequence is read by position, a function is called with the action *)
Eval(R, as, i) == IF R.k = "list" THEN R.r[i] ELSE EvalV(R, as[i])

(* How a step that maps the actions `old` to `new` re-binds a reward object (the intended design: Repr 1201-1211,   *)
(* Flatten 692-694, Noise 955-958, Finalize 1669-1673).  A sequence stays a sequence (Finalize turns it into a     *)
(* DiscreteReward over the new actions); a BinaryReward moves its argmax to the same POSITION; anything else is    *)
(* tabulated over the old actions and re-keyed by the new ones.                                                    *)
Rebind(R, old, new, fin) ==
  IF R.k = "none" THEN R
  ELSE IF R.k = "list" THEN (IF fin THEN Disc(new, R.r, P(0)) ELSE R)
  ELSE IF new = old THEN R
  ELSE IF R.k = "binary" /\ IndexOf(R.a[1], old) # 0 THEN Bin(new[IndexOf(R.a[1], old)], R.r[1])
  ELSE Disc(new, [i \in DOMAIN old |-> Eval(R, old, i)], P(0))

----------------------------------------------------------------------------
(* THE CATALOGUE: per shape two sets of three distinct actions of the same form *)
AllShapes == {"scalar", "string", "cat", "dense", "densecat", "nested", "sparse", "sparsecat", "sparsecatk", "sparsenest", "sparsepart", "sparsezero", "nestedcat", "nestedmix", "sparsenestcat", "sparsenull"}
ShapeSets(sh) ==
  CASE sh = "scalar"   -> << <<Num(1), Num(2), Num(3)>>, <<Num(2), Num(5), Num(0)>> >>
    [] sh = "string"   -> << <<Str("a"), Str("b"), Str("c")>>, <<Str("c"), Str("d"), Str("a")>> >>
    [] sh = "cat"      -> << <<Cat(1), Cat(2), Cat(3)>>, <<Cat(3), Cat(1), Cat(2)>> >>
    [] sh = "dense"    -> << <<NSq(<<1, 0, 2>>), NSq(<<0, 1, 2>>), NSq(<<3, 3, 0>>)>>,
                             <<NSq(<<0, 0, 1>>), NSq(<<1, 0, 0>>), NSq(<<2, 2, 2>>)>> >>
    [] sh = "densecat" -> << <<Sq(<<Cat(1), Num(1)>>), Sq(<<Cat(2), Num(1)>>), Sq(<<Cat(2), Num(2)>>)>>,
                             <<Sq(<<Cat(3), Num(0)>>), Sq(<<Cat(1), Num(0)>>), Sq(<<Cat(3), Num(2)>>)>> >>
    [] sh = "nested"   -> << <<Sq(<<NSq(<<1, 2>>), Num(3)>>), Sq(<<NSq(<<1, 3>>), Num(3)>>), Sq(<<NSq(<<2, 2>>), Num(0)>>)>>,
                             <<Sq(<<NSq(<<0, 1>>), Num(1)>>), Sq(<<NSq(<<1, 0>>), Num(1)>>), Sq(<<NSq(<<1, 1>>), Num(2)>>)>> >>
    [] sh = "sparse"   -> << <<Map({Ent("x", Num(1))}), Map({Ent("y", Num(1))}), Map({Ent("x", Num(1)), Ent("y", Num(2))})>>,
                             <<Map({Ent("x", Num(2))}), Map({Ent("x", Num(0)), Ent("y", Num(1))}), Map({Ent("y", Num(1))})>> >>   \* an explicit 0: Densify merges the last two (guard)
    [] sh = "sparsecat" -> << <<Map({Ent("x", Cat(1)), Ent("y", Num(1))}), Map({Ent("x", Cat(2))}), Map({Ent("x", Cat(3)), Ent("y", Num(2))})>>,
                              <<Map({Ent("x", Cat(3))}), Map({Ent("x", Cat(1)), Ent("y", Num(2))}), Map({Ent("x", Cat(1)), Ent("y", Num(3))})>> >>
    [] sh = "sparsecatk" -> << <<Map({Ent("kind", Cat(1)), Ent("size", Num(1))}), Map({Ent("kind", Cat(2))}), Map({Ent("kind", Cat(3)), Ent("size", Num(2))})>>,   \* sparsecat with ordinary key names
                               <<Map({Ent("kind", Cat(3))}), Map({Ent("kind", Cat(1)), Ent("size", Num(2))}), Map({Ent("kind", Cat(1)), Ent("size", Num(3))})>> >>
    [] sh = "sparsepart" -> \* sparse actions of which only SOME carry the nested value: a step may change some actions of an
                            \* interaction and leave others (in set 2 the FIRST one) as they are
                            << <<Map({Ent("x", NSq(<<1, 2>>))}), Map({Ent("y", Num(1))}), Map({Ent("x", NSq(<<2, 2>>)), Ent("y", Num(2))})>>,
                               <<Map({Ent("y", Num(2))}), Map({Ent("x", NSq(<<1, 2>>))}), Map({Ent("x", NSq(<<0, 2>>)), Ent("y", Num(1))})>> >>
    [] sh = "sparsezero" -> \* sparse actions that STORE a 0: as mappings {x:1,y:0} and {x:1,z:2} differ, and so do the vectors Densify makes
                            \* of them (the entries that are not 0 differ) - in both orders
                            << <<Map({Ent("x", Num(1)), Ent("y", Num(0))}), Map({Ent("x", Num(1)), Ent("z", Num(2))}), Map({Ent("z", Num(2))})>>,
                               <<Map({Ent("x", Num(1)), Ent("z", Num(2))}), Map({Ent("x", Num(1)), Ent("y", Num(0))}), Map({Ent("z", Num(2))})>> >>
    [] sh = "nestedcat" -> \* a categorical ONLY inside a nested part of a dense action (EncodeCatRows re-encodes the nested part; the action
                           \* changes although its top level holds nothing categorical)
                           << <<Sq(<<Num(7), Sq(<<Cat(1), Num(2)>>)>>), Sq(<<Num(7), Sq(<<Cat(2), Num(2)>>)>>), Sq(<<Num(8), Sq(<<Cat(2), Num(2)>>)>>)>>,
                              <<Sq(<<Num(0), Sq(<<Cat(3), Num(1)>>)>>), Sq(<<Num(0), Sq(<<Cat(1), Num(1)>>)>>), Sq(<<Num(0), Sq(<<Cat(3), Num(0)>>)>>)>> >>
    [] sh = "nestedmix" -> \* categoricals at the top level AND inside a nested part of the same dense action
                           << <<Sq(<<Cat(1), Sq(<<Cat(2), Num(2)>>)>>), Sq(<<Cat(2), Sq(<<Cat(2), Num(2)>>)>>), Sq(<<Cat(2), Sq(<<Cat(3), Num(2)>>)>>)>>,
                              <<Sq(<<Cat(3), Sq(<<Cat(3), Num(1)>>)>>), Sq(<<Cat(1), Sq(<<Cat(3), Num(1)>>)>>), Sq(<<Cat(1), Sq(<<Cat(1), Num(1)>>)>>)>> >>
    [] sh = "sparsenestcat" -> \* sparse actions: a categorical inside a nested vector under one key, a plain categorical under an ordinary key name
                           << <<Map({Ent("x", Sq(<<Cat(1), Num(1)>>)), Ent("kind", Cat(1))}), Map({Ent("x", Sq(<<Cat(2), Num(1)>>)), Ent("kind", Cat(1))}), Map({Ent("x", Sq(<<Cat(2), Num(1)>>)), Ent("kind", Cat(3))})>>,
                              <<Map({Ent("x", Sq(<<Cat(3), Num(2)>>)), Ent("kind", Cat(2))}), Map({Ent("x", Sq(<<Cat(3), Num(1)>>)), Ent("kind", Cat(2))}), Map({Ent("x", Sq(<<Cat(1), Num(1)>>)), Ent("kind", Cat(2))})>> >>
    [] sh = "sparsenull" -> \* one action is the NULL sparse action {} (Densify makes a vector without a stored entry of it; such a vector
                            \* can only be found among the actions as the very object it is)
                            << <<Map({}), Map({Ent("x", Num(1))}), Map({Ent("y", Num(1))})>>,
                               <<Map({Ent("y", Num(2))}), Map({}), Map({Ent("x", Num(2)), Ent("y", Num(1))})>> >>
    [] sh = "sparsenest" -> << <<Map({Ent("x", NSq(<<1, 2>>)), Ent("y", Num(1))}), Map({Ent("x", NSq(<<0, 2>>))}), Map({Ent("x", NSq(<<2, 2>>)), Ent("y", Num(2))})>>,
                               <<Map({Ent("x", NSq(<<3, 0>>))}), Map({Ent("x", NSq(<<1, 1>>)), Ent("y", Num(1))}), Map({Ent("x", NSq(<<1, 1>>))})>> >>

(* which reward kinds make sense for a shape: HammingReward takes label vectors, L1Reward numbers *)
RewardKinds(sh) == {"list", "binary", "disc", "discrev", "discpart", "fn"}
                   \cup (IF sh = "dense" THEN {"hamming"} ELSE {}) \cup (IF sh = "scalar" THEN {"l1"} ELSE {})

EnvUse(env) == CASE env = "one" -> <<1>> [] env = "same" -> <<1, 1>> [] env = "diff" -> <<1, 2, 1>> [] env = "samediff" -> <<1, 1, 2>>
               [] env = "rev" -> <<2, 1>>      \* starts with the other action set: the SECOND environment a reused filter object meets

(* the reward object of interaction n; mul / off make the feedbacks differ from the rewards *)
MkR(rk, n, as, mul, off) ==
  LET K  == Len(as)
      rv == [i \in 1..K |-> P(mul * (((i + n) % K) + 1))]          \* a rotation of 1..K
      am == ((n + off) % K) + 1
  IN CASE rk = "list"     -> [k |-> "list", a |-> <<>>, r |-> rv, d |-> P(0)]
       [] rk = "binary"   -> Bin(as[am], P(mul * n))
       [] rk = "disc"     -> Disc(as, rv, P(0))
       [] rk = "discrev"  -> Disc(Rev(as), Rev(rv), P(0))                         \* the same table, written in another order
       [] rk = "discpart" -> Disc(SubSeq(as, 1, K - 1), SubSeq(rv, 1, K - 1), P(mul * 7))   \* the last action earns the default
       [] rk = "discmap"  -> [k |-> "mapping", a |-> Tail(as) \o <<as[1]>>, r |-> Tail(rv) \o <<rv[1]>>, d |-> P(0)]   \* DiscreteReward({action: reward}), yet another order
       [] rk = "fn"       -> [k |-> "fn", a |-> as, r |-> rv, d |-> P(-99)]
       [] rk = "hamming"  -> [k |-> "hamming", a |-> (IF (n + off) % 2 = 1 THEN <<Num(1), Num(2)>> ELSE <<Num(3)>>), r |-> <<>>, d |-> P(0)]
       [] rk = "l1"       -> [k |-> "l1", a |-> <<>>, r |-> <<>>, d |-> P(n + off + 1)]
(* THE FORM OF THE REWARD OBJECT MAY CHANGE FROM ONE INTERACTION TO THE NEXT.  A choice [name, p, q] gives interaction n the     *)
(* form p when n is odd and q when n is even (IGL feedbacks the other way round, so that rewards and feedbacks of one        *)
(* interaction differ in form too); p = q is the uniform environment.  Conserved judges every interaction on ITS OWN objects: *)
(* what a filter found out about one interaction's reward object (is it a table in action-set order, is it a BinaryReward,  *)
(* does it need re-keying) says nothing about the next one's, even when both share their action set.  Only the distinction  *)
(* sequence / function is uniform in an environment (every filter of coba reads it off the first interaction).             *)
Forms    == {"disc", "discrev", "discmap", "binary", "fn"}
MixAll   == {m \in {[name |-> p \o "+" \o q, p |-> p, q |-> q] : p \in Forms, q \in Forms} : m.p # m.q}
MixFew   == {m \in MixAll : <<m.p, m.q>> \in {<<"disc", "discrev">>, <<"disc", "discmap">>, <<"discrev", "disc">>, <<"discmap", "binary">>,
                                              <<"binary", "discrev">>, <<"fn", "disc">>, <<"disc", "fn">>, <<"binary", "fn">>}}
KindChoices(sh) ==
  LET base == {[name |-> k, p |-> k, q |-> k] : k \in RewardKinds(sh)}
  IN CASE Mixes = "none" -> base [] Mixes = "few" -> base \cup MixFew [] Mixes = "all" -> base \cup MixAll [] Mixes = "only" -> MixAll
KindAt(ch, n) == IF n % 2 = 1 THEN ch.p ELSE ch.q

FeedbackKind(fl, rk) == IF fl = "igl" THEN rk ELSE IF rk = "list" THEN "fn" ELSE "list"

----------------------------------------------------------------------------
Init ==
  \E sh \in Shapes : \E ch \in KindChoices(sh) : \E fl \in Flavours : \E env \in {e \in Envs : ch.p # ch.q => Len(EnvUse(e)) >= 2} :
    LET sets == ShapeSets(sh)
        rk   == ch.name
        use  == EnvUse(env)
        Ns   == DOMAIN use
        A0   == [n \in Ns |-> sets[use[n]]]
        R0   == [n \in Ns |-> MkR(KindAt(ch, n), n, A0[n], 1, 0)]
        F0   == [n \in Ns |-> IF fl \in {"igl", "iglmix"} THEN MkR(FeedbackKind(fl, KindAt(ch, n + 1)), n, A0[n], 10, 1) ELSE NoneR]
        lg   == fl = "logged"
        M0   == [n \in Ns |-> IF lg THEN ((n + 1) % Len(A0[n])) + 1 ELSE 0]
    IN /\ case = [shape |-> sh, rk |-> rk, fl |-> fl, env |-> env, sets |-> sets, use |-> use, R0 |-> R0, F0 |-> F0,
                  (* what the property demands after every chain: the i-th action's reward / feedback, the logged  *)
                  (* action's position, the logged reward and probability - all as they are now                    *)
                  expR |-> [n \in Ns |-> [i \in DOMAIN A0[n] |-> Eval(R0[n], A0[n], i)]],
                  expF |-> [n \in Ns |-> IF F0[n].k = "none" THEN <<>> ELSE [i \in DOMAIN A0[n] |-> Eval(F0[n], A0[n], i)]],
                  M    |-> M0,
                  LR   |-> [n \in Ns |-> IF lg THEN P(n) ELSE P(0)],
                  LP   |-> [n \in Ns |-> IF lg THEN <<1, n + 1>> ELSE P(0)]]
       /\ acts = A0
       /\ lact = [n \in Ns |-> IF lg THEN A0[n][M0[n]] ELSE Zero]
       /\ rw = R0 /\ fb = F0
       /\ groups = [n \in Ns |-> <<n>>] /\ batched = FALSE
       /\ hist = <<>>

Ids == Concat(groups)
Chunks(ids, b) == [g \in 1..((Len(ids) + b - 1) \div b) |-> SubSeq(ids, (g - 1) * b + 1, IF g * b < Len(ids) THEN g * b ELSE Len(ids))]
Singles(ids)   == [g \in DOMAIN ids |-> <<ids[g]>>]

(* which filter may follow: a batched environment can only be unbatched or finalized (Environments wraps its Finalize  *)
(* in BatchSafe, core.py 1138-1140: Unbatch, Finalize, Batch(size of the first batch)); Unbatch needs a batch           *)
Compatible(st) == IF batched THEN st.f \in {"unbatch", "finalize"} ELSE st.f # "unbatch"

(* pipes.Flatten decides per POSITION of a dense row, from the first row it sees, what is spliced (pipes/filters.py 222,    *)
(* 232-235): dense actions (also the vectors Densify makes) must be nested at the same places to be flattened at all.   *)
(* Sparse rows are flattened per KEY (226, 246) and may or may not carry a nested key - those chains are in the domain. *)
NestedAt(a) == CASE a.t = "seq" -> {<<ToString(p), Len(a.v[p].v)>> : p \in {q \in DOMAIN a.v : a.v[q].t = "seq"}}
                 [] a.t = "sd"  -> {<<e.s, Len(e.v[1].v)>> : e \in {x \in a.m : x.v[1].t = "seq"}}
                 [] OTHER -> {}
FlattenOK(st) == st.f = "flatten" /\ acts[1][1].t \in {"seq", "sd"} =>
                    \A n \in DOMAIN acts : \A i \in DOMAIN acts[n] : NestedAt(acts[n][i]) = NestedAt(acts[1][1])

Do(st) ==
  /\ Len(hist) < MaxLen
  /\ Compatible(st)
  /\ FlattenOK(st)
  /\ LET fin  == st.f = "finalize"
         newA == [n \in DOMAIN acts |-> [i \in DOMAIN acts[n] |-> ActT(st, acts[n][i])]]
     IN  /\ \A n \in DOMAIN acts : Distinct(newA[n])    \* DOMAIN GUARD: the step re-represents, it does not merge actions
         /\ acts' = newA
         /\ lact' = [n \in DOMAIN lact |-> IF case.fl = "logged" THEN ActT(st, lact[n]) ELSE lact[n]]
         /\ rw'   = [n \in DOMAIN rw |-> Rebind(rw[n], acts[n], newA[n], fin)]
         /\ fb'   = [n \in DOMAIN fb |-> Rebind(fb[n], acts[n], newA[n], fin)]
         /\ groups' = CASE st.f = "batch" /\ st.n > 0 -> Chunks(Ids, st.n)                       \* Batch._batched 1297-1305
                        [] st.f = "unbatch"          -> Singles(Ids)                            \* Unbatch 1322-1332
                        [] st.f = "finalize" /\ batched -> Chunks(Ids, Len(groups[1]))          \* BatchSafe 1349-1352
                        [] OTHER -> groups
         /\ batched' = CASE st.f = "batch" -> st.n > 0 [] st.f = "unbatch" -> FALSE [] OTHER -> batched
         /\ hist' = Append(hist, [st |-> st, groups |-> groups', batched |-> batched', kind |-> newA[1][1].t])
         /\ UNCHANGED case

(* one action per filter class *)
ReprStep     == \E st \in ReprSteps(LevelAt(Len(hist) + 1))     : Do(st)    \* environments/filters.py Repr.filter 1127-1212
FlattenStep  == \E st \in FlattenSteps(LevelAt(Len(hist) + 1))  : Do(st)    \* Flatten.filter 658-696
SparsifyStep == \E st \in SparsifySteps(LevelAt(Len(hist) + 1)) : Do(st)    \* Sparsify.filter 428-449
DensifyStep  == \E st \in DensifySteps(LevelAt(Len(hist) + 1))  : Do(st)    \* Densify.filter 530-545
NoiseStep    == \E st \in NoiseSteps(LevelAt(Len(hist) + 1))    : Do(st)    \* Noise.filter 929-960
BatchStep    == \E st \in BatchSteps(LevelAt(Len(hist) + 1))    : Do(st)    \* Batch.filter 1264-1295
UnbatchStep  == \E st \in UnbatchSteps(LevelAt(Len(hist) + 1))  : Do(st)    \* Unbatch.filter 1310-1332
FinalizeStep == \E st \in FinalizeSteps(LevelAt(Len(hist) + 1)) : Do(st)    \* Finalize.filter 1658-1673
(* THE REUSE RULE.  A filter object IS its constructor arguments: every action above is a function of the step `st` and   *)
(* of the state of the environment it is applied to, nothing else - there is no variable in which a filter could keep       *)
(* anything from one environment to the next.  So one and the same object (and one and the same Environments pipeline,      *)
(* where `Environments([e1, e2]).repr()` hands ONE Repr to both) may filter environment 1, then environment 2, then         *)
(* environment 1 again, and (own) every application owes what THIS module demands for ITS OWN input, whatever was           *)
(* filtered before; (reread) filtering the same input again gives the same output as the first time.  For the seeded       *)
(* NoiseStep that means the same noise: Noise.filter 931 starts a new CobaRandom(seed) per call, a re-read is not a        *)
(* continuation of the previous stream (Densify's lookup may grow while it meets new keys, the keys it has met keep         *)
(* their index: 497-516).  Emit hands the rule to the driver with every case.                                               *)
Reuse == [own |-> "every application owes the expectation of its own input", reread |-> "identical"]

Next == ReprStep \/ FlattenStep \/ SparsifyStep \/ DensifyStep \/ NoiseStep \/ BatchStep \/ UnbatchStep \/ FinalizeStep
Spec == Init /\ [][Next]_vars

----------------------------------------------------------------------------
(* THE PROPERTY, on the model *)
Ns == DOMAIN acts
(* "the i-th action of every interaction still receives the reward, and for IGL the feedback, that the i-th action *)
(*  received before, whether rewards are given as a sequence or as a reward function"                              *)
Conserved ==
  \A n \in Ns : \A i \in DOMAIN acts[n] :
     /\ Eval(rw[n], acts[n], i) = case.expR[n][i]
     /\ (fb[n].k # "none" => Eval(fb[n], acts[n], i) = case.expF[n][i])
(* "the logged action remains, in the new representation, the same member of the action set" *)
LoggedMember == case.fl = "logged" => \A n \in Ns : IndexOf(lact[n], acts[n]) = case.M[n]
(* the relabelling is injective in every state (what makes Conserved possible at all) *)
Injective == \A n \in Ns : Distinct(acts[n])
(* every step is defined on every kind of action and produces the kind the table says *)
KindTable ==
  \A d \in DOMAIN hist :
     LET before == IF d = 1 THEN case.sets[1][1].t ELSE hist[d - 1].kind
     IN  hist[d].kind = KindAfter(hist[d].st, before)
(* the batching is a partition of the interactions into consecutive runs, in order; one run each unless batched *)
GroupsOk == /\ Concat(groups) = [n \in Ns |-> n]
            /\ \A g \in DOMAIN groups : groups[g] # <<>>
            /\ (~batched => \A g \in DOMAIN groups : Len(groups[g]) = 1)
(* re-applying a representation filter to its own output changes nothing (noise is the exception) *)
IdemSteps == ReprSteps("full") \cup FlattenSteps("full") \cup SparsifySteps("full") \cup DensifySteps("full") \cup FinalizeSteps("full")
(* levels of containers below the top level of an action: Flatten removes ONE level per application (pipes/filters.py 203-246), *)
(* so it is idempotent exactly on actions with at most one (a categorical encoded as a tuple inside a nested part makes two)   *)
RECURSIVE Nest(_)
Nest(a) == LET parts == IF a.t = "seq" THEN {a.v[i] : i \in DOMAIN a.v} ELSE IF a.t \in {"map", "sd"} THEN {e.v[1] : e \in a.m} ELSE {}
               inner == {x \in parts : x.t \in {"seq", "map", "sd"}}
           IN IF inner = {} THEN 0 ELSE 1 + Max({Nest(x) : x \in inner})
Idempotent == case.rk = "list" =>      \* the representations do not depend on the reward kind: one of them is enough
              \A st \in IdemSteps : \A n \in Ns : \A i \in DOMAIN acts[n] :
                 (st.f = "flatten" => Nest(acts[n][i]) <= 1) =>
                 ActT(st, ActT(st, acts[n][i])) = ActT(st, acts[n][i])

(* the edge of the domain: these relabellings DO merge actions, the guard in Do keeps such chains out *)
ASSUME SparsifyVal(NSq(<<1>>)) = SparsifyVal(NSq(<<1, 0>>))                                      \* trailing zeros
ASSUME DensifyVal(Map({Ent("x", Num(0)), Ent("y", Num(1))})) = DensifyVal(Map({Ent("y", Num(1))}))   \* explicit zero
ASSUME FlattenVal(Sq(<<NSq(<<1, 2>>), Num(3)>>)) = FlattenVal(Sq(<<Num(1), NSq(<<2, 3>>)>>))     \* different nesting
(* and a reward function that is NOT re-bound loses the action: the reason every step has to re-bind *)
ASSUME LET a == Num(2) IN EvalV(Bin(a, P(1)), SparsifyVal(a)) = P(0)

----------------------------------------------------------------------------
(* Environments appends BatchSafe(Finalize()) to every pipeline that has none (environments/core.py 1138-1149): may  *)
(* this state be finalized (is Finalize an injective relabelling of it), and how is the result batched               *)
FinStep   == St("finalize", "", "", 0)
FinOK     == \A n \in Ns : Distinct([i \in DOMAIN acts[n] |-> ActT(FinStep, acts[n][i])])
FinGroups == IF batched THEN Chunks(Ids, Len(groups[1])) ELSE groups

(* output: compact JSON of the case and of what is demanded of the implementation *)
RECURSIVE C(_)
C(v) == CASE v.t = "num" -> v.n
          [] v.t = "str" -> v.s
          [] v.t = "cat" -> <<"c", v.n>>
          [] v.t = "seq" -> <<"s", [i \in DOMAIN v.v |-> C(v.v[i])]>>
          [] OTHER       -> (LET es == SetToSeq(v.m) IN <<v.t, [i \in DOMAIN es |-> <<es[i].s, C(es[i].v[1])>>]>>)
(* a reward object as generated: table arguments are named by their position in the interaction's action set *)
CR(R, as) == [k |-> R.k, idx |-> [j \in DOMAIN R.a |-> IndexOf(R.a[j], as)],
              lab |-> (IF R.k = "hamming" THEN [j \in DOMAIN R.a |-> C(R.a[j])] ELSE <<>>), r |-> R.r, d |-> R.d]
Emit ==
  hist # <<>> =>
    PrintT(ToJson([
      shape |-> case.shape, rk |-> case.rk, fl |-> case.fl, env |-> case.env,
      sets  |-> [s \in DOMAIN case.sets |-> [i \in DOMAIN case.sets[s] |-> C(case.sets[s][i])]],
      use   |-> case.use,
      R     |-> [n \in DOMAIN case.use |-> CR(case.R0[n], case.sets[case.use[n]])],
      F     |-> [n \in DOMAIN case.use |-> CR(case.F0[n], case.sets[case.use[n]])],
      chain |-> [d \in DOMAIN hist |-> hist[d].st],
      groups  |-> [d \in DOMAIN hist |-> hist[d].groups],
      batched |-> [d \in DOMAIN hist |-> hist[d].batched],
      kinds   |-> [d \in DOMAIN hist |-> hist[d].kind],
      expR  |-> case.expR, expF |-> case.expF, M |-> case.M, LR |-> case.LR, LP |-> case.LP,
      finOK |-> FinOK, finGroups |-> FinGroups, reuse |-> Reuse,
      (* Injective holds in this state: the real action objects of every interaction must be pairwise different under   *)
      (* their own == (both ways round) and each must be found at its own position by list.index - the equality of the *)
      (* row types the filters produce is what every re-keyed reward function and the logged action rely on            *)
      injective |-> Injective ]))
=============================================================================
