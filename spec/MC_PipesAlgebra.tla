--------------------------- MODULE MC_PipesAlgebra ---------------------------
EXTENDS PipesAlgebra
AtomsTyping  == {"S1", "F1", "K1", "O1"}
AtomsVariety == {"S1", "E1", "F1", "F2", "N1", "EF", "K1", "K2"}
AtomsSmall   == {"S1", "F1", "K1"}
AtomsPair    == {"S1", "F1", "F2", "K1"}
AtomsFaults  == {"S1", "F1", "X1", "K1"}
=============================================================================
