------------------------- MODULE ExperimentLogTrace -------------------------
(***************************************************************************)
(* Trace validation for ExperimentLog.tla.  IOEnv.TRACE_FILE holds a JSON  *)
(* array of histories of the *real* Experiment.run on a real result file:  *)
(*   [shape |-> [tr, ch, fail], runs |-> <<run>>]                          *)
(*   run = [cfg   |-> [p, mt, ip],                                         *)
(*          recs  |-> keys of the records this run appended, in file order *)
(*          evals |-> triples this run evaluated (side channel written by  *)
(*                    the evaluator), in evaluation order per process      *)
(*          end   |-> "done" | "crash",                                    *)
(*          torn  |-> content cells of the record being written at the     *)
(*                    crash (0 = the crash fell between two records),      *)
(*          tornk |-> its key]                                             *)
(* Records and evaluations are two streams whose relative order is not     *)
(* observable across processes: the trace spec keeps two cursors and lets  *)
(* TLC find an interleaving.  Worker-side steps that leave no mark (Take,  *)
(* Emit of a parameter record, Begin, partial WriteCell) are silent.       *)
(***************************************************************************)
EXTENDS ExperimentLog, Json, IOUtils, TLCExt
trNone == {}
Traces == JsonDeserialize(IOEnv.TRACE_FILE)
VARIABLES tid, r, lr, le, started
tvars == <<vars, tid, r, lr, le, started>>
T    == Traces[tid]
Runs == T.runs
Run  == Runs[r]
SeqRange(s) == {s[i] : i \in DOMAIN s}
ToCfg(c) == [p |-> c.p, mt |-> c.mt, ip |-> c.ip]

TraceInit == /\ tid \in 1..Len(Traces) /\ r = 1 /\ lr = 1 /\ le = {} /\ started = FALSE
             /\ shape = [tr |-> Traces[tid].shape.tr, ch |-> Traces[tid].shape.ch, fail |-> SeqRange(Traces[tid].shape.fail)]
             /\ InitRest

Same == UNCHANGED <<tid, r, lr, le, started>>
TrStart == /\ r <= Len(Runs) /\ ~started /\ Start(ToCfg(Run.cfg))
           /\ started' = TRUE /\ le' = DOMAIN Run.evals /\ UNCHANGED <<tid, r, lr>>
(* silent worker / sink steps *)
TrSilent == /\ r <= Len(Runs) /\ started /\ Same
            /\ \/ \E w \in 1..3 : Take(w)
               \/ \E w \in 1..3 : wk[w] # <<>> /\ ~IsTriple(Head(wk[w]).k) /\ Emit(w)
               \/ Begin
               \/ (cur # <<"none">> /\ Last(disk).n < K /\ WriteCell)
(* the evaluator's side channel: a triple was evaluated (also when it then raised).  The side channel is written
   when an evaluation begins, the record is queued when it ends: with several workers the two orders differ, so
   the evaluations of a run are consumed as a bag (le = set of indices not yet matched) *)
TrEval == /\ r <= Len(Runs) /\ started
          /\ \E i \in le : \E w \in 1..3 : /\ wk[w] # <<>> /\ Head(wk[w]).k = Run.evals[i] /\ Emit(w)
                                            /\ le' = le \ {i}
          /\ UNCHANGED <<tid, r, lr, started>>
(* a complete record appeared in the file *)
TrRec == /\ r <= Len(Runs) /\ started /\ lr <= Len(Run.recs)
         /\ cur = Run.recs[lr] /\ Last(disk).n = K /\ WriteCell
         /\ lr' = lr + 1 /\ UNCHANGED <<tid, r, le, started>>
TrEnd == /\ r <= Len(Runs) /\ started /\ lr = Len(Run.recs) + 1 /\ le = {}
         /\ \/ /\ Run.end = "done" /\ Finish
               \* "an exception raised while evaluating one triple is reported in the log": the run's logger received exactly one
               \* exception report per failing evaluation of this run (nrep = -1: the log was not observed)
               /\ Run.nrep \in {-1, Cardinality({i \in DOMAIN Run.evals : <<Run.evals[i][2], Run.evals[i][3], Run.evals[i][4]>> \in shape.fail})}
            \/ /\ Run.end = "crash"
               /\ IF Run.torn = 0 THEN cur = <<"none">> \/ (cur # <<"none">> /\ Last(disk).n = 0)
                  ELSE cur = Run.tornk /\ Last(disk).n = (IF Run.torn >= K THEN K ELSE Run.torn)
               /\ Crash
         /\ r' = r + 1 /\ lr' = 1 /\ le' = {} /\ started' = FALSE /\ UNCHANGED tid
TraceNext == TrStart \/ TrSilent \/ TrEval \/ TrRec \/ TrEnd
TraceSpec == TraceInit /\ [][TraceNext]_tvars

AtEnd   == r = Len(Runs) + 1
Accept  == AtEnd => PrintT(ToJson([acc |-> tid]))
EndDone == AtEnd => (phase = "done" \/ Runs[Len(Runs)].end = "crash")
Diag    == PrintT(ToJson([tid |-> tid, l |-> (r * 1000 + lr * 20 + (20 - Cardinality(le)))]))
=============================================================================
