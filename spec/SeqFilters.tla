----------------------------- MODULE SeqFilters -----------------------------
(***************************************************************************)
(* C09 - ordering and selection filters keep exactly the interactions they *)
(* promise.                                                                *)
(*   coba/pipes/filters.py        Identity 38, Shuffle 47, Take 70,        *)
(*                                Slice 98, Reservoir 129, Cache 385       *)
(*   coba/environments/filters.py Shuffle 38 (logged-data seed rule 63),   *)
(*                                Cache 74, Sort 731, Where 768,           *)
(*                                Riffle 838, Params 975, Batch 1214,      *)
(*                                Unbatch 1307, Chunk 1410                 *)
(*   coba/environments/core.py    the Environments shortcuts 690-1123      *)
(*   coba/random.py               via CobaRandom.tla (real constants)      *)
(*                                                                         *)
(* A filter object is read any number of times (once per learner in an     *)
(* experiment) and one object may sit in several pipelines                 *)
(* (Environments.filter joins the SAME object to every environment): ONE   *)
(* action, Read(inp, o), per call of filter(); what it returns is a        *)
(* function of the constructor parameters and of its own input only (never *)
(* of earlier reads or earlier inputs - see Read).                         *)
(* The input is a finite interaction sequence;                             *)
(* the specification works on POSITIONS 1..N ("ids") - every operator      *)
(* below returns a sequence of positions of the input, which is the        *)
(* sentence "none of these filters alters the content of any interaction": *)
(* an output element IS the input interaction at that position.  The       *)
(* binding gives every position a real interaction carrying its id.        *)
(*                                                                         *)
(* A case is a record [f, p, inp]:                                         *)
(*  f = "take"      p = [count, strict]              inp = [n]             *)
(*  f = "slice"     p = [start, stop, step]          inp = [n]             *)
(*  f = "shuffle"   p = [seed, ftext]                inp = [n, logged]     *)
(*  f = "riffle"    p = [spacing, seed]              inp = [n]             *)
(*  f = "reservoir" p = [count, strict, seed]        inp = [n]             *)
(*  f = "ident"     p = [which, size]                inp = [n]             *)
(*        which: identity / cache / chunk / params / batch (Batch(size)    *)
(*        followed by Unbatch)                                             *)
(*  f = "where"     p = [nint, nact, nfeat] each a range [form, lo, hi]    *)
(*                  inp = [nacts = action count per interaction,           *)
(*                         ctx = [t, n] the shape of the contexts]         *)
(*  f = "sort"      p = [keys]    inp = [t = "dense" | "sparse", ctxs]     *)
(*        dense context = tuple of numbers, key = 0-based position;        *)
(*        sparse context = sequence of <<key, value>>, key = 0-based index *)
(*        into the key names, an absent key counts as 0 (filters.py 760)   *)
(* None (an open bound / "no count") is written -1.                        *)
(***************************************************************************)
EXTENDS Integers, Sequences, FiniteSets, TLC

(* the generator of coba/random.py with its real constants (lines 48-50: a = 116646453, c = 9, m = 2^30),
   in 15-bit limbs; only constant-level operators of CobaRandom are used *)
R == INSTANCE CobaRandom WITH A <- 116646453, C <- 9, H <- 15, Inst <- {}, inst <- <<>>

None == -1
Min(a, b) == IF a < b THEN a ELSE b
Ids(n) == [i \in 1..n |-> i]
RangeOf(s) == {s[i] : i \in DOMAIN s}
NoDup(s) == \A i, j \in DOMAIN s : i # j => s[i] # s[j]
IsPermOf(s, n) == Len(s) = n /\ RangeOf(s) = 1..n
IsSubBagOf(s, n) == RangeOf(s) \subseteq 1..n /\ NoDup(s)
Increasing(s) == \A i \in 1..(Len(s) - 1) : s[i] < s[i + 1]

(***************************************************************************)
(* Take (pipes/filters.py 70-96): the first `count` items; count = None:   *)
(* all of them.  strict: "all n or nothing".  With count = None every item *)
(* is asked for, so strict changes nothing.                                *)
(***************************************************************************)
Take(xs, count, strict) ==
  IF count = None \/ Len(xs) = count THEN xs
  ELSE IF Len(xs) > count THEN SubSeq(xs, 1, count)
  ELSE IF strict THEN <<>> ELSE xs

(***************************************************************************)
(* Slice (98-127): Python's xs[start:stop:step] for start, stop >= 0 or    *)
(* None, step >= 1.                                                        *)
(***************************************************************************)
Slice(xs, start, stop, step) ==
  LET a == IF start = None THEN 0 ELSE start
      b == IF stop = None THEN Len(xs) ELSE Min(stop, Len(xs))
      k == IF b <= a THEN 0 ELSE (b - a + step - 1) \div step
  IN [j \in 1..k |-> xs[a + (j - 1) * step + 1]]

(***************************************************************************)
(* Shuffle (pipes 47-68, environments 38-68): the Durstenfeld permutation  *)
(* drawn from CobaRandom(seed): out[i] = xs[perm[i]].  When the FIRST      *)
(* interaction is logged (has 'action' and 'reward') environments.Shuffle  *)
(* seeds with the float seed * 3.21 instead (line 63).  CobaRandom's seed  *)
(* normalisation (random.py 48-51) of that float: an integral float is     *)
(* its integer; anything else the UTF-8 bytes of its decimal text as a     *)
(* big-endian number mod 2^20.  Floats do not enter TLA+: `ftext` is the   *)
(* text Python prints for the double seed * 3.21, as bytes.                *)
(***************************************************************************)
Permute(xs, perm) == [i \in 1..Len(xs) |-> xs[perm[i] + 1]]
IsDigit(b) == b >= 48 /\ b <= 57
IsIntegralText(bs) == /\ Len(bs) >= 3 /\ bs[Len(bs)] = 48 /\ bs[Len(bs) - 1] = 46
                      /\ \A i \in 1..(Len(bs) - 2) : IsDigit(bs[i])
(* decimal digits -> number mod 2^30, in limbs: (acc * 10 + d) mod B^2 *)
RECURSIVE DecMod(_, _, _, _)
DecMod(bs, i, last, acc) ==
  IF i > last THEN acc ELSE
  LET a1 == acc \div R!B   a0 == acc % R!B
      lo == a0 * 10 + (bs[i] - 48)
      mid == (a1 * 10 + (lo \div R!B)) % R!B
  IN DecMod(bs, i + 1, last, mid * R!B + (lo % R!B))
FloatSeedState(bs) == IF IsIntegralText(bs) THEN DecMod(bs, 1, Len(bs) - 2, 0) ELSE R!SeedOfBytes(bs)
ShuffleState(p, logged) == IF logged THEN FloatSeedState(p.ftext) ELSE p.seed
Shuffle(xs, p, logged) == Permute(xs, R!Shuffle(ShuffleState(p, logged), Len(xs)))

(***************************************************************************)
(* Riffle (838-863): floor(N / (spacing+1)) times: take the LAST item and  *)
(* insert it at 0-based position i*spacing + randint(0, spacing).          *)
(***************************************************************************)
InsertAt(l, pos, x) == SubSeq(l, 1, pos) \o <<x>> \o SubSeq(l, pos + 1, Len(l))
RECURSIVE Rif(_, _, _, _, _)
Rif(l, i, k, sp, s) ==
  IF i >= k THEN l ELSE
  LET s2 == R!Step(s)
      r  == R!ScaleFloor(sp + 1, s2)              \* randint(0, sp) = floor((sp+1) * u)
  IN Rif(InsertAt(SubSeq(l, 1, Len(l) - 1), i * sp + r, l[Len(l)]), i + 1, k, sp, s2)
Riffle(xs, spacing, seed) == Rif(xs, 0, Len(xs) \div (spacing + 1), spacing, seed)

(***************************************************************************)
(* Reservoir (129-201).  count = 0: nothing.  count = None: the shuffle of *)
(* everything.  Fewer items than count: strict -> nothing, else the        *)
(* shuffle of what there is.  Exactly count items: the shuffle of them     *)
(* (the reservoir is shuffled first, 181, and nothing is left to replace   *)
(* any of it).  More items than count: Algorithm L replaces reservoir      *)
(* slots using logarithms and powers of the uniforms - not expressible     *)
(* here; the property's own words are the specification: `count` distinct  *)
(* input interactions, the same ones at every read (ReservoirAccepts).     *)
(***************************************************************************)
ReservoirExact(n, p) == p.count = None \/ p.count = 0 \/ n <= p.count
Reservoir(xs, p) ==
  IF p.count = 0 THEN <<>>
  ELSE IF p.count # None /\ Len(xs) < p.count /\ p.strict THEN <<>>
  ELSE Permute(xs, R!Shuffle(p.seed, Len(xs)))
ReservoirAccepts(n, p, o) == Len(o) = p.count /\ IsSubBagOf(o, n)

(***************************************************************************)
(* Where (768-836).  A range is [lo, hi], either side open (None); an      *)
(* exact value k is [k, k].  The environment is passed through iff its     *)
(* number of interactions and its number of features are within bounds,    *)
(* otherwise dropped entirely; of a passed environment only interactions   *)
(* whose number of actions is within bounds are kept.  Features of a       *)
(* context: a vector / mapping has as many as it has entries, a bare       *)
(* scalar (number or string) is one feature, None is none.                 *)
(***************************************************************************)
InR(v, r) == (r.lo = None \/ r.lo <= v) /\ (r.hi = None \/ v <= r.hi)
NFeat(ctx) == CASE ctx.t \in {"dense", "sparse"} -> ctx.n
                [] ctx.t \in {"number", "string"} -> 1
                [] ctx.t = "none" -> 0
WherePasses(p, inp) == InR(Len(inp.nacts), p.nint) /\ InR(NFeat(inp.ctx), p.nfeat)
Where(p, inp) == IF ~WherePasses(p, inp) THEN <<>>
                 ELSE SelectSeq(Ids(Len(inp.nacts)), LAMBDA i : InR(inp.nacts[i], p.nact))

(***************************************************************************)
(* Sort (731-766): the stable ordering by the tuple of the chosen context  *)
(* keys; no keys = the whole (dense) context.                              *)
(***************************************************************************)
LexLt(a, b) == \/ \E i \in 1..Min(Len(a), Len(b)) : a[i] < b[i] /\ \A j \in 1..(i - 1) : a[j] = b[j]
               \/ Len(a) < Len(b) /\ a = SubSeq(b, 1, Len(a))
SparseGet(c, k) == IF \E i \in DOMAIN c : c[i][1] = k THEN (CHOOSE pr \in RangeOf(c) : pr[1] = k)[2] ELSE 0
KeyOf(t, c, keys) == IF keys = <<>> THEN c
                     ELSE IF t = "dense" THEN [i \in DOMAIN keys |-> c[keys[i] + 1]]
                     ELSE [i \in DOMAIN keys |-> SparseGet(c, keys[i])]
SortKeys(p, inp) == [i \in DOMAIN inp.ctxs |-> KeyOf(inp.t, inp.ctxs[i], p.keys)]
(* insertion after every already placed element that is not greater: stable *)
RECURSIVE SortIds(_, _, _)
SortIds(ks, i, acc) ==
  IF i > Len(ks) THEN acc ELSE
  LET pos == Cardinality({j \in 1..Len(acc) : ~LexLt(ks[i], ks[acc[j]])})
  IN SortIds(ks, i + 1, InsertAt(acc, pos, i))
Sort(p, inp) == SortIds(SortKeys(p, inp), 1, <<>>)
(* the declarative meaning: ordered, and equal keys keep their input order *)
SortedStable(o, ks) == \A a, b \in DOMAIN o : a < b =>
                          /\ ~LexLt(ks[o[b]], ks[o[a]])
                          /\ (ks[o[a]] = ks[o[b]] => o[a] < o[b])

(***************************************************************************)
(* One filter object, applied repeatedly - to the same input and to others *)
(***************************************************************************)
NIn(c) == CASE c.f = "where" -> Len(c.inp.nacts) [] c.f = "sort" -> Len(c.inp.ctxs) [] OTHER -> c.inp.n
Exact(c) == IF c.f = "reservoir" THEN ReservoirExact(c.inp.n, c.p) ELSE TRUE
Result(c) == LET xs == Ids(NIn(c)) IN
  CASE c.f = "take"      -> Take(xs, c.p.count, c.p.strict)
    [] c.f = "slice"     -> Slice(xs, c.p.start, c.p.stop, c.p.step)
    [] c.f = "shuffle"   -> Shuffle(xs, c.p, c.inp.logged)
    [] c.f = "riffle"    -> Riffle(xs, c.p.spacing, c.p.seed)
    [] c.f = "reservoir" -> Reservoir(xs, c.p)
    [] c.f = "ident"     -> xs          \* Identity, Cache, Chunk, Params, Unbatch after Batch(k): the sequence itself
    [] c.f = "where"     -> Where(c.p, c.inp)
    [] c.f = "sort"      -> Sort(c.p, c.inp)
(* what an application may return *)
Accepts(c, o) == IF Exact(c) THEN o = Result(c) ELSE ReservoirAccepts(c.inp.n, c.p, o)

VARIABLES case,    \* [f, p] = the filter object (its constructor parameters); inp = the input of its latest application
          reads,   \* number of filter() calls made on that object so far
          out,     \* what the latest call returned (positions of ITS input)
          seen     \* history: <<[inp, out], ...>> of every application of this object so far
vars == <<case, reads, out, seen>>
(***************************************************************************)
(* filter(inp) on the object [case.f, case.p].                             *)
(* THE RULE: the result of an application is a function of the filter's    *)
(* constructor parameters and of ITS OWN input only - not of how often the *)
(* object has been read, and not of any other sequence the same object     *)
(* (or the same object shared by several Environments pipelines) filtered  *)
(* before.  Where the result is computed (Exact) this holds by             *)
(* construction: Result reads [f, p, inp] and nothing else.  Where it is   *)
(* only constrained (Reservoir, Algorithm L) the second conjunct says it:  *)
(* whenever this input was applied before - immediately before or with     *)
(* other inputs in between - the same output comes back.                   *)
(* A filter keeps nothing from one application to the next.  (The one      *)
(* deliberate exception in coba is a Cache OBJECT, which memoises its      *)
(* upstream source: a Cache is an identity on the sequence of the          *)
(* pipeline it sits in - every application to that sequence - and is not   *)
(* applied to a second source; Environments.cache() / chunk() create one   *)
(* Cache per environment.)                                                 *)
(***************************************************************************)
Read(inp, o) ==
  LET c == [f |-> case.f, p |-> case.p, inp |-> inp] IN
  /\ Accepts(c, o)
  /\ \A i \in DOMAIN seen : seen[i].inp = inp => seen[i].out = o
  /\ case' = c /\ out' = o /\ reads' = reads + 1
  /\ seen' = Append(seen, [inp |-> inp, out |-> o])
(* the rule as a state invariant over the history *)
OwnInputOnly == \A i, j \in DOMAIN seen : seen[i].inp = seen[j].inp => seen[i].out = seen[j].out

(***************************************************************************)
(* Design-level facts, checked by TLC on every case after every read       *)
(***************************************************************************)
N == NIn(case)
(* nothing is invented, nothing is duplicated: the output is a sub-bag of the input *)
SubBag == reads > 0 => IsSubBagOf(out, N)
(* Shuffle, Riffle, Sort, the identities and a Reservoir that is not short of items return a permutation *)
Permutation == reads > 0 =>
  /\ (case.f \in {"shuffle", "riffle", "sort", "ident"} => IsPermOf(out, N))
  /\ (case.f = "ident" => out = Ids(N))
  /\ (case.f = "reservoir" /\ case.p.count = None => IsPermOf(out, N))
  /\ (case.f = "reservoir" /\ case.p.count # None =>
        Len(out) = (IF case.p.strict /\ N < case.p.count THEN 0 ELSE Min(case.p.count, N)))
(* Take: a prefix, all n or (strict) nothing; idempotent; the non-strict Take is Slice(None, n) *)
TakeLaws == (reads > 0 /\ case.f = "take") =>
  LET c == case.p.count  s == case.p.strict IN
  /\ out = SubSeq(Ids(N), 1, Len(out))
  /\ Len(out) = (IF c = None THEN N ELSE IF N >= c THEN c ELSE IF s THEN 0 ELSE N)
  /\ Take(out, c, s) = out
  /\ (~s => out = Slice(Ids(N), None, c, 1))
(* Slice: increasing positions start, start+step, .. below stop; Slice(a,b,1) is Take(b) without its first a *)
SliceLaws == (reads > 0 /\ case.f = "slice") =>
  LET a == IF case.p.start = None THEN 0 ELSE case.p.start
      b == IF case.p.stop = None THEN N ELSE Min(case.p.stop, N) IN
  /\ Increasing(out)
  /\ RangeOf(out) = {i \in 1..N : i - 1 >= a /\ i - 1 < b /\ (i - 1 - a) % case.p.step = 0}
  /\ (case.p.step = 1 /\ case.p.stop # None =>
        out = (LET t == Take(Ids(N), case.p.stop, FALSE) IN SubSeq(t, a + 1, Len(t))))
(* Where: all or nothing at the environment level, a selection in input order otherwise; idempotent on what it kept *)
WhereLaws == (reads > 0 /\ case.f = "where") =>
  /\ Increasing(out)
  /\ (~WherePasses(case.p, case.inp) => out = <<>>)
  /\ (WherePasses(case.p, case.inp) => RangeOf(out) = {i \in 1..N : InR(case.inp.nacts[i], case.p.nact)})
  /\ (case.p.nact.lo = None /\ case.p.nact.hi = None => out \in {<<>>, Ids(N)})
(* Sort: ordered and stable; sorting the sorted changes nothing *)
SortLaws == (reads > 0 /\ case.f = "sort") =>
  LET ks == SortKeys(case.p, case.inp) IN
  /\ SortedStable(out, ks)
  /\ SortIds([i \in DOMAIN out |-> ks[out[i]]], 1, <<>>) = Ids(Len(out))
(* Reservoir(None) is the plain Shuffle with the same seed; Riffle never moves more than floor(N/(spacing+1)) items
   out of their relative order: deleting the moved items leaves a prefix of the input *)
ShuffleLaws == reads > 0 =>
  /\ (case.f = "reservoir" /\ case.p.count = None =>
        out = Shuffle(Ids(N), [seed |-> case.p.seed, ftext |-> <<>>], FALSE))
  /\ (case.f = "riffle" =>
        LET k == N \div (case.p.spacing + 1) IN SelectSeq(out, LAMBDA x : x <= N - k) = Ids(N - k))
=============================================================================
