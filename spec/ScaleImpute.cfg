SPECIFICATION Spec
CONSTANTS
  Family = "scale1d"
  MinRows = 1
  MaxRows = 3
  NumsS = {0, 1, 3}
  NumsI = {0, 1, 3}
  Usings = {0, 1, 2}
  Lite = TRUE
INVARIANT Conservation
INVARIANT ImputeComplete
INVARIANT LongWindow
INVARIANT ScalePost
INVARIANT GivenNumbers
INVARIANT Emit
CHECK_DEADLOCK FALSE
