--------------------------- MODULE MC_SeqFilters ---------------------------
(***************************************************************************)
(* Two ways of running SeqFilters.tla (harness/drivers/c09.py):            *)
(*  GenSpec   - generator / oracle.  Every initial state is one case with  *)
(*              an exactly specified result, enumerated structurally; the  *)
(*              first Read evaluates it and Emit prints case + expected    *)
(*              positions; a second Read shows the result does not depend  *)
(*              on the number of reads.  The driver replays every case     *)
(*              into the real filters.                                     *)
(*  JudgeSpec - judge of recorded executions.  IOEnv.TRACE_FILE holds      *)
(*              [c |-> case, apps |-> <<[inp, out] of the 1st filter()     *)
(*              call, of the 2nd call, ...>>] recorded from ONE real       *)
(*              filter object applied to its first input, to a second,     *)
(*              different input, to the first again, and from a fresh      *)
(*              object (30-bit directed seeds; Reservoir's Algorithm L     *)
(*              branch, which the spec constrains but does not compute).   *)
(*              A record is accepted iff Read explains every application.  *)
(***************************************************************************)
EXTENDS SeqFilters, Json, IOUtils
CONSTANTS Fams,        \* which case families this run generates
          MaxN,        \* longest input for the positional filters
          MaxP,        \* largest count / start / stop / batch size
          MaxSeed,     \* seeds 0..MaxSeed (<= 31: the table below)
          MaxSpacing,  \* Riffle spacings 0..MaxSpacing
          WhereK,      \* largest bound in a Where range
          WhereL,      \* longest input for Where's per-interaction clause
          SortL,       \* longest input for Sort
          MaxReads
VARIABLE tid
mvars == <<case, reads, out, seen, tid>>

(* Python's text of the double s * 3.21 for s = 0..31 (the driver re-computes and compares this table at start-up) *)
FText == <<
  <<48, 46, 48>>,   \* 0 -> 0.0
  <<51, 46, 50, 49>>,   \* 1 -> 3.21
  <<54, 46, 52, 50>>,   \* 2 -> 6.42
  <<57, 46, 54, 50, 57, 57, 57, 57, 57, 57, 57, 57, 57, 57, 57, 57, 57>>,   \* 3 -> 9.629999999999999
  <<49, 50, 46, 56, 52>>,   \* 4 -> 12.84
  <<49, 54, 46, 48, 53>>,   \* 5 -> 16.05
  <<49, 57, 46, 50, 53, 57, 57, 57, 57, 57, 57, 57, 57, 57, 57, 57, 57, 56>>,   \* 6 -> 19.259999999999998
  <<50, 50, 46, 52, 55>>,   \* 7 -> 22.47
  <<50, 53, 46, 54, 56>>,   \* 8 -> 25.68
  <<50, 56, 46, 56, 57>>,   \* 9 -> 28.89
  <<51, 50, 46, 49>>,   \* 10 -> 32.1
  <<51, 53, 46, 51, 49>>,   \* 11 -> 35.31
  <<51, 56, 46, 53, 49, 57, 57, 57, 57, 57, 57, 57, 57, 57, 57, 57, 57, 54>>,   \* 12 -> 38.519999999999996
  <<52, 49, 46, 55, 51>>,   \* 13 -> 41.73
  <<52, 52, 46, 57, 52>>,   \* 14 -> 44.94
  <<52, 56, 46, 49, 53>>,   \* 15 -> 48.15
  <<53, 49, 46, 51, 54>>,   \* 16 -> 51.36
  <<53, 52, 46, 53, 55>>,   \* 17 -> 54.57
  <<53, 55, 46, 55, 56>>,   \* 18 -> 57.78
  <<54, 48, 46, 57, 57>>,   \* 19 -> 60.99
  <<54, 52, 46, 50>>,   \* 20 -> 64.2
  <<54, 55, 46, 52, 49>>,   \* 21 -> 67.41
  <<55, 48, 46, 54, 50>>,   \* 22 -> 70.62
  <<55, 51, 46, 56, 51>>,   \* 23 -> 73.83
  <<55, 55, 46, 48, 51, 57, 57, 57, 57, 57, 57, 57, 57, 57, 57, 57, 57>>,   \* 24 -> 77.03999999999999
  <<56, 48, 46, 50, 53>>,   \* 25 -> 80.25
  <<56, 51, 46, 52, 54>>,   \* 26 -> 83.46
  <<56, 54, 46, 54, 55>>,   \* 27 -> 86.67
  <<56, 57, 46, 56, 56>>,   \* 28 -> 89.88
  <<57, 51, 46, 48, 57>>,   \* 29 -> 93.09
  <<57, 54, 46, 51>>,   \* 30 -> 96.3
  <<57, 57, 46, 53, 49>>   \* 31 -> 99.51
>>
ASSUME MaxSeed < Len(FText)
(* sanity of the float-seed normalisation on the table: 0.0 is the integer 0, 3.21 is its four bytes mod 2^20 *)
ASSUME FloatSeedState(FText[1]) = 0 /\ FloatSeedState(FText[2]) = ((((51 * 256 + 46) * 256 + 50) * 256) % 1048576) + 49
ASSUME FloatSeedState(<<51, 50, 49, 46, 48>>) = 321          \* "321.0" = 100 * 3.21

OptN(k) == {None} \cup 0..k
SeqsUpTo(S, l) == UNION {[1..k -> S] : k \in 0..l}
NoRange == [form |-> "none", lo |-> None, hi |-> None]
Ranges(k) == {NoRange} \cup {[form |-> "exact", lo |-> v, hi |-> v] : v \in 0..k}
             \cup {r \in [form : {"pair"}, lo : OptN(k), hi : OptN(k)] : r.lo = None \/ r.hi = None \/ r.lo <= r.hi}
SmallRanges == {NoRange, [form |-> "exact", lo |-> 1, hi |-> 1], [form |-> "exact", lo |-> 2, hi |-> 2],
                [form |-> "pair", lo |-> 1, hi |-> None], [form |-> "pair", lo |-> None, hi |-> 1],
                [form |-> "pair", lo |-> 2, hi |-> None], [form |-> "pair", lo |-> 1, hi |-> 2]}
CtxShapes == [t : {"dense", "sparse"}, n : 0..3] \cup [t : {"number"}, n : 0..1] \cup [t : {"string"}, n : 1..3]
             \cup {[t |-> "none", n |-> 0]}
Dense2 == [t |-> "dense", n |-> 2]
DenseCtxs == {<<0, 0>>, <<0, 1>>, <<1, 0>>, <<1, 1>>, <<2, 0>>, <<-1, 1>>}
SparseCtxs == {<<>>, <<<<0, 1>>>>, <<<<1, 1>>>>, <<<<0, 1>>, <<1, 1>>>>, <<<<1, 2>>, <<0, 1>>>>, <<<<0, -1>>>>}
DenseKeys == {<<>>, <<0>>, <<1>>, <<0, 1>>, <<1, 0>>}
SparseKeys == {<<0>>, <<1>>, <<0, 1>>, <<1, 0>>}
Twos(n) == [i \in 1..n |-> 2]

GenCase ==
  \/ /\ "take" \in Fams
     /\ \E n \in 0..MaxN : \E c \in OptN(MaxP) : \E s \in BOOLEAN :
          case = [f |-> "take", p |-> [count |-> c, strict |-> s], inp |-> [n |-> n]]
  \/ /\ "slice" \in Fams
     /\ \E n \in 0..MaxN : \E a \in OptN(MaxP) : \E b \in OptN(MaxP) : \E st \in 1..3 :
          case = [f |-> "slice", p |-> [start |-> a, stop |-> b, step |-> st], inp |-> [n |-> n]]
  \/ /\ "shuffle" \in Fams
     /\ \E n \in 0..MaxN : \E sd \in 0..MaxSeed : \E lg \in BOOLEAN :
          case = [f |-> "shuffle", p |-> [seed |-> sd, ftext |-> IF lg THEN FText[sd + 1] ELSE <<>>], inp |-> [n |-> n, logged |-> lg]]
  \/ /\ "riffle" \in Fams
     /\ \E n \in 0..MaxN : \E sp \in 0..MaxSpacing : \E sd \in 0..MaxSeed :
          case = [f |-> "riffle", p |-> [spacing |-> sp, seed |-> sd], inp |-> [n |-> n]]
  \/ /\ "reservoir" \in Fams
     /\ \E n \in 0..MaxN : \E c \in OptN(MaxP) : \E s \in BOOLEAN : \E sd \in 0..MaxSeed :
          /\ ReservoirExact(n, [count |-> c])
          /\ case = [f |-> "reservoir", p |-> [count |-> c, strict |-> s, seed |-> sd], inp |-> [n |-> n]]
  \/ /\ "ident" \in Fams
     /\ \E n \in 0..MaxN :
          \/ \E w \in {"identity", "cache", "chunk", "params"} : case = [f |-> "ident", p |-> [which |-> w, size |-> None], inp |-> [n |-> n]]
          \/ \E k \in OptN(MaxP) : case = [f |-> "ident", p |-> [which |-> "batch", size |-> k], inp |-> [n |-> n]]
  \/ /\ "where" \in Fams            \* the interaction-count clause alone
     /\ \E n \in 0..MaxN : \E r \in Ranges(WhereK) :
          case = [f |-> "where", p |-> [nint |-> r, nact |-> NoRange, nfeat |-> NoRange], inp |-> [nacts |-> Twos(n), ctx |-> Dense2]]
  \/ /\ "where" \in Fams            \* the feature-count clause alone, over every context shape
     /\ \E n \in 1..2 : \E r \in Ranges(4) : \E cx \in CtxShapes :
          case = [f |-> "where", p |-> [nint |-> NoRange, nact |-> NoRange, nfeat |-> r], inp |-> [nacts |-> Twos(n), ctx |-> cx]]
  \/ /\ "where" \in Fams            \* the action-count clause alone, over every sequence of action counts
     /\ \E na \in SeqsUpTo(0..3, WhereL) : \E r \in Ranges(4) :
          case = [f |-> "where", p |-> [nint |-> NoRange, nact |-> r, nfeat |-> NoRange], inp |-> [nacts |-> na, ctx |-> Dense2]]
  \/ /\ "where3" \in Fams           \* the three clauses together
     /\ \E na \in SeqsUpTo(1..2, 3) : \E r1 \in SmallRanges : \E r2 \in SmallRanges : \E r3 \in SmallRanges :
        \E cx \in {[t |-> "none", n |-> 0], [t |-> "number", n |-> 1], [t |-> "sparse", n |-> 2]} :
          case = [f |-> "where", p |-> [nint |-> r1, nact |-> r2, nfeat |-> r3], inp |-> [nacts |-> na, ctx |-> cx]]
  \/ /\ "sort" \in Fams
     /\ \/ \E cs \in SeqsUpTo(DenseCtxs, SortL) : \E ks \in DenseKeys :
             case = [f |-> "sort", p |-> [keys |-> ks], inp |-> [t |-> "dense", ctxs |-> cs]]
        \/ \E cs \in SeqsUpTo(SparseCtxs, SortL) : \E ks \in SparseKeys :
             case = [f |-> "sort", p |-> [keys |-> ks], inp |-> [t |-> "sparse", ctxs |-> cs]]

GenInit == reads = 0 /\ out = <<>> /\ seen = <<>> /\ tid = 0 /\ GenCase
GenNext == reads < MaxReads /\ Exact(case) /\ Read(case.inp, Result(case)) /\ UNCHANGED tid
GenSpec == GenInit /\ [][GenNext]_mvars
Emit == reads = 1 => PrintT(ToJson([f |-> case.f, p |-> case.p, inp |-> case.inp, out |-> out]))

Traces == JsonDeserialize(IOEnv.TRACE_FILE)
Apps == Traces[tid].apps        \* <<[inp, out], ...>>: every application of ONE object (and of a fresh object with the same parameters)
JudgeInit == tid \in 1..Len(Traces) /\ case = Traces[tid].c /\ reads = 0 /\ out = <<>> /\ seen = <<>>
JudgeNext == /\ reads < Len(Apps)
             /\ Read(Apps[reads + 1].inp, Apps[reads + 1].out)
             /\ UNCHANGED tid
JudgeSpec == JudgeInit /\ [][JudgeNext]_mvars
Accept == (tid > 0 /\ reads = Len(Apps)) => PrintT(ToJson([acc |-> tid]))
(* for the report on a rejected record: what the specification demands for every application *)
AppCase(i) == [f |-> case.f, p |-> case.p, inp |-> Apps[i].inp]
Explain == (tid > 0 /\ reads = 0) =>
   PrintT(ToJson([tid |-> tid, exact |-> [i \in DOMAIN Apps |-> Exact(AppCase(i))],
                  expected |-> [i \in DOMAIN Apps |-> IF Exact(AppCase(i)) THEN Result(AppCase(i)) ELSE <<>>]]))
=============================================================================
