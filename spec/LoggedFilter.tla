----------------------------- MODULE LoggedFilter -----------------------------
(***************************************************************************)
(* Logged (coba/environments/filters.py 1460-1508, Environments.logged):   *)
(* turning simulated interactions into logged ones - check X02, part B.    *)
(*                                                                         *)
(* Every read of the filtered environment works on a FRESH COPY of the     *)
(* logging learner (Read: its learn counter restarts at 0, its generator   *)
(* restarts at the seed; the learner object handed to Logged never         *)
(* receives a call).  For every interaction, in order:                     *)
(*   Predict   predict(context, actions) on the copy; the answer is either *)
(*             (action, probability) - restriction: the learners of this   *)
(*             check answer in that format or with a PMF - or a PMF, in    *)
(*             which case the action is drawn by CobaRandom.choicew from   *)
(*             CobaRandom(seed) (one uniform per interaction, real         *)
(*             constants; seed = the filter's seed: an int, also 0, or the *)
(*             bytes of str(seed) mod 2^20 for the default 1.23) and the   *)
(*             probability is exactly that PMF entry                       *)
(*   LearnStep learn(context, that action, rewards(that action), that      *)
(*             probability) - the learner learns on every interaction      *)
(*   Out       the interaction with every original field kept plus         *)
(*             action / reward / probability = those same three values     *)
(* Batched input (mode.batch > 0) is predicted and learned a batch at a    *)
(* time (the learner copy has then seen batch*floor((i-1)/batch) learn     *)
(* calls when interaction i is predicted) and comes out unbatched.         *)
(* An input without actions or without rewards is rejected with a          *)
(* CobaException before any call; an empty input gives an empty output.    *)
(* seed = None (a time dependent seed per read) is outside this check.     *)
(*                                                                         *)
(* Values: rewards are multiples of 1/4, probabilities and PMF entries     *)
(* multiples of 1/8 (dyadic, so the generator's comparison u*tot <= cum is *)
(* exact in floats too).                                                   *)
(* input  mode = [fmt "ap"|"pmf", seed (int or NoVal), sbytes, batch,      *)
(*                kind "ok"|"noactions"|"norewards"|"empty", reads]        *)
(*        env  = sequence of [ctx, acts, rwds (parallel to acts), ex]      *)
(*        ev   = read | predict ctx acts seen (ra rp | w) | learn ctx a r p *)
(*               seen | out ctx acts a r p ex keep extra | endread n |     *)
(*               reject | end orig                                         *)
(***************************************************************************)
EXTENDS Integers, Sequences, FiniteSets, TLC, Json, IOUtils, TLCExt
R == INSTANCE CobaRandom WITH A <- 116646453, C <- 9, H <- 15, Inst <- {}, inst <- <<>>
NoVal == -1
Den == 8
Traces == JsonDeserialize(IOEnv.TRACE_FILE)
VARIABLES tid, l, rd, i, pc, rs, ans, outcome
vars == <<tid, l, rd, i, pc, rs, ans, outcome>>
T    == Traces[tid]
Env  == T.env
Mode == T.mode
Evs  == T.ev
Ev   == Evs[l]
It   == Env[i]
Seed0 == IF Mode.seed # NoVal THEN Mode.seed % R!Mod ELSE R!SeedOfBytes(Mode.sbytes)      \* random.py 48-51
SeenAt(j) == IF Mode.batch = 0 THEN j - 1 ELSE ((j - 1) \div Mode.batch) * Mode.batch
IndexOf(s, x) == CHOOSE k \in DOMAIN s : s[k] = x
Sum(w) == R!Cum(w, Len(w))

Adv == l' = l + 1
Init == /\ tid \in 1..Len(Traces) /\ l = 1 /\ rd = 0 /\ i = 1 /\ pc = "idle" /\ rs = 0 /\ ans = [a |-> NoVal, p |-> NoVal] /\ outcome = "running"
(* a read starts: fresh learner copy, generator at the seed *)
Read == /\ pc = "idle" /\ Ev.e = "read" /\ rd < Mode.reads /\ rd' = rd + 1 /\ i' = 1 /\ rs' = Seed0
        /\ pc' = "reading" /\ Adv /\ UNCHANGED <<tid, ans, outcome>>
RejectInput == /\ pc = "reading" /\ Mode.kind \in {"noactions", "norewards"} /\ Ev.e = "reject"
               /\ pc' = "idle" /\ outcome' = "rejected" /\ Adv /\ UNCHANGED <<tid, rd, i, rs, ans>>
Predict == /\ pc = "reading" /\ Mode.kind = "ok" /\ i <= Len(Env) /\ Ev.e = "predict"
           /\ Ev.ctx = It.ctx /\ Ev.acts = It.acts
           /\ Ev.seen = SeenAt(i)                                       \* the copy has learned exactly the earlier interactions of THIS read
           /\ IF Mode.fmt = "ap"
              THEN /\ \E k \in DOMAIN It.acts : It.acts[k] = Ev.ra
                   /\ ans' = [a |-> Ev.ra, p |-> Ev.rp] /\ UNCHANGED rs
              ELSE /\ Len(Ev.w) = Len(It.acts) /\ Sum(Ev.w) = Den
                   /\ LET idx == R!ChoiceW(rs, Ev.w) IN ans' = [a |-> It.acts[idx + 1], p |-> Ev.w[idx + 1]]
                   /\ rs' = R!Step(rs)
           /\ pc' = "learn" /\ Adv /\ UNCHANGED <<tid, rd, i, outcome>>
LearnStep == /\ pc = "learn" /\ Ev.e = "learn" /\ Ev.ctx = It.ctx /\ Ev.a = ans.a /\ Ev.p = ans.p
             /\ Ev.r = It.rwds[IndexOf(It.acts, ans.a)] /\ Ev.seen = i - 1
             /\ pc' = "out" /\ Adv /\ UNCHANGED <<tid, rd, i, rs, ans, outcome>>
Out == /\ pc = "out" /\ Ev.e = "out" /\ Ev.ctx = It.ctx /\ Ev.acts = It.acts /\ Ev.ex = It.ex
       /\ Ev.a = ans.a /\ Ev.p = ans.p /\ Ev.r = It.rwds[IndexOf(It.acts, ans.a)]
       /\ Ev.keep = 1 /\ Ev.extra = 0                                  \* every original field kept, nothing else added
       /\ i' = i + 1 /\ pc' = "reading" /\ Adv /\ UNCHANGED <<tid, rd, rs, ans, outcome>>
EndRead == /\ pc = "reading" /\ Mode.kind \in {"ok", "empty"} /\ i = Len(Env) + 1 /\ Ev.e = "endread" /\ Ev.n = Len(Env)
           /\ pc' = "idle" /\ Adv /\ UNCHANGED <<tid, rd, i, rs, ans, outcome>>
(* all reads done; the learner object given to Logged was never called *)
Finish == /\ pc = "idle" /\ rd = Mode.reads /\ Ev.e = "end" /\ Ev.orig = 0
          /\ pc' = "end" /\ outcome' = (IF outcome = "rejected" THEN outcome ELSE "done") /\ Adv /\ UNCHANGED <<tid, rd, i, rs, ans>>
Next == l <= Len(Evs) /\ (Read \/ RejectInput \/ Predict \/ LearnStep \/ Out \/ EndRead \/ Finish)
Spec == Init /\ [][Next]_vars

AtEnd  == pc = "end" /\ l = Len(Evs) + 1
Accept == AtEnd => PrintT(ToJson([acc |-> tid]))
Diag   == PrintT(ToJson([tid |-> tid, l |-> l]))
(* a PMF draw names an offered action with a non-zero entry *)
DrawnIsOffered == (pc \in {"learn", "out"}) => (\E k \in DOMAIN It.acts : It.acts[k] = ans.a) /\ ans.p > 0
=============================================================================
