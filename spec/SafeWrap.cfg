\* X11 decision tables (the driver substitutes MaxLen, Tables and Variant)
SPECIFICATION Spec
CONSTANTS
  MaxLen = 3
  Variant = "spec"
  Tables = {"lparams", "env", "eval", "learn", "calls"}
INVARIANT Emit
INVARIANT TypeKeyOnce
INVARIANT OwnKept
INVARIANT DefaultIsOwnClass
INVARIANT NothingElse
INVARIANT NameConsistent
INVARIANT OwnPass
INVARIANT RefusalNeverEscapes
INVARIANT RowsExact
INVARIANT Total
INVARIANT LatchSound
INVARIANT InterruptStops
INVARIANT Complete
PROPERTY PickleKeeps
CHECK_DEADLOCK FALSE
