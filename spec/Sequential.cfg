SPECIFICATION Spec
INVARIANT TwoOutcomes
INVARIANT Accept
CHECK_DEADLOCK FALSE
