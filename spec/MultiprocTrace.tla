---------------------------- MODULE MultiprocTrace ----------------------------
(***************************************************************************)
(* Trace validation for Multiproc.tla.  IOEnv.TRACE_FILE holds a JSON      *)
(* array of executions of the *real* Multiprocessor.filter recorded under  *)
(* the virtual scheduler (harness/vmp.py, harness/drivers/c08.py):         *)
(*   [cfg |-> [P,Max,N,Outs,Faults,Abandon], ev |-> <<event>>]             *)
(* event = [r |-> role, w |-> worker id or 0, e |-> kind, x |-> payload,   *)
(*          s |-> snapshot of the shared state when the event was logged]. *)
(* Roles: main, L (loader thread), cbL (its callback thread), W (worker    *)
(* process), cbW (its callback thread).  Purely local steps of the code    *)
(* (LoaderPull, LoaderPillCheck) are not logged: they are        *)
(* composed as silent steps, which cannot run away because each only moves *)
(* one control point forward.                                              *)
(***************************************************************************)
EXTENDS Multiproc, Json, IOUtils, TLCExt
trMaxWorkers == 12
trNone == {}
Traces == JsonDeserialize(IOEnv.TRACE_FILE)
VARIABLES tid, l
tvars == <<vars, tid, l>>
Evs == Traces[tid].ev
Ev  == Evs[l]
SeqRange(s) == {s[i] : i \in DOMAIN s}

TraceInit == /\ tid \in 1..Len(Traces) /\ l = 1
             /\ cfg = [P |-> Traces[tid].cfg.P, Max |-> Traces[tid].cfg.Max, N |-> Traces[tid].cfg.N, Outs |-> Traces[tid].cfg.Outs,
                       Faults |-> SeqRange(Traces[tid].cfg.Faults), Abandon |-> Traces[tid].cfg.Abandon]
             /\ InitRest

(* the logged snapshot equals the specification's shared state *)
\* np / nex / st are read from private attributes of the Multiprocessor; a logged -1 means "not observable in this build of the
\* code" (the attribute does not exist) and is then not compared - the queue lengths always are.
SnapPre  == Ev.s.ninq = Len(inq)  /\ Ev.s.nout = Len(outq)  /\ Ev.s.np \in {-1, nProcs}  /\ Ev.s.nex \in {-1, Len(excs)}  /\ Ev.s.st \in {-1, IF stopped THEN 1 ELSE 0}
SnapPost == Ev.s.ninq = Len(inq') /\ Ev.s.nout = Len(outq') /\ Ev.s.np \in {-1, nProcs'} /\ Ev.s.nex \in {-1, Len(excs')} /\ Ev.s.st \in {-1, IF stopped' THEN 1 ELSE 0}

TrEvent ==
  \/ Ev.r = "main" /\ Ev.e = "start"   /\ SnapPre /\ MainStart
  \/ Ev.r = "main" /\ Ev.e = "pstart"  /\ SnapPre /\ (MainStartFirst \/ MainRestOne)
  \/ Ev.r = "cbW"  /\ Ev.e = "pstart"  /\ SnapPre /\ CbStart(Ev.w)
  \/ Ev.r = "main" /\ Ev.e = "waited"  /\ SnapPre /\ MainWait
  \/ Ev.r = "main" /\ Ev.e = "get"     /\ SnapPre /\ outq # <<>> /\ Head(outq) = Ev.x /\ MainGet
  \/ Ev.r = "main" /\ Ev.e = "abandon" /\ SnapPre /\ MainAbandon
  \/ Ev.r = "main" /\ Ev.e = "mainEnd" /\ MainFinally /\ SnapPost /\ mpc' = Ev.outcome /\ delivered = Ev.got
  \/ Ev.r = "L"    /\ Ev.e = "put"     /\ SnapPre /\ li = Ev.x /\ LoaderPut
  \/ Ev.r = "cbL"  /\ Ev.e = "join"    /\ SnapPre /\ LoaderCb
  \/ Ev.r = "cbL"  /\ Ev.e = "put"     /\ SnapPre /\ Ev.x = Pill /\ LoaderPillPut
  \/ Ev.r = "W"    /\ Ev.e = "set"     /\ SnapPre /\ WorkerBoot(Ev.w)
  \/ Ev.r = "W"    /\ Ev.e = "get"     /\ SnapPre /\ inq # <<>> /\ Head(inq) = Ev.x /\ WorkerGet(Ev.w)
  \/ Ev.r = "W"    /\ Ev.e = "put"     /\ SnapPre /\ wcur[Ev.w] = Ev.x /\ WorkerOut(Ev.w)
  \/ Ev.r = "cbW"  /\ Ev.e = "join"    /\ SnapPre /\ Callback(Ev.w)
  \/ Ev.r = "cbW"  /\ Ev.e = "put"     /\ SnapPre /\ Ev.x = Pill /\ CbPutPoison(Ev.w)
Silent == LoaderPull \/ LoaderPillCheck

TraceNext == /\ l <= Len(Evs)
             /\ \/ TrEvent /\ l' = l + 1
                \/ Silent /\ l' = l
             /\ UNCHANGED tid
TraceSpec == TraceInit /\ [][TraceNext]_tvars

AtEnd   == l = Len(Evs) + 1
Accept  == AtEnd => PrintT(ToJson([acc |-> tid]))
EndDone == AtEnd => mpc \in {"done","raised","abandoned"}
Diag    == PrintT(ToJson([tid |-> tid, l |-> l]))
=============================================================================
