\* exhaustive check of Cacher.tla; DiskLike and ProgSet are substituted per tier by harness/drivers/c19.py
SPECIFICATION Spec
CONSTANTS
  Callers <- mcCallers
  Keys <- mcKeys
  Idx <- mcIdx
  DiskLike = FALSE
  ProgSet <- QuickProgs
INVARIANT TypeOK
INVARIANT MutexRW
INVARIANT NoBad
INVARIANT SingleFlight
INVARIANT Released
INVARIANT ArrSane
INVARIANT TableAgrees
PROPERTY Terminates
CHECK_DEADLOCK FALSE
