---------------------------- MODULE MC_Multiproc ----------------------------
(* Model constants for Multiproc.tla: the grids of call configurations of the two tiers. *)
EXTENDS Multiproc
SubsetsUpTo(S,k) == {F \in SUBSET S : Cardinality(F) <= k}
Grid(Ps,Ms,Ns,k) == {[P |-> p, Max |-> m, N |-> n, Faults |-> f, Abandon |-> a] :
                       p \in Ps, m \in Ms, n \in Ns, f \in SubsetsUpTo(1..4,k), a \in BOOLEAN}
Legal(c) == c.Faults \subseteq 1..c.N /\ ~(c.P = 1 /\ c.Max = 0)      \* P=1,Max=0 is the in-process path (no concurrency)
QuickConfigs    == {c \in Grid(1..2, 0..2, 0..4, 1) : Legal(c) /\ (c.Abandon => c.Faults = {})}
ThoroughConfigs == {c \in Grid(1..3, 0..2, 0..4, 2) : Legal(c) /\ (c.P = 3 => Cardinality(c.Faults) <= 1 /\ c.N <= 3)}
mcMaxWorkers == 7
=============================================================================
