---------------------------- MODULE MC_Multiproc ----------------------------
(* Model constants for Multiproc.tla: the grids of call configurations of the two tiers. *)
EXTENDS Multiproc
SubsetsUpTo(S,k) == {F \in SUBSET S : Cardinality(F) <= k}
(* outputs per item: "one" = a 1:1 filter; the others are generator filters yielding several / no outputs for some items *)
Shapes == {"one","fan","sparse","mix","none"}
OutsOf(s,n) == [x \in 1..n |-> CASE s = "one" -> 1 [] s = "fan" -> 2 [] s = "sparse" -> (x + 1) % 2 [] s = "mix" -> (x + 1) % 3 [] s = "none" -> 0]
GridS(Ps,Ms,Ns,k,Ss) == {[P |-> p, Max |-> m, N |-> n, Outs |-> OutsOf(s,n), Faults |-> f, Abandon |-> a] :
                       p \in Ps, m \in Ms, n \in Ns, f \in SubsetsUpTo(1..4,k), a \in BOOLEAN, s \in Ss}
Grid(Ps,Ms,Ns,k) == GridS(Ps,Ms,Ns,k,{"one"})
NonUnit == Shapes \ {"one"}
Legal(c) == c.Faults \subseteq 1..c.N /\ ~(c.P = 1 /\ c.Max = 0)      \* P=1,Max=0 is the in-process path (no concurrency)
\* quick: the non-1:1 shapes on a smaller grid (at most 3 outputs in all, no early abandon)
QuickNonUnit    == {c \in GridS(1..2, 0..2, 1..3, 1, NonUnit) : ~c.Abandon /\ (c.N = 3 => c.Outs \in {OutsOf("sparse",3), OutsOf("mix",3)})}
QuickConfigs    == {c \in Grid(1..2, 0..2, 0..4, 1) \cup QuickNonUnit : Legal(c) /\ (c.Abandon => c.Faults = {})}
OnlyNonUnit     == {c \in QuickNonUnit : Legal(c)}
\* thorough: all non-1:1 shapes up to 3 items (up to 6 outputs) incl. early abandon for P <= 2 (measured +1.8 M states), 2 items for P = 3
ThoroughNonUnit == GridS(1..2, 0..2, 1..3, 1, NonUnit) \cup {c \in GridS({3}, 0..2, 1..2, 1, NonUnit) : ~c.Abandon}
ThoroughConfigs == {c \in Grid(1..3, 0..2, 0..4, 2) \cup ThoroughNonUnit : Legal(c) /\ (c.P = 3 => Cardinality(c.Faults) <= 1 /\ c.N <= 3)}
mcMaxWorkers == 7
=============================================================================
